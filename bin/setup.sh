#!/bin/sh
# setup_cmd: parse every spec, warm the Go build of the harness against /repo (offline).
set -e
cd "$(dirname "$0")/.."
export GOFLAGS=-mod=mod GOPROXY=off GOSUMDB=off GOTOOLCHAIN=local
tmp=$(mktemp -d)
trap 'rm -rf "$tmp"' EXIT
cp spec/*.tla spec/trace/*.tla "$tmp"/ 2>/dev/null || true
for f in "$tmp"/*.tla; do
  (cd "$tmp" && tla-sany "$(basename "$f")" >/dev/null 2>&1) || { echo "SANY failed: $f"; (cd "$tmp" && tla-sany "$(basename "$f")" | tail -20); exit 1; }
done
cp -r harness "$tmp/harness"
python3 -c "import sys; sys.path.insert(0,'lib'); import common; common.gen_gomod('$tmp/harness')"
(cd "$tmp/harness" && go build -tags verif ./... )
echo "setup ok"
