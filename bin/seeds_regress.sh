#!/bin/bash
# bin/seeds_regress.sh [names...] : re-run the quick check of every archived seeded change (seeded/<name>/patch.diff applied
# to a scratch worktree of /repo HEAD) and record exit code + violation keys in seeded/RESULTS.txt.  Expected: exit 1 everywhere.
cd "$(dirname "$0")/.."
names=("$@"); [ ${#names[@]} -eq 0 ] && names=($(ls seeded | grep -v RESULTS))
# seeds made harmless by a later repair of /repo are kept for the record but not run
keep=(); for n in "${names[@]}"; do python3 -c "import json,sys;sys.exit(1 if json.load(open('seeded/$n/meta.json')).get('obsolete') else 0)" && keep+=("$n"); done; names=("${keep[@]}")
PAR=${PAR:-3}
run_one() {
  n=$1; id=$(python3 -c "import json;print(json.load(open('seeded/$n/meta.json'))['property'])")
  out=$(SKIP_CONFIRM=1 timeout 2400 bin/seedcheck.sh seeded/$n $id 2>&1)
  rc=$(echo "$out" | grep -o "check exit: [0-9]*" | grep -o "[0-9]*$")
  keys=$(echo "$out" | grep -o "key=[^ ]*" | sort -u | head -4 | tr '\n' ' ')
  echo "$n $id exit=${rc:-?} $keys"
}
export -f run_one
printf "%s\n" "${names[@]}" | xargs -P $PAR -I{} bash -c 'run_one {}' | sort > seeded/RESULTS.txt.new
mv seeded/RESULTS.txt.new seeded/RESULTS.txt
grep -v "exit=1" seeded/RESULTS.txt && exit 1
echo "all $(wc -l < seeded/RESULTS.txt) seeded changes are caught"
