#!/bin/bash
# bin/collect_seed.sh <worktree> <name> : turn what a seed agent left in its scratch worktree (applied change, demo test,
# SEED_META.json) into /tmp/seed/<name>.out/{patch.diff, demo_path.txt, <demo>, meta.json} - the layout bin/seedcheck.sh and
# bin/archive_seed.py expect.  Nothing is written to /repo or /verif.
set -eu
WT=$1; NAME=$2; OUT=/tmp/seed/$NAME.out
mkdir -p "$OUT"
cd "$WT"
git diff > "$OUT/patch.diff"
[ -s "$OUT/patch.diff" ] || { echo "empty patch"; exit 2; }
python3 - "$WT" "$OUT" <<'E'
import json, sys, shutil, os, subprocess
wt, out = sys.argv[1:3]
m = json.load(open(os.path.join(wt, "SEED_META.json")))
paths = m.get("demo_path")
if isinstance(paths, str): paths = [paths]
# any other untracked *_test.go the agent left
extra = subprocess.run(["git", "-C", wt, "ls-files", "--others", "--exclude-standard"], capture_output=True, text=True).stdout.split()
for p in extra:
    if p.endswith("_test.go") and p not in paths: paths.append(p)
open(os.path.join(out, "demo_path.txt"), "w").write("\n".join(paths) + "\n")
names = set()
for p in paths:
    b = os.path.basename(p)
    if b in names: raise SystemExit("two demo files with the same base name: " + b)
    names.add(b); shutil.copy(os.path.join(wt, p), os.path.join(out, b))
json.dump(m, open(os.path.join(out, "meta.json"), "w"), indent=1)
print("collected", out, paths)
E
