#!/usr/bin/env python3
"""bin/archive_seed.py <name> <ID> <result text> [note]: copy a confirmed seeded change from /tmp/seed/<name>.out to seeded/<name>/"""
import json, os, shutil, sys, glob
name, pid, result = sys.argv[1:4]
note = sys.argv[4] if len(sys.argv) > 4 else None
src = "/tmp/seed/%s.out" % name
dst = os.path.join(os.path.dirname(os.path.dirname(os.path.abspath(__file__))), "seeded", name)
os.makedirs(dst, exist_ok=True)
for f in ["patch.diff", "demo_path.txt"] + [os.path.basename(p) for p in glob.glob(src + "/*_test.go")]:
    shutil.copy(os.path.join(src, f), os.path.join(dst, f))
m = json.load(open(os.path.join(src, "meta.json")))
m["property"] = pid
m["confirmed"] = {"how": "bin/seedcheck.sh: fresh worktree of /repo HEAD; demo passes without the patch, fails with it; go build ./... ok; "
                         "go test ./pkg/... shows only the baseline failures", "check_result": result}
if note:
    m["note"] = note
json.dump(m, open(os.path.join(dst, "meta.json"), "w"), indent=1)
print("archived", dst)
