#!/usr/bin/env python3
"""Regenerates MANIFEST.json from the CHECKS table below (single source of truth)."""
import json, os, subprocess
ROOT = os.path.dirname(os.path.dirname(os.path.abspath(__file__)))
props = [json.loads(l) for l in open(os.path.join(ROOT, "properties.jsonl"))]

# id -> (category, text, note, technique, design_ref)
CHECKS = {
 "C01": ("model_checking",
         "TLC checks finality safety exhaustively on the fork-tree model LiskBFTTree (3-4 validators, <=9-10 blocks, <=2 leaves, Byzantine weight <1/3, "
         "optional parameter change); sampled full trees are replayed through the real liskbft.Module, every block's vote state compared with the spec and "
         "safety asserted on the real block ids and precommitted heights. The counting rules are additionally bound by a validated LiskBFT trace with parameter changes, and at system level Net.tla "
         "(honest nodes: forging, LIP-0014 fork choice cascade, tie break, fast sync; Agreement, TreeSafety, HonestNoContra checked by TLC) is replayed on a network of real nodes over loopback: finalized prefixes of all nodes agree on real block ids.",
         "Bounded model, no unbounded proof; slots abstracted; hash collision freeness; my transcription of LIP-0058 is bound to the code by the replay.",
         "TLA+ fork-tree model checked by TLC + spec-to-implementation replay of TLC-generated trees", "DESIGN.md section 4 C01"),
 "C02": ("model_checking",
         "Trace validation: a seeded driver feeds header chains with parameter-change schedules (join/leave/re-weight/threshold, batch sizes 2-5, windows that slide) "
         "to the real liskbft.Module and logs the projected BFT store after every call; TLC accepts the log only if every logged state equals the state computed by "
         "the LiskBFT operators (transcribed from LIP-0056/0058), and checks RoundRobinFinal/HeightsSane/Monotone in every state. Plus exhaustive single-chain enumeration by TLC replayed through the real module.",
         "Spec written from the LIPs; small integer weights; 5 validator identities; chains are sampled (seeded), the single-chain enumeration is exhaustive within 7 blocks / 2 validators.",
         "TLA+ trace validation of the real liskbft.Module (TLC) + replay of TLC-enumerated chains", "DESIGN.md section 4 C02"),
 "C07": ("model_checking",
         "TLC enumerates all header pairs over field ranges 0..5 x 2 generators (186k pairs), checks operational contradiction = declarative definition, symmetry, "
         "never across generators; prints truth tables for contradiction, the fork-choice predicate cascade (2592 rows) and header priority; the harness evaluates the real "
         "functions on every row and on uint32-range pairs via rank compression. The chain-level rule is validated by IsHeaderContradictingChain probes in the LiskBFT trace. "
         "The algebraic facts (operational = declarative, symmetry, Better is a strict total preorder, a legitimate successor is Better, an honest generator never contradicts itself) are additionally discharged by Apalache for all natural field values "
         "(spec/apalache/ContraInt.tla), with a weakened-comparison control that must be refuted. "
         "What the node remembers about WHEN its tip arrived is bound by RecvTime.tla (moving wall clock: accepted / rejected children, competitors inside and outside their slot, restarts; exhaustive for 3 slots x 5 steps) whose simulated scripts are replayed side by side on real nodes with a 4 s block time in lock-step with the wall clock (guard bands, timing losses are inconclusive).",
         "Comparison-only structure of the contradiction spec justifies rank compression; receive times are placed mid-slot with 1000 s slots in the tables and with 300 ms guard bands in the moving-clock replay.",
         "TLC-enumerated truth tables of a TLA+ transcription of LIP-0014 compared with the real functions", "DESIGN.md section 4 C07"),
 "C12": ("model_checking",
         "Trace validation (monitor form): a seeded driver runs operation sequences (set/del/get/has/range/iterate with limits and directions through several nested prefix views, "
         "snapshot/restore/delete-snapshot, commit, revert, raw db and snapshot-reader scans, empty values) on the real diffdb.Database over in-memory pebble and logs every call with its result; "
         "TLC replays the log on StagedStore.tla whose reads are defined as the same read on db-with-staged-ops-applied and compares every result, the db dump after Commit with the model and after RevertDiff with the previous contents.",
         "Keys over a 4-letter byte alphabet up to length 5, values empty or one byte; limit 0 not generated; operation sequences are sampled (seeded).",
         "TLA+ trace validation (TLC monitor) of recorded calls on the real staged store", "DESIGN.md section 4 C12"),
 "C10": ("model_checking",
         "SMT.tla defines the LIP-0039 root as a term Tree(M) of the map alone; TLC enumerates update/delete/reopen histories (exhaustively for depth 2-3 over 6 hand-placed 16-bit keys, "
         "by simulation to depth 8-10 over 10 keys), checks the spec invariants and prints each history with the expected root term and query walks; the harness replays every history on the real trie "
         "(raw 2-byte and 32/38-byte embedded keys, map store and pebble), compares roots after every batch, proves and verifies query sets, compares proof contents with the spec walk and "
         "requires every tampered proof whose claim disagrees with the map (or with another root's map) to be rejected. Tampered proofs include forged inclusions claimed deeper than the honest end of the walk with junk sibling hashes in front or spread over the list, and queries repeating or shadowing another query's position (two defects of Verify found and repaired this way). A crash of the trie on a goroutine of its own is reported as a violation and pinned to its history by a serial re-run.",
         "Hash injectivity; 16-bit key patterns embedded in longer keys; duplicate keys inside a batch not generated. One open known finding (forged query shadowed by another query of the same proof).",
         "TLC-generated histories of a TLA+ term model replayed on the real trie (SHA-256 fold of the expected term)", "DESIGN.md section 4 C10"),
 "C11": ("model_checking",
         "RMT.tla: TLC checks the incremental append rule against the declarative LIP-0031 root/append path for every size 0..40 (140 thorough) and exports root/append-path terms; the harness compares "
         "Append, CalculateRoot, reload, GenerateProof/VerifyProof (all non-empty leaf subsets of lists up to 7 (9) leaves + sampled subsets of larger lists, shuffled query order, reuse of a proof), "
         "CalculateRootFromUpdateData, Update, right witnesses at every position and CalculateRootFromAppendPath with the folded terms, and requires tampered leaves/roots/witnesses to be rejected. The walk continues to 1100 (thorough 4200) leaves; beyond 40 (140) the sizes next to powers of two and a sparse sample are replayed (found the prediction panic above 256 leaves).",
         "Hash injectivity; pairwise distinct leaf data.",
         "TLC-checked TLA+ term model (incremental = batch = declarative) + comparison of the real tree with the exported terms", "DESIGN.md section 4 C11"),
 "C03": ("model_checking",
         "Node.tla models the engine (chain, LiskBFT vote state per block, finalized height, temp blocks, events) with Accept(c) = the conjunction of every validity rule of the statement; "
         "TLC checks its properties exhaustively (chains <= 5-6 blocks, one parameter change) and generates scripts by simulation; the harness replays every step on the real Executer with a toy application "
         "(state/events compared after each step) and submits, at the end of every script, each of 28 single-rule mutants of the valid successor (header fields, slot, generator, signature, maxHeightPrevoted/Generated, "
         "7 aggregate-commit deviations, roots, validatorsHash, static tx validity, payload size): each must be rejected leaving the full database dump, BFT heights and published events unchanged. Every mutant is offered twice: through process() (fork choice first) and through processValidated, the entry point of blocks downloaded by a synchronisation, there with an application that executes whatever it is handed so that only the engine's own rules stand; mutations include a maxHeightGenerated claim that denies the generator's latest block and fields only the signature protects.",
         "Toy application instead of pkg/framework; 3 validators; scripts sampled by TLC simulation (seeded); time pinned mid-slot; cryptography trusted.",
         "TLC-generated scripts and single-rule mutants of a TLA+ node model replayed on the real Executer", "DESIGN.md section 4 C03"),
 "C05": ("model_checking",
         "Same Node scripts: for every DeleteTip the sorted database dump after apply+delete must equal the dump before the apply (finalized marker, temp blocks, data pruned below finality excluded; state diffs compared as sets), "
         "saved temp blocks must be retrievable, restart must land on the same state, and a chain reached through apply/delete detours must equal the same chain built directly on a fresh node. "
         "The revert-diff mechanics are additionally checked at key level (created/overwritten/deleted in one commit, empty values) through the StagedStore trace monitor (commit / revert steps). "
         "ChainStore.tla specifies the block store (Chain + DataAccess + cache) as a sequential object: after any add / remove / clear-temp / restart sequence every reader (tip, by height, by id, bulk lookups, transactions, events with the retention rule, "
         "temporary blocks, finalized marker) is a function of the logical chain; TLC scripts are replayed on the real store with a block cache of 2, 3 and 515 blocks (5.8 M reader answers per quick run).",
         "Toy application; blocks with/without transactions, validator-set change, aggregate commits, finality advances; scripts sampled by TLC simulation.",
         "TLC-generated apply/delete/restart scripts replayed on the real Executer with database-dump equality + TLA+ trace monitor of diff reversal", "DESIGN.md section 4 C05"),
 "C08": ("model_checking",
         "Wire.tla is a TLA+ reference codec for the LIP-0027/0064 wire format (integers as base-128 digit sequences, so the uint64 range is covered); TLC checks round trip and canonicity of strict decoding exhaustively over "
         "short byte strings, generates the product of per-field deviation classes for the transaction schema with the expected verdict, and the Lisk32 checksum tables; the harness logs Encode/Decode/DecodeStrict of all 88 exported generated-codec types "
         "(validated by TLC against the reference codec), feeds every deviant byte string to NewTransaction/DecodeStrict, and checks ID stability through store/load.",
         "Values of the generated types are sampled (seeded) apart from the exhaustive short-string / deviant / Lisk32-corruption spaces; Unicode NFC tables and SHA-256 trusted; unexported codec types unreachable.",
         "TLA+ reference codec checked by TLC + trace validation of the real codec + TLC-generated deviant encodings", "DESIGN.md section 4 C08"),
 "C13": ("fault_enumeration",
         "Crash.tla models a step as prepare / durable writes / cache update with a crash between any two sub-steps: TLC shows AtomicRecovery for the one-batch shape and a counterexample for a shape with a separate write (control). "
         "On the real node every file-system write/sync operation index of the last step (apply a block / delete the tip, with and without temp block; blocks with transactions, validator change, aggregate commit, finality advance) "
         "of TLC-generated Node scripts is used as a crash point on pebble's strict in-memory file system (unsynced data lost); the database is reopened, the node restarted, and the record (durable effects per key space, recovery invariants: "
         "height index -> data, consensus store height = tip, diff iff block, finalized <= tip) is validated by CrashTrace.tla. Step kinds: block, delete, delete+temp, restore (re-application of a temporary block with removal of its temporary copy, as after a failed chain switch).",
         "pebble batch atomicity and StrictMem's model of sync are trusted (torn WAL records not modelled); the toy application's state is rebuilt from headers at restart.",
         "crash-point enumeration on the real node over a strict in-memory file system, records validated by a TLA+ trace monitor", "DESIGN.md section 4 C13"),
 "C06": ("model_checking",
         "Certificate.tla (on Node.tla) prints, for node states reached by TLC-generated scripts (finality, on-chain aggregate commits, validator-set changes, 4 validators with weights 4/3/2/1), the verdict table of aggregate-commit verification over "
         "every height 0..tip+1 x every signer subset x {valid, signed for another chain, certificate of another block}, every set of certifying validators, and every single commit with 'may enter the pool'. The harness evaluates the real "
         "verifyAggregateCommit with real BLS on every row, tampers aggregation bits, feeds single commits through singleCommitValidator (admission soundness) and requires GetAggregateCommit after Certify + gossip to pass the node's own verification. A second configuration with 8 validators (aggregation bitmap on a byte boundary) runs straight chains to finality with a signer family that brackets every threshold.",
         "blst trusted; chains <= 10 blocks (first 100 heights); pool admission judged for soundness only.",
         "TLC-generated verdict tables of a TLA+ node/certificate model evaluated on the real Executer with real BLS", "DESIGN.md section 4 C06"),
 "C14": ("model_checking",
         "TxPool.tla: abstract pool (all / per-sender lists / processable runs / fee queue) with Add, Remove, ReorgStep as sets of permitted successors (nondeterministic where the statement is silent: eviction victim, evict-or-reject, pending); "
         "TLC checks index agreement, limits, one tx per (sender, nonce), replacement and gap-free processable runs on the complete reachable graph of 6 small configurations. Trace validation: seeded sequential, interleaved (reorg suspended inside the verifier) "
         "and concurrent runs on the real TransactionPool record every call with the index snapshot; TxPoolTrace.tla requires every post-state to satisfy the invariants and to be a permitted successor; every call runs under a watchdog (liveness).",
         "Stub verifier with scripted answers; small transaction universes; concurrent mode judged at quiescence only.",
         "TLC model checking of TxPool.tla + TLA+ trace validation (monitor) of the real pool with watchdog", "DESIGN.md section 4 C14"),
 "C04": ("model_checking",
         "Node.tla: TLC checks FinalMonotone, FinalizedIrreversible and FinalSane as action/state properties over valid blocks, LIP-0014 tie breaks, deletes (incl. at or below the finalized height) and restarts (exhaustive with a VIEW for chains <= 5-6 blocks, simulation beyond); "
         "the scripts are replayed on the real Executer comparing the stored finalized height, the finalize events and the refusal to remove or replace finalized tips after every step. Sync scenarios (fast sync, block sync, corrupting and truncating peers, failed sync) on real "
         "networked nodes are validated by SyncTrace.tla: the finalized height never decreases and the block ids served for finalized heights never change. Reverts down to the finalized height (DeleteDown: what a sync with a chain forking below it attempts) "
         "are generated and the refusal at the finalized height checked; Net.tla (network of honest nodes) is replayed on real nodes: the stored finalized height per node follows the model and finalized ids are never replaced. "
         "Same step: every file-system operation of the application of a finality-raising block is used as a crash point (Crash.tla / CrashTrace.tla, pebble strict in-memory fs): after the restart the marker has moved with the block or not at all.",
         "Toy application; 3 validators; scenarios sampled (seeded); invalid tie-break competitors are probed at the end of every script (TieProbes).",
         "TLC model checking of Node.tla + replay of TLC scripts on the real Executer + TLA+ trace monitor of real sync scenarios", "DESIGN.md section 4 C04"),
 "C19": ("model_checking",
         "Sync.tla: BestPeers as a set of acceptable answers - TLC prints the table for all sequences of <= 4 peer tips (22,620 rows) and the real peer selection is evaluated on every row; HighestCommon / BlocksFrom specify the RPC handler answers, checked by SyncTrace.tla on "
         "calls made over loopback libp2p to a real 113-block node (cap 103 exercised); Outcomes specifies where a node may end after being offered a peer's tip; offer scenarios (own fork vs honest real peer, corrupting or truncating fake peer, near = fast sync, far = block sync, common block below finality) "
         "run through the real process()/sync path and every outcome is validated. Net.tla composes forging, the fork choice cascade, tie break and fast sync (common block among the sampled heights, not below the finalized height, ban otherwise, broken link after a ban) "
         "for 3 honest nodes; TLC checks NeverWorse / Agreement exhaustively and its scripts are replayed on 3 real nodes over loopback, the acted-on node compared with the model after every step.",
         "3 validators; toy application; scenarios sampled (seeded); malformed sync requests belong to C09/C18.",
         "TLC-generated selection table + TLA+ trace monitor of real handler calls and real sync scenarios between in-process nodes", "DESIGN.md section 4 C19"),
 "C18": ("model_checking",
         "ConnGater.tla: per-IP score / ban expiry / blacklist, integer clock, separate Sweep action (either answer allowed between expiry and the sweep), rate limiter with window resets; TLC checks ThresholdBans, BannedRefused, BlockedRefused, SweptClean, "
         "WithinLimitNeverPenalised, AboveLimitPenalised etc. exhaustively (2 IPs incl. IPv6, penalties 10/50/100; 375 k + 979 k states) and generates schedules; every schedule is replayed on real connectionGater / rateLimit objects (1 tick = 2 s, actions mid-second with guard bands, "
         "timing misses = inconclusive) comparing score, ban list and all gate answers after every step; 13 loopback scenarios on real libp2p hosts (malformed envelope, unknown procedure, rate excess, BanPeer, blacklist: disconnect, refused re-dial both directions, acceptance after expiry). Rate-focused schedules put both addresses on one procedure inside one rate window (a penalty of one peer must not change the count of another).",
         "Real-time mapping with guard bands; the sweep interval of a running Connection is the 10 s constant; InterceptUpgraded not exercised.",
         "TLC model checking of ConnGater.tla + replay of TLC schedules on the real gater / rate limiter + loopback scenarios", "DESIGN.md section 4 C18"),
 "C20": ("model_checking",
         "Locks.tla interprets lock programs extracted from the CURRENT sources by a go/ast extractor (57 programs: blockCache, DataAccess bulk lookups, certificate.Pool, EventEmitter, diffdb views, block-sync collector) under Go RWMutex semantics (a waiting writer blocks new readers): "
         "NoDeadlock, NoRace (lockset), ExactlyOnce (lost update) checked exhaustively per scenario. Every prediction is only a verdict once reproduced on the real code by the stress driver (readers vs a real Executer writer, bulk lookups with multiset checks, pool, emitter, diffdb; watchdog + goroutine dump) in a normal and a -race build; "
         "observed-but-unmodelled failures are violations too, predicted-but-not-reproduced ones are logged. A reader that obtained a tip also looks up what the tip announces in the database (a complete COMMITTED tip); a harness process killed by a fatal error inside lisk-engine (concurrent map access) is reported as a violation.",
         "The Go memory model is not specified in TLA+ (the race detector is the implementation-side recorder); stress durations bound what is reproduced.",
         "go/ast lock-program extraction + TLC (Locks.tla) + stress/-race reproduction on the real code", "DESIGN.md section 4 C20"),
 "C09": ("exploration",
         "WireFuzz.tla (on Wire.tla) enumerates, for 22 network-facing schemas taken from a real node, every (field path, deviation class, truncation point) on top of valid messages (28.9 k cases) and an argument-shape model for the verifiers (20.7 k cases: bitmaps, key/signature lengths, "
         "proof shapes, indices, sizes); each case maps to ok | reject. The harness feeds every case, ~150 k structure-aware mutants, odd-but-decodable blocks and ALL byte strings up to length 3 to 217 entry points (every generated-codec Decode/DecodeStrict, constructors, gossip validators and handlers through the p2p envelope, "
         "onRequest/onResponse, sync and txpool RPC handlers and response decoders, verifyAggregateCommit, process(), smt/rmt/BLS/ed25519 verifiers) under recover(), a 2 s deadline and an allocation ceiling, in a supervised child process. The surface of an RPC client is RpcFuzz.tla: transport (router.Invoke / HTTP handler / websocket server) x JSON-RPC envelope shape x method (every endpoint the engine registers, application namespace, malformed names) x params shape x field (1 258 cases, concretised from the real request types) plus bursts of simultaneous websocket clients; block sequences of one generator with unusual maxHeightGenerated go through process().",
         "Absence of panics/hangs is established for the enumerated and sampled inputs only; Go memory safety, time and allocation are observed, not modelled; libp2p itself is not fuzzed.",
         "TLA+-enumerated malformation model + exhaustive short inputs executed against all decoders/verifiers under recover/deadline/allocation monitors", "DESIGN.md section 4 C09"),
 "C15": ("model_checking",
         "Generator.tla: Select(pool, limit) as the set of admissible payloads (TLC enumerates all pools of <= 3 transactions x outcomes x limits: 5 484 pools, 35 904 real selections compared); generator behaviours on top of Node.tla (Forge with crash, Recv, Switch to a better possibly shorter chain, Restart) with "
         "NoSelfContradiction, MhgLargestEver, PersistedBeforeHandoff, ForgeOutputAccepted (56 k states; control runs with the defective shapes must fail); scripts are replayed on a real generator.Generator wired to the real Executer and txpool, generator DB on a strict in-memory FS (crash at hand-off), every produced block processed by the same node, "
         "all signed headers checked pairwise for contradiction. Verification answers are ok / invalid / pending; the aggregate commit of a generated block is covered by the C06 pool cases (whatever GetAggregateCommit assembles must pass the node's own verification, incl. validator-set changes with lagging certification). "
         "Handover.tla: moving the validator to another node through the operator interface (setKeys / getStatus / setStatus / updateStatus of pkg/engine/endpoint + the persisted GeneratorInfo, restarts with plain keys): NoContradiction for every behaviour in which the operator follows the protocol (2.9 M states; controls: contradiction without the protocol, generation on two nodes reachable); "
         "TLC behaviours drive two real nodes with the real endpoint and HandoverTrace.tla validates every answer, generated header and the generator's own stored info.",
         "Toy application; 3 validators; crash after hand-off is C13's subject; hand-over on one linear chain (forks on one node are part (b)).",
         "TLC model checking of Generator.tla + replay of TLC scripts on the real generator / Executer / txpool", "DESIGN.md section 4 C15"),
 "C16": ("model_checking",
         "StateMachine.tla: application state over 2 stores x 3 keys, command scripts (writes, events, ok/fail), ExecuteTx / Commit (root = SMT.Tree of the state, deleted keys absent) / Revert / Crash+Restart; Atomic, EventsBookkeeping, RootFunctionOfState, RevertInverse checked exhaustively (243 k states quick, 4.9 M thorough); "
         "~25 k histories replayed on the real framework.ABIHandler + statemachine.Executer with a scripted module using the engine's exact call sequences; events, store contents, state-DB dumps and state roots (SHA-256 fold of the spec term) compared after every step. The module's BeforeCommandExecute hook writes state and logs a revertible event: both must survive a failing command (the state 'before the command ran' is the state after the hooks).",
         "Genesis execution is not modelled; the application is at most three blocks ahead of the engine at a restart (Lose: the engine comes back one or two tips behind); one key per store takes the empty byte string as a value.",
         "TLC model checking of StateMachine.tla + replay of TLC histories on the real ABIHandler", "DESIGN.md section 4 C16"),
 "C17": ("model_checking",
         "ReqResp.tla with implementation-shape constants (RegisterFirst, DeliverUnderLock, Buffered, TrySend): NoDeadlock, NoLostReply, Correlated, NoLeak, liveness under fairness checked exhaustively for the shape the traces exhibit and the safe shape (181 k states at 2 calls x 1 retry); "
         "two real MessageProtocols on loopback with schedule-point hooks: random concurrent traffic (latencies around the timeout, cancellations, duplicates) validated by ReqRespTrace.tla, direct assertions (every call returns in time with the payload of its own request, no pending entry left), and forced schedules for the lost-reply and deliver-under-lock interleavings decided from the real outcome. The forced lost-reply schedule counts a reply dropped before registration as well as one that found its pending entry and still let the attempt time out; schedules that cannot be established on a busy machine are retried.",
         "Timing uses generous slack; forced schedules that cannot be established are inconclusive; retry count is read-only.",
         "TLC model checking of ReqResp.tla + trace validation and hook-forced schedules on real loopback hosts", "DESIGN.md section 4 C17"),
}
NA_REASON = "check not built yet in this round (planned, see DESIGN.md section 4); not claimed until its TLA+ specification and binding exist"

def hooks_commits():
    try:
        out = subprocess.run(["git", "-C", "/repo", "log", "--format=%H %s"], stdout=subprocess.PIPE, text=True).stdout
        return [l.split()[0] for l in out.splitlines() if " verif hook" in l or l.split(" ", 1)[1].startswith("verif hook")]
    except Exception:
        return []

m = {
 "version": 1,
 "setup_cmd": "bin/setup.sh",
 "hooks": {
   "guard": "verif",
   "enable": "go build -tags verif (the harness module replaces github.com/LiskHQ/lisk-engine with /repo and is built with -tags verif)",
   "baseline_off_cmd": "cd /repo && GOFLAGS=-mod=mod go test -vet=off -count=1 -timeout 25m ./...",
   "source_commits": hooks_commits(),
   "add_only": True,
 },
 "engines": [
   {"name": "tlc", "path": "spec/", "serves_properties": sorted(CHECKS), "kind_free_text": "explicit TLA+ specifications checked by TLC (exhaustive / simulation / trace validation)"},
   {"name": "harness", "path": "harness/", "serves_properties": sorted(CHECKS), "kind_free_text": "Go conformance harness: replays TLC behaviours into the real code and records traces of the real code for TLC"},
 ],
 "checks": [],
 "not_applicable": [],
 "notes": "Every check: bin/check <ID> quick|thorough. Exit 0 ok, 1 + VIOLATION line, 2 inconclusive (never a violation). Known findings: known_findings.json.",
}
for p in props:
    pid = p["id"]
    if pid in CHECKS:
        cat, text, note, tech, ref = CHECKS[pid]
        m["checks"].append({
          "property_id": pid,
          "quick_cmd": "bin/check %s quick" % pid,
          "thorough_cmd": "bin/check %s thorough" % pid,
          "evidence_file": "/verif/evidence/%s.json" % pid,
          "replay_cmd_template": "bin/check %s quick --replay {path}" % pid,
          "engine": "tlc",
          "level_claimed": {"category": cat, "text": text, "design_ref": ref},
          "level_note": note,
          "technique": tech,
        })
    else:
        m["not_applicable"].append({"property_id": pid, "reason": NA_REASON})
# MANIFEST.json must be valid at all times: validate the new content first (tooling python has jsonschema), keep the old
# file when it does not validate
import subprocess, sys, tempfile
tmp = tempfile.NamedTemporaryFile("w", suffix=".json", delete=False)
json.dump(m, tmp, indent=1); tmp.close()
chk = subprocess.run(["python3-vt", "-c", "import json,jsonschema,sys;jsonschema.validate(json.load(open(sys.argv[1])), json.load(open('/root/.vp/MANIFEST.schema.json')))", tmp.name],
                     stdout=subprocess.PIPE, stderr=subprocess.PIPE, text=True)
if chk.returncode != 0 and os.path.exists("/root/.vp/MANIFEST.schema.json"):
    print("MANIFEST not written: the generated content does not validate:", chk.stderr.strip().splitlines()[-1][:300])
    os.unlink(tmp.name)
    sys.exit(1)
os.replace(tmp.name, os.path.join(ROOT, "MANIFEST.json"))
print("checks:", len(m["checks"]), "not_applicable:", len(m["not_applicable"]))
