#!/usr/bin/env python3
"""Regenerates MANIFEST.json from the CHECKS table below (single source of truth)."""
import json, os, subprocess
ROOT = os.path.dirname(os.path.dirname(os.path.abspath(__file__)))
props = [json.loads(l) for l in open(os.path.join(ROOT, "properties.jsonl"))]

# id -> (category, text, note, technique, design_ref)
CHECKS = {
 "C01": ("model_checking",
         "TLC checks finality safety exhaustively on the fork-tree model LiskBFTTree (3-4 validators, <=9-10 blocks, <=2 leaves, Byzantine weight <1/3, "
         "optional parameter change); sampled full trees are replayed through the real liskbft.Module, every block's vote state compared with the spec and "
         "safety asserted on the real block ids and precommitted heights. The counting rules are additionally bound by a validated LiskBFT trace with parameter changes, and at system level Net.tla "
         "(honest nodes: forging, LIP-0014 fork choice cascade, tie break, fast sync; Agreement, TreeSafety, HonestNoContra checked by TLC) is replayed on a network of real nodes over loopback: finalized prefixes of all nodes agree on real block ids. Round 13: every tree is also replayed through ONE liskbft.Module (one store per chain view, blocks interleaved by height) under metamorphic variants (genesis heights up to 2^32-3, weights scaled to 2^60; faithfulness of each variant checked in big-integer arithmetic), API.AreHeadersContradicting is evaluated on every ordered header pair of a tree, a parameter-change tree configuration and the sliding-window simulation run in the quick tier, and Net.tla offers invalid Byzantine blocks (contradicting header, wrong maxHeightPrevoted) mid-script.",
         "Bounded model, no unbounded proof; slots abstracted; hash collision freeness; my transcription of LIP-0058 is bound to the code by the replay.",
         "TLA+ fork-tree model checked by TLC + spec-to-implementation replay of TLC-generated trees", "DESIGN.md section 4 C01"),
 "C02": ("model_checking",
         "Trace validation: a seeded driver feeds header chains with parameter-change schedules (join/leave/re-weight/threshold, batch sizes 2-5, windows that slide) "
         "to the real liskbft.Module and logs the projected BFT store after every call; TLC accepts the log only if every logged state equals the state computed by "
         "the LiskBFT operators (transcribed from LIP-0056/0058), and checks RoundRobinFinal/HeightsSane/Monotone in every state. Plus exhaustive single-chain enumeration by TLC replayed through the real module. Round 13: the trace spec also decides the GetBFTHeights triple, weights by identity, the validators hash (hand-written encoder), generator keys and the conversion functions of convert.go; validator lists are shuffled; a twin node runs every fourth chain with heights shifted by 2^16..2^31 and weights multiplied by 2^32-1, 2^32, 10^17 and must be explained by the same model state; one chain per run has 103 identities and a 309-entry window.",
         "Spec written from the LIPs; small integer weights; 5 validator identities; chains are sampled (seeded), the single-chain enumeration is exhaustive within 7 blocks / 2 validators.",
         "TLA+ trace validation of the real liskbft.Module (TLC) + replay of TLC-enumerated chains", "DESIGN.md section 4 C02"),
 "C07": ("model_checking",
         "TLC enumerates all header pairs over field ranges 0..5 x 2 generators (186k pairs), checks operational contradiction = declarative definition, symmetry, "
         "never across generators; prints truth tables for contradiction, the fork-choice predicate cascade (2592 rows) and header priority; the harness evaluates the real "
         "functions on every row and on uint32-range pairs via rank compression. The chain-level rule is validated by IsHeaderContradictingChain probes in the LiskBFT trace. "
         "The algebraic facts (operational = declarative, symmetry, Better is a strict total preorder, a legitimate successor is Better, an honest generator never contradicts itself) are additionally discharged by Apalache for all natural field values "
         "(spec/apalache/ContraInt.tla), with a weakened-comparison control that must be refuted. "
         "What the node remembers about WHEN its tip arrived is bound by RecvTime.tla (moving wall clock: accepted / rejected children, competitors inside and outside their slot, restarts; exhaustive for 3 slots x 5 steps) whose simulated scripts are replayed side by side on real nodes with a 4 s block time in lock-step with the wall clock (guard bands, timing losses are inconclusive).",
         "Comparison-only structure of the contradiction spec justifies rank compression; receive times are placed mid-slot with 1000 s slots in the tables and with 300 ms guard bands in the moving-clock replay.",
         "TLC-enumerated truth tables of a TLA+ transcription of LIP-0014 compared with the real functions", "DESIGN.md section 4 C07"),
 "C12": ("model_checking",
         "Trace validation (monitor form): a seeded driver runs operation sequences (set/del/get/has/range/iterate with limits and directions through several nested prefix views, "
         "snapshot/restore/delete-snapshot, commit, revert, raw db and snapshot-reader scans, empty values) on the real diffdb.Database over in-memory pebble and logs every call with its result; "
         "TLC replays the log on StagedStore.tla whose reads are defined as the same read on db-with-staged-ops-applied and compares every result, the db dump after Commit with the model and after RevertDiff with the previous contents. Round 13: all raw scan entry points (DB / Reader x Iterate / IterateKey), commits, reverts and snapshots through views, returned slices overwritten after logging, values compared by content, directed liskbft and batchdb phases, disk-backed pebble with reopen, two goroutines on two views under the race detector, hangs reported as deadlock:<fn>.",
         "Keys over a 4-letter byte alphabet up to length 5, values empty or one byte; limit 0 not generated; operation sequences are sampled (seeded).",
         "TLA+ trace validation (TLC monitor) of recorded calls on the real staged store", "DESIGN.md section 4 C12"),
 "C10": ("model_checking",
         "SMT.tla defines the LIP-0039 root as a term Tree(M) of the map alone; TLC enumerates update/delete/reopen histories (exhaustively for depth 2-3 over 6 hand-placed 16-bit keys, "
         "by simulation to depth 8-10 over 10 keys), checks the spec invariants and prints each history with the expected root term and query walks; the harness replays every history on the real trie "
         "(raw 2-byte and 32/38-byte embedded keys, map store and pebble), compares roots after every batch, proves and verifies query sets, compares proof contents with the spec walk and "
         "requires every tampered proof whose claim disagrees with the map (or with another root's map) to be rejected. Tampered proofs include forged inclusions claimed deeper than the honest end of the walk with junk sibling hashes in front or spread over the list, and queries repeating or shadowing another query's position (two defects of Verify found and repaired this way). A crash of the trie on a goroutine of its own is reported as a violation and pinned to its history by a serial re-run. Round 13: empty batches, duplicate keys in a batch (either winner), harness-side reopen before steps, a store with batchdb semantics, full-universe / 4-7 key / repeated-key query sets, wrong-length key tampers, five wide shapes with mixed batches, collapse-and-refill and tampered wide proofs.",
         "Hash injectivity; 16-bit key patterns embedded in longer keys; duplicate keys inside a batch not generated. One open known finding (forged query shadowed by another query of the same proof).",
         "TLC-generated histories of a TLA+ term model replayed on the real trie (SHA-256 fold of the expected term)", "DESIGN.md section 4 C10"),
 "C11": ("model_checking",
         "RMT.tla: TLC checks the incremental append rule against the declarative LIP-0031 root/append path for every size 0..40 (140 thorough) and exports root/append-path terms; the harness compares "
         "Append, CalculateRoot, reload, GenerateProof/VerifyProof (all non-empty leaf subsets of lists up to 7 (9) leaves + sampled subsets of larger lists, shuffled query order, reuse of a proof), "
         "CalculateRootFromUpdateData, Update, right witnesses at every position and CalculateRootFromAppendPath with the folded terms, and requires tampered leaves/roots/witnesses to be rejected. The walk continues to 1100 (thorough 4200) leaves; beyond 40 (140) the sizes next to powers of two and a sparse sample are replayed (found the prediction panic above 256 leaves). Round 13: RMT.tla models one tree OBJECT through histories of Append / Update / Reload over repeated, empty, 32-byte and long leaf values; after every operation proofs of other leaves, right witnesses, append path and prediction are compared on the same object and on the reloaded one; 885 deterministic subset shapes; inputs passed as sub-slices of one buffer.",
         "Hash injectivity; pairwise distinct leaf data.",
         "TLC-checked TLA+ term model (incremental = batch = declarative) + comparison of the real tree with the exported terms", "DESIGN.md section 4 C11"),
 "C03": ("model_checking",
         "Node.tla models the engine (chain, LiskBFT vote state per block, finalized height, temp blocks, events) with Accept(c) = the conjunction of every validity rule of the statement; "
         "TLC checks its properties exhaustively (chains <= 5-6 blocks, one parameter change) and generates scripts by simulation; the harness replays every step on the real Executer with a toy application "
         "(state/events compared after each step) and submits, at the end of every script, each of 28 single-rule mutants of the valid successor (header fields, slot, generator, signature, maxHeightPrevoted/Generated, "
         "7 aggregate-commit deviations, roots, validatorsHash, static tx validity, payload size): each must be rejected leaving the full database dump, BFT heights and published events unchanged. Every mutant is offered twice: through process() (fork choice first) and through processValidated, the entry point of blocks downloaded by a synchronisation, there with an application that executes whatever it is handed so that only the engine's own rules stand; mutations include a maxHeightGenerated claim that denies the generator's latest block and fields only the signature protects. Round 13: 57 mutation classes (both sides of every comparison, every static transaction rule, asset order, aggregate commit swapped after signing, payload of exactly Max and Max+1 bytes, first / last second of a slot, altered event data), a base candidate carrying a valid aggregate commit, a configuration with validator weights 4/3/2/1 and every minimal / just-too-light signer set; every probe is offered as a peer's block, as the node's own block and through processValidated.",
         "Toy application instead of pkg/framework; 3 validators; scripts sampled by TLC simulation (seeded); time pinned mid-slot; cryptography trusted.",
         "TLC-generated scripts and single-rule mutants of a TLA+ node model replayed on the real Executer", "DESIGN.md section 4 C03"),
 "C05": ("model_checking",
         "Same Node scripts: for every DeleteTip the sorted database dump after apply+delete must equal the dump before the apply (finalized marker, temp blocks, data pruned below finality excluded; state diffs compared as sets), "
         "saved temp blocks must be retrievable, restart must land on the same state, and a chain reached through apply/delete detours must equal the same chain built directly on a fresh node. "
         "The revert-diff mechanics are additionally checked at key level (created/overwritten/deleted in one commit, empty values) through the StagedStore trace monitor (commit / revert steps). "
         "ChainStore.tla specifies the block store (Chain + DataAccess + cache) as a sequential object: after any add / remove / clear-temp / restart sequence every reader (tip, by height, by id, bulk lookups, transactions, events with the retention rule, "
         "temporary blocks, finalized marker) is a function of the logical chain; TLC scripts are replayed on the real store with a block cache of 2, 3 and 515 blocks (5.8 M reader answers per quick run). Round 13: script families with chains of 14 blocks, two validator-set changes and four deletes (BFT-store pruning and window slide are reverted), with six deletes / four tie breaks / two restarts at finality 0, tie-break competitors with transactions and validator changes, raw key dump equality for every add;remove pair of the block store, genesis heights 0 and 70 000.",
         "Toy application; blocks with/without transactions, validator-set change, aggregate commits, finality advances; scripts sampled by TLC simulation.",
         "TLC-generated apply/delete/restart scripts replayed on the real Executer with database-dump equality + TLA+ trace monitor of diff reversal", "DESIGN.md section 4 C05"),
 "C08": ("model_checking",
         "Wire.tla is a TLA+ reference codec for the LIP-0027/0064 wire format (integers as base-128 digit sequences, so the uint64 range is covered); TLC checks round trip and canonicity of strict decoding exhaustively over "
         "short byte strings, generates the product of per-field deviation classes for the transaction schema with the expected verdict, and the Lisk32 checksum tables; the harness logs Encode/Decode/DecodeStrict of all 88 exported generated-codec types "
         "(validated by TLC against the reference codec), feeds every deviant byte string to NewTransaction/DecodeStrict, and checks ID stability through store/load. Round 13: 101 generated-codec types are driven (13 unexported ones through VerifCodecTypes() hooks), a second TLC deviant generator covers a strictly decoded schema with every field kind, deviant transactions are also offered inside blocks, decode inputs are overwritten afterwards (aliasing), IDs go through Sign / NewBlockHeaderWithValues / temporary blocks, Lisk32 case and prefix are decided in TLA+.",
         "Values of the generated types are sampled (seeded) apart from the exhaustive short-string / deviant / Lisk32-corruption spaces; Unicode NFC tables and SHA-256 trusted; unexported codec types unreachable.",
         "TLA+ reference codec checked by TLC + trace validation of the real codec + TLC-generated deviant encodings", "DESIGN.md section 4 C08"),
 "C13": ("fault_enumeration",
         "Crash.tla models a step as prepare / durable writes / cache update with a crash between any two sub-steps: TLC shows AtomicRecovery for the one-batch shape and a counterexample for a shape with a separate write (control). "
         "On the real node every file-system write/sync operation index of the last step (apply a block / delete the tip, with and without temp block; blocks with transactions, validator change, aggregate commit, finality advance) "
         "of TLC-generated Node scripts is used as a crash point on pebble's strict in-memory file system (unsynced data lost); the database is reopened, the node restarted, and the record (durable effects per key space, recovery invariants: "
         "height index -> data, consensus store height = tip, diff iff block, finalized <= tip) is validated by CrashTrace.tla. Step kinds: block, delete, delete+temp, restore (re-application of a temporary block with removal of its temporary copy, as after a failed chain switch). Round 13: Crash.tla has two crash models (power loss: only synced writes survive; process death: everything written survives), multi-stage steps and redo; the harness compares the WHOLE recovered dump, enumerates the genesis commit, tie breaks, big-block removal and restoration, event pruning with WAL rotation inside a finality-raising step, and a chain longer than the vote window with a block cache of 2; 31 required facets.",
         "pebble batch atomicity and StrictMem's model of sync are trusted (torn WAL records not modelled); the toy application's state is rebuilt from headers at restart.",
         "crash-point enumeration on the real node over a strict in-memory file system, records validated by a TLA+ trace monitor", "DESIGN.md section 4 C13"),
 "C06": ("model_checking",
         "Certificate.tla (on Node.tla) prints, for node states reached by TLC-generated scripts (finality, on-chain aggregate commits, validator-set changes, 4 validators with weights 4/3/2/1), the verdict table of aggregate-commit verification over "
         "every height 0..tip+1 x every signer subset x {valid, signed for another chain, certificate of another block}, every set of certifying validators, and every single commit with 'may enter the pool'. The harness evaluates the real "
         "verifyAggregateCommit with real BLS on every row, tampers aggregation bits, feeds single commits through singleCommitValidator (admission soundness) and requires GetAggregateCommit after Certify + gossip to pass the node's own verification. A second configuration with 8 validators (aggregation bitmap on a byte boundary) runs straight chains to finality with a signer family that brackets every threshold. Round 13: Certificate.tla models the pool with history (hand-encoded gossip messages of 1-3 commits with 12 deviation kinds, Certify, the real broadcast tick, assembly) over blocks that are added, deleted and replaced, different certifier sets per height, a directed 118-block chain, 12 validators with weights up to 2^47, a concurrency phase and per-class non-vacuity guards.",
         "blst trusted; chains <= 10 blocks (first 100 heights); pool admission judged for soundness only.",
         "TLC-generated verdict tables of a TLA+ node/certificate model evaluated on the real Executer with real BLS", "DESIGN.md section 4 C06"),
 "C14": ("model_checking",
         "TxPool.tla: abstract pool (all / per-sender lists / processable runs / fee queue) with Add, Remove, ReorgStep as sets of permitted successors (nondeterministic where the statement is silent: eviction victim, evict-or-reject, pending); "
         "TLC checks index agreement, limits, one tx per (sender, nonce), replacement and gap-free processable runs on the complete reachable graph of 6 small configurations. Trace validation: seeded sequential, interleaved (reorg suspended inside the verifier) "
         "and concurrent runs on the real TransactionPool record every call with the index snapshot; TxPoolTrace.tla requires every post-state to satisfy the invariants and to be a permitted successor; every call runs under a watchdog (liveness). Round 13: the resumed state of a suspended promotion step is decided as a partial step in TLA+, publish verdicts are part of the model, the concurrent mode also runs under the race detector, the real Start()/ticker/End() loop runs with live slow subscribers and the announcement handler, read results are re-read after later calls, nonces near 2^63 / 2^64.",
         "Stub verifier with scripted answers; small transaction universes; concurrent mode judged at quiescence only.",
         "TLC model checking of TxPool.tla + TLA+ trace validation (monitor) of the real pool with watchdog", "DESIGN.md section 4 C14"),
 "C04": ("model_checking",
         "Node.tla: TLC checks FinalMonotone, FinalizedIrreversible and FinalSane as action/state properties over valid blocks, LIP-0014 tie breaks, deletes (incl. at or below the finalized height) and restarts (exhaustive with a VIEW for chains <= 5-6 blocks, simulation beyond); "
         "the scripts are replayed on the real Executer comparing the stored finalized height, the finalize events and the refusal to remove or replace finalized tips after every step. Sync scenarios (fast sync, block sync, corrupting and truncating peers, failed sync) on real "
         "networked nodes are validated by SyncTrace.tla: the finalized height never decreases and the block ids served for finalized heights never change. Reverts down to the finalized height (DeleteDown: what a sync with a chain forking below it attempts) "
         "are generated and the refusal at the finalized height checked; Net.tla (network of honest nodes) is replayed on real nodes: the stored finalized height per node follows the model and finalized ids are never replaced. "
         "Same step: every file-system operation of the application of a finality-raising block is used as a crash point (Crash.tla / CrashTrace.tla, pebble strict in-memory fs): after the restart the marker has moved with the block or not at all. Round 13: every height ever reported finalized is read back after every step (finalized-block-replaced / -missing), finalize events are judged separately on the node replay, the network replay and every sync path, scripts restart twice and contain mid-script invalid blocks, a block cache of 3 blocks and a genesis block at height 1000 are part of the configurations.",
         "Toy application; 3 validators; scenarios sampled (seeded); invalid tie-break competitors are probed at the end of every script (TieProbes).",
         "TLC model checking of Node.tla + replay of TLC scripts on the real Executer + TLA+ trace monitor of real sync scenarios", "DESIGN.md section 4 C04"),
 "C19": ("model_checking",
         "Sync.tla: BestPeers as a set of acceptable answers - TLC prints the table for all sequences of <= 4 peer tips (22,620 rows) and the real peer selection is evaluated on every row; HighestCommon / BlocksFrom specify the RPC handler answers, checked by SyncTrace.tla on "
         "calls made over loopback libp2p to a real 113-block node (cap 103 exercised); Outcomes specifies where a node may end after being offered a peer's tip; offer scenarios (own fork vs honest real peer, corrupting or truncating fake peer, near = fast sync, far = block sync, common block below finality) "
         "run through the real process()/sync path and every outcome is validated. Net.tla composes forging, the fork choice cascade, tie break and fast sync (common block among the sampled heights, not below the finalized height, ban otherwise, broken link after a ban) "
         "for 3 honest nodes; TLC checks NeverWorse / Agreement exhaustively and its scripts are replayed on 3 real nodes over loopback, the acted-on node compared with the model after every step. Round 13: peer table over ranks 0..2 and 5-6 peers under uint32 embeddings; servers and a third of the offers with a block cache of 8; peers 104-220 blocks ahead; peers that tamper payloads, serve a statically invalid block mid-segment, leave a gap, reorder or stop after k blocks; the node's fork carries transactions; a twin node vouches for the state after every offer; several-peers variants judged by the spec's BestPeers.",
         "3 validators; toy application; scenarios sampled (seeded); malformed sync requests belong to C09/C18.",
         "TLC-generated selection table + TLA+ trace monitor of real handler calls and real sync scenarios between in-process nodes", "DESIGN.md section 4 C19"),
 "C18": ("model_checking",
         "ConnGater.tla: per-IP score / ban expiry / blacklist, integer clock, separate Sweep action (either answer allowed between expiry and the sweep), rate limiter with window resets; TLC checks ThresholdBans, BannedRefused, BlockedRefused, SweptClean, "
         "WithinLimitNeverPenalised, AboveLimitPenalised etc. exhaustively (2 IPs incl. IPv6, penalties 10/50/100; 375 k + 979 k states) and generates schedules; every schedule is replayed on real connectionGater / rateLimit objects (1 tick = 2 s, actions mid-second with guard bands, "
         "timing misses = inconclusive) comparing score, ban list and all gate answers after every step; 13 loopback scenarios on real libp2p hosts (malformed envelope, unknown procedure, rate excess, BanPeer, blacklist: disconnect, refused re-dial both directions, acceptance after expiry). Rate-focused schedules put both addresses on one procedure inside one rate window (a penalty of one peer must not change the count of another). Round 13: an IP is one identity whatever its spelling (dotted, ::ffff: forms) in penalties, blacklist and every gate; concurrent ticks with pollers under the race detector; 24 loopback scenarios on three loopback addresses (local vs remote address, outbound offenders, the real sync handlers with invalid requests, an envelope table, default limiter parameters, two connections per peer).",
         "Real-time mapping with guard bands; the sweep interval of a running Connection is the 10 s constant; InterceptUpgraded not exercised.",
         "TLC model checking of ConnGater.tla + replay of TLC schedules on the real gater / rate limiter + loopback scenarios", "DESIGN.md section 4 C18"),
 "C20": ("model_checking",
         "Locks.tla interprets lock programs extracted from the CURRENT sources by a go/ast extractor (57 programs: blockCache, DataAccess bulk lookups, certificate.Pool, EventEmitter, diffdb views, block-sync collector) under Go RWMutex semantics (a waiting writer blocks new readers): "
         "NoDeadlock, NoRace (lockset), ExactlyOnce (lost update) checked exhaustively per scenario. Every prediction is only a verdict once reproduced on the real code by the stress driver (readers vs a real Executer writer, bulk lookups with multiset checks, pool, emitter, diffdb; watchdog + goroutine dump) in a normal and a -race build; "
         "observed-but-unmodelled failures are violations too, predicted-but-not-reproduced ones are logged. A reader that obtained a tip also looks up what the tip announces in the database (a complete COMMITTED tip); a harness process killed by a fatal error inside lisk-engine (concurrent map access) is reported as a violation. Round 13: the extractor also covers the sync RPC handlers and understands WaitGroups and channel loops (63 lock programs); stress scenarios with a block cache of 8 and bursts of deep removals, the real sync handlers served under a changing chain, bulk sizes 0..600 with duplicates and missing items anywhere, diffdb Range / RestoreSnapshot / Commit, emitter Emit / On / UnsubscribeAll in simultaneous rounds, Select results read outside the pool lock; observations always win over set-up guards.",
         "The Go memory model is not specified in TLA+ (the race detector is the implementation-side recorder); stress durations bound what is reproduced.",
         "go/ast lock-program extraction + TLC (Locks.tla) + stress/-race reproduction on the real code", "DESIGN.md section 4 C20"),
 "C09": ("exploration",
         "WireFuzz.tla (on Wire.tla) enumerates, for 22 network-facing schemas taken from a real node, every (field path, deviation class, truncation point) on top of valid messages (28.9 k cases) and an argument-shape model for the verifiers (20.7 k cases: bitmaps, key/signature lengths, "
         "proof shapes, indices, sizes); each case maps to ok | reject. The harness feeds every case, ~150 k structure-aware mutants, odd-but-decodable blocks and ALL byte strings up to length 3 to 217 entry points (every generated-codec Decode/DecodeStrict, constructors, gossip validators and handlers through the p2p envelope, "
         "onRequest/onResponse, sync and txpool RPC handlers and response decoders, verifyAggregateCommit, process(), smt/rmt/BLS/ed25519 verifiers) under recover(), a 2 s deadline and an allocation ceiling, in a supervised child process. The surface of an RPC client is RpcFuzz.tla: transport (router.Invoke / HTTP handler / websocket server) x JSON-RPC envelope shape x method (every endpoint the engine registers, application namespace, malformed names) x params shape x field (1 258 cases, concretised from the real request types) plus bursts of simultaneous websocket clients; block sequences of one generator with unusual maxHeightGenerated go through process(). Round 13: a second supervised child runs TLC-generated SCENARIOS: a scripted adversarial sync peer driving process() into fast and block sync, stateful commit / transaction pools over three validator-set worlds, RPC request sequences (stored key-derivation parameters, post-then-get, subscribe-then-push to live / closed / non-reading clients), goroutine and heap leak batches, growth ratios under field amplification, 16-goroutine bursts; out-of-memory deaths are attributed to the call in flight.",
         "Absence of panics/hangs is established for the enumerated and sampled inputs only; Go memory safety, time and allocation are observed, not modelled; libp2p itself is not fuzzed.",
         "TLA+-enumerated malformation model + exhaustive short inputs executed against all decoders/verifiers under recover/deadline/allocation monitors", "DESIGN.md section 4 C09"),
 "C15": ("model_checking",
         "Generator.tla: Select(pool, limit) as the set of admissible payloads (TLC enumerates all pools of <= 3 transactions x outcomes x limits: 5 484 pools, 35 904 real selections compared); generator behaviours on top of Node.tla (Forge with crash, Recv, Switch to a better possibly shorter chain, Restart) with "
         "NoSelfContradiction, MhgLargestEver, PersistedBeforeHandoff, ForgeOutputAccepted (56 k states; control runs with the defective shapes must fail); scripts are replayed on a real generator.Generator wired to the real Executer and txpool, generator DB on a strict in-memory FS (crash at hand-off), every produced block processed by the same node, "
         "all signed headers checked pairwise for contradiction. Verification answers are ok / invalid / pending; the aggregate commit of a generated block is covered by the C06 pool cases (whatever GetAggregateCommit assembles must pass the node's own verification, incl. validator-set changes with lagging certification). "
         "Handover.tla: moving the validator to another node through the operator interface (setKeys / getStatus / setStatus / updateStatus of pkg/engine/endpoint + the persisted GeneratorInfo, restarts with plain keys): NoContradiction for every behaviour in which the operator follows the protocol (2.9 M states; controls: contradiction without the protocol, generation on two nodes reachable); "
         "TLC behaviours drive two real nodes with the real endpoint and HandoverTrace.tla validates every answer, generated header and the generator's own stored info. Round 13: the unmodified forge() is followed by a restart and a further header, a go/ast guard keeps the synchronous copy equal to forge(), validator-set changes that permute the generator list precede forges, unsorted block assets, after-hook events, Fail results and ABI errors, fee ranks up to 2^40, payload limits filled to the byte.",
         "Toy application; 3 validators; crash after hand-off is C13's subject; hand-over on one linear chain (forks on one node are part (b)).",
         "TLC model checking of Generator.tla + replay of TLC scripts on the real generator / Executer / txpool", "DESIGN.md section 4 C15"),
 "C16": ("model_checking",
         "StateMachine.tla: application state over 2 stores x 3 keys, command scripts (writes, events, ok/fail), ExecuteTx / Commit (root = SMT.Tree of the state, deleted keys absent) / Revert / Crash+Restart; Atomic, EventsBookkeeping, RootFunctionOfState, RevertInverse checked exhaustively (243 k states quick, 4.9 M thorough); "
         "~25 k histories replayed on the real framework.ABIHandler + statemachine.Executer with a scripted module using the engine's exact call sequences; events, store contents, state-DB dumps and state roots (SHA-256 fold of the spec term) compared after every step. The module's BeforeCommandExecute hook writes state and logs a revertible event: both must survive a failing command (the state 'before the command ran' is the state after the hooks). Round 13: hooks of every kind write state and emit events (full order compared), wrong roots are offered to Commit / Revert / Init (error, unchanged state, node still usable), every observation reads through Get / Has / Iterate / Range, store handles are held across the failure restore, two modules, event data / topics / height, the genesis path, crash points inside Commit / Revert / recovery, store keys of 2-64 bytes.",
         "Genesis execution is not modelled; the application is at most three blocks ahead of the engine at a restart (Lose: the engine comes back one or two tips behind); one key per store takes the empty byte string as a value.",
         "TLC model checking of StateMachine.tla + replay of TLC histories on the real ABIHandler", "DESIGN.md section 4 C16"),
 "C17": ("model_checking",
         "ReqResp.tla with implementation-shape constants (RegisterFirst, DeliverUnderLock, Buffered, TrySend): NoDeadlock, NoLostReply, Correlated, NoLeak, liveness under fairness checked exhaustively for the shape the traces exhibit and the safe shape (181 k states at 2 calls x 1 retry); "
         "two real MessageProtocols on loopback with schedule-point hooks: random concurrent traffic (latencies around the timeout, cancellations, duplicates) validated by ReqRespTrace.tla, direct assertions (every call returns in time with the payload of its own request, no pending entry left), and forced schedules for the lost-reply and deliver-under-lock interleavings decided from the real outcome. The forced lost-reply schedule counts a reply dropped before registration as well as one that found its pending entry and still let the attempt time out; schedules that cannot be established on a busy machine are retried. Round 13: ReqResp.tla has the shape constant SendUnderLock and stalled sends; the trace spec requires every reply the remote handler produced to reach the lookup and no timer to fire early; traffic profiles with a real rate limit, symmetric and nested requests, failing sends, error / empty / nil replies, bursts of 64 callers and Stop while waiting; forced scenarios for cancel at the delivery point, a peer that accepts TCP and never speaks, payloads up to 5 MiB.",
         "Timing uses generous slack; forced schedules that cannot be established are inconclusive; retry count is read-only.",
         "TLC model checking of ReqResp.tla + trace validation and hook-forced schedules on real loopback hosts", "DESIGN.md section 4 C17"),
}
NA_REASON = "check not built yet in this round (planned, see DESIGN.md section 4); not claimed until its TLA+ specification and binding exist"

def hooks_commits():
    try:
        out = subprocess.run(["git", "-C", "/repo", "log", "--format=%H %s"], stdout=subprocess.PIPE, text=True).stdout
        return [l.split()[0] for l in out.splitlines() if " verif hook" in l or l.split(" ", 1)[1].startswith("verif hook")]
    except Exception:
        return []

m = {
 "version": 1,
 "setup_cmd": "bin/setup.sh",
 "hooks": {
   "guard": "verif",
   "enable": "go build -tags verif (the harness module replaces github.com/LiskHQ/lisk-engine with /repo and is built with -tags verif)",
   "baseline_off_cmd": "cd /repo && GOFLAGS=-mod=mod go test -vet=off -count=1 -timeout 25m ./...",
   "source_commits": hooks_commits(),
   "add_only": True,
 },
 "engines": [
   {"name": "tlc", "path": "spec/", "serves_properties": sorted(CHECKS), "kind_free_text": "explicit TLA+ specifications checked by TLC (exhaustive / simulation / trace validation)"},
   {"name": "harness", "path": "harness/", "serves_properties": sorted(CHECKS), "kind_free_text": "Go conformance harness: replays TLC behaviours into the real code and records traces of the real code for TLC"},
 ],
 "checks": [],
 "not_applicable": [],
 "notes": "Every check: bin/check <ID> quick|thorough. Exit 0 ok, 1 + VIOLATION line, 2 inconclusive (never a violation). Known findings: known_findings.json.",
}
for p in props:
    pid = p["id"]
    if pid in CHECKS:
        cat, text, note, tech, ref = CHECKS[pid]
        m["checks"].append({
          "property_id": pid,
          "quick_cmd": "bin/check %s quick" % pid,
          "thorough_cmd": "bin/check %s thorough" % pid,
          "evidence_file": "/verif/evidence/%s.json" % pid,
          "replay_cmd_template": "bin/check %s quick --replay {path}" % pid,
          "engine": "tlc",
          "level_claimed": {"category": cat, "text": text, "design_ref": ref},
          "level_note": note,
          "technique": tech,
        })
    else:
        m["not_applicable"].append({"property_id": pid, "reason": NA_REASON})
# MANIFEST.json must be valid at all times: validate the new content first (tooling python has jsonschema), keep the old
# file when it does not validate
import subprocess, sys, tempfile
tmp = tempfile.NamedTemporaryFile("w", suffix=".json", delete=False)
json.dump(m, tmp, indent=1); tmp.close()
chk = subprocess.run(["python3-vt", "-c", "import json,jsonschema,sys;jsonschema.validate(json.load(open(sys.argv[1])), json.load(open('/root/.vp/MANIFEST.schema.json')))", tmp.name],
                     stdout=subprocess.PIPE, stderr=subprocess.PIPE, text=True)
if chk.returncode != 0 and os.path.exists("/root/.vp/MANIFEST.schema.json"):
    print("MANIFEST not written: the generated content does not validate:", chk.stderr.strip().splitlines()[-1][:300])
    os.unlink(tmp.name)
    sys.exit(1)
os.replace(tmp.name, os.path.join(ROOT, "MANIFEST.json"))
print("checks:", len(m["checks"]), "not_applicable:", len(m["not_applicable"]))
