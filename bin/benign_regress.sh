#!/bin/bash
# bin/benign_regress.sh [names...] : run the quick check of the property against every archived property-PRESERVING change
# (benign/<name>/patch.diff applied to a scratch worktree of /repo HEAD).  Expected: exit 0 everywhere (no false alarm).
cd "$(dirname "$0")/.."
names=("$@"); [ ${#names[@]} -eq 0 ] && names=($(ls benign | grep -v RESULTS))
# changes whose patch no longer applies because /repo was repaired at the same place are kept for the record but not run
keep=(); for n in "${names[@]}"; do python3 -c "import json,sys;sys.exit(1 if json.load(open('benign/$n/meta.json')).get('obsolete') else 0)" && keep+=("$n"); done; names=("${keep[@]}")
PAR=${PAR:-3}
run_one() {
  n=$1; id=$(python3 -c "import json;print(json.load(open('benign/$n/meta.json'))['property'])")
  out=$(SKIP_CONFIRM=1 timeout 3000 bin/seedcheck.sh benign/$n $id 2>&1)
  rc=$(echo "$out" | grep -o "check exit: [0-9]*" | grep -o "[0-9]*$")
  keys=$(echo "$out" | grep -o "key=[^ ]*" | sort -u | head -4 | tr '\n' ' ')
  echo "$n $id exit=${rc:-?} $keys"
}
export -f run_one
printf "%s\n" "${names[@]}" | xargs -P $PAR -I{} bash -c 'run_one {}' | sort > benign/RESULTS.txt.new
mv benign/RESULTS.txt.new benign/RESULTS.txt
grep -v "exit=0" benign/RESULTS.txt && exit 1
echo "no alarm on $(wc -l < benign/RESULTS.txt) property-preserving changes"
