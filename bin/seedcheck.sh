#!/bin/bash
# bin/seedcheck.sh <seed-dir> <ID> [tier]  : confirm a seeded change (builds, existing tests of touched
# packages pass, demo fails with / passes without) in a scratch worktree, then run the check against it.
# seed-dir contains patch.diff, demo_path.txt, the demo file(s), meta.json
set -u
SD=$(realpath "$1"); ID=$2; TIER=${3:-quick}
export GOFLAGS=-mod=mod GOPROXY=off GOSUMDB=off GOTOOLCHAIN=local
WT=$(mktemp -d /tmp/seedwt_XXXX); rmdir "$WT"
git -C /repo worktree add -q "$WT" HEAD || exit 2
trap 'git -C /repo worktree remove --force "$WT" >/dev/null 2>&1' EXIT
cd "$WT"
if [ "${SKIP_CONFIRM:-0}" != 1 ]; then
  # demo without the change
  while read -r p; do [ -n "$p" ] && cp "$SD/$(basename "$p")" "$WT/$p"; done < "$SD/demo_path.txt"
  DEMO=$(python3 -c "import json;print(json.load(open('$SD/meta.json'))['demo_cmd'])" | sed 's/export [^;]*;//g; s/^.*go test/go test/')
  echo "[seed] demo: $DEMO"
  (eval "$DEMO") > "$WT/demo_clean.log" 2>&1; RC_CLEAN=$?
  git apply "$SD/patch.diff" || { echo "[seed] patch does not apply"; exit 2; }
  go build ./... || { echo "[seed] does not build"; exit 2; }
  (eval "$DEMO") > "$WT/demo_seeded.log" 2>&1; RC_SEEDED=$?
  echo "[seed] demo exit without change: $RC_CLEAN  with change: $RC_SEEDED"
  while read -r p; do [ -n "$p" ] && rm -f "$WT/$p"; done < "$SD/demo_path.txt"
  PK=$(git diff --name-only | xargs -n1 dirname | sort -u | sed 's#^#./#' | tr '\n' ' ')
  echo "[seed] existing tests (all of ./pkg/... ) with the change:"
  go test -vet=off -count=1 ./pkg/... 2>&1 | grep "^FAIL.\|^--- FAIL" | grep -v "pkg/trie/rmt\|pkg/trie/smt\|pkg/rpc\|TestGenerateProof\|TestVerifyProof\|TestRemoveTreeFixture\|TestHTTPServer" | head -20
else
  git apply "$SD/patch.diff" || { echo "[seed] patch does not apply"; exit 2; }
fi
cd /verif
VERIF_EVIDENCE_DIR="$WT/.verif_evidence" VERIF_REPO="$WT" bin/check "$ID" "$TIER" 2>&1 | grep -v "^\[go\]\|^\[run\]" | tail -6 | cut -c1-400
echo "[seed] check exit: ${PIPESTATUS[0]}"
