// c13: crash-point enumeration for block commit / removal (property C13).
// For the last step of each TLC-generated Node script (apply a block / delete the tip) the harness counts the
// file-system write/sync operations of that step on a strict in-memory file system and then, for every operation
// index k, re-runs the script from scratch, lets everything after operation k of the step be lost
// (SetIgnoreSyncs + ResetToSyncedState), reopens the database, restarts the node and records which effects of the
// step are durable and whether the recovery invariants hold.  spec/trace/CrashTrace.tla checks every record.
//
// usage: c13 <scripts.ndjson> <config.json> <out.json> <trace.ndjson> <maxScripts> <maxPointsPerStep>
package main

import (
	"bufio"
	"bytes"
	"encoding/json"
	"fmt"
	"os"
	"sort"
	"strconv"
	"strings"
	"sync"
	"sync/atomic"

	"github.com/cockroachdb/pebble/vfs"

	"github.com/LiskHQ/lisk-engine/pkg/consensus/liskbft"
	"github.com/LiskHQ/lisk-engine/pkg/db"

	"verifharness/internal/node"
	"verifharness/internal/tj"
)

type Step struct {
	node.Cand
	Op       string `json:"op"`
	Accepted bool   `json:"accepted"`
	SaveTemp bool   `json:"saveTemp"`
	Ok       bool   `json:"ok"`
	Obs      struct {
		Fin uint32 `json:"fin"`
	} `json:"obs"`
}

type Dump struct {
	Script []Step `json:"script"`
}

// ---- counting file system over StrictMem
type cfs struct {
	vfs.FS
	mem     *vfs.MemFS
	count   int64
	crashAt int64
}

func (c *cfs) op() {
	n := atomic.AddInt64(&c.count, 1)
	if at := atomic.LoadInt64(&c.crashAt); at > 0 && n == at {
		c.mem.SetIgnoreSyncs(true)
	}
}

type cfile struct {
	vfs.File
	fs *cfs
}

func (f *cfile) Write(p []byte) (int, error) { f.fs.op(); return f.File.Write(p) }
func (f *cfile) Sync() error                 { f.fs.op(); return f.File.Sync() }

func (c *cfs) wrap(f vfs.File, err error) (vfs.File, error) {
	if err != nil {
		return f, err
	}
	return &cfile{File: f, fs: c}, nil
}
func (c *cfs) Create(name string) (vfs.File, error) { c.op(); return c.wrap(c.FS.Create(name)) }
func (c *cfs) Open(name string, opts ...vfs.OpenOption) (vfs.File, error) {
	return c.wrap(c.FS.Open(name, opts...))
}
func (c *cfs) OpenDir(name string) (vfs.File, error) { return c.wrap(c.FS.OpenDir(name)) }
func (c *cfs) ReuseForWrite(o, n string) (vfs.File, error) {
	c.op()
	return c.wrap(c.FS.ReuseForWrite(o, n))
}
func (c *cfs) Rename(o, n string) error { c.op(); return c.FS.Rename(o, n) }
func (c *cfs) Remove(n string) error    { c.op(); return c.FS.Remove(n) }

func newFS() *cfs {
	mem := vfs.NewStrictMem()
	c := &cfs{FS: mem, mem: mem}
	// the database directory must exist durably before the database is created in it
	if err := mem.MkdirAll("data", 0o755); err != nil {
		panic(err)
	}
	if d, err := mem.OpenDir(""); err == nil {
		d.Sync()
		d.Close()
	}
	if d, err := mem.OpenDir("data"); err == nil {
		d.Sync()
		d.Close()
	}
	return c
}

var groups = map[string]string{"03": "block", "05": "block", "06": "block", "08": "block", "09": "block", "04": "indexes",
	"0a": "consensus", "33": "diff", "1b": "finalized", "07": "temp"}

func byGroup(d []string) map[string]string {
	m := map[string][]string{}
	for _, l := range d {
		g := groups[l[:2]]
		if g == "" {
			g = "other:" + l[:2]
		}
		m[g] = append(m[g], l)
	}
	r := map[string]string{}
	for g, ls := range m {
		r[g] = strings.Join(ls, "\n")
	}
	return r
}

type Violation struct {
	Key    string      `json:"key"`
	What   string      `json:"what"`
	Replay interface{} `json:"replay"`
}

type Out struct {
	Scripts     int            `json:"scripts"`
	Steps       map[string]int `json:"steps_by_kind"`
	CrashPoints int            `json:"crash_points"`
	Pre         int            `json:"recovered_pre_state"`
	Post        int            `json:"recovered_post_state"`
	Distinct    int            `json:"distinct_step_shapes"`
	Errors      []string       `json:"harness_errors"`
	Violations  []Violation    `json:"violations"`
}

func doStep(n *node.Node, s *Step) error {
	switch s.Op {
	case "block":
		b := n.Build(&s.Cand)
		if err := n.Ex.VerifProcess(b, "12D3KooWverifpeer"); err != nil {
			return err
		}
		if !bytes.Equal(n.Tip().Header.ID, b.Header.ID) {
			return fmt.Errorf("block not accepted")
		}
	case "restore":
		// what restoreBlocks does after a failed chain switch: the temporary block above the tip is applied again and
		// its temporary copy removed (processValidated with removeTemp)
		tb, err := n.Chain.DataAccess().GetTempBlocks()
		if err != nil {
			return err
		}
		for _, x := range tb {
			if x.Header.Height == n.Tip().Header.Height+1 {
				if err := n.Ex.VerifProcessValidated(x, false, true); err != nil {
					return err
				}
				return nil
			}
		}
		return fmt.Errorf("no temporary block above the tip")
	case "delete":
		err := n.Ex.VerifDeleteBlock(n.Tip(), s.SaveTemp)
		if !s.Ok {
			// the script expects the refusal (tip at or below the finalized height): nothing changes
			if err == nil {
				return fmt.Errorf("delete at the finalized height was not refused")
			}
			return nil
		}
		return err
	}
	return nil
}

// run replays prefix+last on a fresh strict file system; crashK = 0: no crash (measure), else crash at operation k of the last step
func run(cfg *node.Config, ts uint32, prefix []Step, last *Step, crashK int64) (pre, post []string, nops int64, recovered []string, inv []string, err error) {
	fs := newFS()
	d, err := db.NewDBWithFS("data", fs)
	if err != nil {
		return nil, nil, 0, nil, nil, err
	}
	n, err := node.New(cfg, d, ts)
	if err != nil {
		return nil, nil, 0, nil, nil, err
	}
	for i := range prefix {
		if prefix[i].Op == "restart" {
			continue
		}
		if e := doStep(n, &prefix[i]); e != nil {
			return nil, nil, 0, nil, nil, fmt.Errorf("prefix step %d: %v", i, e)
		}
	}
	pre = n.Dump()
	c0 := atomic.LoadInt64(&fs.count)
	if crashK > 0 {
		atomic.StoreInt64(&fs.crashAt, c0+crashK)
	}
	stepErr := doStep(n, last)
	nops = atomic.LoadInt64(&fs.count) - c0
	if crashK == 0 {
		if stepErr != nil {
			return nil, nil, 0, nil, nil, fmt.Errorf("last step: %v", stepErr)
		}
		post = n.Dump()
		n.Close()
		return pre, post, nops, nil, nil, nil
	}
	// crash: everything after operation k is lost
	fs.mem.SetIgnoreSyncs(true)
	n.StopExecuter()
	d.Close()
	fs.mem.ResetToSyncedState()
	fs.mem.SetIgnoreSyncs(false)
	atomic.StoreInt64(&fs.crashAt, 0)
	d2, err := db.NewDBWithFS("data", fs)
	if err != nil {
		return pre, nil, nops, nil, []string{"database-does-not-reopen: " + err.Error()}, nil
	}
	defer d2.Close()
	n2, err := node.New(cfg, d2, ts)
	if err != nil {
		return pre, nil, nops, nil, []string{"node-does-not-restart: " + err.Error()}, nil
	}
	defer n2.StopExecuter()
	recovered = n2.Dump()
	func() {
		defer func() {
			if e := recover(); e != nil {
				inv = []string{fmt.Sprintf("restarted-node-unusable: %v", e)}
			}
		}()
		inv = invariants(n2)
	}()
	return pre, nil, nops, recovered, inv, nil
}

// recovery invariants of C13 on the restarted node
func invariants(n *node.Node) []string {
	res := []string{}
	if n.Tip() == nil || n.Tip().Header == nil {
		// the block the height index names as the tip cannot be loaded: the node comes up without a tip
		return []string{"no-tip-after-restart"}
	}
	tip := n.Tip().Header.Height
	fin, err := n.Chain.DataAccess().GetFinalizedHeight()
	if err != nil {
		res = append(res, "finalized-height-unreadable")
	} else if fin > tip {
		res = append(res, fmt.Sprintf("finalized-height-%d-above-tip-%d", fin, tip))
	}
	for h := uint32(0); h <= tip; h++ {
		if _, err := n.Chain.DataAccess().GetBlockByHeight(h); err != nil {
			res = append(res, fmt.Sprintf("height-index-points-at-missing-data:%d", h))
		}
	}
	if tip > 0 {
		v, err := liskbft.VerifDumpVotes(n.Ex.VerifConsensusStore())
		if err != nil || len(v.Infos) == 0 {
			res = append(res, "consensus-store-unreadable")
		} else if v.Infos[0].Height != tip {
			res = append(res, fmt.Sprintf("consensus-store-at-%d-tip-at-%d", v.Infos[0].Height, tip))
		}
	}
	for _, l := range n.Dump() {
		if strings.HasPrefix(l, "33") {
			var h uint32
			fmt.Sscanf(l[2:10], "%08x", &h)
			if h > tip {
				res = append(res, fmt.Sprintf("diff-without-block:%d", h))
			}
		}
	}
	// every block above the finalized height can still be removed (its diff exists)
	have := map[uint32]bool{}
	for _, l := range n.Dump() {
		if strings.HasPrefix(l, "33") {
			var h uint32
			fmt.Sscanf(l[2:10], "%08x", &h)
			have[h] = true
		}
	}
	for h := fin + 1; h <= tip; h++ {
		if !have[h] {
			res = append(res, fmt.Sprintf("block-without-diff:%d", h))
		}
	}
	return res
}

func main() {
	if len(os.Args) < 7 {
		fmt.Fprintln(os.Stderr, "usage: c13 scripts.ndjson config.json out.json trace.ndjson maxScripts maxPoints")
		os.Exit(2)
	}
	cfg := &node.Config{}
	cb, err := os.ReadFile(os.Args[2])
	if err == nil {
		err = json.Unmarshal(cb, cfg)
	}
	if err != nil {
		panic(err)
	}
	cfg.Network = false
	maxScripts, _ := strconv.Atoi(os.Args[5])
	maxPoints, _ := strconv.Atoi(os.Args[6])
	finOnly := len(os.Args) > 7 && os.Args[7] == "fin"
	f, err := os.Open(os.Args[1])
	if err != nil {
		panic(err)
	}
	sc := bufio.NewScanner(f)
	sc.Buffer(make([]byte, 1<<20), 1<<26)
	var scripts [][]Step
	shapes := map[string]bool{}
	for sc.Scan() {
		d := &Dump{}
		if json.Unmarshal(sc.Bytes(), d) != nil || len(d.Script) == 0 {
			continue
		}
		// cut the script after its last block/delete step that took effect
		s := d.Script
		if finOnly {
			// C04: cut after the last applied block that raises the finalized height
			for len(s) > 0 && !(s[len(s)-1].Op == "block" && s[len(s)-1].Accepted && ((len(s) == 1 && s[0].Obs.Fin > 0) || (len(s) > 1 && s[len(s)-1].Obs.Fin > s[len(s)-2].Obs.Fin))) {
				s = s[:len(s)-1]
			}
		}
		for len(s) > 0 && !((s[len(s)-1].Op == "block" && s[len(s)-1].Accepted) || (s[len(s)-1].Op == "delete" && s[len(s)-1].Ok)) {
			s = s[:len(s)-1]
		}
		if len(s) == 0 {
			continue
		}
		last := s[len(s)-1]
		shape := fmt.Sprintf("%s/%d/%s/%d/%d/%v/len%d/fin%d", last.Op, last.Chg, last.Ac.Kind, last.Ntx, last.H, last.SaveTemp, len(s), last.Obs.Fin)
		if shapes[shape] {
			continue
		}
		shapes[shape] = true
		scripts = append(scripts, s)
		if last.Op == "delete" && last.SaveTemp {
			// the same history followed by the restoration of the removed block from its temporary copy
			scripts = append(scripts, append(append([]Step{}, s...), Step{Op: "restore"}))
		}
		if len(scripts) >= maxScripts {
			break
		}
	}
	// a block whose write batch is megabytes large (160 transactions of 14 kB): the whole of it is still one atomic step
	if !finOnly {
		nbig := 0
		for _, sc0 := range scripts {
			last := sc0[len(sc0)-1]
			if last.Op == "block" && last.Accepted && last.Ntx >= 0 && last.Chg == 0 && nbig < 2 {
				big := append([]Step{}, sc0...)
				big[len(big)-1].Ntx = 160
				big[len(big)-1].Payload = "big"
				scripts = append(scripts, big)
				nbig++
			}
		}
	}
	out := &Out{Scripts: len(scripts), Steps: map[string]int{}, Distinct: len(shapes)}
	w, err := tj.NewWriter(os.Args[4])
	if err != nil {
		panic(err)
	}
	var mu sync.Mutex
	perKey := map[string]int{}
	viol := func(key, what string, replay interface{}) {
		perKey[key]++
		if perKey[key] <= 2 {
			out.Violations = append(out.Violations, Violation{key, what, replay})
		}
	}
	ts := uint32(1700000000)
	// real time must lie in slot cfg.Now: derive the genesis timestamp once, all runs share it (same block ids)
	if n0, err := node.New(cfg, nil, 0); err == nil {
		ts = n0.GenesisTS
		n0.Close()
	}
	var wg sync.WaitGroup
	sem := make(chan struct{}, 12)
	for si, s := range scripts {
		si, s := si, s
		wg.Add(1)
		sem <- struct{}{}
		go func() {
			defer wg.Done()
			defer func() { <-sem }()
			defer func() {
				if e := recover(); e != nil {
					mu.Lock()
					out.Errors = append(out.Errors, fmt.Sprintf("script %d: %v", si, e))
					mu.Unlock()
				}
			}()
			prefix, last := s[:len(s)-1], &s[len(s)-1]
			pre, post, nops, _, _, err := run(cfg, ts, prefix, last, 0)
			if err != nil {
				mu.Lock()
				out.Errors = append(out.Errors, fmt.Sprintf("script %d: %v", si, err))
				mu.Unlock()
				return
			}
			gpre, gpost := byGroup(pre), byGroup(post)
			effects := []string{}
			for g := range gpost {
				if gpre[g] != gpost[g] {
					effects = append(effects, g)
				}
			}
			for g := range gpre {
				if _, ok := gpost[g]; !ok {
					effects = append(effects, g)
				}
			}
			sort.Strings(effects)
			ks := []int64{}
			if int(nops) <= maxPoints {
				// nops+1: the crash happens right after the step returned
				for k := int64(1); k <= nops+1; k++ {
					ks = append(ks, k)
				}
			} else {
				for i := 0; i < maxPoints; i++ {
					ks = append(ks, 1+int64(i)*nops/int64(maxPoints))
				}
			}
			kind := last.Op
			if last.Op == "delete" && last.SaveTemp {
				kind = "delete+temp"
			}
			for _, k := range ks {
				_, _, _, rec, inv, err := run(cfg, ts, prefix, last, k)
				if err != nil {
					mu.Lock()
					out.Errors = append(out.Errors, fmt.Sprintf("script %d k=%d: %v", si, k, err))
					mu.Unlock()
					return
				}
				durable := []string{}
				if rec != nil {
					grec := byGroup(rec)
					for _, g := range effects {
						switch {
						case grec[g] == gpost[g]:
							durable = append(durable, g)
						case grec[g] == gpre[g]:
						default:
							inv = append(inv, "key-space-neither-pre-nor-post:"+g)
						}
					}
				}
				if inv == nil {
					inv = []string{}
				}
				mu.Lock()
				out.CrashPoints++
				out.Steps[kind]++
				if len(durable) == 0 {
					out.Pre++
				} else if len(durable) == len(effects) {
					out.Post++
				}
				w.Emit(map[string]interface{}{"kind": kind, "k": k, "n": nops, "effects": effects, "durable": durable, "inv": inv, "script": si})
				if len(inv) > 0 {
					key := inv[0]
					if i := strings.Index(key, ":"); i > 0 {
						key = key[:i]
					}
					viol("recovery:"+kind+":"+key, fmt.Sprintf("after a crash at file-system operation %d/%d of %s the restarted node violates: %v", k, nops, kind, inv), map[string]interface{}{"script": s, "k": k})
				} else if len(durable) != 0 && len(durable) != len(effects) {
					viol("partial-step:"+kind, fmt.Sprintf("after a crash at file-system operation %d/%d of %s only %v of the step's effects %v are durable", k, nops, kind, durable, effects), map[string]interface{}{"script": s, "k": k})
				}
				mu.Unlock()
			}
		}()
	}
	wg.Wait()
	w.Close()
	tj.WriteJSON(os.Args[3], out)
}
