// c13: crash-point enumeration for block commit / removal (property C13).
// For the last step of each script (TLC-generated Node scripts, variants derived from them, fixed TLC-generated scripts):
// apply a block / delete the tip (with and without temporary copy) / restore a temporary block / LIP-0014 tie break /
// the genesis commit - the harness counts the file-system write/sync operations of that step on a strict in-memory file
// system and then, for every operation index k, re-runs the script from scratch, crashes at operation k under one of the
// two crash models of spec/Crash.tla
//
//	powerloss     everything not synced before operation k is lost (SetIgnoreSyncs + ResetToSyncedState)
//	processdeath  everything written before operation k survives (all files and directories are synced at k, then as above)
//
// reopens the database, restarts the node and records which state of the clean run (before the step / between the two
// stages of a tie break / after the step) the recovered database equals and whether the recovery invariants hold.
// spec/trace/CrashTrace.tla checks every record.
//
// The comparison ignores what the statement does not name: revert diffs and event records of heights at or below the
// finalized height stored in the SAME database (dead data: deleteBlock refuses those heights); pruning them later than,
// or separately from, the block batch is not a violation, pruning them before the finalized height is durable is.
//
// usage: c13 <scripts.ndjson> <config.json> <out.json> <trace.ndjson> <maxScripts> <maxPointsPerStep> [fin]
package main

import (
	"bufio"
	"bytes"
	"crypto/sha256"
	"encoding/json"
	"fmt"
	"os"
	"runtime/debug"
	"sort"
	"strconv"
	"strings"
	"sync"
	"sync/atomic"
	"time"

	"github.com/cockroachdb/pebble/vfs"

	"github.com/LiskHQ/lisk-engine/pkg/consensus/liskbft"
	"github.com/LiskHQ/lisk-engine/pkg/db"
	"github.com/LiskHQ/lisk-engine/pkg/db/diffdb"

	"verifharness/internal/node"
	"verifharness/internal/tj"
)

type Step struct {
	node.Cand
	Op       string `json:"op"`
	Accepted bool   `json:"accepted"`
	SaveTemp bool   `json:"saveTemp"`
	Ok       bool   `json:"ok"`
	Obs      struct {
		TipH uint32   `json:"tipH"`
		Fin  uint32   `json:"fin"`
		Temp []uint32 `json:"temp"`
	} `json:"obs"`
}

// Line is one input line: a TLC dump ({"script": [...]}) or a fixed / replayed script with its node parameters.
type Line struct {
	Script   []Step `json:"script"`
	Ke       *int   `json:"ke"`       // KeepEventsForHeights (nil: chosen by the harness)
	Batch    int    `json:"batch"`    // BFT batch size (0: config)
	Cache    int    `json:"cache"`    // block cache size (0: config)
	Verbatim bool   `json:"verbatim"` // replay: the script is taken as it is, nothing is derived from it
	Tag      string `json:"tag"`
}

type Script struct {
	Steps  []Step
	Ke     int
	Batch  int
	Cache  int
	Origin string
	Facets []string // static facets (from the script)
	Both   bool     // enumerated under both crash models
	Heavy  bool     // megabyte batches: a thinner sample of crash points
	Dense  bool     // every operation is a crash point
}

const (
	powerloss    = 0
	processdeath = 1
)

var modelName = []string{"powerloss", "processdeath"}

// ---- counting file system over StrictMem
type cfs struct {
	vfs.FS
	mem     *vfs.MemFS
	count   int64
	crashAt int64
	model   int32
	crashed int32
	logs    int64
}

// everything handed to the file system so far survives the death of the process
func (c *cfs) syncAll() {
	for _, dir := range []string{"data", ""} {
		if dir != "" {
			if names, err := c.mem.List(dir); err == nil {
				for _, nm := range names {
					if f, err := c.mem.Open(c.mem.PathJoin(dir, nm)); err == nil {
						f.Sync() //nolint
						f.Close()
					}
				}
			}
		}
		if d, err := c.mem.OpenDir(dir); err == nil {
			d.Sync() //nolint
			d.Close()
		}
	}
}

func (c *cfs) crash() {
	if atomic.CompareAndSwapInt32(&c.crashed, 0, 1) {
		if atomic.LoadInt32(&c.model) == processdeath {
			c.syncAll()
		}
		c.mem.SetIgnoreSyncs(true)
	}
}

func (c *cfs) op() {
	n := atomic.AddInt64(&c.count, 1)
	if at := atomic.LoadInt64(&c.crashAt); at > 0 && n == at {
		c.crash()
	}
}

type cfile struct {
	vfs.File
	fs *cfs
}

func (f *cfile) Write(p []byte) (int, error) { f.fs.op(); return f.File.Write(p) }
func (f *cfile) Sync() error                 { f.fs.op(); return f.File.Sync() }

func (c *cfs) wrap(f vfs.File, err error) (vfs.File, error) {
	if err != nil {
		return f, err
	}
	return &cfile{File: f, fs: c}, nil
}
func (c *cfs) Create(name string) (vfs.File, error) {
	if strings.HasSuffix(name, ".log") {
		atomic.AddInt64(&c.logs, 1) // a new write-ahead log: the memtable was rotated
	}
	c.op()
	return c.wrap(c.FS.Create(name))
}
func (c *cfs) Open(name string, opts ...vfs.OpenOption) (vfs.File, error) {
	return c.wrap(c.FS.Open(name, opts...))
}
func (c *cfs) OpenDir(name string) (vfs.File, error) { return c.wrap(c.FS.OpenDir(name)) }
func (c *cfs) ReuseForWrite(o, n string) (vfs.File, error) {
	if strings.HasSuffix(n, ".log") {
		atomic.AddInt64(&c.logs, 1)
	}
	c.op()
	return c.wrap(c.FS.ReuseForWrite(o, n))
}
func (c *cfs) Rename(o, n string) error { c.op(); return c.FS.Rename(o, n) }
func (c *cfs) Remove(n string) error    { c.op(); return c.FS.Remove(n) }

func newFS() *cfs {
	mem := vfs.NewStrictMem()
	c := &cfs{FS: mem, mem: mem}
	// the database directory must exist durably before the database is created in it
	if err := mem.MkdirAll("data", 0o755); err != nil {
		panic(err)
	}
	if d, err := mem.OpenDir(""); err == nil {
		d.Sync()
		d.Close()
	}
	if d, err := mem.OpenDir("data"); err == nil {
		d.Sync()
		d.Close()
	}
	return c
}

// dumpDB: node.DumpDB (sorted "key=value" lines in hex, the entries of a state diff in canonical order) with values of more
// than 256 bytes replaced by their length and SHA-256 (megabyte blocks are dumped thousands of times)
func dumpDB(d *db.DB) []string {
	res := []string{}
	for _, kv := range d.Iterate([]byte{}, -1, false) {
		k, v := kv.Key(), kv.Value()
		if len(k) > 0 && k[0] == 51 {
			// state diff: the order of its entries follows Go map iteration; compare it as a set
			df := &diffdb.Diff{}
			if err := df.Decode(v); err == nil {
				parts := []string{}
				for _, a := range df.Added {
					parts = append(parts, fmt.Sprintf("A:%x", a))
				}
				for _, u := range df.Updated {
					parts = append(parts, fmt.Sprintf("U:%x:%x", u.Key, u.Value))
				}
				for _, u := range df.Deleted {
					parts = append(parts, fmt.Sprintf("D:%x:%x", u.Key, u.Value))
				}
				sort.Strings(parts)
				res = append(res, fmt.Sprintf("%x=diff{%s}", k, strings.Join(parts, ",")))
				continue
			}
		}
		if len(v) > 256 {
			res = append(res, fmt.Sprintf("%x=#%d:%x", k, len(v), sha256.Sum256(v)))
			continue
		}
		res = append(res, fmt.Sprintf("%x=%x", k, v))
	}
	return res
}

var groups = map[string]string{"03": "block", "05": "block", "06": "block", "08": "block", "09": "block", "04": "indexes",
	"0a": "consensus", "33": "diff", "1b": "finalized", "07": "temp"}

func byGroup(d []string) map[string]string {
	m := map[string][]string{}
	for _, l := range d {
		g := groups[l[:2]]
		if g == "" {
			g = "other:" + l[:2]
		}
		m[g] = append(m[g], l)
	}
	r := map[string]string{}
	for g, ls := range m {
		r[g] = strings.Join(ls, "\n")
	}
	return r
}

// finOf: the finalized height stored in a dump (0 when there is none)
func finOf(d []string) uint32 {
	for _, l := range d {
		if strings.HasPrefix(l, "1b=") && len(l) >= 11 {
			var h uint32
			fmt.Sscanf(l[3:11], "%08x", &h)
			return h
		}
	}
	return 0
}

func heightOf(l string) (uint32, bool) {
	if len(l) < 10 {
		return 0, false
	}
	var h uint32
	if _, err := fmt.Sscanf(l[2:10], "%08x", &h); err != nil {
		return 0, false
	}
	return h, true
}

// tipOf: the largest height in the height index of a dump
func tipOf(d []string) uint32 {
	top := uint32(0)
	for _, l := range d {
		if strings.HasPrefix(l, "04") {
			if h, ok := heightOf(l); ok && h > top {
				top = h
			}
		}
	}
	return top
}

// norm is the projection the property talks about: the dump without
//   - the revert diffs (33) of heights at or below the finalized height stored in the same dump (deleteBlock refuses those
//     heights: the diffs are dead, whether and when they are pruned is not part of the statement), and
//   - the event records (09) the node's own configuration says need not be kept in that state (KeepEventsForHeights = ke >= 0:
//     heights up to min(finalized height, tip - ke), the range saveBlock prunes); with ke = -1 every event record counts.
//
// Pruning such data later than, or separately from, the block batch therefore is no violation; pruning it BEFORE the
// finalized height / tip that makes it dead is durable is one (the recovered state then lacks data its own finalized
// height still needs).
func norm(d []string, ke int) []string {
	fin := finOf(d)
	deadEv := int64(-1)
	if ke >= 0 {
		deadEv = int64(tipOf(d)) - int64(ke)
		if int64(fin) < deadEv {
			deadEv = int64(fin)
		}
	}
	res := make([]string, 0, len(d))
	for _, l := range d {
		if strings.HasPrefix(l, "33") {
			if h, ok := heightOf(l); ok && h <= fin {
				continue
			}
		}
		if strings.HasPrefix(l, "09") {
			if h, ok := heightOf(l); ok && int64(h) <= deadEv {
				continue
			}
		}
		res = append(res, l)
	}
	return res
}

func same(a, b []string) bool {
	if len(a) != len(b) {
		return false
	}
	for i := range a {
		if a[i] != b[i] {
			return false
		}
	}
	return true
}

type Violation struct {
	Key    string      `json:"key"`
	What   string      `json:"what"`
	Replay interface{} `json:"replay"`
}

type Out struct {
	Scripts     int            `json:"scripts"`
	Steps       map[string]int `json:"steps_by_kind"`
	Models      map[string]int `json:"crash_points_by_model"`
	Origins     map[string]int `json:"scripts_by_origin"`
	Facets      map[string]int `json:"crash_points_by_facet"`
	FacetScr    map[string]int `json:"scripts_by_facet"`
	CrashPoints int            `json:"crash_points"`
	Pre         int            `json:"recovered_pre_state"`
	Mid         int            `json:"recovered_between_stages"`
	Post        int            `json:"recovered_post_state"`
	Redone      int            `json:"steps_redone_after_recovery"`
	Skipped     int            `json:"scripts_without_file_system_operations"`
	Millis      map[string]int `json:"cpu_ms_by_origin"`
	Distinct    int            `json:"distinct_step_shapes"`
	Errors      []string       `json:"harness_errors"`
	Violations  []Violation    `json:"violations"`
}

func restart(n *node.Node, cfg *node.Config, ts uint32) (*node.Node, error) {
	n.StopExecuter()
	return node.New(cfg, n.DB, ts)
}

func doStep(n *node.Node, s *Step) error {
	switch s.Op {
	case "block":
		b := n.Build(&s.Cand)
		if err := n.Ex.VerifProcess(b, "12D3KooWverifpeer"); err != nil {
			return err
		}
		if !bytes.Equal(n.Tip().Header.ID, b.Header.ID) {
			return fmt.Errorf("block not accepted")
		}
	case "tiebreak":
		// LIP-0014 tie break through process(): the tip is removed (no temporary copy), the competitor applied, and the old
		// tip applied again when the competitor turns out to be invalid
		b := n.Build(&s.Cand)
		err := n.Ex.VerifProcess(b, "12D3KooWverifpeer")
		if acc := bytes.Equal(n.Tip().Header.ID, b.Header.ID); acc != s.Accepted {
			return fmt.Errorf("tie-break block accepted=%v, the script expects %v (%v)", acc, s.Accepted, err)
		}
	case "restore":
		// what restoreBlocks does after a failed chain switch: the temporary block above the tip is applied again and
		// its temporary copy removed (processValidated with removeTemp)
		tb, err := n.Chain.DataAccess().GetTempBlocks()
		if err != nil {
			return err
		}
		for _, x := range tb {
			if x.Header.Height == n.Tip().Header.Height+1 {
				if err := n.Ex.VerifProcessValidated(x, false, true); err != nil {
					return err
				}
				return nil
			}
		}
		return fmt.Errorf("no temporary block above the tip")
	case "delete":
		err := n.Ex.VerifDeleteBlock(n.Tip(), s.SaveTemp)
		if !s.Ok {
			// the script expects the refusal (tip at or below the finalized height): nothing changes
			if err == nil {
				return fmt.Errorf("delete at the finalized height was not refused")
			}
			return nil
		}
		return err
	}
	return nil
}

func (sc *Script) config(base *node.Config) *node.Config {
	c := *base
	ke := sc.Ke
	c.KeepEvents = &ke
	if sc.Batch > 0 {
		c.Batch = sc.Batch
	}
	if sc.Cache > 0 {
		c.CacheSize = sc.Cache
	}
	return &c
}

type result struct {
	pre, post []string // raw dumps of the clean run
	nops      int64
	rec       []string // raw dump found after the crash and the restart
	inv       []string
	redo      bool
	dyn       []string // facets seen in the clean run
}

// run replays prefix+last on a fresh strict file system; crashK = 0: no crash (measure), else crash at operation k of the last step
func run(cfg *node.Config, ts uint32, prefix []Step, last *Step, crashK int64, model int, post []string) (*result, error) {
	r := &result{}
	ke := -1
	if cfg.KeepEvents != nil {
		ke = *cfg.KeepEvents
	}
	fs := newFS()
	atomic.StoreInt32(&fs.model, int32(model))
	d, err := db.NewDBWithFS("data", fs)
	if err != nil {
		return nil, err
	}
	var n *node.Node
	var c0 int64
	if last.Op == "genesis" {
		// the genesis commit (Executer.Init -> processGenesisBlock -> AddBlock) on the empty database
		r.pre = dumpDB(d)
		c0 = atomic.LoadInt64(&fs.count)
		if crashK > 0 {
			atomic.StoreInt64(&fs.crashAt, c0+crashK)
		}
		n, err = node.New(cfg, d, ts)
		if err != nil {
			return nil, fmt.Errorf("genesis: %v", err)
		}
	} else {
		n, err = node.New(cfg, d, ts)
		if err != nil {
			return nil, err
		}
		for i := range prefix {
			if prefix[i].Op == "restart" {
				if n, err = restart(n, cfg, ts); err != nil {
					return nil, fmt.Errorf("prefix step %d (restart): %v", i, err)
				}
				continue
			}
			if e := doStep(n, &prefix[i]); e != nil {
				return nil, fmt.Errorf("prefix step %d: %v", i, e)
			}
		}
		r.pre = dumpDB(n.DB)
		if crashK == 0 {
			if strings.HasPrefix(last.Op, "delete") && n.Tip().Header.Height > 0 && !n.Chain.DataAccess().Cached(n.Tip().Header.Height-1) {
				r.dyn = append(r.dyn, "remove+cache-fallback")
			}
			if cfg.CacheSize > 0 && int(n.Tip().Header.Height) > cfg.CacheSize {
				r.dyn = append(r.dyn, "restart+chain-longer-than-cache")
			}
		}
		c0 = atomic.LoadInt64(&fs.count)
		l0 := atomic.LoadInt64(&fs.logs)
		if crashK > 0 {
			atomic.StoreInt64(&fs.crashAt, c0+crashK)
		}
		stepErr := doStep(n, last)
		if crashK == 0 && stepErr != nil {
			return nil, fmt.Errorf("last step: %v", stepErr)
		}
		if crashK == 0 && atomic.LoadInt64(&fs.logs) > l0 {
			// the batch did not fit the memtable: pebble switched to a new write-ahead log inside the step (the old log is
			// synced before the batch reaches the new one)
			r.dyn = append(r.dyn, "step+wal-rotation")
		}
	}
	r.nops = atomic.LoadInt64(&fs.count) - c0
	if crashK == 0 {
		r.post = dumpDB(n.DB)
		n.Close()
		return r, nil
	}
	// crash (at the latest now, after the step returned): what the crash model does not keep is lost
	fs.crash()
	n.StopExecuter()
	d.Close()
	fs.mem.ResetToSyncedState()
	fs.mem.SetIgnoreSyncs(false)
	atomic.StoreInt64(&fs.crashAt, 0)
	d2, err := db.NewDBWithFS("data", fs)
	if err != nil {
		r.inv = []string{"database-does-not-reopen: " + err.Error()}
		return r, nil
	}
	defer d2.Close()
	n2, err := node.New(cfg, d2, ts)
	if err != nil {
		r.inv = []string{"node-does-not-restart: " + err.Error()}
		return r, nil
	}
	defer n2.StopExecuter()
	r.rec = dumpDB(n2.DB)
	func() {
		defer func() {
			if e := recover(); e != nil {
				r.inv = []string{fmt.Sprintf("restarted-node-unusable: %v", e)}
			}
		}()
		r.inv = invariants(n2)
		// the node that restarted on the state before the step can perform the step (Crash.tla Redo); a tie break cannot be
		// repeated: the restarted node has no receive time for its tip
		if len(r.inv) == 0 && post != nil && same(norm(r.rec, ke), norm(r.pre, ke)) && (last.Op == "block" || last.Op == "delete" || last.Op == "restore") {
			r.redo = true
			if e := doStep(n2, last); e != nil {
				r.inv = append(r.inv, "restarted-node-cannot-redo-step: "+e.Error())
			} else if !same(norm(dumpDB(n2.DB), ke), norm(post, ke)) {
				r.inv = append(r.inv, "restarted-node-cannot-redo-step: the step performed after the restart does not reach the state of the uninterrupted step")
			}
		}
	}()
	return r, nil
}

// recovery invariants of C13 on the restarted node
func invariants(n *node.Node) []string {
	res := []string{}
	if n.Tip() == nil || n.Tip().Header == nil {
		// the block the height index names as the tip cannot be loaded: the node comes up without a tip
		return []string{"no-tip-after-restart"}
	}
	tip := n.Tip().Header.Height
	fin, err := n.Chain.DataAccess().GetFinalizedHeight()
	if err != nil {
		res = append(res, "finalized-height-unreadable")
	} else if fin > tip {
		res = append(res, fmt.Sprintf("finalized-height-%d-above-tip-%d", fin, tip))
	}
	for h := uint32(0); h <= tip; h++ {
		if _, err := n.Chain.DataAccess().GetBlockByHeight(h); err != nil {
			res = append(res, fmt.Sprintf("height-index-points-at-missing-data:%d", h))
		}
	}
	if tip > 0 {
		v, err := liskbft.VerifDumpVotes(n.Ex.VerifConsensusStore())
		if err != nil || len(v.Infos) == 0 {
			res = append(res, "consensus-store-unreadable")
		} else {
			// the newest block the consensus store knows (wherever it keeps it in its window)
			top := uint32(0)
			for _, in := range v.Infos {
				if in.Height > top {
					top = in.Height
				}
			}
			if top != tip {
				res = append(res, fmt.Sprintf("consensus-store-at-%d-tip-at-%d", top, tip))
			}
		}
	}
	dump := dumpDB(n.DB)
	have := map[uint32]bool{}
	for _, l := range dump {
		if strings.HasPrefix(l, "33") {
			if h, ok := heightOf(l); ok {
				have[h] = true
				if h > tip {
					res = append(res, fmt.Sprintf("diff-without-block:%d", h))
				}
			}
		}
	}
	// every block above the finalized height can still be removed (its diff exists)
	for h := fin + 1; h <= tip; h++ {
		if !have[h] {
			res = append(res, fmt.Sprintf("block-without-diff:%d", h))
		}
	}
	return res
}

// ---- script analysis

func effective(s *Step) bool {
	switch s.Op {
	case "block":
		return s.Accepted
	case "delete":
		return s.Ok
	case "tiebreak":
		// the competitor replaces the tip, or is invalid in a way only its execution shows: the tip is removed and put back
		return s.Accepted || s.Mut == "tiebreak-sig-wrongkey" || s.Mut == "tiebreak-stateroot"
	}
	return false
}

func kindOf(last *Step) string {
	switch {
	case last.Op == "delete" && last.SaveTemp:
		return "delete+temp"
	case last.Op == "tiebreak" && !last.Accepted:
		return "tiebreak-bad"
	}
	return last.Op
}

// analyse returns the static facets of the last step and the shape key used to drop equal-looking scripts
func analyse(s []Step) ([]string, string) {
	last := &s[len(s)-1]
	// the blocks of the chain before the last step (index into s), the finalized height and the temporary blocks before it
	stackAt := func(n int) []int {
		stack := []int{}
		for i := 0; i < n; i++ {
			switch {
			case s[i].Op == "block" && s[i].Accepted:
				stack = append(stack, i)
			case s[i].Op == "delete" && s[i].Ok && len(stack) > 0:
				stack = stack[:len(stack)-1]
			case s[i].Op == "tiebreak" && s[i].Accepted && len(stack) > 0:
				stack[len(stack)-1] = i
			}
		}
		return stack
	}
	stack := stackAt(len(s) - 1)
	finBefore, tempBefore, restarted := uint32(0), 0, false
	if len(s) > 1 {
		finBefore, tempBefore = s[len(s)-2].Obs.Fin, len(s[len(s)-2].Obs.Temp)
	}
	chgBefore := 0
	for _, i := range stack {
		if s[i].Chg > 0 {
			chgBefore++
		}
	}
	for i := 0; i < len(s)-1; i++ {
		if s[i].Op == "restart" {
			restarted = true
		}
	}
	f := []string{}
	kind := kindOf(last)
	applied := func(p string, b *Step) {
		if b.Chg > 0 {
			f = append(f, p+"+chg-block")
		}
		if b.Ntx > 0 {
			f = append(f, p+"+tx-block")
		}
		if b.Ntx >= 3 && b.Payload != "big" {
			f = append(f, p+"+multi-tx-block")
		}
		if b.Payload == "big" {
			f = append(f, p+"+megabyte-block")
		}
		if b.Ac.Kind == "valid" {
			f = append(f, p+"+valid-ac-block")
		}
	}
	removed := ""
	switch last.Op {
	case "block":
		applied("apply", last)
		if last.Obs.Fin > finBefore {
			f = append(f, "apply+fin-raise")
		}
		if last.Obs.Fin > finBefore+1 {
			f = append(f, "apply+fin-jump")
		}
		if tempBefore > 0 {
			f = append(f, "apply+temp-present")
		}
		if chgBefore > 0 {
			f = append(f, "apply+after-chg")
		}
	case "delete", "tiebreak":
		p := "remove"
		if last.Op == "tiebreak" {
			p = kind
		}
		if len(stack) > 0 {
			b := &s[stack[len(stack)-1]]
			applied(p, b)
			removed = fmt.Sprintf("%d/%d/%s/%s", b.Chg, b.Ntx, b.Ac.Kind, b.Payload)
			// did the removed block raise the finalized height when it was applied?
			i := stack[len(stack)-1]
			if (i == 0 && b.Obs.Fin > 0) || (i > 0 && b.Obs.Fin > s[i-1].Obs.Fin) {
				f = append(f, p+"+fin-raising-block")
				removed += "/finraise"
			}
		}
		if tempBefore > 0 {
			f = append(f, p+"+temp-present")
		}
		if last.Op == "tiebreak" && last.Obs.Fin > finBefore {
			f = append(f, kind+"+fin-raise")
		}
	case "restore":
		// the restored block is the one the delete+temp step before it removed
		if st := stackAt(len(s) - 2); len(s) >= 2 && len(st) > 0 {
			applied("restore", &s[st[len(st)-1]])
		}
	}
	if restarted {
		f = append(f, "after-restart")
	}
	shape := fmt.Sprintf("%s/%d/%s/%d/%d/%v/len%d/fin%d/rm%s/t%d/c%d/%s", last.Op, last.Chg, last.Ac.Kind, last.Ntx, last.H, last.SaveTemp, len(s), last.Obs.Fin,
		removed, tj.B(tempBefore > 0), chgBefore, last.Mut)
	return f, shape
}

func cloneSteps(s []Step, extra ...Step) []Step {
	return append(append([]Step{}, s...), extra...)
}

func main() {
	if len(os.Args) < 7 {
		fmt.Fprintln(os.Stderr, "usage: c13 scripts.ndjson config.json out.json trace.ndjson maxScripts maxPoints [fin]")
		os.Exit(2)
	}
	debug.SetGCPercent(400) // thousands of short-lived databases: collect less often
	cfg := &node.Config{}
	cb, err := os.ReadFile(os.Args[2])
	if err == nil {
		err = json.Unmarshal(cb, cfg)
	}
	if err != nil {
		panic(err)
	}
	cfg.Network = false
	if cfg.MaxTxs == 0 {
		cfg.MaxTxs = 15 * 1024
	}
	maxScripts, _ := strconv.Atoi(os.Args[5])
	maxPoints, _ := strconv.Atoi(os.Args[6])
	finOnly := len(os.Args) > 7 && os.Args[7] == "fin"
	seed := tj.EnvInt("VERIF_SEED", 1)
	maxFixed, maxBig := 6, 1 // last steps taken from the tail of a fixed script; plain megabyte blocks
	if os.Getenv("VERIF_TIER") == "thorough" {
		maxFixed, maxBig = 12, 3
	}
	f, err := os.Open(os.Args[1])
	if err != nil {
		panic(err)
	}
	sc := bufio.NewScanner(f)
	sc.Buffer(make([]byte, 1<<20), 1<<26)
	var cands, fixed []*Script
	shapes := map[string]bool{}
	perTag := map[string]int{}
	verbatim := false
	for sc.Scan() {
		d := &Line{}
		if json.Unmarshal(sc.Bytes(), d) != nil || len(d.Script) == 0 {
			continue
		}
		if d.Verbatim {
			// replay of a recorded violation: exactly this script, every crash point, both crash models
			ke := -1
			if d.Ke != nil {
				ke = *d.Ke
			}
			verbatim = true
			fa, _ := analyse(d.Script)
			fixed = append(fixed, &Script{Steps: d.Script, Ke: ke, Batch: d.Batch, Cache: d.Cache, Origin: "replay", Both: true, Facets: fa})
			continue
		}
		s := d.Script
		if finOnly {
			// C04: cut after the last applied block that raises the finalized height
			for len(s) > 0 && !(s[len(s)-1].Op == "block" && s[len(s)-1].Accepted && ((len(s) == 1 && s[0].Obs.Fin > 0) || (len(s) > 1 && s[len(s)-1].Obs.Fin > s[len(s)-2].Obs.Fin))) {
				s = s[:len(s)-1]
			}
		}
		// cut the script after its last step that took effect; a tie break is a last step of its own, and the script
		// before it is looked at as well
		for {
			for len(s) > 0 && !(effective(&s[len(s)-1]) && !(finOnly && s[len(s)-1].Op == "tiebreak")) {
				s = s[:len(s)-1]
			}
			if len(s) == 0 {
				break
			}
			fa, shape := analyse(s)
			if d.Tag != "" {
				shape = d.Tag + "/" + shape
			}
			if !shapes[shape] {
				shapes[shape] = true
				c := &Script{Steps: s, Ke: -1, Batch: d.Batch, Cache: d.Cache, Origin: "tlc", Facets: fa}
				if d.Tag != "" {
					// a fixed TLC-generated script with its own node parameters (long chain, small block cache): always taken,
					// with every effective step of its tail as a last step
					c.Origin = "fixed:" + d.Tag
					c.Both = true
					if d.Ke != nil {
						c.Ke = *d.Ke
					}
					fixed = append(fixed, c)
					perTag[d.Tag]++
				} else {
					cands = append(cands, c)
				}
			}
			if s[len(s)-1].Op != "tiebreak" && d.Tag == "" {
				break
			}
			if d.Tag != "" && perTag[d.Tag] >= maxFixed {
				break
			}
			s = s[:len(s)-1]
		}
	}
	// ---- selection: representatives of every facet first (so that no facet depends on where the cap falls), then file order
	var scripts, fatBases []*Script
	if !verbatim {
		taken := map[*Script]bool{}
		perFacet := map[string]int{}
		if !finOnly {
			for _, c := range cands {
				want := false
				for _, fa := range c.Facets {
					if perFacet[fa] < 3 {
						want = true
					}
				}
				if want && len(scripts) < maxScripts {
					for _, fa := range c.Facets {
						perFacet[fa]++
					}
					c.Both = true
					taken[c] = true
					scripts = append(scripts, c)
				}
			}
		}
		for _, c := range cands {
			if !taken[c] && len(scripts) < maxScripts {
				scripts = append(scripts, c)
			}
		}
		// event pruning (saveBlock with keepEventsForHeights >= 0) for half of the scripts, the second crash model for a
		// quarter of those that represent no facet
		if !finOnly {
			for i, c := range scripts {
				if (i+seed)%2 == 1 {
					c.Ke = ((i + seed) / 2) % 3
				}
				if (i+seed)%4 == 0 {
					c.Both = true
				}
			}
		}
	}
	has := func(c *Script, fa string) bool {
		for _, x := range c.Facets {
			if x == fa {
				return true
			}
		}
		return false
	}
	derive := func(base *Script, origin string, ke int, both bool, extra ...Step) *Script {
		st := cloneSteps(base.Steps, extra...)
		fa, _ := analyse(st)
		c := &Script{Steps: st, Ke: ke, Batch: base.Batch, Cache: base.Cache, Origin: "derived:" + origin, Facets: fa, Both: both}
		scripts = append(scripts, c)
		return c
	}
	del, delTemp, restore := Step{Op: "delete", Ok: true}, Step{Op: "delete", Ok: true, SaveTemp: true}, Step{Op: "restore"}
	if !verbatim {
		scripts = append(scripts, fixed...)
		fixed = nil
		n0 := len(scripts)
		// the restoration of a block removed with a temporary copy (as today: for every such script)
		for _, c := range scripts[:n0] {
			if kindOf(&c.Steps[len(c.Steps)-1]) == "delete+temp" {
				derive(c, "restore", c.Ke, c.Both, restore)
			}
		}
	}
	if !verbatim && !finOnly {
		n0 := len(scripts)
		removals := func(c *Script, ke int) {
			derive(c, "removal", ke, true, del)
			derive(c, "removal", ke, true, delTemp)
			derive(c, "removal", ke, true, delTemp, restore)
		}
		nbig, nmulti, nchg, nac, nfin, nke := 0, 0, 0, 0, 0, 0
		for _, c := range scripts[:n0] {
			last := c.Steps[len(c.Steps)-1]
			if !(last.Op == "block" && last.Accepted) {
				continue
			}
			if last.Chg == 0 && nbig < maxBig {
				// a block whose write batch is megabytes large (160 transactions of 14 kB): the whole of it is still one atomic
				// step - and so are its removal (160 deletions), the removal with a temporary copy of 2 MB and its restoration
				big := derive(c, "megabyte-block", c.Ke, nbig == 0)
				big.Steps[len(big.Steps)-1].Ntx = 160
				big.Steps[len(big.Steps)-1].Payload = "big"
				big.Facets, _ = analyse(big.Steps)
				big.Heavy = true
				if nbig == 0 {
					m := len(scripts)
					removals(big, c.Ke)
					for _, x := range scripts[m:] {
						x.Heavy = true
					}
				}
				nbig++
			} else if last.Chg == 0 && last.Ac.Kind == "empty" && nmulti < 3 {
				// an ordinary block with 3-5 transactions, and its removal
				multi := derive(c, "multi-tx-block", c.Ke, true)
				multi.Steps[len(multi.Steps)-1].Ntx = 3 + nmulti
				multi.Facets, _ = analyse(multi.Steps)
				if nmulti == 0 {
					removals(multi, c.Ke)
				}
				nmulti++
			}
			if last.Chg > 0 && nchg < 1 {
				removals(c, c.Ke)
				nchg++
			}
			if last.Ac.Kind == "valid" && nac < 1 {
				removals(c, c.Ke)
				nac++
			}
			if has(c, "apply+fin-raise") && nfin < 1 {
				removals(c, c.Ke)
				nfin++
			}
			// finality-raising blocks prune event records when events are kept for few heights only
			if has(c, "apply+fin-raise") && c.Ke != 0 && nke < 8 && (nke < 4 || has(c, "apply+fin-jump")) {
				derive(c, "keep-events-0", 0, true)
				nke++
			}
		}
		// blocks that RAISE THE FINALIZED HEIGHT on a node that prunes event records (KeepEventsForHeights 0 and 1):
		// (i) megabyte blocks (one large batch, written to the current log before the memtable is switched);
		// (ii) chains of 60-220 kB blocks, see fatChains below
		nmf := 0
		for _, c := range scripts[:n0] {
			last := c.Steps[len(c.Steps)-1]
			// (simulated scripts first - their prefixes are short; the long chain's finality-raising tips otherwise)
			if last.Op == "block" && last.Accepted && has(c, "apply+fin-raise") && last.Payload != "big" {
				if nmf < 2 {
					x := derive(c, "megabyte-finality-block", nmf%2, true)
					x.Steps[len(x.Steps)-1].Ntx = 160
					x.Steps[len(x.Steps)-1].Payload = "big"
					x.Facets, _ = analyse(x.Steps)
					x.Facets = append(x.Facets, "apply+megabyte-fin-raise-events-pruned")
					x.Heavy = true
					nmf++
				}
				if len(fatBases) < 3 {
					fatBases = append(fatBases, c)
				}
			}
		}
		// the genesis commit
		scripts = append(scripts, &Script{Steps: []Step{{Op: "genesis"}}, Ke: -1, Origin: "genesis", Facets: []string{"genesis"}, Both: true})
	}
	scripts = append(scripts, fixed...)

	out := &Out{Scripts: len(scripts), Steps: map[string]int{}, Models: map[string]int{}, Origins: map[string]int{}, Facets: map[string]int{},
		FacetScr: map[string]int{}, Distinct: len(shapes), Millis: map[string]int{}}
	w, err := tj.NewWriter(os.Args[4])
	if err != nil {
		panic(err)
	}
	var mu sync.Mutex
	perKey := map[string]int{}
	viol := func(key, what string, replay interface{}) {
		perKey[key]++
		if perKey[key] <= 2 {
			out.Violations = append(out.Violations, Violation{key, what, replay})
		}
	}
	fail := func(msg string) {
		mu.Lock()
		out.Errors = append(out.Errors, msg)
		mu.Unlock()
	}
	ts := uint32(1700000000)
	// real time must lie in slot cfg.Now: derive the genesis timestamp once, all runs share it (same block ids)
	if n0, err := node.New(cfg, nil, 0); err == nil {
		ts = n0.GenesisTS
		n0.Close()
	}
	// (ii) fat chains: every block of the script carries 4-16 transactions of 14 kB.  Such a batch is an ordinary one, and
	// when it does not fit what is left of the memtable pebble switches to a new write-ahead log INSIDE the commit: the old
	// log is closed and synced first - whatever was written to it unsynced just before the batch is then durable without
	// the batch.  Which block meets the end of a memtable depends on the sizes: the payload is varied until the switch
	// falls into the finality-raising last step (seen in the clean run), two variants per base script, every file-system
	// operation of the step a crash point under both crash models.
	{
		var fwg sync.WaitGroup
		found := make([][]*Script, len(fatBases))
		for bi, base := range fatBases {
			bi, base := bi, base
			fwg.Add(1)
			go func() {
				defer fwg.Done()
				defer func() { recover() }() //nolint
				for try := 0; try < 39; try++ {
					// the blocks of the prefix carry ntx transactions, the last one a few more (the less is left of the
					// memtable the prefix filled, the sooner it does not fit)
					ntx := []int{10, 6, 14, 8, 12, 5, 16, 7, 9, 11, 13, 4, 15}[try%13]
					lastNtx := ntx + []int{0, 6, 3}[try/13]
					if lastNtx > 20 {
						lastNtx = 20
					}
					if len(found[bi]) >= 2 {
						break
					}
					st := cloneSteps(base.Steps)
					for i := range st {
						if st[i].Op == "block" {
							st[i].Ntx, st[i].Payload = ntx, "big"
						}
					}
					st[len(st)-1].Ntx = lastNtx
					x := &Script{Steps: st, Ke: (bi + len(found[bi])) % 2, Batch: base.Batch, Cache: base.Cache, Origin: "derived:fat-chain", Both: true, Heavy: true, Dense: true}
					clean, err := run(x.config(cfg), ts, st[:len(st)-1], &st[len(st)-1], 0, powerloss, nil)
					if os.Getenv("C13_DEBUG") != "" {
						fmt.Fprintf(os.Stderr, "fat-chain base %d ntx %d/%d: err=%v rotation=%v\n", bi, ntx, lastNtx, err, clean != nil && contains(clean.dyn, "step+wal-rotation"))
					}
					if err == nil && contains(clean.dyn, "step+wal-rotation") {
						x.Facets, _ = analyse(st)
						x.Facets = append(x.Facets, "apply+fat-chain-fin-raise-events-pruned+wal-rotation")
						found[bi] = append(found[bi], x)
					}
				}
			}()
		}
		fwg.Wait()
		nfat := 0
		for _, f := range found {
			for _, x := range f {
				if nfat < 4 {
					scripts = append(scripts, x)
					nfat++
				}
			}
		}
		out.Scripts = len(scripts)
	}
	var wg sync.WaitGroup
	sem := make(chan struct{}, 12)
	for si, s := range scripts {
		si, s := si, s
		wg.Add(1)
		sem <- struct{}{}
		go func() {
			defer wg.Done()
			defer func() { <-sem }()
			defer func() {
				if e := recover(); e != nil {
					fail(fmt.Sprintf("script %d: %v", si, e))
				}
			}()
			t0 := time.Now()
			defer func() {
				mu.Lock()
				o := s.Origin
				if s.Heavy {
					o += "(megabyte)"
				}
				out.Millis[o] += int(time.Since(t0).Milliseconds())
				mu.Unlock()
			}()
			scfg := s.config(cfg)
			prefix, last := s.Steps[:len(s.Steps)-1], &s.Steps[len(s.Steps)-1]
			kind := kindOf(last)
			clean, err := run(scfg, ts, prefix, last, 0, powerloss, nil)
			if err != nil {
				fail(fmt.Sprintf("script %d (%s): %v", si, s.Origin, err))
				return
			}
			nops := clean.nops
			if nops == 0 {
				// the step never reached the file system (e.g. a tie-break candidate refused before the tip is touched)
				mu.Lock()
				out.Skipped++
				mu.Unlock()
				return
			}
			// the states of the clean run a crash may leave: before the step, [between the stages of a tie break], after it
			stages := [][]string{norm(clean.pre, s.Ke), norm(clean.post, s.Ke)}
			if last.Op == "tiebreak" {
				d0 := del
				mid, err := run(scfg, ts, prefix, &d0, 0, powerloss, nil)
				if err != nil {
					fail(fmt.Sprintf("script %d (%s): removal of the tip alone: %v", si, s.Origin, err))
					return
				}
				stages = [][]string{norm(clean.pre, s.Ke), norm(mid.post, s.Ke), norm(clean.post, s.Ke)}
			}
			gst := make([]map[string]string, len(stages))
			allg := map[string]bool{}
			for i, st := range stages {
				gst[i] = byGroup(st)
				for g := range gst[i] {
					allg[g] = true
				}
			}
			gpre, gpost := gst[0], gst[len(gst)-1]
			effects := []string{}
			for g := range allg {
				if gpre[g] != gpost[g] {
					effects = append(effects, g)
				}
			}
			sort.Strings(effects)
			// facets the clean run shows
			facets := append(append([]string{}, s.Facets...), clean.dyn...)
			if s.Ke >= 0 {
				facets = append(facets, "events-pruned-by-config")
			}
			if last.Op == "block" || last.Op == "restore" || last.Op == "tiebreak" {
				finPre := finOf(clean.pre)
				inPost := map[string]bool{}
				for _, l := range clean.post {
					inPost[l[:strings.Index(l, "=")]] = true
				}
				seen := map[string]bool{}
				for _, l := range clean.pre {
					if (strings.HasPrefix(l, "33") || strings.HasPrefix(l, "09")) && !inPost[l[:strings.Index(l, "=")]] {
						h, _ := heightOf(l)
						if last.Op == "tiebreak" && h == tipOf(clean.pre) {
							continue // the removed tip's own records
						}
						what := map[string]string{"33": "diffs", "09": "events"}[l[:2]]
						seen["apply+prunes-"+what] = true
						if h > finPre {
							seen["apply+prunes-live-"+what] = true
						}
					}
				}
				for fa := range seen {
					facets = append(facets, fa)
				}
			}
			for _, d := range [][]string{clean.pre, clean.post} {
				for _, l := range d {
					if strings.HasPrefix(l, "33") && strings.Contains(l, "D:") {
						if h, _ := heightOf(l); h > 0 && !contains(facets, "diff-with-deleted-consensus-keys") {
							facets = append(facets, "diff-with-deleted-consensus-keys")
						}
					}
				}
			}
			if len(byGroup(clean.pre)["temp"]) > 0 && !contains(facets, kindPrefix(last)+"+temp-present") {
				facets = append(facets, kindPrefix(last)+"+temp-present")
			}
			models := []int{powerloss}
			if s.Both {
				models = append(models, processdeath)
			}
			for _, model := range models {
				// megabyte batches have a hundred operations and each run copies megabytes: a thinner sample (the thorough tier
				// passes a larger maxPoints)
				mp := maxPoints
				if s.Heavy {
					mp = maxPoints * 4 / 10
					if model == processdeath {
						mp = maxPoints * 2 / 10
					}
				}
				if s.Dense {
					mp = int(nops) + 1
				}
				redone := false
				ks := []int64{}
				if int(nops) <= mp {
					// nops+1: the crash happens right after the step returned
					for k := int64(1); k <= nops+1; k++ {
						ks = append(ks, k)
					}
				} else {
					// a sample that always contains the last operation and the point right after the step
					for i := 0; i < mp-2; i++ {
						ks = append(ks, 1+int64(i)*(nops-1)/int64(mp-2))
					}
					ks = append(ks, nops, nops+1)
				}
				for _, k := range ks {
					// the step is performed again once per script and crash model: on the first crash point that recovers the
					// state before the step (later ones recover the same database)
					var redoPost []string
					if !redone {
						redoPost = clean.post
					}
					r, err := run(scfg, ts, prefix, last, k, model, redoPost)
					if err != nil {
						fail(fmt.Sprintf("script %d (%s) k=%d: %v", si, s.Origin, k, err))
						return
					}
					inv := r.inv
					durable := []string{}
					state := -1
					if r.rec != nil {
						rec := norm(r.rec, s.Ke)
						for i := range stages {
							if same(rec, stages[i]) {
								state = i
								break
							}
						}
						grec := byGroup(rec)
						gs := map[string]bool{}
						for g := range allg {
							gs[g] = true
						}
						for g := range grec {
							gs[g] = true
						}
						names := []string{}
						for g := range gs {
							names = append(names, g)
						}
						sort.Strings(names)
						for _, g := range names {
							known := false
							for i := range gst {
								if grec[g] == gst[i][g] {
									known = true
								}
							}
							if !known {
								// also a key space the step does not touch at all, or one that exists only in between
								inv = append(inv, "key-space-neither-pre-nor-post:"+g)
							} else if gpre[g] != gpost[g] && grec[g] == gpost[g] {
								durable = append(durable, g)
							}
						}
						if last.Op == "genesis" && state != len(stages)-1 {
							inv = append(inv, "genesis-not-complete-after-restart")
						}
					}
					if inv == nil {
						inv = []string{}
					}
					replay := map[string]interface{}{"script": s.Steps, "k": k, "model": modelName[model], "ke": s.Ke, "batch": s.Batch, "cache": s.Cache}
					mu.Lock()
					out.CrashPoints++
					out.Steps[kind]++
					out.Models[modelName[model]]++
					for _, fa := range facets {
						out.Facets[fa]++
					}
					if r.redo {
						redone = true
						out.Redone++
					}
					switch {
					case state == 0:
						out.Pre++
					case state == len(stages)-1:
						out.Post++
					case state > 0:
						out.Mid++
					}
					w.Emit(map[string]interface{}{"kind": kind, "model": modelName[model], "k": k, "n": nops, "stages": len(stages) - 1, "state": state,
						"effects": effects, "durable": durable, "inv": inv, "script": si, "origin": s.Origin, "ke": s.Ke})
					if len(inv) > 0 {
						key := inv[0]
						if i := strings.Index(key, ":"); i > 0 {
							key = key[:i]
						}
						viol("recovery:"+kind+":"+key, fmt.Sprintf("after a crash (%s) at file-system operation %d/%d of %s the restarted node violates: %v", modelName[model], k, nops, kind, inv), replay)
					} else if state < 0 {
						viol("partial-step:"+kind, fmt.Sprintf("after a crash (%s) at file-system operation %d/%d of %s only %v of the step's effects %v are durable", modelName[model], k, nops, kind, durable, effects), replay)
					}
					mu.Unlock()
				}
			}
			mu.Lock()
			out.Origins[strings.SplitN(s.Origin, ":", 2)[0]]++
			for _, fa := range facets {
				out.FacetScr[fa]++
			}
			mu.Unlock()
		}()
	}
	wg.Wait()
	w.Close()
	tj.WriteJSON(os.Args[3], out)
}

func contains(l []string, x string) bool {
	for _, y := range l {
		if y == x {
			return true
		}
	}
	return false
}

func kindPrefix(last *Step) string {
	switch last.Op {
	case "block":
		return "apply"
	case "delete":
		return "remove"
	case "tiebreak":
		return kindOf(last)
	}
	return last.Op
}
