// c14: seeded driver + recorder for the real txpool.TransactionPool (property C14).
//
// The pool is built with a stub ABI whose VerifyTransaction answers are scripted per transaction
// (ok / pending / invalid / error) and a stub connection.  After EVERY operation the driver records the
// operation, its result, the verifier calls it caused and VerifSnapshot() as one ndjson line;
// spec/trace/TxPoolTrace.tla validates every recorded post-state against spec/TxPool.tla.
// Every call runs under a watchdog: a call that does not return is recorded as "blocked" together with
// the head of the goroutine dump, the pool instance is abandoned and the run continues with a fresh one.
//
// usage: c14 seq    <out.ndjson> <meta.json> <sequences>     random sequential sequences, snapshot per op
//        c14 ilv    <out.ndjson> <meta.json> <sequences>     promotion suspended inside the verifier while other calls run
//        c14 conc   <out.ndjson> <meta.json> <runs>          N goroutines, snapshot at quiescence
//        c14 script <out.ndjson> <meta.json> <script.json>   explicit sequences (replay files)
package main

import (
	"bytes"
	"context"
	"encoding/json"
	"errors"
	"fmt"
	"math/rand"
	"os"
	"regexp"
	"runtime"
	"runtime/debug"
	"sort"
	"strconv"
	"strings"
	"sync"
	"time"

	"github.com/LiskHQ/lisk-engine/pkg/blockchain"
	"github.com/LiskHQ/lisk-engine/pkg/codec"
	"github.com/LiskHQ/lisk-engine/pkg/labi"
	"github.com/LiskHQ/lisk-engine/pkg/log"
	"github.com/LiskHQ/lisk-engine/pkg/p2p"
	"github.com/LiskHQ/lisk-engine/pkg/txpool"

	"verifharness/internal/tj"
)

// ---------------------------------------------------------------- transaction universe (fixed, seed independent)

const nSenders = 3

var uNonces = []uint64{0, 1, 2, 3, 4, 7}
var uFees = []uint64{100, 200, 201, 400, 600} // fee / size (about 190 bytes) gives the priorities 0,1,1,2,3
const nVariants = 2

type txDef struct {
	ID     int    `json:"id"`
	Sender int    `json:"sender"`
	Nonce  uint64 `json:"nonce"`
	Fee    uint64 `json:"fee"`
	Size   int    `json:"size"`
	tx     *blockchain.Transaction
}

var universe []*txDef          // index = id-1
var idOf = map[string]int{}    // string(tx.ID) -> id
var senderOf = map[string]int{} // string(address) -> sender

func buildUniverse() {
	for s := 1; s <= nSenders; s++ {
		pk := bytes.Repeat([]byte{byte(s)}, 32)
		for _, n := range uNonces {
			for _, f := range uFees {
				for v := 0; v < nVariants; v++ {
					tx := &blockchain.Transaction{
						Module:          "token",
						Command:         "transfer",
						Nonce:           n,
						Fee:             f,
						SenderPublicKey: pk,
						Params:          append([]byte{byte(v)}, bytes.Repeat([]byte{0xab}, 59)...),
						Signatures:      []codec.Hex{bytes.Repeat([]byte{byte(v + 1)}, 64)},
					}
					tx.Init()
					d := &txDef{ID: len(universe) + 1, Sender: s, Nonce: n, Fee: f, Size: tx.Size(), tx: tx}
					universe = append(universe, d)
					idOf[string(tx.ID)] = d.ID
					senderOf[string(tx.SenderAddress())] = s
				}
			}
		}
	}
}

func def(id int) *txDef { return universe[id-1] }

// ---------------------------------------------------------------- stubs

type call struct {
	T int    `json:"t"`
	V string `json:"v"`
}

type stubABI struct {
	mu       sync.Mutex
	verdict  map[int]string
	calls    []call
	jitter   bool
	pauseAt  int // suspend the pauseAt-th call of the current operation (ilv mode); 0 = never
	ncalls   int
	paused   chan struct{}
	release  chan struct{}
	jitterRn *rand.Rand
}

func newStub() *stubABI {
	return &stubABI{verdict: map[int]string{}, paused: make(chan struct{}, 1), release: make(chan struct{})}
}

func (a *stubABI) VerifyTransaction(req *labi.VerifyTransactionRequest) (*labi.VerifyTransactionResponse, error) {
	id := idOf[string(req.Transaction.ID)]
	a.mu.Lock()
	v := a.verdict[id]
	if v == "" {
		v = "ok"
	}
	rec := v
	if v == "error" {
		rec = "invalid" // an ABI error counts as invalid
	}
	a.calls = append(a.calls, call{id, rec})
	a.ncalls++
	pause := a.pauseAt > 0 && a.ncalls == a.pauseAt
	var nap time.Duration
	if a.jitter {
		switch a.jitterRn.Intn(4) {
		case 0:
			nap = time.Duration(1+a.jitterRn.Intn(200)) * time.Microsecond
		case 1:
			nap = -1
		}
	}
	a.mu.Unlock()
	if pause {
		a.paused <- struct{}{}
		<-a.release
	}
	if nap > 0 {
		time.Sleep(nap)
	} else if nap < 0 {
		runtime.Gosched()
	}
	switch v {
	case "error":
		return nil, errors.New("abi error")
	case "invalid":
		return &labi.VerifyTransactionResponse{Result: labi.TxVerifyResultInvalid}, nil
	case "pending":
		return &labi.VerifyTransactionResponse{Result: labi.TxVerifyResultPending}, nil
	}
	return &labi.VerifyTransactionResponse{Result: labi.TxVerifyResultOk}, nil
}

func (a *stubABI) takeCalls() []call {
	a.mu.Lock()
	defer a.mu.Unlock()
	c := a.calls
	if c == nil {
		c = []call{}
	}
	a.calls = nil
	a.ncalls = 0
	return c
}

type stubConn struct{}

func (c *stubConn) Broadcast(ctx context.Context, event string, data []byte) error { return nil }
func (c *stubConn) RegisterRPCHandler(endpoint string, handler p2p.RPCHandler, opts ...p2p.RPCHandlerOption) error {
	return nil
}
func (c *stubConn) RegisterEventHandler(name string, handler p2p.EventHandler, validator p2p.Validator) error {
	return nil
}
func (c *stubConn) ApplyPenalty(pid p2p.PeerID, score int) {}
func (c *stubConn) RequestFrom(ctx context.Context, peerID p2p.PeerID, procedure string, data []byte) p2p.Response {
	return *p2p.NewResponse(0, "", nil, errors.New("not connected"))
}
func (c *stubConn) Publish(ctx context.Context, topicName string, data []byte) error { return nil }

// ---------------------------------------------------------------- pool instance

type poolCfg struct {
	Max  int    `json:"max"`
	Acc  int    `json:"acc"`
	Diff uint64 `json:"diff"`
	MinP uint64 `json:"minp"`
}

type inst struct {
	pool *txpool.TransactionPool
	abi  *stubABI
	cfg  poolCfg
}

var silent log.Logger

func newInst(c poolCfg) *inst {
	cfg := &txpool.TransactionPoolConfig{
		MaxTransactions:             c.Max,
		MaxTransactionsPerAccount:   c.Acc,
		MinReplacementFeeDifference: c.Diff,
		MinEntranceFeePriority:      c.MinP,
	}
	p := txpool.NewTransactionPool(cfg)
	abi := newStub()
	if err := p.Init(context.Background(), silent, nil, nil, &stubConn{}, abi); err != nil {
		panic(err)
	}
	// the configuration in effect (SetDefault replaces zero values)
	eff := poolCfg{Max: cfg.MaxTransactions, Acc: cfg.MaxTransactionsPerAccount, Diff: cfg.MinReplacementFeeDifference, MinP: cfg.MinEntranceFeePriority}
	return &inst{pool: p, abi: abi, cfg: eff}
}

// ---------------------------------------------------------------- snapshot -> JSON

type accJSON struct {
	S    int        `json:"s"`
	Txs  [][2]int64 `json:"txs"`
	Heap []int64    `json:"heap"`
	Proc []int64    `json:"proc"`
}

type snapJSON struct {
	All []int      `json:"all"`
	Acc []accJSON  `json:"acc"`
	Q   [][2]int64 `json:"q"`
	Bad []string   `json:"bad"`
}

func u2i(xs []uint64) []int64 {
	r := make([]int64, len(xs))
	for i, x := range xs {
		r[i] = int64(x)
	}
	return r
}

func convert(s *txpool.VerifPoolSnapshot) *snapJSON {
	out := &snapJSON{All: []int{}, Acc: []accJSON{}, Q: [][2]int64{}, Bad: []string{}}
	bad := map[string]bool{}
	look := func(v txpool.VerifTx, where string) int {
		if v.Nil {
			bad[where+"-nil-entry"] = true
			return 0
		}
		id, ok := idOf[string(v.ID)]
		if !ok {
			bad[where+"-unknown-transaction"] = true
			return 0
		}
		d := def(id)
		if v.Nonce != d.Nonce || v.Fee != d.Fee || senderOf[string(v.Sender)] != d.Sender {
			bad[where+"-transaction-mutated"] = true
		}
		return id
	}
	for _, v := range s.All {
		id := look(v, "allTransactions")
		if id == 0 {
			continue
		}
		if v.Key != string(v.ID) {
			bad["allTransactions-key-mismatch"] = true
		}
		out.All = append(out.All, id)
	}
	sort.Ints(out.All)
	for _, a := range s.Accounts {
		sd, ok := senderOf[a.Key]
		if !ok {
			bad["perAccount-unknown-key"] = true
			continue
		}
		if a.Address == nil {
			bad["perAccount-nil-list"] = true
			continue
		}
		if string(a.Address) != a.Key {
			bad["perAccount-key-mismatch"] = true
		}
		aj := accJSON{S: sd, Txs: [][2]int64{}, Heap: u2i(a.Nonces), Proc: u2i(a.Processables)}
		for _, v := range a.Transactions {
			id := look(v, "senderList")
			if id == 0 {
				continue
			}
			aj.Txs = append(aj.Txs, [2]int64{int64(v.KeyNonce), int64(id)})
		}
		sort.Slice(aj.Txs, func(i, j int) bool { return aj.Txs[i][0] < aj.Txs[j][0] })
		out.Acc = append(out.Acc, aj)
	}
	sort.Slice(out.Acc, func(i, j int) bool { return out.Acc[i].S < out.Acc[j].S })
	for _, v := range s.Queue {
		id := look(v, "feeQueue")
		if id == 0 {
			continue
		}
		out.Q = append(out.Q, [2]int64{int64(id), int64(v.FeePriority)})
	}
	for k := range bad {
		out.Bad = append(out.Bad, k)
	}
	sort.Strings(out.Bad)
	return out
}

// ---------------------------------------------------------------- watchdog

var reHdr = regexp.MustCompile(`(?m)^goroutine (\d+) \[([^\]]+)\]:`)
var reDur = regexp.MustCompile(`, \d+ minutes`)
var reFn = regexp.MustCompile(`txpool\.\(\*(?:TransactionPool|addressTransactions)\)\.([A-Za-z0-9_]+)`)
var leaked = map[string]bool{} // goroutine ids blocked in abandoned pool instances

type gor struct {
	id, state, text string
}

func dumpAll() []gor {
	buf := make([]byte, 4<<20)
	n := runtime.Stack(buf, true)
	s := reDur.ReplaceAllString(string(buf[:n]), "")
	var res []gor
	for _, blk := range strings.Split(s, "\n\n") {
		m := reHdr.FindStringSubmatch(blk)
		if m == nil {
			continue
		}
		res = append(res, gor{id: m[1], state: strings.Split(m[2], ",")[0], text: blk})
	}
	return res
}

// quiescent: no goroutine but the caller can make progress (every other one waits on a lock, channel or wait group)
func quiescent(gs []gor) (bool, string) {
	var sb strings.Builder
	for i, g := range gs {
		if i == 0 { // the caller
			continue
		}
		switch g.state {
		case "running", "runnable", "syscall", "sleep", "IO wait", "GC assist wait", "GC sweep wait", "preempted", "copystack":
			return false, ""
		}
		sb.WriteString(g.text)
	}
	return true, sb.String()
}

type outcome struct {
	Blocked   bool
	Panic     string
	Stack     string   // head of the dump of the goroutines that are stuck / of the panic
	BlockedIn []string // txpool call chains (innermost first) of the stuck goroutines
}

func describeStuck() (string, []string) {
	var heads []string
	var chains []string
	for i, g := range dumpAll() {
		if i == 0 || leaked[g.id] {
			continue
		}
		leaked[g.id] = true
		fns := reFn.FindAllStringSubmatch(g.text, -1)
		if len(fns) == 0 {
			continue
		}
		var names []string
		for _, f := range fns {
			if len(names) == 0 || names[len(names)-1] != f[1] {
				names = append(names, f[1])
			}
		}
		chains = append(chains, "["+g.state+"] "+strings.Join(names, "<"))
		lines := strings.Split(g.text, "\n")
		if len(lines) > 13 {
			lines = lines[:13]
		}
		heads = append(heads, strings.Join(lines, "\n"))
	}
	sort.Strings(chains)
	if len(heads) > 4 {
		heads = heads[:4]
	}
	return strings.Join(heads, "\n\n"), chains
}

var hardLimit = 2 * time.Second

// await waits until done is closed.  The call is declared blocked when the whole process has been
// quiescent with an unchanged goroutine dump for two consecutive samples (nobody is left who could release
// the waiters: a deadlock), or when it has not returned after hardLimit.
func await(done <-chan struct{}) (blocked bool) {
	start := time.Now()
	prev := ""
	tick := 200 * time.Microsecond
	for {
		select {
		case <-done:
			return false
		default:
		}
		el := time.Since(start)
		if el > 40*time.Millisecond {
			if q, txt := quiescent(dumpAll()); q {
				if txt == prev {
					select {
					case <-done:
						return false
					default:
					}
					return true
				}
				prev = txt
			} else {
				prev = ""
			}
			tick = 25 * time.Millisecond
		}
		if el > hardLimit {
			// not quiescent (somebody is still runnable): a starved machine or a livelock; give it 5x more
			if q, _ := quiescent(dumpAll()); q || el > 5*hardLimit {
				select {
				case <-done:
					return false
				default:
				}
				return true
			}
		}
		time.Sleep(tick)
		if tick < 5*time.Millisecond {
			tick *= 2
		}
	}
}

func verifGuardedCall(f func(), msg *string, done chan struct{}) {
	defer close(done)
	defer func() {
		if r := recover(); r != nil {
			st := strings.Split(string(debug.Stack()), "\n")
			// keep the frames below the panic
			keep := []string{}
			for _, l := range st {
				if strings.Contains(l, "txpool") || strings.Contains(l, "panic") {
					keep = append(keep, strings.TrimSpace(l))
				}
			}
			if len(keep) > 12 {
				keep = keep[:12]
			}
			*msg = fmt.Sprintf("%v || %s", r, strings.Join(keep, " | "))
		}
	}()
	f()
}

func guarded(f func()) outcome {
	done := make(chan struct{})
	msg := ""
	go verifGuardedCall(f, &msg, done)
	// fast path: most calls return within microseconds
	for i := 0; i < 50; i++ {
		select {
		case <-done:
			return outcome{Panic: msg}
		default:
			runtime.Gosched()
		}
	}
	if await(done) {
		st, ch := describeStuck()
		return outcome{Blocked: true, Stack: st, BlockedIn: ch}
	}
	return outcome{Panic: msg}
}

// ---------------------------------------------------------------- recorder

// every line is written through at once: a crash of the process (a panic in a goroutine the pool
// started itself cannot be recovered here) must not lose the lines before it
type lineWriter struct{ f *os.File }

func (w *lineWriter) Emit(v interface{}) {
	b, err := json.Marshal(v)
	if err != nil {
		panic(err)
	}
	w.f.Write(append(b, '\n'))
}

type recorder struct {
	w    *lineWriter
	meta map[string]int
}

func (r *recorder) emit(m map[string]interface{}) {
	r.w.Emit(m)
	r.meta["events"]++
	r.meta["op_"+m["op"].(string)]++
}

type opSpec struct {
	Op     string   `json:"op"`
	T      int      `json:"t,omitempty"`
	V      string   `json:"v,omitempty"`
	Via    string   `json:"via,omitempty"`
	Pause  int      `json:"pause,omitempty"`
	During []opSpec `json:"during,omitempty"`
}

type session struct {
	rec  *recorder
	in   *inst
	last *snapJSON
	dead bool
}

func (s *session) reset(c poolCfg) {
	s.in = newInst(c)
	s.dead = false
	s.last = &snapJSON{}
	s.rec.meta["sequences"]++
	s.rec.emit(map[string]interface{}{"op": "reset", "max": s.in.cfg.Max, "acc": s.in.cfg.Acc, "diff": s.in.cfg.Diff, "minp": s.in.cfg.MinP})
}

// snapshot under the watchdog (the snapshot takes the pool read lock)
func (s *session) snapshot() (*snapJSON, outcome) {
	var sn *snapJSON
	o := guarded(func() { sn = convert(s.in.pool.VerifSnapshot()) })
	return sn, o
}

func ids(txs []*blockchain.Transaction) []int {
	r := []int{}
	for _, t := range txs {
		if t == nil {
			r = append(r, 0)
			continue
		}
		r = append(r, idOf[string(t.ID)])
	}
	sort.Ints(r)
	return r
}

// do executes one operation on the real pool and records it. Returns false when the instance must be abandoned.
func (s *session) do(o opSpec) bool {
	if o.Op == "ilv" {
		return s.doIlv(o)
	}
	return s.doPlain(o, nil)
}

func (s *session) doPlain(o opSpec, extra map[string]interface{}) bool {
	line := map[string]interface{}{"op": o.Op}
	for k, v := range extra {
		line[k] = v
	}
	if o.T != 0 {
		line["t"] = o.T
	}
	if o.Via != "" {
		line["via"] = o.Via
	}
	if o.Op == "verdict" {
		s.in.abi.mu.Lock()
		s.in.abi.verdict[o.T] = o.V
		s.in.abi.mu.Unlock()
		v := o.V
		if v == "error" {
			v = "invalid"
		}
		line["v"] = v
		s.rec.emit(line)
		return true
	}
	if o.Op == "reorg" {
		s.rec.emit(map[string]interface{}{"op": "intent", "what": o.Op})
	}
	var out outcome
	pool := s.in.pool
	switch o.Op {
	case "add":
		var res bool
		out = guarded(func() { res = pool.Add(def(o.T).tx) })
		line["res"] = tj.B(res)
	case "remove":
		var res bool
		out = guarded(func() { res = pool.Remove(def(o.T).tx.ID) })
		line["res"] = tj.B(res)
	case "reorg":
		out = guarded(func() { pool.VerifReorgOnce() })
	case "get":
		var ok bool
		var tx *blockchain.Transaction
		out = guarded(func() { tx, ok = pool.Get(def(o.T).tx.ID) })
		line["res"] = tj.B(ok && tx != nil && bytes.Equal(tx.ID, def(o.T).tx.ID))
	case "getall":
		var r []int
		out = guarded(func() { r = ids(pool.GetAll()) })
		line["res"] = r
	case "getprocessable":
		var r []int
		out = guarded(func() { r = ids(pool.GetProcessable()) })
		line["res"] = r
	default:
		panic("unknown op " + o.Op)
	}
	return s.finish(line, out)
}

// finish records the outcome of a call: blocked / panic, else the snapshot taken right after it
func (s *session) finish(line map[string]interface{}, out outcome) bool {
	op := line["op"].(string)
	line["calls"] = s.in.abi.takeCalls()
	if out.Blocked {
		line["blocked"] = 1
		line["blockedin"] = out.BlockedIn
		line["stack"] = out.Stack
		s.rec.meta["blocked"]++
		s.rec.emit(line)
		s.dead = true
		return false
	}
	if out.Panic != "" {
		line["panic"] = out.Panic
		s.rec.meta["panics"]++
		s.rec.emit(line)
		s.dead = true
		return false
	}
	sn, so := s.snapshot()
	if so.Blocked || so.Panic != "" {
		line["op"] = "snapshot"
		line["after"] = op
		if so.Blocked {
			line["blocked"] = 1
			line["blockedin"] = so.BlockedIn
			line["stack"] = so.Stack
		} else {
			line["panic"] = so.Panic
		}
		s.rec.emit(line)
		s.dead = true
		return false
	}
	line["snap"] = sn
	s.last = sn
	s.rec.emit(line)
	return true
}

// doIlv: one promotion step is suspended inside its pause-th verifier call (the verifier runs outside the pool
// lock); the operations in o.During run to completion meanwhile, each recorded and validated like a sequential
// call; then the step is released and the state at quiescence is recorded.
// Lines: {"op":"ilv","phase":"suspended"}, the during calls (with "in_ilv":1), {"op":"ilv","phase":"resumed"}.
// A step with fewer verifier calls than pause is an ordinary "reorg" line.
func (s *session) doIlv(o opSpec) bool {
	abi := s.in.abi
	pool := s.in.pool
	s.rec.emit(map[string]interface{}{"op": "intent", "what": "ilv"})
	abi.mu.Lock()
	abi.pauseAt = o.Pause
	abi.mu.Unlock()
	done := make(chan struct{})
	msg := ""
	go verifGuardedCall(func() { pool.VerifReorgOnce() }, &msg, done)
	unpause := func() {
		abi.mu.Lock()
		abi.pauseAt = 0
		abi.mu.Unlock()
	}
	select {
	case <-done:
		unpause()
		return s.finish(map[string]interface{}{"op": "reorg"}, outcome{Panic: msg})
	case <-abi.paused:
	}
	unpause()
	release := func() {
		close(abi.release)
		abi.release = make(chan struct{})
	}
	// let the goroutines of the other senders finish: everything but the suspended goroutine is waiting
	for t0 := time.Now(); time.Since(t0) < 2*time.Second; {
		if q, _ := quiescent(dumpAll()); q {
			break
		}
		time.Sleep(50 * time.Microsecond)
	}
	if !s.finish(map[string]interface{}{"op": "ilv", "phase": "suspended", "pause": o.Pause}, outcome{}) {
		release()
		return false
	}
	for _, d := range o.During {
		if !s.doPlain(d, map[string]interface{}{"in_ilv": 1}) {
			release()
			return false
		}
	}
	release()
	var out outcome
	if await(done) {
		st, ch := describeStuck()
		out = outcome{Blocked: true, Stack: st, BlockedIn: ch}
	} else {
		out = outcome{Panic: msg}
	}
	return s.finish(map[string]interface{}{"op": "ilv", "phase": "resumed", "pause": o.Pause}, out)
}

// ---------------------------------------------------------------- random generation

func pick[T any](r *rand.Rand, xs []T) T { return xs[r.Intn(len(xs))] }

func randCfg(r *rand.Rand) poolCfg {
	c := poolCfg{
		Max:  pick(r, []int{1, 1, 2, 2, 3, 3, 4, 6, 50}),
		Acc:  pick(r, []int{1, 2, 2, 3, 3, 4, 64}),
		Diff: pick(r, []uint64{0, 1, 2, 200, 201}),
		MinP: pick(r, []uint64{0, 0, 1, 1, 2}),
	}
	return c
}

func txID(sender int, nonceIdx, feeIdx, variant int) int {
	return ((sender-1)*len(uNonces)+nonceIdx)*len(uFees)*nVariants + feeIdx*nVariants + variant + 1
}

func nonceIdx(n uint64) int {
	for i, x := range uNonces {
		if x == n {
			return i
		}
	}
	return -1
}

func randTx(r *rand.Rand) int { return 1 + r.Intn(len(universe)) }

func (s *session) pooled() []int {
	if s.last == nil {
		return nil
	}
	return s.last.All
}

func (s *session) genAdd(r *rand.Rand) int {
	pooled := s.pooled()
	x := r.Intn(100)
	switch {
	case x < 35: // next nonce of a sender
		sd := 1 + r.Intn(nSenders)
		next := uint64(0)
		for _, id := range pooled {
			if d := def(id); d.Sender == sd && d.Nonce+1 > next {
				next = d.Nonce + 1
			}
		}
		ni := nonceIdx(next)
		if ni < 0 {
			ni = r.Intn(len(uNonces))
		}
		return txID(sd, ni, 1+r.Intn(len(uFees)-1), r.Intn(nVariants))
	case x < 60 && len(pooled) > 0: // same sender and nonce as a pooled transaction
		d := def(pick(r, pooled))
		return txID(d.Sender, nonceIdx(d.Nonce), r.Intn(len(uFees)), r.Intn(nVariants))
	case x < 68 && len(pooled) > 0: // duplicate
		return pick(r, pooled)
	case x < 85: // a low nonce
		return txID(1+r.Intn(nSenders), r.Intn(3), r.Intn(len(uFees)), r.Intn(nVariants))
	}
	return randTx(r)
}

func (s *session) genOps(r *rand.Rand) []opSpec {
	pooled := s.pooled()
	x := r.Intn(100)
	switch {
	case x < 52:
		return []opSpec{{Op: "add", T: s.genAdd(r), Via: "api"}}
	case x < 62:
		if len(pooled) > 0 && r.Intn(5) > 0 {
			return []opSpec{{Op: "remove", T: pick(r, pooled), Via: "api"}}
		}
		return []opSpec{{Op: "remove", T: randTx(r), Via: "api"}}
	case x < 78:
		return []opSpec{{Op: "reorg"}}
	case x < 85:
		t := randTx(r)
		if len(pooled) > 0 && r.Intn(4) > 0 {
			t = pick(r, pooled)
		}
		return []opSpec{{Op: "verdict", T: t, V: pick(r, []string{"ok", "pending", "invalid", "invalid", "error"})}}
	case x < 89: // a new block contains 1..3 pooled (mostly processable) transactions
		var ops []opSpec
		cand := []int{}
		for _, a := range s.last.Acc {
			for _, n := range a.Proc {
				for _, e := range a.Txs {
					if e[0] == n {
						cand = append(cand, int(e[1]))
					}
				}
			}
		}
		if len(cand) == 0 || r.Intn(4) == 0 {
			cand = append(cand, pooled...)
		}
		if len(cand) == 0 {
			cand = []int{randTx(r)}
		}
		k := 1 + r.Intn(3)
		for i := 0; i < k; i++ {
			ops = append(ops, opSpec{Op: "remove", T: pick(r, cand), Via: "block-applied"})
		}
		return ops
	case x < 93: // a deleted block gives 1..3 transactions back
		var ops []opSpec
		sd := 1 + r.Intn(nSenders)
		k := 1 + r.Intn(3)
		for i := 0; i < k; i++ {
			ops = append(ops, opSpec{Op: "add", T: txID(sd, i, 1+r.Intn(len(uFees)-1), r.Intn(nVariants)), Via: "block-reverted"})
		}
		return ops
	case x < 95:
		t := randTx(r)
		if len(pooled) > 0 && r.Intn(2) == 0 {
			t = pick(r, pooled)
		}
		return []opSpec{{Op: "get", T: t}}
	case x < 97:
		return []opSpec{{Op: "getall"}}
	}
	return []opSpec{{Op: "getprocessable"}}
}

func runSeq(rec *recorder, r *rand.Rand, nseq int) {
	s := &session{rec: rec}
	for q := 0; q < nseq; q++ {
		s.reset(randCfg(r))
		n := 8 + r.Intn(30)
		for i := 0; i < n && !s.dead; i++ {
			for _, o := range s.genOps(r) {
				if !s.do(o) {
					break
				}
			}
		}
	}
}

// ilv: build a sender's run, promote it, extend it, then suspend the next promotion step inside the verifier
func runIlv(rec *recorder, r *rand.Rand, nseq int) {
	s := &session{rec: rec}
	for q := 0; q < nseq; q++ {
		c := randCfg(r)
		if r.Intn(3) > 0 { // mostly away from the capacity limits
			c.Max, c.Acc = 50, 64
		}
		c.MinP = 0
		s.reset(c)
		if r.Intn(2) == 0 {
			// targeted shape: a sender's run is promoted, extended, and the next step is suspended while
			// one transaction of the run / of the extension is removed or replaced
			sd := 1 + r.Intn(nSenders)
			k1 := 1 + r.Intn(3)
			k2 := k1 + 1 + r.Intn(2)
			var run []int
			for ni := 0; ni < k2 && ni < 5 && !s.dead; ni++ {
				id := txID(sd, ni, 1+r.Intn(2), r.Intn(nVariants))
				run = append(run, id)
				s.do(opSpec{Op: "add", T: id, Via: "api"})
				if ni+1 == k1 && !s.dead {
					s.do(opSpec{Op: "reorg"})
				}
			}
			if s.dead {
				continue
			}
			victim := def(pick(r, run))
			var d opSpec
			if r.Intn(3) > 0 {
				d = opSpec{Op: "remove", T: victim.ID}
			} else {
				d = opSpec{Op: "add", T: txID(sd, nonceIdx(victim.Nonce), 4, r.Intn(nVariants))}
			}
			s.do(opSpec{Op: "ilv", Pause: 1 + r.Intn(len(run)), During: []opSpec{d}})
			continue
		}
		rounds := 1 + r.Intn(3)
		for k := 0; k < rounds && !s.dead; k++ {
			pre := 2 + r.Intn(6)
			for i := 0; i < pre && !s.dead; i++ {
				var o opSpec
				switch x := r.Intn(10); {
				case x < 7:
					o = opSpec{Op: "add", T: s.genAdd(r), Via: "api"}
				case x < 9:
					o = opSpec{Op: "reorg"}
				default:
					t := randTx(r)
					if p := s.pooled(); len(p) > 0 {
						t = pick(r, p)
					}
					o = opSpec{Op: "verdict", T: t, V: pick(r, []string{"ok", "invalid", "pending"})}
				}
				s.do(o)
			}
			if s.dead {
				break
			}
			var during []opSpec
			nd := 1 + r.Intn(2)
			for i := 0; i < nd; i++ {
				p := s.pooled()
				switch x := r.Intn(10); {
				case x < 6 && len(p) > 0:
					during = append(during, opSpec{Op: "remove", T: pick(r, p)})
				case x < 9:
					during = append(during, opSpec{Op: "add", T: s.genAdd(r)})
				default:
					t := randTx(r)
					if len(p) > 0 {
						t = pick(r, p)
					}
					during = append(during, opSpec{Op: "verdict", T: t, V: pick(r, []string{"ok", "invalid"})})
				}
			}
			s.do(opSpec{Op: "ilv", Pause: 1 + r.Intn(4), During: during})
		}
	}
}

// conc: N goroutines issue random operations on one pool; the snapshot is taken at quiescence
func runConc(rec *recorder, r *rand.Rand, runs int) {
	s := &session{rec: rec}
	for q := 0; q < runs; q++ {
		c := randCfg(r)
		// profile "plain": no limit is reached and no two candidates share sender and nonce, so that neither
		// eviction nor replacement can happen; what goes wrong there is due to the interleaving alone
		profile := "mixed"
		if q%2 == 0 {
			profile = "plain"
			c.Max, c.Acc = 4096, 64
		}
		s.reset(c)
		in := s.in
		in.abi.jitter = true
		in.abi.jitterRn = rand.New(rand.NewSource(r.Int63()))
		ng := 2 + r.Intn(5)
		per := 10 + r.Intn(40)
		// a narrow set of transactions so that the goroutines collide
		var cand []int
		if profile == "plain" {
			for sd := 1; sd <= 2; sd++ {
				for ni := 0; ni < 5; ni++ {
					cand = append(cand, txID(sd, ni, 1+r.Intn(len(uFees)-1), r.Intn(nVariants)))
				}
			}
		} else {
			for i := 0; i < 24; i++ {
				cand = append(cand, txID(1+r.Intn(2), r.Intn(4), 1+r.Intn(len(uFees)-1), r.Intn(nVariants)))
			}
		}
		seeds := make([]int64, ng)
		for i := range seeds {
			seeds[i] = r.Int63()
		}
		counts := make([]map[string]int, ng)
		var wg sync.WaitGroup
		done := make(chan struct{})
		var msgs = make([]string, ng)
		for g := 0; g < ng; g++ {
			wg.Add(1)
			counts[g] = map[string]int{}
			go func(g int) {
				defer wg.Done()
				d := make(chan struct{})
				verifGuardedCall(func() {
					rr := rand.New(rand.NewSource(seeds[g]))
					for i := 0; i < per; i++ {
						switch x := rr.Intn(100); {
						case x < 50:
							in.pool.Add(def(pick(rr, cand)).tx)
							counts[g]["add"]++
						case x < 65:
							in.pool.Remove(def(pick(rr, cand)).tx.ID)
							counts[g]["remove"]++
						case x < 85:
							in.pool.VerifReorgOnce()
							counts[g]["reorg"]++
						case x < 90:
							in.abi.mu.Lock()
							in.abi.verdict[pick(rr, cand)] = pick(rr, []string{"ok", "invalid", "pending"})
							in.abi.mu.Unlock()
							counts[g]["verdict"]++
						case x < 94:
							in.pool.GetAll()
							counts[g]["getall"]++
						case x < 97:
							in.pool.GetProcessable()
							counts[g]["getprocessable"]++
						default:
							in.pool.Get(def(pick(rr, cand)).tx.ID)
							counts[g]["get"]++
						}
					}
				}, &msgs[g], d)
			}(g)
		}
		go func() { wg.Wait(); close(done) }()
		blocked := await(done)
		line := map[string]interface{}{"op": "concurrent", "profile": profile, "goroutines": ng, "per": per}
		in.abi.takeCalls()
		if blocked {
			st, ch := describeStuck()
			line["blocked"] = 1
			line["blockedin"] = ch
			line["stack"] = st
			rec.meta["blocked"]++
			rec.emit(line)
			continue
		}
		tot := map[string]int{}
		for _, m := range counts {
			for k, v := range m {
				tot[k] += v
				rec.meta["conc_"+k] += v
			}
		}
		line["ops"] = tot
		pm := ""
		for _, m := range msgs {
			if m != "" {
				pm = m
			}
		}
		if pm != "" {
			line["panic"] = pm
			rec.meta["panics"]++
			rec.emit(line)
			continue
		}
		sn, so := s.snapshot()
		if so.Blocked || so.Panic != "" {
			line["blocked"] = tj.B(so.Blocked)
			line["blockedin"] = so.BlockedIn
			line["stack"] = so.Stack
			line["panic"] = so.Panic
			rec.emit(line)
			continue
		}
		line["snap"] = sn
		rec.emit(line)
	}
}

type scriptSeq struct {
	Cfg poolCfg  `json:"cfg"`
	Ops []opSpec `json:"ops"`
}

func runScript(rec *recorder, path string) {
	b, err := os.ReadFile(path)
	if err != nil {
		panic(err)
	}
	var seqs []scriptSeq
	if err := json.Unmarshal(b, &seqs); err != nil {
		panic(err)
	}
	s := &session{rec: rec}
	for _, q := range seqs {
		s.reset(q.Cfg)
		for _, o := range q.Ops {
			if !s.do(o) {
				break
			}
		}
	}
}

func main() {
	if len(os.Args) < 5 {
		fmt.Fprintln(os.Stderr, "usage: c14 seq|ilv|conc|script out.ndjson meta.json <n|script.json>")
		os.Exit(2)
	}
	mode := os.Args[1]
	var err error
	silent, err = log.NewSilentLogger()
	if err != nil {
		panic(err)
	}
	if ms := tj.EnvInt("VERIF_C14_HARDLIMIT_MS", 0); ms > 0 {
		hardLimit = time.Duration(ms) * time.Millisecond
	}
	buildUniverse()
	f, err := os.Create(os.Args[2])
	if err != nil {
		panic(err)
	}
	rec := &recorder{w: &lineWriter{f}, meta: map[string]int{}}
	rec.w.Emit(map[string]interface{}{"op": "universe", "senders": nSenders, "txs": universe})
	r := rand.New(rand.NewSource(int64(tj.EnvInt("VERIF_SEED", 1))))
	switch mode {
	case "seq":
		n, _ := strconv.Atoi(os.Args[4])
		runSeq(rec, r, n)
	case "ilv":
		n, _ := strconv.Atoi(os.Args[4])
		runIlv(rec, r, n)
	case "conc":
		n, _ := strconv.Atoi(os.Args[4])
		runConc(rec, r, n)
	case "script":
		runScript(rec, os.Args[4])
	default:
		fmt.Fprintln(os.Stderr, "unknown mode")
		os.Exit(2)
	}
	f.Close()
	tj.WriteJSON(os.Args[3], rec.meta)
}
