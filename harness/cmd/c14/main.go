// c14: seeded driver + recorder for the real txpool.TransactionPool (property C14).
//
// The pool is built with a stub ABI whose VerifyTransaction answers are scripted per transaction
// (ok / pending / invalid / error) and a stub connection.  After EVERY operation the driver records the
// operation, its result, the verifier calls it caused and VerifSnapshot() as one ndjson line;
// spec/trace/TxPoolTrace.tla validates every recorded post-state against spec/TxPool.tla.
// Every call runs under a watchdog: a call that does not return is recorded as "blocked" together with
// the head of the goroutine dump, the pool instance is abandoned and the run continues with a fresh one.
//
// usage: c14 seq    <out.ndjson> <meta.json> <sequences>     random sequential sequences, snapshot per op
//
//	c14 ilv    <out.ndjson> <meta.json> <sequences>     promotion suspended inside the verifier while other calls run
//	c14 conc   <out.ndjson> <meta.json> <runs>          N goroutines, snapshot at quiescence
//	c14 life   <out.ndjson> <meta.json> <scenarios>     the real Start()/ticker/End() with live, sometimes slow subscribers
//	c14 script <out.ndjson> <meta.json> <script.json>   explicit sequences (replay files)
//
// The same source is also built with -race (conc mode): the harness itself must stay free of data races.
// VERIF_C14_NONCE_BASE=<uint64> shifts every nonce of the universe by that amount inside the real pool (the trace keeps
// the small ranks): the pool's nonce arithmetic is exercised around 2^63 and 2^64.
package main

import (
	"bytes"
	"context"
	"encoding/json"
	"errors"
	"fmt"
	"math/rand"
	"os"
	"regexp"
	"runtime"
	"runtime/debug"
	"sort"
	"strconv"
	"strings"
	"sync"
	"time"

	"github.com/LiskHQ/lisk-engine/pkg/blockchain"
	"github.com/LiskHQ/lisk-engine/pkg/codec"
	"github.com/LiskHQ/lisk-engine/pkg/labi"
	"github.com/LiskHQ/lisk-engine/pkg/log"
	"github.com/LiskHQ/lisk-engine/pkg/p2p"
	"github.com/LiskHQ/lisk-engine/pkg/txpool"

	"verifharness/internal/tj"
)

// ---------------------------------------------------------------- transaction universe (fixed, seed independent)

const nSenders = 3

var uNonces = []uint64{0, 1, 2, 3, 4, 7}
var uFees = []uint64{100, 200, 201, 400, 600} // fee / size (about 190 bytes) gives the priorities 0,1,1,2,3
const nVariants = 2

type txDef struct {
	ID     int    `json:"id"`
	Sender int    `json:"sender"`
	Nonce  uint64 `json:"nonce"` // rank; the real nonce is nonceBase + rank
	Fee    uint64 `json:"fee"`
	Size   int    `json:"size"`
	tx     *blockchain.Transaction
	enc    string // encoding of the transaction as built (to notice a transaction the pool changed)
}

var nonceBase uint64

// feeBase (VERIF_C14_FEE_BASE) shifts every fee inside the real pool; the trace keeps the small fees.  Only differences
// of fees (the replacement rule) mean the same in both worlds: such a run never fills the pool and has no entrance priority.
var feeBase uint64

// rank maps a real nonce back to the small number the trace uses
func rank(x uint64) (int64, bool) {
	d := x - nonceBase
	if d > 1000 {
		return 999, false
	}
	return int64(d), true
}

var universe []*txDef           // index = id-1
var idOf = map[string]int{}     // string(tx.ID) -> id
var senderOf = map[string]int{} // string(address) -> sender

func buildUniverse() {
	for s := 1; s <= nSenders; s++ {
		pk := bytes.Repeat([]byte{byte(s)}, 32)
		for _, n := range uNonces {
			for _, f := range uFees {
				for v := 0; v < nVariants; v++ {
					tx := &blockchain.Transaction{
						Module:          "token",
						Command:         "transfer",
						Nonce:           nonceBase + n,
						Fee:             feeBase + f,
						SenderPublicKey: pk,
						Params:          append([]byte{byte(v)}, bytes.Repeat([]byte{0xab}, 59)...),
						Signatures:      []codec.Hex{bytes.Repeat([]byte{byte(v + 1)}, 64)},
					}
					tx.Init()
					d := &txDef{ID: len(universe) + 1, Sender: s, Nonce: n, Fee: f, Size: tx.Size(), tx: tx, enc: string(tx.Bytes())}
					universe = append(universe, d)
					idOf[string(tx.ID)] = d.ID
					senderOf[string(tx.SenderAddress())] = s
				}
			}
		}
	}
}

func def(id int) *txDef { return universe[id-1] }

// ---------------------------------------------------------------- stubs

type call struct {
	T int    `json:"t"`
	V string `json:"v"`
}

type stubABI struct {
	mu       sync.Mutex
	verdict  map[int]string
	calls    []call
	jitter   bool
	pauseAt  int // suspend the pauseAt-th call of the current operation (ilv mode); 0 = never
	ncalls   int
	paused   chan struct{}
	release  chan struct{}
	jitterRn *rand.Rand
	// life mode: verifier calls made by goroutines other than the one that runs the harness's current call
	// (the promotion steps of the pool's own ticker) are counted
	track   bool
	opGid   string
	foreign int
	everBad map[int]bool // transactions that were answered invalid at least once
}

func newStub() *stubABI {
	return &stubABI{verdict: map[int]string{}, paused: make(chan struct{}, 1), release: make(chan struct{}), everBad: map[int]bool{}}
}

var reGid = regexp.MustCompile(`^goroutine (\d+) `)

func curGid() string {
	var buf [64]byte
	n := runtime.Stack(buf[:], false)
	m := reGid.FindSubmatch(buf[:n])
	if m == nil {
		return "?"
	}
	return string(m[1])
}

func (a *stubABI) VerifyTransaction(req *labi.VerifyTransactionRequest) (*labi.VerifyTransactionResponse, error) {
	id := idOf[string(req.Transaction.ID)]
	gid := ""
	a.mu.Lock()
	track := a.track
	a.mu.Unlock()
	if track {
		gid = curGid()
	}
	a.mu.Lock()
	v := a.verdict[id]
	if v == "" {
		v = "ok"
	}
	rec := v
	if v == "error" {
		rec = "invalid" // an ABI error counts as invalid
	}
	if rec == "invalid" {
		a.everBad[id] = true
	}
	a.calls = append(a.calls, call{id, rec})
	a.ncalls++
	if track && gid != a.opGid {
		a.foreign++
	}
	pause := a.pauseAt > 0 && a.ncalls == a.pauseAt
	rel := a.release
	var nap time.Duration
	if a.jitter {
		switch a.jitterRn.Intn(4) {
		case 0:
			nap = time.Duration(1+a.jitterRn.Intn(200)) * time.Microsecond
		case 1:
			nap = -1
		}
	}
	a.mu.Unlock()
	if pause {
		a.paused <- struct{}{}
		<-rel
	}
	if nap > 0 {
		time.Sleep(nap)
	} else if nap < 0 {
		runtime.Gosched()
	}
	switch v {
	case "error":
		return nil, errors.New("abi error")
	case "invalid":
		return &labi.VerifyTransactionResponse{Result: labi.TxVerifyResultInvalid}, nil
	case "pending":
		return &labi.VerifyTransactionResponse{Result: labi.TxVerifyResultPending}, nil
	}
	return &labi.VerifyTransactionResponse{Result: labi.TxVerifyResultOk}, nil
}

// letGo releases the goroutine held inside the verifier (if any)
func (a *stubABI) letGo() {
	a.mu.Lock()
	close(a.release)
	a.release = make(chan struct{})
	a.mu.Unlock()
}

func (a *stubABI) setPause(n int) {
	a.mu.Lock()
	a.pauseAt = n
	a.mu.Unlock()
}

func (a *stubABI) setVerdict(id int, v string) {
	a.mu.Lock()
	a.verdict[id] = v
	a.mu.Unlock()
}

// beginOp: the calling goroutine runs the harness's current call (life mode)
func (a *stubABI) beginOp() {
	a.mu.Lock()
	t := a.track
	a.mu.Unlock()
	if !t {
		return
	}
	g := curGid()
	a.mu.Lock()
	a.opGid = g
	a.mu.Unlock()
}

func (a *stubABI) foreignCalls() int {
	a.mu.Lock()
	defer a.mu.Unlock()
	return a.foreign
}

func (a *stubABI) takeCalls() []call {
	a.mu.Lock()
	defer a.mu.Unlock()
	c := a.calls
	if c == nil {
		c = []call{}
	}
	a.calls = nil
	a.ncalls = 0
	return c
}

// stubConn: the network.  Publish (the announcement of an accepted transaction) answers as scripted per transaction;
// the event handler the pool registers for announcements from peers is kept so that the harness can deliver one.
type stubConn struct {
	mu        sync.Mutex
	failFor   map[string]bool // string(tx.Bytes()) -> Publish fails
	announce  p2p.EventHandler
	published int
	failed    int
}

func (c *stubConn) Broadcast(ctx context.Context, event string, data []byte) error { return nil }
func (c *stubConn) RegisterRPCHandler(endpoint string, handler p2p.RPCHandler, opts ...p2p.RPCHandlerOption) error {
	return nil
}
func (c *stubConn) RegisterEventHandler(name string, handler p2p.EventHandler, validator p2p.Validator) error {
	if name == txpool.RPCEventPostTransactionAnnouncement {
		c.announce = handler
	}
	return nil
}
func (c *stubConn) ApplyPenalty(pid p2p.PeerID, score int) {}
func (c *stubConn) RequestFrom(ctx context.Context, peerID p2p.PeerID, procedure string, data []byte) p2p.Response {
	return *p2p.NewResponse(0, "", nil, errors.New("not connected"))
}
func (c *stubConn) Publish(ctx context.Context, topicName string, data []byte) error {
	c.mu.Lock()
	defer c.mu.Unlock()
	c.published++
	if c.failFor[string(data)] {
		c.failed++
		return errors.New("publish failed (scripted)")
	}
	return nil
}
func (c *stubConn) setFail(enc string, fail bool) {
	c.mu.Lock()
	if fail {
		c.failFor[enc] = true
	} else {
		delete(c.failFor, enc)
	}
	c.mu.Unlock()
}

// ---------------------------------------------------------------- pool instance

type poolCfg struct {
	Max  int    `json:"max"`
	Acc  int    `json:"acc"`
	Diff uint64 `json:"diff"`
	MinP uint64 `json:"minp"`
}

type inst struct {
	pool *txpool.TransactionPool
	abi  *stubABI
	conn *stubConn
	cfg  poolCfg
}

var silent log.Logger

func newInst(c poolCfg) *inst {
	cfg := &txpool.TransactionPoolConfig{
		MaxTransactions:             c.Max,
		MaxTransactionsPerAccount:   c.Acc,
		MinReplacementFeeDifference: c.Diff,
		MinEntranceFeePriority:      c.MinP,
	}
	p := txpool.NewTransactionPool(cfg)
	abi := newStub()
	conn := &stubConn{failFor: map[string]bool{}}
	if err := p.Init(context.Background(), silent, nil, nil, conn, abi); err != nil {
		panic(err)
	}
	// the configuration in effect (SetDefault replaces zero values)
	eff := poolCfg{Max: cfg.MaxTransactions, Acc: cfg.MaxTransactionsPerAccount, Diff: cfg.MinReplacementFeeDifference, MinP: cfg.MinEntranceFeePriority}
	return &inst{pool: p, abi: abi, conn: conn, cfg: eff}
}

// ---------------------------------------------------------------- snapshot -> JSON

type accJSON struct {
	S    int        `json:"s"`
	Txs  [][2]int64 `json:"txs"`
	Heap []int64    `json:"heap"`
	Proc []int64    `json:"proc"`
}

type snapJSON struct {
	All []int      `json:"all"`
	Acc []accJSON  `json:"acc"`
	Q   [][2]int64 `json:"q"`
	Bad []string   `json:"bad"`
}

func u2i(xs []uint64, bad map[string]bool) []int64 {
	r := make([]int64, len(xs))
	for i, x := range xs {
		v, ok := rank(x)
		if !ok {
			bad["nonce-outside-the-universe"] = true
		}
		r[i] = v
	}
	return r
}

func convert(s *txpool.VerifPoolSnapshot) *snapJSON {
	out := &snapJSON{All: []int{}, Acc: []accJSON{}, Q: [][2]int64{}, Bad: []string{}}
	bad := map[string]bool{}
	look := func(v txpool.VerifTx, where string) int {
		if v.Nil {
			bad[where+"-nil-entry"] = true
			return 0
		}
		id, ok := idOf[string(v.ID)]
		if !ok {
			bad[where+"-unknown-transaction"] = true
			return 0
		}
		d := def(id)
		if v.Nonce != nonceBase+d.Nonce || v.Fee != feeBase+d.Fee || senderOf[string(v.Sender)] != d.Sender {
			bad[where+"-transaction-mutated"] = true
		}
		return id
	}
	for _, v := range s.All {
		id := look(v, "allTransactions")
		if id == 0 {
			continue
		}
		if v.Key != string(v.ID) {
			bad["allTransactions-key-mismatch"] = true
		}
		out.All = append(out.All, id)
	}
	sort.Ints(out.All)
	for _, a := range s.Accounts {
		sd, ok := senderOf[a.Key]
		if !ok {
			bad["perAccount-unknown-key"] = true
			continue
		}
		if a.Address == nil {
			bad["perAccount-nil-list"] = true
			continue
		}
		if string(a.Address) != a.Key {
			bad["perAccount-key-mismatch"] = true
		}
		aj := accJSON{S: sd, Txs: [][2]int64{}, Heap: u2i(a.Nonces, bad), Proc: u2i(a.Processables, bad)}
		for _, v := range a.Transactions {
			id := look(v, "senderList")
			if id == 0 {
				continue
			}
			kn, ok := rank(v.KeyNonce)
			if !ok {
				bad["nonce-outside-the-universe"] = true
			}
			aj.Txs = append(aj.Txs, [2]int64{kn, int64(id)})
		}
		sort.Slice(aj.Txs, func(i, j int) bool { return aj.Txs[i][0] < aj.Txs[j][0] })
		out.Acc = append(out.Acc, aj)
	}
	sort.Slice(out.Acc, func(i, j int) bool { return out.Acc[i].S < out.Acc[j].S })
	for _, v := range s.Queue {
		id := look(v, "feeQueue")
		if id == 0 {
			continue
		}
		prio := int64(v.FeePriority)
		if feeBase != 0 {
			// the priority of the shifted fee is reported as the priority of the small fee when the pool computed it as
			// fee / size, as -1 otherwise
			d := def(id)
			prio = -1
			if v.FeePriority == (feeBase+d.Fee)/uint64(d.Size) {
				prio = int64(d.Fee / uint64(d.Size))
			}
		}
		out.Q = append(out.Q, [2]int64{int64(id), prio})
	}
	for k := range bad {
		out.Bad = append(out.Bad, k)
	}
	sort.Strings(out.Bad)
	return out
}

// ---------------------------------------------------------------- watchdog

var reHdr = regexp.MustCompile(`(?m)^goroutine (\d+) \[([^\]]+)\]:`)
var reDur = regexp.MustCompile(`, \d+ minutes`)
var reFn = regexp.MustCompile(`txpool\.\(\*(?:TransactionPool|addressTransactions)\)\.([A-Za-z0-9_]+)`)
var leaked = map[string]bool{} // goroutine ids blocked in abandoned pool instances

type gor struct {
	id, state, text string
}

var dumpBuf = make([]byte, 4<<20) // used by the driver goroutine only

func dumpAll() []gor {
	buf := dumpBuf
	n := runtime.Stack(buf, true)
	s := reDur.ReplaceAllString(string(buf[:n]), "")
	var res []gor
	for _, blk := range strings.Split(s, "\n\n") {
		m := reHdr.FindStringSubmatch(blk)
		if m == nil {
			continue
		}
		res = append(res, gor{id: m[1], state: strings.Split(m[2], ",")[0], text: blk})
	}
	return res
}

// quiescent: no goroutine but the caller can make progress (every other one waits on a lock, channel or wait group)
func quiescent(gs []gor) (bool, string) {
	var sb strings.Builder
	for i, g := range gs {
		if i == 0 { // the caller
			continue
		}
		switch g.state {
		case "running", "runnable", "syscall", "sleep", "IO wait", "GC assist wait", "GC sweep wait", "preempted", "copystack":
			return false, ""
		}
		sb.WriteString(g.text)
	}
	return true, sb.String()
}

type outcome struct {
	Waited    bool // returned only after the harness let go of the promotion step it was holding inside the verifier
	Blocked   bool
	Panic     string
	Stack     string   // head of the dump of the goroutines that are stuck / of the panic
	BlockedIn []string // txpool call chains (innermost first) of the stuck goroutines
}

func describeStuck() (string, []string) {
	var heads []string
	var chains []string
	for i, g := range dumpAll() {
		if i == 0 || leaked[g.id] {
			continue
		}
		leaked[g.id] = true
		fns := reFn.FindAllStringSubmatch(g.text, -1)
		if len(fns) == 0 {
			continue
		}
		var names []string
		for _, f := range fns {
			if len(names) == 0 || names[len(names)-1] != f[1] {
				names = append(names, f[1])
			}
		}
		chains = append(chains, "["+g.state+"] "+strings.Join(names, "<"))
		lines := strings.Split(g.text, "\n")
		if len(lines) > 13 {
			lines = lines[:13]
		}
		heads = append(heads, strings.Join(lines, "\n"))
	}
	sort.Strings(chains)
	if len(heads) > 4 {
		heads = heads[:4]
	}
	return strings.Join(heads, "\n\n"), chains
}

var hardLimit = 2 * time.Second

// await waits until done is closed.  The call is declared blocked when the whole process has been
// quiescent with an unchanged goroutine dump for two consecutive samples (nobody is left who could release
// the waiters: a deadlock), or when it has not returned after hardLimit.
func await(done <-chan struct{}) (blocked bool) {
	start := time.Now()
	prev := ""
	tick := 200 * time.Microsecond
	for {
		select {
		case <-done:
			return false
		default:
		}
		el := time.Since(start)
		if el > 40*time.Millisecond {
			if q, txt := quiescent(dumpAll()); q {
				if txt == prev {
					select {
					case <-done:
						return false
					default:
					}
					return true
				}
				prev = txt
			} else {
				prev = ""
			}
			tick = 25 * time.Millisecond
		}
		if el > hardLimit {
			// not quiescent (somebody is still runnable): a starved machine or a livelock; give it 5x more
			if q, _ := quiescent(dumpAll()); q || el > 5*hardLimit {
				select {
				case <-done:
					return false
				default:
				}
				return true
			}
		}
		time.Sleep(tick)
		if tick < 5*time.Millisecond {
			tick *= 2
		}
	}
}

func verifGuardedCall(f func(), msg *string, done chan struct{}) {
	defer close(done)
	defer func() {
		if r := recover(); r != nil {
			st := strings.Split(string(debug.Stack()), "\n")
			// keep the frames below the panic
			keep := []string{}
			for _, l := range st {
				if strings.Contains(l, "txpool") || strings.Contains(l, "panic") {
					keep = append(keep, strings.TrimSpace(l))
				}
			}
			if len(keep) > 12 {
				keep = keep[:12]
			}
			*msg = fmt.Sprintf("%v || %s", r, strings.Join(keep, " | "))
		}
	}()
	f()
}

func guarded(f func()) outcome {
	done := make(chan struct{})
	msg := ""
	go verifGuardedCall(f, &msg, done)
	// fast path: most calls return within microseconds
	for i := 0; i < 50; i++ {
		select {
		case <-done:
			return outcome{Panic: msg}
		default:
			runtime.Gosched()
		}
	}
	if await(done) {
		// A call that waits for something the HARNESS holds back is not blocked for ever: let go and wait again.
		if onBlocked != nil && onBlocked() {
			if !await(done) {
				return outcome{Panic: msg, Waited: true}
			}
		}
		st, ch := describeStuck()
		return outcome{Blocked: true, Stack: st, BlockedIn: ch}
	}
	return outcome{Panic: msg}
}

// onBlocked (ilv mode): releases what the harness itself is holding; returns false when there was nothing to release
var onBlocked func() bool

// waitQuiescent: every goroutine but the caller is parked (two consecutive samples); false = not within the limit
func waitQuiescent(limit time.Duration) bool {
	seen := 0
	for t0 := time.Now(); time.Since(t0) < limit; {
		if q, _ := quiescent(dumpAll()); q {
			seen++
			if seen >= 2 {
				return true
			}
		} else {
			seen = 0
		}
		time.Sleep(200 * time.Microsecond)
	}
	return false
}

// ---------------------------------------------------------------- recorder

// every line is written through at once: a crash of the process (a panic in a goroutine the pool
// started itself cannot be recovered here) must not lose the lines before it
type lineWriter struct{ f *os.File }

func (w *lineWriter) Emit(v interface{}) {
	b, err := json.Marshal(v)
	if err != nil {
		panic(err)
	}
	w.f.Write(append(b, '\n'))
}

type recorder struct {
	w    *lineWriter
	meta map[string]int
}

func (r *recorder) emit(m map[string]interface{}) {
	r.w.Emit(m)
	r.meta["events"]++
	r.meta["op_"+m["op"].(string)]++
}

type opSpec struct {
	Op     string   `json:"op"`
	T      int      `json:"t,omitempty"`
	V      string   `json:"v,omitempty"`
	Via    string   `json:"via,omitempty"`
	Pub    string   `json:"pub,omitempty"` // "fail": conn.Publish fails for this call
	Pause  int      `json:"pause,omitempty"`
	During []opSpec `json:"during,omitempty"`
}

// a value a read returned, kept to be looked at again after later calls
type heldValue struct {
	of  string
	txs []*blockchain.Transaction
	was []int
}

type session struct {
	rec  *recorder
	in   *inst
	last *snapJSON
	dead bool
	held []heldValue
	mode string
	// life mode
	foreignSeen int
	disturbed   bool
}

func (s *session) reset(c poolCfg) { s.resetMode(c, "") }

func (s *session) resetMode(c poolCfg, mode string) {
	s.flushHeld()
	s.in = newInst(c)
	s.dead = false
	s.last = &snapJSON{}
	s.held = nil
	s.mode = mode
	s.foreignSeen = 0
	s.disturbed = false
	s.rec.meta["sequences"]++
	line := map[string]interface{}{"op": "reset", "max": s.in.cfg.Max, "acc": s.in.cfg.Acc, "diff": s.in.cfg.Diff, "minp": s.in.cfg.MinP}
	if mode != "" {
		line["mode"] = mode
	}
	s.rec.emit(line)
}

// snapshot under the watchdog (the snapshot takes the pool read lock)
func (s *session) snapshot() (*snapJSON, outcome) {
	var sn *snapJSON
	o := guarded(func() { sn = convert(s.in.pool.VerifSnapshot()) })
	return sn, o
}

// contentID: the universe id of a returned transaction, judged by its content (0 = nil, unknown or changed)
func contentID(t *blockchain.Transaction) int {
	if t == nil {
		return 0
	}
	id, ok := idOf[string(t.ID)]
	if !ok {
		return 0
	}
	if string(t.Bytes()) != def(id).enc {
		return 0
	}
	return id
}

func ids(txs []*blockchain.Transaction) []int {
	r := []int{}
	for _, t := range txs {
		r = append(r, contentID(t))
	}
	sort.Ints(r)
	return r
}

func (s *session) hold(of string, txs []*blockchain.Transaction, was []int) {
	if len(s.held) < 8 {
		s.held = append(s.held, heldValue{of: of, txs: txs, was: append([]int{}, was...)})
	}
}

// flushHeld: every value handed out by an earlier read of this pool instance is read again (the same slice, the same
// transaction objects) and recorded next to what it held when it was returned
func (s *session) flushHeld() {
	if s.in == nil || s.dead {
		s.held = nil
		return
	}
	for _, h := range s.held {
		s.rec.emit(map[string]interface{}{"op": "recheck", "of": h.of, "was": h.was, "now": ids(h.txs)})
	}
	s.held = nil
}

// do executes one operation on the real pool and records it. Returns false when the instance must be abandoned.
func (s *session) do(o opSpec) bool {
	if o.Op == "ilv" {
		return s.doIlv(o)
	}
	return s.doPlain(o, nil)
}

func (s *session) doPlain(o opSpec, extra map[string]interface{}) bool {
	line, out, emitted := s.exec(o, extra)
	if emitted {
		return true
	}
	return s.finish(line, out)
}

// exec runs one call under the watchdog; emitted = the line needs no snapshot and has been written already
func (s *session) exec(o opSpec, extra map[string]interface{}) (line map[string]interface{}, out outcome, emitted bool) {
	line = map[string]interface{}{"op": o.Op}
	for k, v := range extra {
		line[k] = v
	}
	if o.T != 0 {
		line["t"] = o.T
	}
	if o.Via != "" {
		line["via"] = o.Via
	}
	if o.Op == "verdict" {
		s.in.abi.setVerdict(o.T, o.V)
		v := o.V
		if v == "error" {
			v = "invalid"
		}
		line["v"] = v
		s.rec.emit(line)
		return line, outcome{}, true
	}
	if o.Op == "reorg" {
		s.rec.emit(map[string]interface{}{"op": "intent", "what": o.Op})
	}
	pool := s.in.pool
	abi := s.in.abi
	switch o.Op {
	case "add":
		d := def(o.T)
		if o.Pub == "fail" {
			line["pub"] = "fail"
			s.in.conn.setFail(d.enc, true)
			s.rec.meta["adds_with_publish_failure"]++
		}
		if o.Via == "announce" {
			// a peer announces the transaction: the handler the pool registered with the network
			ev := p2p.NewEvent(p2p.PeerID("peer"), txpool.RPCEventPostTransactionAnnouncement, []byte(d.enc))
			before := false
			for _, id := range s.pooled() {
				before = before || id == o.T
			}
			out = guarded(func() { abi.beginOp(); s.in.conn.announce(ev) })
			line["res"] = 0
			line["was_pooled"] = tj.B(before)
		} else {
			var res bool
			out = guarded(func() { abi.beginOp(); res = pool.Add(d.tx) })
			line["res"] = tj.B(res)
		}
		if o.Pub == "fail" {
			s.in.conn.setFail(d.enc, false)
		}
	case "remove":
		var res bool
		out = guarded(func() { abi.beginOp(); res = pool.Remove(def(o.T).tx.ID) })
		line["res"] = tj.B(res)
	case "reorg":
		out = guarded(func() { abi.beginOp(); pool.VerifReorgOnce() })
	case "get":
		var ok bool
		var tx *blockchain.Transaction
		out = guarded(func() { abi.beginOp(); tx, ok = pool.Get(def(o.T).tx.ID) })
		hit := ok && tx != nil && bytes.Equal(tx.ID, def(o.T).tx.ID)
		line["res"] = tj.B(hit)
		if hit {
			s.hold("get", []*blockchain.Transaction{tx}, []int{contentID(tx)})
		}
	case "getall":
		var r []int
		var txs []*blockchain.Transaction
		out = guarded(func() { abi.beginOp(); txs = pool.GetAll(); r = ids(txs) })
		line["res"] = r
		s.hold("getall", txs, r)
	case "getprocessable":
		var r []int
		var txs []*blockchain.Transaction
		out = guarded(func() { abi.beginOp(); txs = pool.GetProcessable(); r = ids(txs) })
		line["res"] = r
		s.hold("getprocessable", txs, r)
	default:
		panic("unknown op " + o.Op)
	}
	return line, out, false
}

// finish records the outcome of a call: blocked / panic, else the snapshot taken right after it
func (s *session) finish(line map[string]interface{}, out outcome) bool {
	op := line["op"].(string)
	line["calls"] = s.in.abi.takeCalls()
	if out.Blocked {
		line["blocked"] = 1
		line["blockedin"] = out.BlockedIn
		line["stack"] = out.Stack
		s.rec.meta["blocked"]++
		s.rec.emit(line)
		s.dead = true
		return false
	}
	if out.Panic != "" {
		line["panic"] = out.Panic
		s.rec.meta["panics"]++
		s.rec.emit(line)
		s.dead = true
		return false
	}
	sn, so := s.snapshot()
	if so.Waited {
		line["disturbed"] = 1 // the snapshot had to wait for the promotion step the harness was holding
	}
	if so.Blocked || so.Panic != "" {
		line["op"] = "snapshot"
		line["after"] = op
		if so.Blocked {
			line["blocked"] = 1
			line["blockedin"] = so.BlockedIn
			line["stack"] = so.Stack
		} else {
			line["panic"] = so.Panic
		}
		s.rec.emit(line)
		s.dead = true
		return false
	}
	if s.mode == "life" && op != "reorg" {
		// A promotion step of the pool's own ticker changes nothing before it has asked the verifier.  No verifier call
		// from another goroutine up to now = no such step has touched the state this line describes.
		if f := s.in.abi.foreignCalls(); f != s.foreignSeen {
			s.foreignSeen = f
			s.disturbed = true
			line["disturbed"] = 1
			s.rec.meta["life_lines_disturbed_by_a_tick"]++
		}
	}
	if v, ok := line["was_pooled"]; ok {
		// the announcement handler reports nothing: what it did is read from the snapshot
		now := false
		for _, id := range sn.All {
			now = now || id == line["t"].(int)
		}
		line["res"] = tj.B(now && v.(int) == 0)
		delete(line, "was_pooled")
	}
	line["snap"] = sn
	s.last = sn
	s.rec.emit(line)
	return true
}

// doIlv: one promotion step is suspended inside its pause-th verifier call (the verifier runs outside the pool
// lock); the operations in o.During run to completion meanwhile, each recorded and validated like a sequential
// call; then the step is released and the state at quiescence is recorded.
// Lines: {"op":"ilv","phase":"suspended"}, the during calls (with "in_ilv":1), {"op":"ilv","phase":"resumed"}.
// A step with fewer verifier calls than pause is an ordinary "reorg" line.
// A call that cannot complete while the step is held (a pool that keeps a lock across verification is slow, not
// stuck) makes the harness let go of the step; what follows is recorded as one "merged" line (invariants only).
func (s *session) doIlv(o opSpec) bool {
	abi := s.in.abi
	pool := s.in.pool
	s.rec.emit(map[string]interface{}{"op": "intent", "what": "ilv"})
	abi.setPause(o.Pause)
	done := make(chan struct{})
	msg := ""
	go verifGuardedCall(func() { pool.VerifReorgOnce() }, &msg, done)
	select {
	case <-done:
		abi.setPause(0)
		return s.finish(map[string]interface{}{"op": "reorg"}, outcome{Panic: msg})
	case <-abi.paused:
	}
	abi.setPause(0)
	released := false
	onBlocked = func() bool {
		if released {
			return false
		}
		released = true
		abi.letGo()
		return true
	}
	defer func() { onBlocked = nil }()
	release := func() {
		if !released {
			released = true
			abi.letGo()
		}
	}
	// the whole step ends (after the release); returns the outcome of the step
	wait := func() outcome {
		release()
		if await(done) {
			st, ch := describeStuck()
			return outcome{Blocked: true, Stack: st, BlockedIn: ch}
		}
		return outcome{Panic: msg}
	}
	// let the goroutines of the other senders finish: everything but the suspended goroutine is waiting
	if !waitQuiescent(3 * time.Second) {
		// a starved machine: the other senders' steps are still running, nothing can be said about the order of events
		s.rec.meta["ilv_steps_given_up_not_quiescent"]++
		return s.finish(map[string]interface{}{"op": "ilv", "phase": "resumed", "merged": 1, "pause": o.Pause}, wait())
	}
	// the suspended line (own snapshot handling: a snapshot that had to wait for the step is no suspension)
	susp := map[string]interface{}{"op": "ilv", "phase": "suspended", "pause": o.Pause, "calls": abi.takeCalls()}
	sn, so := s.snapshot()
	if so.Waited {
		s.rec.meta["ilv_ops_waited_for_suspended_step"]++
		return s.finish(map[string]interface{}{"op": "ilv", "phase": "resumed", "merged": 1, "pause": o.Pause, "calls_before": susp["calls"]}, wait())
	}
	if so.Blocked || so.Panic != "" {
		susp["op"] = "snapshot"
		susp["after"] = "ilv"
		if so.Blocked {
			susp["blocked"] = 1
			susp["blockedin"] = so.BlockedIn
			susp["stack"] = so.Stack
		} else {
			susp["panic"] = so.Panic
		}
		s.rec.emit(susp)
		s.dead = true
		release()
		return false
	}
	susp["snap"] = sn
	s.last = sn
	s.rec.emit(susp)
	for _, d := range o.During {
		line, out, emitted := s.exec(d, map[string]interface{}{"in_ilv": 1})
		if emitted {
			continue
		}
		if out.Waited || released {
			// the call returned only after the step was let go: the two are recorded together
			s.rec.meta["ilv_ops_waited_for_suspended_step"]++
			s.in.abi.takeCalls()
			return s.finish(map[string]interface{}{"op": "ilv", "phase": "resumed", "merged": 1, "pause": o.Pause, "with": d.Op}, wait())
		}
		if !s.finish(line, out) {
			release()
			return false
		}
		if released { // the snapshot of the call had to wait for the step
			s.rec.meta["ilv_ops_waited_for_suspended_step"]++
			return s.finish(map[string]interface{}{"op": "ilv", "phase": "resumed", "merged": 1, "pause": o.Pause, "with": d.Op}, wait())
		}
	}
	return s.finish(map[string]interface{}{"op": "ilv", "phase": "resumed", "pause": o.Pause}, wait())
}

// ---------------------------------------------------------------- random generation

func pick[T any](r *rand.Rand, xs []T) T { return xs[r.Intn(len(xs))] }

func randCfg(r *rand.Rand) poolCfg {
	c := poolCfg{
		Max:  pick(r, []int{1, 1, 2, 2, 3, 3, 4, 6, 50}),
		Acc:  pick(r, []int{1, 2, 2, 3, 3, 4, 64}),
		Diff: pick(r, []uint64{0, 1, 2, 200, 201}),
		MinP: pick(r, []uint64{0, 0, 1, 1, 2}),
	}
	if feeBase != 0 {
		c.Max, c.MinP = 50, 0
	}
	return c
}

func txID(sender int, nonceIdx, feeIdx, variant int) int {
	return ((sender-1)*len(uNonces)+nonceIdx)*len(uFees)*nVariants + feeIdx*nVariants + variant + 1
}

func nonceIdx(n uint64) int {
	for i, x := range uNonces {
		if x == n {
			return i
		}
	}
	return -1
}

func randTx(r *rand.Rand) int { return 1 + r.Intn(len(universe)) }

func (s *session) pooled() []int {
	if s.last == nil {
		return nil
	}
	return s.last.All
}

func (s *session) genAdd(r *rand.Rand) int {
	pooled := s.pooled()
	x := r.Intn(100)
	switch {
	case x < 35: // next nonce of a sender
		sd := 1 + r.Intn(nSenders)
		next := uint64(0)
		for _, id := range pooled {
			if d := def(id); d.Sender == sd && d.Nonce+1 > next {
				next = d.Nonce + 1
			}
		}
		ni := nonceIdx(next)
		if ni < 0 {
			ni = r.Intn(len(uNonces))
		}
		return txID(sd, ni, 1+r.Intn(len(uFees)-1), r.Intn(nVariants))
	case x < 60 && len(pooled) > 0: // same sender and nonce as a pooled transaction
		d := def(pick(r, pooled))
		return txID(d.Sender, nonceIdx(d.Nonce), r.Intn(len(uFees)), r.Intn(nVariants))
	case x < 68 && len(pooled) > 0: // duplicate
		return pick(r, pooled)
	case x < 85: // a low nonce
		return txID(1+r.Intn(nSenders), r.Intn(3), r.Intn(len(uFees)), r.Intn(nVariants))
	}
	return randTx(r)
}

func (s *session) genOps(r *rand.Rand) []opSpec {
	pooled := s.pooled()
	x := r.Intn(100)
	switch {
	case x < 52:
		o := opSpec{Op: "add", T: s.genAdd(r), Via: "api"}
		switch y := r.Intn(20); {
		case y == 0:
			o.Pub = "fail" // the network refuses the announcement of this transaction
		case y == 1:
			o.Via = "announce" // the transaction arrives as an announcement from a peer
		}
		return []opSpec{o}
	case x < 62:
		if len(pooled) > 0 && r.Intn(5) > 0 {
			return []opSpec{{Op: "remove", T: pick(r, pooled), Via: "api"}}
		}
		return []opSpec{{Op: "remove", T: randTx(r), Via: "api"}}
	case x < 78:
		return []opSpec{{Op: "reorg"}}
	case x < 85:
		t := randTx(r)
		if len(pooled) > 0 && r.Intn(4) > 0 {
			t = pick(r, pooled)
		}
		return []opSpec{{Op: "verdict", T: t, V: pick(r, []string{"ok", "pending", "invalid", "invalid", "error"})}}
	case x < 89: // a new block contains 1..3 pooled (mostly processable) transactions
		var ops []opSpec
		cand := []int{}
		for _, a := range s.last.Acc {
			for _, n := range a.Proc {
				for _, e := range a.Txs {
					if e[0] == n {
						cand = append(cand, int(e[1]))
					}
				}
			}
		}
		if len(cand) == 0 || r.Intn(4) == 0 {
			cand = append(cand, pooled...)
		}
		if len(cand) == 0 {
			cand = []int{randTx(r)}
		}
		k := 1 + r.Intn(3)
		for i := 0; i < k; i++ {
			ops = append(ops, opSpec{Op: "remove", T: pick(r, cand), Via: "block-applied"})
		}
		return ops
	case x < 93: // a deleted block gives 1..3 transactions back
		var ops []opSpec
		sd := 1 + r.Intn(nSenders)
		k := 1 + r.Intn(3)
		for i := 0; i < k; i++ {
			ops = append(ops, opSpec{Op: "add", T: txID(sd, i, 1+r.Intn(len(uFees)-1), r.Intn(nVariants)), Via: "block-reverted"})
		}
		return ops
	case x < 95:
		t := randTx(r)
		if len(pooled) > 0 && r.Intn(2) == 0 {
			t = pick(r, pooled)
		}
		return []opSpec{{Op: "get", T: t}}
	case x < 97:
		return []opSpec{{Op: "getall"}}
	}
	return []opSpec{{Op: "getprocessable"}}
}

func runSeq(rec *recorder, r *rand.Rand, nseq int) {
	s := &session{rec: rec}
	for q := 0; q < nseq; q++ {
		s.reset(randCfg(r))
		n := 8 + r.Intn(30)
		// in every second sequence the values of two reads in the middle are kept, the same reads are made again at the
		// end (after further calls) and the kept values are looked at once more
		keep := -1
		if q%2 == 0 {
			keep = n/3 + r.Intn(n/3+1)
		}
		for i := 0; i < n && !s.dead; i++ {
			if i == keep {
				s.do(opSpec{Op: "getall"})
				if !s.dead {
					s.do(opSpec{Op: "getprocessable"})
				}
			}
			for _, o := range s.genOps(r) {
				if s.dead || !s.do(o) {
					break
				}
			}
		}
		if keep >= 0 && !s.dead {
			s.do(opSpec{Op: "getall"})
			if !s.dead {
				s.do(opSpec{Op: "getprocessable"})
			}
		}
		s.flushHeld()
	}
}

// ilv: build a sender's run, promote it, extend it, then suspend the next promotion step inside the verifier
func runIlv(rec *recorder, r *rand.Rand, nseq int) {
	s := &session{rec: rec}
	for q := 0; q < nseq; q++ {
		c := randCfg(r)
		if r.Intn(3) > 0 { // mostly away from the capacity limits
			c.Max, c.Acc = 50, 64
		}
		c.MinP = 0
		s.reset(c)
		if r.Intn(3) > 0 {
			// targeted shape: a sender's run is promoted, extended, and the next step is suspended while
			// one transaction of the run / of the extension is removed or replaced
			sd := 1 + r.Intn(nSenders)
			k1 := 1 + r.Intn(3)
			k2 := k1 + 1 + r.Intn(4) // the suspended step promotes 1..4 transactions: a removal in the MIDDLE of its batch needs >= 3
			var run []int
			for ni := 0; ni < k2 && ni < 5 && !s.dead; ni++ {
				id := txID(sd, ni, 1+r.Intn(2), r.Intn(nVariants))
				run = append(run, id)
				s.do(opSpec{Op: "add", T: id, Via: "api"})
				if ni+1 == k1 && !s.dead {
					s.do(opSpec{Op: "reorg"})
				}
			}
			if s.dead {
				continue
			}
			// sometimes one transaction of the run is answered invalid in the suspended step: the step then drops a part of
			// the run it read while the list changes under it
			maxPause := len(run)
			if r.Intn(3) == 0 {
				bi := r.Intn(len(run))
				s.do(opSpec{Op: "verdict", T: run[bi], V: "invalid"})
				maxPause = bi + 1 // the verifier is not asked beyond the first invalid answer
			}
			victim := def(pick(r, run))
			if k1 < len(run) && r.Intn(2) == 0 {
				victim = def(pick(r, run[k1:])) // one of those the suspended step is about to promote
			}
			var d opSpec
			if r.Intn(2) > 0 {
				d = opSpec{Op: "remove", T: victim.ID}
			} else {
				d = opSpec{Op: "add", T: txID(sd, nonceIdx(victim.Nonce), 4, r.Intn(nVariants))}
			}
			s.do(opSpec{Op: "ilv", Pause: 1 + r.Intn(maxPause), During: []opSpec{d}})
			s.flushHeld()
			continue
		}
		rounds := 1 + r.Intn(3)
		for k := 0; k < rounds && !s.dead; k++ {
			pre := 2 + r.Intn(6)
			for i := 0; i < pre && !s.dead; i++ {
				var o opSpec
				switch x := r.Intn(10); {
				case x < 7:
					o = opSpec{Op: "add", T: s.genAdd(r), Via: "api"}
				case x < 9:
					o = opSpec{Op: "reorg"}
				default:
					t := randTx(r)
					if p := s.pooled(); len(p) > 0 {
						t = pick(r, p)
					}
					o = opSpec{Op: "verdict", T: t, V: pick(r, []string{"ok", "invalid", "pending"})}
				}
				s.do(o)
			}
			if s.dead {
				break
			}
			var during []opSpec
			nd := 1 + r.Intn(2)
			for i := 0; i < nd; i++ {
				p := s.pooled()
				switch x := r.Intn(10); {
				case x < 6 && len(p) > 0:
					during = append(during, opSpec{Op: "remove", T: pick(r, p)})
				case x < 9:
					during = append(during, opSpec{Op: "add", T: s.genAdd(r)})
				default:
					t := randTx(r)
					if len(p) > 0 {
						t = pick(r, p)
					}
					during = append(during, opSpec{Op: "verdict", T: t, V: pick(r, []string{"ok", "invalid"})})
				}
			}
			s.do(opSpec{Op: "ilv", Pause: 1 + r.Intn(4), During: during})
		}
		s.flushHeld()
	}
}

// what one goroutine of a concurrent run was told by the pool
type concLog struct {
	counts    map[string]int
	attempted map[int]bool
	added     map[int]bool
	removes   map[int]bool
	inval     map[int]bool
	reads     map[string]map[string]interface{}
}

func (l *concLog) read(op string, res []int) {
	k := op + fmt.Sprint(res)
	if _, ok := l.reads[k]; !ok && len(l.reads) < 40 {
		l.reads[k] = map[string]interface{}{"op": op, "res": res}
	}
}

func keys(m map[int]bool) []int {
	r := []int{}
	for k := range m {
		r = append(r, k)
	}
	sort.Ints(r)
	return r
}

// conc: N goroutines issue random operations on one pool; what each of them was told is recorded, the snapshot is taken at
// quiescence.  Promotion steps are issued by several goroutines but never overlap each other: the pool runs them from
// ONE ticker goroutine, a step that overlaps another step is not a schedule the pool has.
func runConc(rec *recorder, r *rand.Rand, runs int) {
	s := &session{rec: rec}
	for q := 0; q < runs; q++ {
		c := randCfg(r)
		// profile "plain": no limit is reached and no two candidates share sender and nonce, so that neither
		// eviction nor replacement can happen; what goes wrong there is due to the interleaving alone
		profile := "mixed"
		if q%2 == 0 {
			profile = "plain"
			c.Max, c.Acc = 4096, 64
		}
		s.reset(c)
		in := s.in
		in.abi.jitter = true
		in.abi.jitterRn = rand.New(rand.NewSource(r.Int63()))
		ng := 2 + r.Intn(5)
		per := 10 + r.Intn(40)
		// a narrow set of transactions so that the goroutines collide
		var cand []int
		if profile == "plain" {
			for sd := 1; sd <= 2; sd++ {
				for ni := 0; ni < 5; ni++ {
					cand = append(cand, txID(sd, ni, 1+r.Intn(len(uFees)-1), r.Intn(nVariants)))
				}
			}
		} else {
			for i := 0; i < 24; i++ {
				cand = append(cand, txID(1+r.Intn(2), r.Intn(4), 1+r.Intn(len(uFees)-1), r.Intn(nVariants)))
			}
		}
		// in every second plain run the transactions of the second sender are never removed by a caller
		removable := cand
		if profile == "plain" && q%4 == 0 {
			removable = cand[:5]
		}
		seeds := make([]int64, ng)
		for i := range seeds {
			seeds[i] = r.Int63()
		}
		logs := make([]*concLog, ng)
		var wg sync.WaitGroup
		var reorgMu sync.Mutex
		done := make(chan struct{})
		var msgs = make([]string, ng)
		for g := 0; g < ng; g++ {
			wg.Add(1)
			logs[g] = &concLog{counts: map[string]int{}, attempted: map[int]bool{}, added: map[int]bool{}, removes: map[int]bool{},
				inval: map[int]bool{}, reads: map[string]map[string]interface{}{}}
			go func(g int) {
				defer wg.Done()
				d := make(chan struct{})
				lg := logs[g]
				verifGuardedCall(func() {
					rr := rand.New(rand.NewSource(seeds[g]))
					for i := 0; i < per; i++ {
						switch x := rr.Intn(100); {
						case x < 50:
							id := pick(rr, cand)
							lg.attempted[id] = true
							if in.pool.Add(def(id).tx) {
								lg.added[id] = true
							}
							lg.counts["add"]++
						case x < 65:
							id := pick(rr, removable)
							lg.removes[id] = true
							in.pool.Remove(def(id).tx.ID)
							lg.counts["remove"]++
						case x < 85:
							reorgMu.Lock()
							in.pool.VerifReorgOnce()
							reorgMu.Unlock()
							lg.counts["reorg"]++
						case x < 90:
							id := pick(rr, cand)
							v := pick(rr, []string{"ok", "invalid", "pending"})
							if v == "invalid" {
								lg.inval[id] = true
							}
							in.abi.setVerdict(id, v)
							lg.counts["verdict"]++
						case x < 94:
							lg.read("getall", ids(in.pool.GetAll()))
							lg.counts["getall"]++
						case x < 97:
							lg.read("getprocessable", ids(in.pool.GetProcessable()))
							lg.counts["getprocessable"]++
						default:
							id := pick(rr, cand)
							if tx, ok := in.pool.Get(def(id).tx.ID); ok {
								got := contentID(tx)
								if got != id {
									got = 0 // another transaction than the one asked for
								}
								lg.read("get", []int{got})
							}
							lg.counts["get"]++
						}
					}
				}, &msgs[g], d)
			}(g)
		}
		go func() { wg.Wait(); close(done) }()
		blocked := await(done)
		line := map[string]interface{}{"op": "concurrent", "profile": profile, "goroutines": ng, "per": per}
		in.abi.takeCalls()
		if blocked {
			st, ch := describeStuck()
			line["blocked"] = 1
			line["blockedin"] = ch
			line["stack"] = st
			rec.meta["blocked"]++
			rec.emit(line)
			continue
		}
		tot := map[string]int{}
		att, added, removes, inval := map[int]bool{}, map[int]bool{}, map[int]bool{}, map[int]bool{}
		reads := []map[string]interface{}{}
		seen := map[string]bool{}
		for _, lg := range logs {
			for k, v := range lg.counts {
				tot[k] += v
				rec.meta["conc_"+k] += v
			}
			for k := range lg.attempted {
				att[k] = true
			}
			for k := range lg.added {
				added[k] = true
			}
			for k := range lg.removes {
				removes[k] = true
			}
			for k := range lg.inval {
				inval[k] = true
			}
			var ks []string
			for k := range lg.reads {
				ks = append(ks, k)
			}
			sort.Strings(ks)
			for _, k := range ks {
				if !seen[k] {
					seen[k] = true
					reads = append(reads, lg.reads[k])
				}
			}
		}
		// a verifier answer "invalid" that a caller set and the verifier really gave
		in.abi.mu.Lock()
		for k := range in.abi.everBad {
			inval[k] = true
		}
		in.abi.mu.Unlock()
		line["ops"] = tot
		line["attempted"] = keys(att)
		line["added"] = keys(added)
		line["removes"] = keys(removes)
		line["inval"] = keys(inval)
		line["reads"] = reads
		rec.meta["conc_read_results_checked"] += len(reads)
		pm := ""
		for _, m := range msgs {
			if m != "" {
				pm = m
			}
		}
		if pm != "" {
			line["panic"] = pm
			rec.meta["panics"]++
			rec.emit(line)
			continue
		}
		sn, so := s.snapshot()
		if so.Blocked || so.Panic != "" {
			line["blocked"] = tj.B(so.Blocked)
			line["blockedin"] = so.BlockedIn
			line["stack"] = so.Stack
			line["panic"] = so.Panic
			rec.emit(line)
			continue
		}
		line["snap"] = sn
		rec.emit(line)
	}
}

// ---------------------------------------------------------------- life: Start / ticker / End, subscribers

type lifeReader struct {
	mu  sync.Mutex
	got int
}

// reader: a subscriber of the pool's events that is alive but sometimes slow, and that consults the pool about what it
// was told (time.Sleep, not a timer channel: a sleeping goroutine is visibly not stuck)
func (lr *lifeReader) run(ch <-chan interface{}, pool *txpool.TransactionPool, seed int64, wg *sync.WaitGroup) {
	defer wg.Done()
	rr := rand.New(rand.NewSource(seed))
	for msg := range ch {
		lr.mu.Lock()
		lr.got++
		lr.mu.Unlock()
		var id []byte
		if m, ok := msg.(*txpool.EventNewTransactionMessage); ok && m != nil && m.Transaction != nil {
			id = m.Transaction.ID
		}
		switch rr.Intn(4) {
		case 0:
		case 1:
			time.Sleep(time.Duration(200+rr.Intn(1500)) * time.Microsecond)
		default:
			time.Sleep(time.Duration(500+rr.Intn(1500)) * time.Microsecond)
			if id != nil {
				pool.Get(id)
			} else {
				pool.GetProcessable()
			}
		}
	}
}

// waitTick waits until a promotion step of the pool's own ticker has asked the verifier and everything is parked again
func (s *session) waitTick(limit time.Duration) (seen, quiet bool) {
	abi := s.in.abi
	for t0 := time.Now(); time.Since(t0) < limit; {
		if abi.foreignCalls() != s.foreignSeen {
			seen = true
			break
		}
		time.Sleep(2 * time.Millisecond)
	}
	if !seen {
		return false, false
	}
	quiet = waitQuiescent(2 * time.Second)
	s.foreignSeen = abi.foreignCalls()
	return seen, quiet
}

// one scenario: the pool runs the way the engine runs it (go Start(), subscribers, announcements from peers, End()).
// Every call is recorded and validated like in seq mode; the promotion steps are the pool's own (500 ms ticker), the
// harness only waits for them.
func (s *session) lifeScenario(r *rand.Rand) (clean bool) {
	rec := s.rec
	s.resetMode(poolCfg{Max: 50, Acc: 64, Diff: pick(r, []uint64{0, 1, 2}), MinP: 0}, "life")
	in := s.in
	pool := in.pool
	in.abi.mu.Lock()
	in.abi.track = true
	in.abi.mu.Unlock()
	var rwg sync.WaitGroup
	readers := []*lifeReader{{}, {}, {}}
	chans := []<-chan interface{}{pool.Subscribe(txpool.EventTransactionNew), pool.Subscribe(txpool.EventTransactionNew),
		pool.Subscribe(txpool.EventTransactionAnnouncement)}
	for i, lr := range readers {
		rwg.Add(1)
		go lr.run(chans[i], pool, r.Int63(), &rwg)
	}
	startDone := make(chan struct{})
	go func() { defer close(startDone); pool.Start() }()
	rec.meta["life_scenarios"]++

	sd := 1 + r.Intn(nSenders)
	sd2 := 1 + sd%nSenders
	k := 2 + r.Intn(2)
	bad := -1
	if r.Intn(2) == 0 {
		bad = r.Intn(k + 1)
	}
	step := func(o opSpec) bool {
		if s.dead || s.disturbed {
			return false
		}
		s.do(o)
		return !s.dead && !s.disturbed
	}
	tick := func() bool {
		if s.dead || s.disturbed {
			return false
		}
		before := 0
		for _, a := range s.last.Acc {
			before += len(a.Proc)
		}
		seen, quiet := s.waitTick(1600 * time.Millisecond)
		if !seen {
			rec.meta["life_waits_without_a_tick"]++
			return true // the following calls run under the watchdog: a ticker that died holding a lock shows there
		}
		rec.meta["life_ticks_seen"]++
		line := map[string]interface{}{"op": "reorg", "via": "ticker"}
		if !quiet {
			line["disturbed"] = 1
			s.disturbed = true
		}
		if !s.finish(line, outcome{}) {
			return false
		}
		after := 0
		for _, a := range s.last.Acc {
			after += len(a.Proc)
		}
		if after > before {
			rec.meta["life_promotions_by_the_ticker"]++
		}
		return !s.disturbed
	}
	// phase A (before the first tick): a run of one sender, one transaction of another, by API and by announcement
	ok := true
	for ni := 0; ni < k && ok; ni++ {
		id := txID(sd, ni, 1+r.Intn(2), r.Intn(nVariants))
		via := pick(r, []string{"api", "announce", "announce"})
		if ni == bad {
			// accepted now, answered invalid when the ticker's promotion step asks again
			ok = step(opSpec{Op: "add", T: id, Via: via})
			if ok {
				ok = step(opSpec{Op: "verdict", T: id, V: "invalid"})
				if in.abi.foreignCalls() != s.foreignSeen { // a tick may have asked about it before the answer changed
					s.disturbed = true
					ok = false
				}
			}
			continue
		}
		ok = step(opSpec{Op: "add", T: id, Via: via})
	}
	if ok {
		o := opSpec{Op: "add", T: txID(sd2, 0, 3, 0), Via: "api"}
		if r.Intn(2) == 0 {
			o.Pub = "fail"
		}
		ok = step(o)
	}
	// phase B: the first tick
	ok = ok && tick()
	// phase C: announcements back to back while the subscribers are busy with the previous one; reads; a removal
	for i := 0; i < 3 && ok; i++ {
		ok = step(opSpec{Op: "add", T: txID(sd2, 1+i, 1+r.Intn(3), r.Intn(nVariants)), Via: "announce"})
	}
	if ok {
		ok = step(opSpec{Op: "getprocessable"})
	}
	if ok && len(s.pooled()) > 0 {
		ok = step(opSpec{Op: "remove", T: pick(r, s.pooled()), Via: pick(r, []string{"api", "block-applied"})})
	}
	if ok {
		ok = step(opSpec{Op: "add", T: txID(sd, k, 2, 0), Via: "api"})
	}
	// phase D: the second tick
	ok = ok && tick()
	if ok {
		ok = step(opSpec{Op: "getall"})
	}
	clean = ok && !s.disturbed
	// End: returns, changes nothing, and Start returns after it
	if s.dead {
		return false
	}
	out := guarded(func() { pool.End() })
	if !s.finish(map[string]interface{}{"op": "end"}, out) {
		return false
	}
	rec.meta["life_end_returned"]++
	line := map[string]interface{}{"op": "startexit"}
	if await(startDone) {
		st, ch := describeStuck()
		line["blocked"] = 1
		line["blockedin"] = ch
		line["stack"] = st
		rec.emit(line)
		s.dead = true
		return false
	}
	rec.meta["life_start_returned_after_end"]++
	rec.emit(line)
	// End closed the subscriptions: the readers leave
	rd := make(chan struct{})
	go func() { rwg.Wait(); close(rd) }()
	if !await(rd) {
		for _, lr := range readers {
			lr.mu.Lock()
			rec.meta["life_events_received"] += lr.got
			lr.mu.Unlock()
		}
	}
	if !s.dead {
		s.do(opSpec{Op: "get", T: txID(sd, 0, 1, 0)}) // the pool still answers after End
	}
	s.flushHeld()
	return clean
}

func runLife(rec *recorder, r *rand.Rand, n int) {
	s := &session{rec: rec}
	clean := 0
	for q := 0; q < n+2 && clean < n; q++ {
		if s.lifeScenario(r) {
			clean++
		}
	}
	rec.meta["life_scenarios_clean"] += clean
}

type scriptSeq struct {
	Cfg poolCfg  `json:"cfg"`
	Ops []opSpec `json:"ops"`
}

func runScript(rec *recorder, path string) {
	b, err := os.ReadFile(path)
	if err != nil {
		panic(err)
	}
	var seqs []scriptSeq
	if err := json.Unmarshal(b, &seqs); err != nil {
		panic(err)
	}
	s := &session{rec: rec}
	for _, q := range seqs {
		s.reset(q.Cfg)
		for _, o := range q.Ops {
			if !s.do(o) {
				break
			}
		}
		s.flushHeld()
	}
}

func main() {
	if len(os.Args) < 5 {
		fmt.Fprintln(os.Stderr, "usage: c14 seq|ilv|conc|life|script out.ndjson meta.json <n|script.json>")
		os.Exit(2)
	}
	mode := os.Args[1]
	var err error
	silent, err = log.NewSilentLogger()
	if err != nil {
		panic(err)
	}
	if ms := tj.EnvInt("VERIF_C14_HARDLIMIT_MS", 0); ms > 0 {
		hardLimit = time.Duration(ms) * time.Millisecond
	}
	if b := os.Getenv("VERIF_C14_NONCE_BASE"); b != "" {
		v, err := strconv.ParseUint(b, 10, 64)
		if err != nil {
			panic(err)
		}
		nonceBase = v
	}
	if b := os.Getenv("VERIF_C14_FEE_BASE"); b != "" {
		v, err := strconv.ParseUint(b, 10, 64)
		if err != nil {
			panic(err)
		}
		feeBase = v
	}
	buildUniverse()
	f, err := os.Create(os.Args[2])
	if err != nil {
		panic(err)
	}
	rec := &recorder{w: &lineWriter{f}, meta: map[string]int{}}
	rec.w.Emit(map[string]interface{}{"op": "universe", "senders": nSenders, "txs": universe})
	r := rand.New(rand.NewSource(int64(tj.EnvInt("VERIF_SEED", 1))))
	switch mode {
	case "seq":
		n, _ := strconv.Atoi(os.Args[4])
		runSeq(rec, r, n)
	case "ilv":
		n, _ := strconv.Atoi(os.Args[4])
		runIlv(rec, r, n)
	case "conc":
		n, _ := strconv.Atoi(os.Args[4])
		runConc(rec, r, n)
	case "life":
		n, _ := strconv.Atoi(os.Args[4])
		runLife(rec, r, n)
	case "script":
		runScript(rec, os.Args[4])
	default:
		fmt.Fprintln(os.Stderr, "unknown mode")
		os.Exit(2)
	}
	f.Close()
	tj.WriteJSON(os.Args[3], rec.meta)
}
