// c15: generated blocks are valid; a generator never contradicts itself (property C15, binding A).
//
//	c15 select <cases.ndjson> <out.json>
//	    every line is a case printed by TLC from spec/Generator.tla part (a): a pool (3 senders, transactions in nonce
//	    order with fee rank, size and verify/execute outcome) and, for the size limits 1..6, the set of admissible
//	    payloads.  The pool is concretised into real transactions (size = z * Unit bytes; fee priority by one of two
//	    rank tables: rank * 1000, or the boundary table 0, 1, 999, 1000, 2^31, 2^40 with up to size-1 units of fee on top:
//	    same integer priority), handed - shuffled - to the real selectTransactionsByFee (+ limitTransactionsWithSize)
//	    through Generator.VerifSelectByFee with an ABI whose VerifyTransaction / ExecuteTransaction answers follow the
//	    case (ok / invalid / pending / executed-with-result-Fail / the call returns an error).
//
//	c15 forge <scripts.ndjson> <cases.ndjson> <config.json> <out.json>
//	    every line of scripts is a forge / recv / switch / restart script printed by TLC from part (b) with the expected
//	    header fields.  It is replayed on a real generator.Generator (generator DB on a strict in-memory file system,
//	    real txpool filled from the cases) wired to the real consensus.Executer of internal/node through a wrapper
//	    that intercepts AddInternal; every produced block is processed by that Executer and must be accepted.  The
//	    last Forge of a script runs through the unmodified forge() at wall-clock time, the earlier ones through
//	    VerifForgeOnce(time of their slot).  After a script that ended with the unmodified forge() the node is restarted
//	    and the same generator signs one more header (not processed: its slot lies in the future) whose
//	    maxHeightGenerated must be what the specification expects (field "next" of the script).
//
//	c15 guard <generator.go> <export_verif.go>
//	    prints whether VerifForgeOnce still is forge() apart from the documented differences (go/ast comparison).
package main

import (
	"bufio"
	"bytes"
	"context"
	"encoding/binary"
	"encoding/json"
	"fmt"
	"math/rand"
	"os"
	"runtime/debug"
	"sort"
	"strings"
	"sync"
	"time"

	"github.com/cockroachdb/pebble/vfs"

	"github.com/LiskHQ/lisk-engine/pkg/blockchain"
	"github.com/LiskHQ/lisk-engine/pkg/codec"
	"github.com/LiskHQ/lisk-engine/pkg/consensus"
	"github.com/LiskHQ/lisk-engine/pkg/consensus/contradiction"
	"github.com/LiskHQ/lisk-engine/pkg/db"
	"github.com/LiskHQ/lisk-engine/pkg/engine/config"
	"github.com/LiskHQ/lisk-engine/pkg/generator"
	"github.com/LiskHQ/lisk-engine/pkg/labi"
	"github.com/LiskHQ/lisk-engine/pkg/log"
	"github.com/LiskHQ/lisk-engine/pkg/p2p"
	"github.com/LiskHQ/lisk-engine/pkg/txpool"

	"verifharness/internal/node"
	"verifharness/internal/tj"
)

const Unit = 256 // bytes per abstract size unit
const peer = "12D3KooWverifgenerator"

// ---------------------------------------------------------------------------------------------- results

type Violation struct {
	Key    string      `json:"key"`
	What   string      `json:"what"`
	Replay interface{} `json:"replay"`
}

type Out struct {
	Mode          string         `json:"mode"`
	Cases         int            `json:"cases"`
	Selections    int            `json:"selections"`
	Shapes        map[string]int `json:"case_shapes"`
	WithFailure   int            `json:"cases_with_failed_tx"`
	LimitHit      int            `json:"selections_stopped_by_limit"`
	Ambiguous     int            `json:"selections_with_several_admissible_payloads"`
	Scripts       int            `json:"scripts"`
	Steps         int            `json:"steps"`
	Forges        int            `json:"forges"`
	RealForges    int            `json:"forges_through_unmodified_forge"`
	Crashes       int            `json:"crash_forges"`
	Restarts      int            `json:"restarts"`
	Switches      int            `json:"switches"`
	Shorter       int            `json:"switches_to_shorter_chain"`
	LowerForges   int            `json:"forges_below_largest_height_ever"`
	Accepted      int            `json:"generated_blocks_accepted"`
	Rejected      int            `json:"generated_blocks_rejected"`
	WithTxs       int            `json:"generated_blocks_with_transactions"`
	TxsIncluded   int            `json:"transactions_included"`
	NonEmptyAC    int            `json:"generated_blocks_with_aggregate_commit"`
	SubsetAC      int            `json:"aggregate_commits_of_signer_subset"`
	Pairs         int            `json:"header_pairs_checked_for_contradiction"`
	InfoReads     int            `json:"generator_info_reads_compared"`
	InfoLayout    int            `json:"generator_info_records_not_in_todays_layout"`
	Declined      int            `json:"forges_declined_or_failed_without_block"`
	DeclinedNotes []string       `json:"declined_notes"`
	SelAborted    int            `json:"selections_aborted_with_error"`
	Epilogues     int            `json:"restart_and_next_header_after_unmodified_forge"`
	EpiBelow      int            `json:"of_these_after_a_forge_below_the_largest_height_ever"`
	ChgForges     int            `json:"forges_after_validator_set_change"`
	ChgFirst      int            `json:"forges_directly_after_the_changing_block"`
	TwoAssets     int            `json:"generated_blocks_with_two_unsorted_assets"`
	AfterEvents   int            `json:"generated_blocks_with_after_hook_event"`
	FailTxs       int            `json:"generated_blocks_with_failed_but_included_transaction"`
	ErrPools      int            `json:"forges_with_abi_error_in_pool"`
	TabBoundary   int            `json:"selections_with_boundary_rank_table"`
	Wide          int            `json:"selections_with_5_or_more_senders"`
	Deep          int            `json:"selections_with_7_or_more_transactions_taken"`
	OutcomeSel    map[string]int `json:"selection_cases_per_outcome"`
	SkipUsed      int            `json:"selections_that_skip_a_candidate_that_does_not_fit"`
	LimitDelta    map[string]int `json:"selections_per_limit_delta_bytes"`
	ExactSel      int            `json:"selections_filling_the_limit_exactly"`
	ExactFill     map[string]int `json:"generated_blocks_filling_the_limit_to_the_byte_by_transactions"`
	ExactFillReal map[string]int `json:"of_these_through_unmodified_forge"`
	DeltaForge    map[string]int `json:"generated_blocks_per_limit_delta_bytes"`
	Extras        map[string]int `json:"directed_scenarios"`
	Errors        []string       `json:"harness_errors"`
	Violations    []Violation    `json:"violations"`
	PerKey        map[string]int `json:"violations_per_key"`
}

var (
	out = &Out{Shapes: map[string]int{}, Extras: map[string]int{}, PerKey: map[string]int{}, OutcomeSel: map[string]int{},
		LimitDelta: map[string]int{}, ExactFill: map[string]int{}, ExactFillReal: map[string]int{}, DeltaForge: map[string]int{}}
	mu sync.Mutex
)

func viol(key, what string, replay interface{}) {
	mu.Lock()
	defer mu.Unlock()
	out.PerKey[key]++
	if out.PerKey[key] <= 2 {
		out.Violations = append(out.Violations, Violation{key, what, replay})
	}
}

func herr(format string, a ...interface{}) {
	mu.Lock()
	defer mu.Unlock()
	if len(out.Errors) < 20 {
		out.Errors = append(out.Errors, fmt.Sprintf(format, a...))
	}
}

func count(f func()) {
	mu.Lock()
	f()
	mu.Unlock()
}

// ---------------------------------------------------------------------------------------------- cases (part a)

type TxKind struct {
	R int    `json:"r"`
	Z int    `json:"z"`
	O string `json:"o"`
}

type Case struct {
	Pool [][]TxKind   `json:"pool"`
	Exp  [][][][2]int `json:"exp"` // Exp[limit-1] = admissible payloads, a payload = list of (sender, index)
}

func senderKey(s int) []byte { return bytes.Repeat([]byte{byte(0x40 + s)}, 32) }

// good: the transaction goes into the block (Generator.tla Good): success, or executed with result Fail
func good(o string) bool { return o == "ok" || o == "xe" }

// rank tables: the specification only knows the ORDER of fee priorities (ranks); the concrete priorities are
//
//	table 0: rank * 1000
//	table 1: boundary values - 0 (no fee at all), 1, 999, 1000, 2^31 (beyond int32 / uint32), 2^40
var boundary = []uint64{0, 1, 999, 1000, 1 << 31, 1 << 40}

func priority(rank, tab int) uint64 {
	if tab == 1 && rank >= 1 && rank <= len(boundary) {
		return boundary[rank-1]
	}
	if tab == 1 {
		return 1<<40 + uint64(rank)*1000
	}
	return uint64(rank) * 1000
}

// mkTx builds a transaction of exactly z*Unit bytes whose fee priority (fee / size, integer division) is
// priority(rank, tab); with table 1 every other transaction pays up to size-1 more (same integer priority).
func mkTx(sender int, nonce uint64, rank, z int, salt uint64, tab int, outcome string) *blockchain.Transaction {
	size := z * Unit
	fee := priority(rank, tab) * uint64(size)
	if tab == 1 && (uint64(sender)+nonce+salt)%2 == 0 {
		fee += uint64(size) - 1 - (uint64(sender)*7+nonce)%3
	}
	command := "ok"
	if outcome == "xe" {
		command = node.FailCommand
	}
	tx := &blockchain.Transaction{Module: "toy", Command: command, Nonce: nonce, Fee: fee,
		SenderPublicKey: senderKey(sender), Signatures: []codec.Hex{bytes.Repeat([]byte{9}, 64)}}
	pad := size - 130
	for i := 0; i < 8; i++ {
		p := make([]byte, 8+pad)
		binary.BigEndian.PutUint64(p, salt)
		tx.Params = p
		tx.Init()
		if tx.Size() == size {
			return tx
		}
		pad += size - tx.Size()
		if pad < 0 {
			pad = 0
		}
	}
	panic(fmt.Sprintf("cannot build a transaction of %d bytes (got %d)", size, tx.Size()))
}

type concrete struct {
	txs     []*blockchain.Transaction
	where   map[string][2]int // tx id -> (sender, index)
	outcome map[string]string
}

func concretise(c *Case, salt uint64, tab int) *concrete {
	cc := &concrete{where: map[string][2]int{}, outcome: map[string]string{}}
	for s, list := range c.Pool {
		for i, k := range list {
			tx := mkTx(s+1, uint64(i), k.R, k.Z, salt, tab, k.O)
			cc.txs = append(cc.txs, tx)
			cc.where[string(tx.ID)] = [2]int{s + 1, i + 1}
			cc.outcome[string(tx.ID)] = k.O
		}
	}
	return cc
}

func (cc *concrete) payload(txs []*blockchain.Transaction) ([][2]int, bool) {
	res := [][2]int{}
	for _, tx := range txs {
		w, ok := cc.where[string(tx.ID)]
		if !ok {
			return res, false
		}
		res = append(res, w)
	}
	return res, true
}

func samePayload(a, b [][2]int) bool {
	if len(a) != len(b) {
		return false
	}
	for i := range a {
		if a[i] != b[i] {
			return false
		}
	}
	return true
}

// byteLimit: the size limit in bytes for the abstract limit `units` and delta in {-1, 0, +1} bytes, with the number of
// whole units that fit (all transactions are multiples of Unit bytes): one byte less than k units holds k-1 units.
func byteLimit(units, delta int) (bytes, capacity int) {
	bytes = units*Unit + delta
	return bytes, bytes / Unit
}

// admissibleFor: the admissible payloads for a capacity of `capacity` whole units (nothing fits into 0 units)
func admissibleFor(c *Case, capacity int) [][][2]int {
	if capacity < 1 {
		return [][][2]int{{}}
	}
	return c.Exp[capacity-1]
}

// classify compares a payload produced by the real code with the admissible ones; "" = conforming.
func classify(c *Case, got [][2]int, limit int, admissible [][][2]int) (key, what string) {
	size := 0
	taken := map[int]int{}
	for _, e := range got {
		k := c.Pool[e[0]-1][e[1]-1]
		size += k.Z
		for j := 0; j < e[1]-1; j++ {
			if !good(c.Pool[e[0]-1][j].O) {
				return "selection-includes-after-failure", fmt.Sprintf("transaction %d of sender %d is included although transaction %d of that sender failed (%s)", e[1], e[0], j+1, c.Pool[e[0]-1][j].O)
			}
		}
		if e[1] != taken[e[0]]+1 {
			return "selection-nonce-order", fmt.Sprintf("transaction %d of sender %d is taken after %d of its transactions: per-sender nonce order is not respected", e[1], e[0], taken[e[0]])
		}
		if !good(k.O) {
			return "selection-includes-failed", fmt.Sprintf("transaction %d of sender %d is included although it fails (%s)", e[1], e[0], k.O)
		}
		taken[e[0]] = e[1]
	}
	if size > limit {
		return "selection-over-size-limit", fmt.Sprintf("payload size %d units exceeds the limit %d", size, limit)
	}
	for _, a := range admissible {
		if samePayload(a, got) {
			return "", ""
		}
	}
	for _, a := range admissible {
		if len(got) < len(a) && samePayload(a[:len(got)], got) {
			return "selection-incomplete", fmt.Sprintf("payload %v stops early; admissible: %v", got, admissible)
		}
	}
	return "selection-order", fmt.Sprintf("payload %v is not in descending fee priority among the senders' next transactions; admissible: %v", got, admissible)
}

// ---------------------------------------------------------------------------------------------- scripted application

// genABI is the application the generator talks to: the toy application of internal/node with scripted
// verification / execution outcomes, scripted block assets, and a dry-run Commit (the toy's Commit only knows the
// committing form the Executer uses).
type genABI struct {
	*node.Toy
	mu      sync.Mutex
	outcome map[string]string
	asset   byte // != 0: InsertAssets returns the toy asset selecting validator-set choice `asset`
	// two: InsertAssets returns TWO assets in descending module order ("toy", "aux") - the order in which two modules
	// registered that way would insert them; block validation demands assets sorted by module
	two bool
	// asHooksSee (VERIF_EXPERIMENTAL): the state root depends on the ORDER in which the hooks receive the assets
	// (default: the application reads its assets by module name, as pkg/framework does)
	asHooksSee bool
	header     *blockchain.BlockHeader
	txs        []*blockchain.Transaction
	assets     []*blockchain.BlockAsset
	order      []string
}

func (a *genABI) InitStateMachine(req *labi.InitStateMachineRequest) (*labi.InitStateMachineResponse, error) {
	a.header = req.Header
	a.txs, a.assets = nil, nil
	a.order = append(a.order, "init")
	return a.Toy.InitStateMachine(req)
}
func (a *genABI) InsertAssets(req *labi.InsertAssetsRequest) (*labi.InsertAssetsResponse, error) {
	a.order = append(a.order, "assets")
	if a.two {
		return &labi.InsertAssetsResponse{Assets: []*blockchain.BlockAsset{{Module: "toy", Data: []byte{a.asset}}, {Module: "aux", Data: []byte{7, 7}}}}, nil
	}
	if a.asset != 0 {
		return &labi.InsertAssetsResponse{Assets: []*blockchain.BlockAsset{{Module: "toy", Data: []byte{a.asset}}}}, nil
	}
	return &labi.InsertAssetsResponse{}, nil
}
func (a *genABI) VerifyTransaction(req *labi.VerifyTransactionRequest) (*labi.VerifyTransactionResponse, error) {
	if a.outcome[string(req.Transaction.ID)] == "ve" {
		return nil, fmt.Errorf("application: VerifyTransaction is not available")
	}
	if a.outcome[string(req.Transaction.ID)] == "vf" {
		return &labi.VerifyTransactionResponse{Result: labi.TxVerifyResultInvalid}, nil
	}
	if a.outcome[string(req.Transaction.ID)] == "vp" {
		// not (yet) valid, e.g. a nonce gap: only "ok" lets a transaction into a block
		return &labi.VerifyTransactionResponse{Result: labi.TxVerifyResultPending}, nil
	}
	return &labi.VerifyTransactionResponse{Result: labi.TxVerifyResultOk}, nil
}
func (a *genABI) ExecuteTransaction(req *labi.ExecuteTransactionRequest) (*labi.ExecuteTransactionResponse, error) {
	if a.outcome[string(req.Transaction.ID)] == "xr" {
		return nil, fmt.Errorf("application: ExecuteTransaction is not available")
	}
	if a.outcome[string(req.Transaction.ID)] == "xf" {
		// an application that logged events before it rejected the transaction: the transaction is dropped, and so is
		// everything it produced (every other rejected transaction: with events)
		if len(req.Transaction.ID) > 0 && req.Transaction.ID[0]%2 == 0 {
			return &labi.ExecuteTransactionResponse{Result: labi.TxExecuteResultInvalid}, nil
		}
		r, err := a.Toy.ExecuteTransaction(req)
		if err != nil {
			return nil, err
		}
		return &labi.ExecuteTransactionResponse{Result: labi.TxExecuteResultInvalid, Events: r.Events}, nil
	}
	return a.Toy.ExecuteTransaction(req)
}
func (a *genABI) AfterTransactionsExecute(req *labi.AfterTransactionsExecuteRequest) (*labi.AfterTransactionsExecuteResponse, error) {
	a.txs, a.assets = req.Transactions, req.Assets
	a.order = append(a.order, "after")
	return a.Toy.AfterTransactionsExecute(req)
}
func (a *genABI) Commit(req *labi.CommitRequest) (*labi.CommitResponse, error) {
	if req.DryRun {
		a.order = append(a.order, "commit-dry")
		assets := append(blockchain.BlockAssets{}, a.assets...)
		if !a.asHooksSee {
			assets.Sort()
		}
		return &labi.CommitResponse{StateRoot: node.NextRoot(req.StateRoot, a.header.Height, a.txs, assets)}, nil
	}
	return a.Toy.Commit(req)
}

// ---------------------------------------------------------------------------------------------- select mode

func runSelect(casesPath, outPath string) {
	out.Mode = "select"
	seed := int64(tj.EnvInt("VERIF_SEED", 1))
	f, err := os.Open(casesPath)
	if err != nil {
		herr("%v", err)
		return
	}
	defer f.Close()
	lines := make(chan []byte, 256)
	var wg sync.WaitGroup
	for w := 0; w < 8; w++ {
		wg.Add(1)
		go func(w int) {
			defer wg.Done()
			rnd := rand.New(rand.NewSource(seed*100 + int64(w)))
			abi := &genABI{Toy: &node.Toy{}}
			g := generator.NewGenerator(&generator.GeneratorParams{ABI: abi})
			for line := range lines {
				c := &Case{}
				if err := json.Unmarshal(line, c); err != nil {
					herr("case: %v", err)
					continue
				}
				selectCase(g, abi, c, rnd)
			}
		}(w)
	}
	sc := bufio.NewScanner(f)
	sc.Buffer(make([]byte, 1<<20), 1<<26)
	for sc.Scan() {
		lines <- append([]byte{}, sc.Bytes()...)
	}
	close(lines)
	wg.Wait()
}

func shape(c *Case) string {
	parts := []string{}
	for _, l := range c.Pool {
		parts = append(parts, fmt.Sprint(len(l)))
	}
	return strings.Join(parts, "-")
}

// usesSkip: the payload uses the freedom the statement leaves at a candidate that does not fit (leave that sender out and
// go on instead of stopping): a transaction is taken at a moment at which a strictly better ranked next transaction of
// another live sender did not fit.  Coverage only (today's code always stops: 0).
func usesSkip(c *Case, got [][2]int, limit int) bool {
	size := 0
	taken := map[int]int{}
	for _, e := range got {
		k := c.Pool[e[0]-1][e[1]-1]
		for s := range c.Pool {
			if s+1 == e[0] || taken[s+1] >= len(c.Pool[s]) {
				continue
			}
			live := true
			for j := 0; j <= taken[s+1]; j++ {
				live = live && good(c.Pool[s][j].O)
			}
			nx := c.Pool[s][taken[s+1]]
			if live && nx.R > k.R && size+nx.Z > limit {
				return true
			}
		}
		size += k.Z
		taken[e[0]] = e[1]
	}
	return false
}

func selectCase(g *generator.Generator, abi *genABI, c *Case, rnd *rand.Rand) {
	defer func() {
		if e := recover(); e != nil {
			viol("panic:select", fmt.Sprintf("selectTransactionsByFee panicked: %v", e), map[string]interface{}{"mode": "select", "case": c})
		}
	}()
	failed := false
	outcomes := map[string]bool{}
	for _, l := range c.Pool {
		for _, k := range l {
			outcomes[k.O] = true
			if !good(k.O) {
				failed = true
			}
		}
	}
	count(func() {
		out.Cases++
		out.Shapes[shape(c)]++
		if failed {
			out.WithFailure++
		}
		for o := range outcomes {
			out.OutcomeSel[o]++
		}
	})
	total := 0
	for _, l := range c.Pool {
		for _, k := range l {
			total += k.Z
		}
	}
	// every case and limit under both rank tables (the specification fixes the order of the priorities only)
	for lt := 0; lt < 2*len(c.Exp); lt++ {
		limit, tab := 1+lt/2, lt%2
		// the limit in bytes: exactly `limit` units, one byte less (one unit less fits) or one byte more (nothing more fits)
		delta := (len(c.Pool)+total+limit+tab)%3 - 1
		maxBytes, capacity := byteLimit(limit, delta)
		cc := concretise(c, uint64(limit), tab)
		abi.outcome = cc.outcome
		txs := append([]*blockchain.Transaction{}, cc.txs...)
		rnd.Shuffle(len(txs), func(i, j int) { txs[i], txs[j] = txs[j], txs[i] })
		hdr := &blockchain.BlockHeader{Version: 2, Height: 1, Timestamp: 1}
		abi.Toy.Calls = nil
		abi.order = nil
		sel, err := g.VerifSelectByFee(hdr, nil, txs, maxBytes)
		if err != nil {
			// no payload, no block: the statement is about the blocks that are produced.  Counted; a run in which this
			// happens is inconclusive (the driver), never a violation
			count(func() { out.SelAborted++ })
			continue
		}
		got, known := cc.payload(sel)
		if !known {
			viol("selection-unknown-transaction", "the payload contains a transaction that is not in the pool", map[string]interface{}{"mode": "select", "case": c})
			continue
		}
		size := 0
		for _, e := range got {
			size += c.Pool[e[0]-1][e[1]-1].Z
		}
		count(func() {
			out.Selections++
			if len(admissibleFor(c, capacity)) > 1 {
				out.Ambiguous++
			}
			out.LimitDelta[fmt.Sprint(delta)]++
			if size == capacity && delta == 0 && len(got) > 0 {
				out.ExactSel++
			}
			if size < total && len(got) < len(cc.txs) && !failed {
				out.LimitHit++
			}
			if tab == 1 {
				out.TabBoundary++
			}
			if len(c.Pool) >= 5 {
				out.Wide++
			}
			if len(got) >= 7 {
				out.Deep++
			}
			if usesSkip(c, got, capacity) {
				out.SkipUsed++
			}
		})
		if key, what := classify(c, got, capacity, admissibleFor(c, capacity)); key != "" {
			viol(key, fmt.Sprintf("pool %v, limit %d bytes (%d units of %d bytes %+d): %s", c.Pool, maxBytes, limit, Unit, delta, what), map[string]interface{}{"mode": "select", "case": c, "limit": limit})
		}
	}
}

// ---------------------------------------------------------------------------------------------- forge mode: script format

type SpecObs struct {
	TipH uint32 `json:"tipH"`
	Fin  uint32 `json:"fin"`
	Mhpv uint32 `json:"mhpv"`
	Mhpc uint32 `json:"mhpc"`
}

type Info struct {
	H   uint32 `json:"h"`
	Mhp uint32 `json:"mhp"`
	Mhg uint32 `json:"mhg"`
}

type Step struct {
	node.Cand
	Op      string  `json:"op"`
	Crash   bool    `json:"crash"`
	Handed  bool    `json:"handed"`
	Info    Info    `json:"info"`
	Del     int     `json:"del"`
	Blocks  []Step  `json:"blocks"`
	Shorter bool    `json:"shorter"`
	Obs     SpecObs `json:"obs"`
}

type Script struct {
	Script   []Step `json:"script"`
	Critical bool   `json:"critical"`
	ChgForge bool   `json:"chgforge,omitempty"`
	// Next[g-1]: the maxHeightGenerated the specification expects in the NEXT header of own generator g after the script
	Next    []uint32 `json:"next,omitempty"`
	Idx     *int     `json:"idx,omitempty"`
	Cases   []*Case  `json:"cases,omitempty"`
	Extra   string   `json:"extra,omitempty"`
	Signers []int    `json:"signers,omitempty"` // validators whose single commits reach the pool (nil = all)
}

// ---------------------------------------------------------------------------------------------- strict file system for the generator DB

type gfs struct {
	mem *vfs.MemFS
}

func newGFS() *gfs {
	mem := vfs.NewStrictMem()
	if err := mem.MkdirAll("generator", 0o755); err != nil {
		panic(err)
	}
	for _, d := range []string{"", "generator"} {
		if h, err := mem.OpenDir(d); err == nil {
			h.Sync()
			h.Close()
		}
	}
	return &gfs{mem: mem}
}

// ---------------------------------------------------------------------------------------------- the generator under test

type stubConn struct{}

func (c *stubConn) Broadcast(ctx context.Context, event string, data []byte) error { return nil }
func (c *stubConn) RegisterRPCHandler(endpoint string, handler p2p.RPCHandler, opts ...p2p.RPCHandlerOption) error {
	return nil
}
func (c *stubConn) RegisterEventHandler(name string, handler p2p.EventHandler, validator p2p.Validator) error {
	return nil
}
func (c *stubConn) ApplyPenalty(pid p2p.PeerID, score int) {}
func (c *stubConn) RequestFrom(ctx context.Context, peerID p2p.PeerID, procedure string, data []byte) p2p.Response {
	return p2p.Response{}
}
func (c *stubConn) Publish(ctx context.Context, topicName string, data []byte) error { return nil }

type okVerifier struct{}

func (okVerifier) VerifyTransaction(req *labi.VerifyTransactionRequest) (*labi.VerifyTransactionResponse, error) {
	return &labi.VerifyTransactionResponse{Result: labi.TxVerifyResultOk}, nil
}

// capCons is the consensus the generator sees: the real Executer, except that AddInternal is intercepted.
type capCons struct {
	*consensus.Executer
	onAdd func(b *blockchain.Block)
}

func (c *capCons) AddInternal(b *blockchain.Block) { c.onAdd(b) }

type hdrView struct {
	gen         []byte
	h, mhp, mhg uint32
}

func (h hdrView) Height() uint32             { return h.h }
func (h hdrView) GeneratorAddress() []byte   { return h.gen }
func (h hdrView) MaxHeightGenerated() uint32 { return h.mhg }
func (h hdrView) MaxHeightPrevoted() uint32  { return h.mhp }

// specContra = LiskBFT!Contra
func specContra(b1, b2 hdrView) bool {
	swap := b1.mhg > b2.mhg || (b1.mhg == b2.mhg && b1.mhp > b2.mhp) || (b1.mhg == b2.mhg && b1.mhp == b2.mhp && b1.h > b2.h)
	e, l := b1, b2
	if swap {
		e, l = b2, b1
	}
	return bytes.Equal(e.gen, l.gen) && ((e.mhp == l.mhp && e.h >= l.h) || e.h > l.mhg || e.mhp > l.mhp)
}

type signedHdr struct {
	hdrView
	step    int
	epoch   int // number of restarts before it
	afterSw int // number of switches before it
}

type rig struct {
	cfg     *node.Config
	own     []int
	n       *node.Node
	fs      *gfs
	gdb     *db.DB
	g       *generator.Generator
	pool    *txpool.TransactionPool
	abi     *genABI
	cons    *capCons
	evs     []chan interface{}
	added   []*blockchain.Block
	atAdd   func(b *blockchain.Block)
	signers []int
	logger  log.Logger
}

func (r *rig) openGenerator() error {
	gdb, err := db.NewDBWithFS("generator", r.fs.mem)
	if err != nil {
		return err
	}
	r.gdb = gdb
	r.abi = &genABI{Toy: r.n.Toy, outcome: map[string]string{}}
	r.cons = &capCons{Executer: r.n.Ex, onAdd: func(b *blockchain.Block) {
		r.added = append(r.added, b)
		if r.atAdd != nil {
			r.atAdd(b)
		}
	}}
	r.pool = txpool.NewTransactionPool(&txpool.TransactionPoolConfig{})
	if err := r.pool.Init(context.Background(), r.logger, nil, nil, &stubConn{}, okVerifier{}); err != nil {
		return err
	}
	r.g = generator.NewGenerator(&generator.GeneratorParams{Consensus: r.cons, ABI: r.abi, Pool: r.pool, Chain: r.n.Chain})
	gcfg := &config.Config{System: &config.SystemConfig{}, Generator: &config.GeneratorConfig{Keys: &config.KeysConfig{}},
		Genesis: &config.GenesisConfig{ChainID: r.n.ChainID, BlockTime: node.BlockTime, MaxTransactionsSize: r.cfg.MaxTxs, BFTBatchSize: uint32(r.cfg.Batch)}}
	if err := r.g.Init(&generator.GeneratorInitParams{CTX: context.Background(), Cfg: gcfg, Logger: r.logger, BlockchainDB: r.n.DB, GeneratorDB: gdb}); err != nil {
		return err
	}
	for _, id := range r.own {
		v := node.Validator(id)
		r.g.EnableGeneration(v.Address, &generator.PlainKeys{GeneratorKey: v.PubKey, GeneratorPrivateKey: v.PrivKey, BLSKey: v.BLS.PublicKey, BLSPrivateKey: v.BLS.PrivateKey})
	}
	// raw consensus events for the generator's handlers (buffered: Publish never blocks)
	// (one channel per topic: Executer.Stop closes every subscribed channel once per subscription)
	r.evs = nil
	for _, topic := range []string{consensus.EventBlockDelete, consensus.EventBlockFinalize, consensus.EventBlockNew} {
		ch := make(chan interface{}, 4096)
		r.evs = append(r.evs, ch)
		r.n.Ex.VerifEvents().On(topic, ch)
	}
	return nil
}

// deliver hands the consensus events published so far to the generator's handlers (what Start() does) and lets
// the validators certify newly finalized heights (their single commits reach the pool like gossiped ones).
func (r *rig) deliver() {
	r.n.Drain()
	for _, ch := range r.evs {
		r.deliverFrom(ch)
	}
}

func (r *rig) deliverFrom(ch chan interface{}) {
	for {
		select {
		case m, ok := <-ch:
			if !ok {
				return
			}
			switch v := m.(type) {
			case *consensus.EventBlockNewMessage:
				r.g.VerifOnEvent(consensus.EventBlockNew, m)
			case *consensus.EventBlockDeleteMessage:
				r.g.VerifOnEvent(consensus.EventBlockDelete, m)
			case *consensus.EventBlockFinalizeMessage:
				r.g.VerifOnEvent(consensus.EventBlockFinalize, m)
				for id := 1; id <= r.cfg.NVal; id++ {
					if r.signers != nil {
						in := false
						for _, s := range r.signers {
							in = in || s == id
						}
						if !in {
							continue
						}
					}
					val := node.Validator(id)
					r.n.Ex.Certify(v.Original, v.Next, val.Address, val.BLS.PrivateKey) //nolint
				}
			}
		default:
			return
		}
	}
}

func (r *rig) clearPool() {
	for _, tx := range r.pool.GetAll() {
		r.pool.Remove(tx.ID)
	}
}

func (r *rig) close() {
	if r.gdb != nil {
		r.gdb.Close()
	}
	if r.n != nil {
		r.n.Close()
	}
}

func reason(err error) string {
	if err == nil {
		return "not-applied"
	}
	s := err.Error()
	for _, p := range [][2]string{{"contradicting", "contradicting-header"}, {"validatorsHash", "validators-hash"}, {"event root", "event-root"},
		{"state root", "state-root"}, {"aggregate commit", "aggregate-commit"}, {"certificate", "aggregate-commit"}, {"maxHeight prevoted", "max-height-prevoted"},
		{"future block", "timestamp"}, {"timestamp", "timestamp"}, {"block generator", "generator"}, {"signature", "signature"},
		{"transactions size", "payload-size"}, {"transaction root", "transaction-root"}, {"asset", "assets"}, {"consecutive", "height"}, {"previous block", "previous-block"}} {
		if strings.Contains(s, p[0]) {
			return p[1]
		}
	}
	return "other"
}

func genOf(cfg *node.Config, addr []byte) int {
	for id := 1; id <= cfg.NVal; id++ {
		if bytes.Equal(node.Validator(id).Address, addr) {
			return id
		}
	}
	return 0
}

// ---------------------------------------------------------------------------------------------- replay of one script

type HCfg struct {
	Node node.Config `json:"node"`
	Own  []int       `json:"own"`
}

func slotOf(gens []int, after int, gen int) int {
	for s := after + 1; s <= after+4*len(gens)+4; s++ {
		if gens[s%len(gens)] == gen {
			return s
		}
	}
	panic(fmt.Sprintf("validator %d is not in the generator list %v", gen, gens))
}

// gensAt: the generator list in force for the block on top of a chain whose blocks carried the validator-set choices chgs
func gensAt(cfg *node.Config, chgs []int) []int {
	g := cfg.Init.Gens
	for _, c := range chgs {
		if c > 0 && c <= len(cfg.Choices) {
			g = cfg.Choices[c-1].Gens
		}
	}
	return g
}

// fills[{c, k}]: the cases whose admissible payloads for a limit of c units all consist of k transactions that fill the c
// units exactly (with one byte less the last of them must stay out, with one byte more nothing else fits); rich: the cases
// with at least 4 transactions.  Built once from the TLC-printed cases (runForge).
var (
	fills = map[[2]int][]int{}
	rich  []int
)

func indexCases(cases []*Case) {
	for ci, c := range cases {
		n := 0
		for _, l := range c.Pool {
			n += len(l)
		}
		if n >= 4 {
			rich = append(rich, ci)
		}
		for capacity := 1; capacity <= 6 && capacity <= len(c.Exp); capacity++ {
			k := -1
			for _, p := range c.Exp[capacity-1] {
				size := 0
				for _, e := range p {
					size += c.Pool[e[0]-1][e[1]-1].Z
				}
				if size != capacity || (k >= 0 && k != len(p)) {
					k = -2
					break
				}
				k = len(p)
			}
			if k >= 1 {
				fills[[2]int{capacity, k}] = append(fills[[2]int{capacity, k}], ci)
			}
		}
	}
}

// pickCase: the pool of forge number nforge of script idx.  Every second forge gets a pool whose best selection fills the
// limit of this script (in units) exactly with k = 1..4 transactions (the scripts' byte limits are that, one byte less
// and one byte more); the others alternate between pools of >= 4 transactions and all cases.
func pickCase(cases []*Case, idx, nforge, limit int) *Case {
	x := idx*7919 + nforge*104729
	if nforge%2 == 0 {
		for d := 0; d < 4; d++ {
			k := 1 + (idx/18+nforge/2+d)%4
			if l := fills[[2]int{limit, k}]; len(l) > 0 {
				return cases[l[x%len(l)]]
			}
		}
	}
	if nforge%4 == 1 && len(rich) > 0 {
		return cases[rich[x%len(rich)]]
	}
	return cases[x%len(cases)]
}

func replay(h *HCfg, sc *Script, idx int, cases []*Case) {
	if sc.Idx != nil {
		idx = *sc.Idx
	}
	limit := 1 + idx%6
	// MaxTransactionsSize / MaxTransactionsLength in bytes: exactly `limit` units (payloads of 1..6 transactions that fill the
	// limit to the byte), one byte less, one byte more
	maxBytes, capacity := byteLimit(limit, (idx/6)%3-1)
	// ---- plan the slots: real time only moves forward, so every new block gets a later slot than all earlier ones
	// (the generator list is the one in force at the block's height on the chain the node follows at that step)
	slots := map[string]int{}
	used := 0
	lastForge := -1
	lastBlockStep := -1
	chgs := []int{}           // validator-set choice carried by every block of the current chain
	afterChg := map[int]int{} // forge step -> 1: a change is in force, 2: the tip is the changing block
	for i := range sc.Script {
		s := &sc.Script[i]
		switch s.Op {
		case "forge", "recv":
			used = slotOf(gensAt(&h.Node, chgs), used, s.Gen)
			slots[fmt.Sprint(i)] = used
			lastBlockStep = i
			if s.Op == "forge" {
				lastForge = i
				for k, c := range chgs {
					if c > 0 {
						afterChg[i] = 1
						if k == len(chgs)-1 {
							afterChg[i] = 2
						}
					}
				}
			}
			if s.Op == "recv" || s.Handed {
				chgs = append(chgs, s.Chg)
			}
		case "switch":
			if s.Del <= len(chgs) {
				chgs = chgs[:len(chgs)-s.Del]
			}
			for j := range s.Blocks {
				used = slotOf(gensAt(&h.Node, chgs), used, s.Blocks[j].Gen)
				slots[fmt.Sprintf("%d.%d", i, j)] = used
				chgs = append(chgs, s.Blocks[j].Chg)
			}
			lastBlockStep = i
		}
	}
	epiSlot := 0
	if lastForge >= 0 && sc.Next != nil {
		epiSlot = slotOf(gensAt(&h.Node, chgs), used, sc.Script[lastForge].Gen)
	}
	realIdx := -1
	if lastForge >= 0 && lastForge == lastBlockStep {
		realIdx = lastForge
	}
	cfg := h.Node
	cfg.Now = used
	cfg.MaxTxs = uint32(maxBytes)
	used2 := []*Case{}
	rep := func(i int) interface{} {
		id := idx
		m := map[string]interface{}{"mode": "forge", "script": sc.Script[:i+1], "idx": &id, "cases": used2, "extra": sc.Extra, "signers": sc.Signers, "critical": sc.Critical}
		if i == len(sc.Script)-1 && sc.Next != nil {
			m["next"] = sc.Next
		}
		return m
	}
	logger, _ := log.NewSilentLogger()
	n, err := node.New(&cfg, nil, 0)
	if err != nil {
		herr("node: %v", err)
		return
	}
	r := &rig{cfg: &cfg, own: h.Own, n: n, fs: newGFS(), logger: logger, signers: sc.Signers}
	defer func() { r.close() }()
	if err := r.openGenerator(); err != nil {
		herr("generator: %v", err)
		return
	}
	signed := []signedHdr{}
	ever := map[int]uint32{}
	lowAfterSw := map[int]bool{}
	epoch, nsw, nforge := 0, 0, 0
	count(func() { out.Scripts++ })

	restart := func(crashed bool, i int) bool {
		r.gdb.Close()
		if crashed {
			r.fs.mem.ResetToSyncedState()
			r.fs.mem.SetIgnoreSyncs(false)
		}
		r.n.StopExecuter()
		n2, err := node.New(&cfg, r.n.DB, r.n.GenesisTS)
		if err != nil {
			herr("script %d step %d: node does not restart: %v", idx, i, err)
			return false
		}
		r.n = n2
		if err := r.openGenerator(); err != nil {
			viol("generator-does-not-restart", "the generator does not start on its own database: "+err.Error(), rep(i))
			return false
		}
		epoch++
		return true
	}
	applyOther := func(s *Step, slot int, i int) bool {
		c := s.Cand
		c.Slot = slot
		if o, err := r.n.Observe(); err == nil && c.Ac.Kind == "empty" {
			c.Ac.H = o.Cert // the generator under test may have certified heights the abstract script does not track
		}
		b := r.n.Build(&c)
		err := r.n.Ex.VerifProcess(b, peer)
		if !bytes.Equal(r.n.Tip().Header.ID, b.Header.ID) {
			herr("script %d step %d: block of validator %d at height %d is not accepted: %v", idx, i, c.Gen, c.H, err)
			return false
		}
		r.deliver()
		return true
	}
	checkObs := func(s *Step, i int) bool {
		o, err := r.n.Observe()
		if err != nil {
			herr("observe: %v", err)
			return false
		}
		if o.TipH != s.Obs.TipH || o.Mhpv != s.Obs.Mhpv || o.Mhpc != s.Obs.Mhpc || o.Fin != s.Obs.Fin {
			herr("script %d step %d (%s): node state tip=%d mhpv=%d mhpc=%d fin=%d differs from the specification %+v", idx, i, s.Op, o.TipH, o.Mhpv, o.Mhpc, o.Fin, s.Obs)
			return false
		}
		return true
	}

	// pairwise non-contradiction of a new own header with everything this generator handed on before
	checkPairs := func(hv hdrView, gen int, i int) {
		for _, old := range signed {
			if !bytes.Equal(old.gen, hv.gen) {
				continue
			}
			count(func() { out.Pairs++ })
			real := contradiction.AreDistinctHeadersContradicting(old.hdrView, hv)
			spec := specContra(old.hdrView, hv)
			if real != spec {
				herr("contradiction oracle mismatch: real %v spec %v for %+v / %+v", real, spec, old.hdrView, hv)
			}
			if real || spec {
				// context of the pair: the statement's scenario (generating below the largest height ever after fork
				// choice moved the node to another chain), a restart in between, or neither
				kind := "other"
				switch {
				case lowAfterSw[gen]:
					kind = "lower-height-after-switch"
				case old.afterSw < nsw:
					kind = "after-switch"
				case old.epoch < epoch:
					kind = "after-restart"
				}
				viol("self-contradiction:"+kind, fmt.Sprintf("generator %d handed on (height %d, maxHeightPrevoted %d, maxHeightGenerated %d) at step %d and (height %d, maxHeightPrevoted %d, maxHeightGenerated %d) at step %d: the two headers contradict (LIP-0014)",
					gen, old.h, old.mhp, old.mhg, old.step, hv.h, hv.mhp, hv.mhg, i), rep(min(i, len(sc.Script)-1)))
			}
		}
	}
	completed := false

	for i := range sc.Script {
		s := &sc.Script[i]
		count(func() { out.Steps++ })
		switch s.Op {
		case "recv":
			if !applyOther(s, slots[fmt.Sprint(i)], i) {
				return
			}
		case "switch":
			for k := 0; k < s.Del; k++ {
				if err := r.n.Ex.VerifDeleteBlock(r.n.Tip(), false); err != nil {
					herr("script %d step %d: delete failed: %v", idx, i, err)
					return
				}
			}
			r.deliver()
			for j := range s.Blocks {
				if !applyOther(&s.Blocks[j], slots[fmt.Sprintf("%d.%d", i, j)], i) {
					return
				}
			}
			nsw++
			count(func() {
				out.Switches++
				if s.Shorter {
					out.Shorter++
				}
			})
		case "restart":
			if !restart(false, i) {
				return
			}
			count(func() { out.Restarts++ })
		case "forge":
			val := node.Validator(s.Gen)
			slot := slots[fmt.Sprint(i)]
			// ---- transaction pool for this block
			r.clearPool()
			var cs *Case
			var cc *concrete
			if sc.Cases != nil {
				if nforge < len(sc.Cases) {
					cs = sc.Cases[nforge]
				}
			} else if len(cases) > 0 {
				cs = pickCase(cases, idx, nforge, limit)
			}
			used2 = append(used2, cs)
			if cs != nil {
				cc = concretise(cs, uint64(idx)<<16|uint64(i)+2, (idx+nforge)%2)
				r.abi.outcome = cc.outcome
				for _, tx := range cc.txs {
					if !r.pool.Add(tx) {
						herr("script %d step %d: the pool refuses a transaction", idx, i)
					}
				}
				r.pool.VerifReorgOnce()
				if len(r.pool.GetProcessable()) != len(cc.txs) {
					herr("script %d step %d: only %d of %d transactions are processable", idx, i, len(r.pool.GetProcessable()), len(cc.txs))
				}
			} else {
				r.abi.outcome = map[string]string{}
			}
			r.abi.asset = byte(s.Chg)
			// every third forge: two block assets, returned by the application in descending module order
			r.abi.two = sc.Extra == "" && (idx+nforge)%3 == 0
			r.abi.asHooksSee = experimental
			nforge++
			// ---- hand-off monitor: at the moment the block is handed on the info must already be persisted
			r.added = nil
			mon := r.watchHandoff(ever, s.Crash)
			var ferr error
			func() {
				defer func() {
					if e := recover(); e != nil {
						ferr = fmt.Errorf("panic: %v", e)
					}
				}()
				if i == realIdx {
					r.g.VerifForge()
					count(func() { out.RealForges++ })
				} else {
					_, ferr = r.g.VerifForgeOnce(int64(r.n.Slot.GetSlotTime(slot)) + int64(node.BlockTime)/2)
				}
			}()
			r.atAdd = nil
			count(func() {
				out.Forges++
				if s.Crash {
					out.Crashes++
				}
			})
			if ferr != nil && strings.HasPrefix(ferr.Error(), "panic") || len(r.added) > 1 {
				key := "panic:forge"
				if len(r.added) > 1 {
					key = "forge-hands-on-several-blocks"
				}
				viol(key, fmt.Sprintf("generator %d, height %d, slot %d (real forge(): %v): %v; blocks handed on: %d", s.Gen, s.H, slot, i == realIdx, ferr, len(r.added)), rep(i))
				return
			}
			if len(r.added) == 0 {
				// the generator declines / fails to generate: the statement is about the blocks that ARE produced, so this is
				// no violation - but the script cannot be followed any further, and a run in which it happens is inconclusive
				count(func() { out.Declined++ })
				herrDeclined(fmt.Sprintf("script %d step %d: generator %d produces no block for height %d in its slot %d (real forge(): %v): %v", idx, i, s.Gen, s.H, slot, i == realIdx, ferr))
				return
			}
			b := r.added[0]
			hv := hdrView{gen: b.Header.GeneratorAddress, h: b.Header.Height, mhp: b.Header.MaxHeightPrevoted, mhg: b.Header.MaxHeightGenerated}
			if !bytes.Equal(b.Header.GeneratorAddress, val.Address) {
				// generated with another key the node holds: what does the node's own validation say?
				perr := r.process(b)
				if !bytes.Equal(r.n.Tip().Header.ID, b.Header.ID) {
					count(func() { out.Rejected++ })
					viol("generated-block-rejected:"+reason(perr), fmt.Sprintf("in the slot %d of validator %d (height %d) the node generates with the key of validator %d; the same node rejects the block: %v",
						slot, s.Gen, s.H, genOf(&cfg, b.Header.GeneratorAddress), perr), rep(i))
				} else {
					viol("forge-wrong-generator", fmt.Sprintf("block generated by validator %d (%x) in the slot of validator %d", genOf(&cfg, b.Header.GeneratorAddress), b.Header.GeneratorAddress, s.Gen), rep(i))
				}
				return
			}
			count(func() {
				if afterChg[i] > 0 {
					out.ChgForges++
				}
				if afterChg[i] == 2 {
					out.ChgFirst++
				}
				if mon.layout {
					out.InfoLayout++
				}
			})
			if !mon.ok {
				viol("info-not-persisted-before-handoff", fmt.Sprintf("when the block of height %d is handed to consensus the generator database holds %+v for its generator (the largest height it ever generated is %d)", hv.h, mon.info, max32(ever[s.Gen], hv.h)), rep(i))
			}
			// ---- header fields against the specification and against the statement directly
			if hv.h != s.H {
				herr("script %d step %d: generated height %d, specification %d", idx, i, hv.h, s.H)
				return
			}
			if hv.mhp != s.Mhp {
				viol("forge-max-height-prevoted", fmt.Sprintf("generated header at height %d has maxHeightPrevoted %d, the chain's is %d", hv.h, hv.mhp, s.Mhp), rep(i))
			}
			if hv.h <= ever[s.Gen] {
				count(func() { out.LowerForges++ })
				if nsw > 0 {
					lowAfterSw[s.Gen] = true
				}
			}
			if hv.mhg != s.Mhg || hv.mhg != ever[s.Gen] {
				viol("mhg-not-largest-ever", fmt.Sprintf("generator %d signs height %d with maxHeightGenerated %d; the largest height it ever generated is %d (specification %d)", s.Gen, hv.h, hv.mhg, ever[s.Gen], s.Mhg), rep(i))
			}
			if hv.h > ever[s.Gen] {
				ever[s.Gen] = hv.h
			}
			// ---- pairwise non-contradiction with everything this generator handed on before
			if !s.Crash {
				checkPairs(hv, s.Gen, i)
				signed = append(signed, signedHdr{hv, i, epoch, nsw})
			}
			// ---- payload against the statement
			if cs != nil {
				got, known := cc.payload(b.Transactions)
				if !known {
					viol("selection-unknown-transaction", "the generated block contains a transaction that is not in the pool", rep(i))
				} else if key, what := classify(cs, got, capacity, admissibleFor(cs, capacity)); key != "" {
					viol(key, fmt.Sprintf("generated block at height %d, pool %v, limit %d bytes (%d whole units of %d bytes): %s", hv.h, cs.Pool, maxBytes, capacity, Unit, what), rep(i))
				}
			}
			psize := 0
			for _, tx := range b.Transactions {
				psize += tx.Size()
			}
			if uint32(psize) > r.n.Chain.MaxTransactionsLength() {
				viol("selection-over-size-limit", fmt.Sprintf("generated payload of %d bytes exceeds MaxTransactionsLength %d", psize, r.n.Chain.MaxTransactionsLength()), rep(i))
			}
			if s.Crash {
				// the block never reaches consensus; the process restarts on what reached the disk
				if !restart(true, i) {
					return
				}
				info, _, err := r.g.VerifGeneratorInfo(val.Address)
				count(func() { out.InfoReads++ })
				if err != nil || max32(info.Height, info.MaxHeightGenerated) != ever[s.Gen] {
					viol("info-not-persisted-before-handoff", fmt.Sprintf("after a crash at the hand-off of the block of height %d the restarted generator database holds %+v (err %v); the largest height generator %d ever generated is %d", hv.h, info, err, s.Gen, ever[s.Gen]), rep(i))
				}
				if !checkObs(s, i) {
					return
				}
				if i == len(sc.Script)-1 {
					completed = true
				}
				continue
			}
			// ---- part (c): the same node accepts the block
			if !b.Header.AggregateCommit.Empty() {
				count(func() {
					out.NonEmptyAC++
					if sc.Signers != nil {
						out.SubsetAC++
					}
				})
			}
			unsorted := r.abi.two // the application returned two assets in descending module order
			perr := r.process(b)
			if !bytes.Equal(r.n.Tip().Header.ID, b.Header.ID) {
				count(func() { out.Rejected++ })
				key := "generated-block-rejected:" + reason(perr)
				if experimental && unsorted && reason(perr) == "state-root" {
					// VERIF_EXPERIMENTAL: the application's state depends on the order in which the hooks receive the assets
					key = "generated-block-rejected:hooks-see-unsorted-assets"
				}
				viol(key, fmt.Sprintf("the block generator %d produced for height %d (maxHeightPrevoted %d, maxHeightGenerated %d, %d transactions, %d assets, aggregate commit height %d, validator change %d) is rejected by the same node: %v",
					s.Gen, hv.h, hv.mhp, hv.mhg, len(b.Transactions), len(b.Assets), b.Header.AggregateCommit.Height, s.Chg, perr), rep(i))
				return
			}
			count(func() {
				out.Accepted++
				if len(b.Transactions) > 0 {
					out.WithTxs++
					out.TxsIncluded += len(b.Transactions)
				}
				if len(b.Assets) == 2 && r.abi.two {
					out.TwoAssets++
				}
				if psize == maxBytes && len(b.Transactions) > 0 {
					// the payload fills the limit to the byte
					k := fmt.Sprint(len(b.Transactions))
					out.ExactFill[k]++
					if i == realIdx {
						out.ExactFillReal[k]++
					}
				}
				out.DeltaForge[fmt.Sprint(maxBytes-limit*Unit)]++
				if cfg.AfterEvent {
					out.AfterEvents++
				}
				hasFail, hasErr := false, false
				for _, tx := range b.Transactions {
					hasFail = hasFail || tx.Command == node.FailCommand
				}
				if cs != nil {
					for _, l := range cs.Pool {
						for _, k := range l {
							hasErr = hasErr || k.O == "ve" || k.O == "xr"
						}
					}
				}
				if hasFail {
					out.FailTxs++
				}
				if hasErr {
					out.ErrPools++
				}
			})
			r.deliver()
			// what the statement says about the stored record: it covers the largest height ever generated (the exact
			// layout - today {height, maxHeightPrevoted, maxHeightGenerated} of the last header - is the code's business)
			info, _, err := r.g.VerifGeneratorInfo(val.Address)
			count(func() { out.InfoReads++ })
			if err != nil || max32(info.Height, info.MaxHeightGenerated) != max32(s.Info.H, s.Info.Mhg) {
				viol("info-mismatch", fmt.Sprintf("generator info after generating height %d is %+v: it does not record the largest height ever generated, %d (specification %+v)", hv.h, info, max32(s.Info.H, s.Info.Mhg), s.Info), rep(i))
			}
			if i == len(sc.Script)-1 {
				completed = true
			}
		default:
			herr("unknown step %q", s.Op)
			return
		}
		if s.Op != "forge" || !s.Crash {
			// (the hand-written validator-change scenario carries no expected observation)
			if (s.Chg == 0 || sc.Extra == "") && !checkObs(s, i) {
				return
			}
		}
	}

	// ---- epilogue: the production forge() is followed by a restart and one more header of the same generator
	// (G1: whatever forge() left in the generator database is what the next header's maxHeightGenerated is computed from).
	// The slot lies in the future of the wall clock, so the block is not processed: header only.
	if !completed || realIdx < 0 || realIdx != len(sc.Script)-1 || sc.Next == nil {
		return
	}
	last := &sc.Script[realIdx]
	if last.Gen < 1 || last.Gen > len(sc.Next) {
		return
	}
	below := last.H < ever[last.Gen]
	if !restart(false, len(sc.Script)-1) {
		return
	}
	r.added = nil
	mon := r.watchHandoff(ever, false)
	var ferr error
	func() {
		defer func() {
			if e := recover(); e != nil {
				ferr = fmt.Errorf("panic: %v", e)
			}
		}()
		_, ferr = r.g.VerifForgeOnce(int64(r.n.Slot.GetSlotTime(epiSlot)) + int64(node.BlockTime)/2)
	}()
	r.atAdd = nil
	if ferr != nil && strings.HasPrefix(ferr.Error(), "panic") {
		viol("panic:forge", fmt.Sprintf("generator %d, restarted after the script, slot %d: %v", last.Gen, epiSlot, ferr), rep(len(sc.Script)-1))
		return
	}
	if len(r.added) != 1 {
		count(func() { out.Declined++ })
		herrDeclined(fmt.Sprintf("script %d: generator %d, restarted after the script, produces no block in its slot %d: %v", idx, last.Gen, epiSlot, ferr))
		return
	}
	b := r.added[0]
	hv := hdrView{gen: b.Header.GeneratorAddress, h: b.Header.Height, mhp: b.Header.MaxHeightPrevoted, mhg: b.Header.MaxHeightGenerated}
	if !bytes.Equal(hv.gen, node.Validator(last.Gen).Address) {
		herr("script %d: epilogue header generated by %x in the slot of validator %d", idx, hv.gen, last.Gen)
		return
	}
	count(func() {
		out.Epilogues++
		if below {
			out.EpiBelow++
		}
	})
	if hv.mhg != sc.Next[last.Gen-1] || hv.mhg != ever[last.Gen] {
		viol("mhg-not-largest-ever:after-unmodified-forge", fmt.Sprintf("generator %d generated height %d through the unmodified forge() and was restarted; its next header (height %d) reports maxHeightGenerated %d; the largest height it ever generated is %d (specification %d)",
			last.Gen, last.H, hv.h, hv.mhg, ever[last.Gen], sc.Next[last.Gen-1]), rep(len(sc.Script)-1))
	}
	if !mon.ok {
		viol("info-not-persisted-before-handoff", fmt.Sprintf("when the block of height %d (first one after the restart that followed the unmodified forge()) is handed to consensus the generator database holds %+v for its generator (the largest height it ever generated is %d)", hv.h, mon.info, max32(ever[last.Gen], hv.h)), rep(len(sc.Script)-1))
	}
	checkPairs(hv, last.Gen, len(sc.Script))
}

func max32(a, b uint32) uint32 {
	if a > b {
		return a
	}
	return b
}

type handoff struct {
	ok     bool // the stored record covers the largest height ever generated (incl. the block being handed on)
	layout bool // ... but is not {height, maxHeightPrevoted, maxHeightGenerated} of that block (coverage only)
	info   *generator.GeneratorInfo
}

// watchHandoff installs the hand-off monitor: at the moment a block is handed to consensus the generator database must
// already record the largest height its generator ever generated (the statement: "persisted before the block is handed on").
func (r *rig) watchHandoff(ever map[int]uint32, crash bool) *handoff {
	m := &handoff{ok: true}
	r.atAdd = func(b *blockchain.Block) {
		info, exist, err := r.g.VerifGeneratorInfo(b.Header.GeneratorAddress)
		m.info = info
		largest := max32(ever[genOf(r.cfg, b.Header.GeneratorAddress)], b.Header.Height)
		if err != nil || !exist || max32(info.Height, info.MaxHeightGenerated) != largest {
			m.ok = false
		} else if info.Height != b.Header.Height || info.MaxHeightPrevoted != b.Header.MaxHeightPrevoted || info.MaxHeightGenerated != b.Header.MaxHeightGenerated {
			m.layout = true
		}
		if crash {
			// the process dies here: nothing written from now on reaches the disk
			r.fs.mem.SetIgnoreSyncs(true)
		}
	}
	return m
}

// process hands a block to the node's own block processing (what AddInternal leads to).
func (r *rig) process(b *blockchain.Block) (perr error) {
	defer func() {
		if e := recover(); e != nil {
			perr = fmt.Errorf("panic: %v", e)
		}
	}()
	return r.n.Ex.VerifProcess(b, peer)
}

var experimental = os.Getenv("VERIF_EXPERIMENTAL") == "1"

func herrDeclined(msg string) {
	mu.Lock()
	defer mu.Unlock()
	if len(out.DeclinedNotes) < 5 {
		out.DeclinedNotes = append(out.DeclinedNotes, msg)
	}
}

// ---------------------------------------------------------------------------------------------- directed scenarios (part c)

func step(op string, gen int, h, mhp, mhg uint32) Step {
	s := Step{Op: op, Handed: true}
	s.Gen, s.H, s.Mhp, s.Mhg = gen, h, mhp, mhg
	s.Cand.Version, s.Cand.Prev, s.Cand.Signer, s.Cand.Sig = 2, "tip", gen, "ok"
	s.Cand.TxRoot, s.Cand.AssetRoot, s.Cand.EventRoot, s.Cand.StateRoot, s.Cand.VHash, s.Cand.TxStatic, s.Cand.Payload, s.Cand.Mut = "ok", "ok", "ok", "ok", "ok", "ok", "ok", "none"
	s.Cand.Ac.Kind = "empty"
	s.Info = Info{h, mhp, mhg}
	return s
}

// extras are hand-written scripts for situations part (b) of the specification does not generate: a generated block
// in which the application changes the validator set, and aggregate commits assembled from all / a subset of the
// validators' single commits.  Expected observations follow LiskBFT for weights <<1,3,3>>, thresholds 5.
func extras() []*Script {
	obs := func(s Step, tip, mhpv, mhpc, fin uint32) Step { s.Obs = SpecObs{tip, fin, mhpv, mhpc}; return s }
	res := []*Script{}
	// E1: the application announces new validators in the block generator 1 produces
	e1 := step("forge", 1, 1, 0, 0)
	e1.Chg = 1
	res = append(res, &Script{Extra: "validator-change", Script: []Step{e1}})
	// E2/E3: validators 2 and 3 build a chain until height 1..3 are final, everybody / only 2 and 3 certify, then 1 generates
	for _, signers := range [][]int{nil, {2, 3}} {
		sc := &Script{Extra: "aggregate-commit", Signers: signers}
		mh := map[int]uint32{}
		type o struct{ mhpv, mhpc uint32 }
		exp := []o{{0, 0}, {1, 0}, {2, 0}, {3, 1}, {4, 2}, {5, 3}}
		for h := uint32(1); h <= 6; h++ {
			g := 2 + int((h-1)%2)
			mhp := uint32(0)
			if h >= 2 {
				mhp = exp[h-2].mhpv
			}
			s := obs(step("recv", g, h, mhp, mh[g]), h, exp[h-1].mhpv, exp[h-1].mhpc, exp[h-1].mhpc)
			mh[g] = h
			sc.Script = append(sc.Script, s)
		}
		f := obs(step("forge", 1, 7, 5, 0), 7, 5, 3, 3)
		sc.Script = append(sc.Script, f)
		f2 := obs(step("forge", 1, 8, 5, 7), 8, 5, 3, 3)
		sc.Script = append(sc.Script, f2)
		res = append(res, sc)
	}
	return res
}

func runForge(scriptsPath, casesPath, cfgPath, outPath string) {
	out.Mode = "forge"
	h := &HCfg{}
	b, err := os.ReadFile(cfgPath)
	if err == nil {
		err = json.Unmarshal(b, h)
	}
	if err != nil {
		herr("config: %v", err)
		return
	}
	cases := []*Case{}
	if casesPath != "-" {
		f, err := os.Open(casesPath)
		if err != nil {
			herr("%v", err)
			return
		}
		sc := bufio.NewScanner(f)
		sc.Buffer(make([]byte, 1<<20), 1<<26)
		for sc.Scan() {
			c := &Case{}
			if json.Unmarshal(sc.Bytes(), c) == nil && len(c.Exp) >= 6 {
				cases = append(cases, c)
			}
		}
		f.Close()
	}
	indexCases(cases)
	scripts := []*Script{}
	f, err := os.Open(scriptsPath)
	if err != nil {
		herr("%v", err)
		return
	}
	sc := bufio.NewScanner(f)
	sc.Buffer(make([]byte, 1<<20), 1<<26)
	for sc.Scan() {
		s := &Script{}
		if err := json.Unmarshal(sc.Bytes(), s); err != nil {
			herr("script: %v", err)
			continue
		}
		scripts = append(scripts, s)
	}
	f.Close()
	if os.Getenv("C15_EXTRAS") != "0" {
		for _, e := range extras() {
			scripts = append(scripts, e)
		}
	}
	type job struct {
		i int
		s *Script
	}
	jobs := make(chan job, 64)
	var wg sync.WaitGroup
	for w := 0; w < tj.EnvInt("C15_WORKERS", 8); w++ {
		wg.Add(1)
		go func() {
			defer wg.Done()
			for j := range jobs {
				func() {
					defer func() {
						if e := recover(); e != nil {
							herr("script %d: harness panic: %v\n%s", j.i, e, debug.Stack())
						}
					}()
					hc := *h
					if j.s.Extra == "validator-change" {
						// validator 1 leaves, the weights move to 2 and 3
						hc.Node.Choices = []node.ParamSet{{PcT: 4, CertT: 4, W: []uint64{0, 3, 3}, Gens: []int{2, 3}}}
					}
					if j.s.Extra != "" {
						count(func() { out.Extras[j.s.Extra]++ })
					}
					replay(&hc, j.s, j.i, cases)
				}()
			}
		}()
	}
	for i, s := range scripts {
		jobs <- job{i, s}
	}
	close(jobs)
	wg.Wait()
}

func main() {
	t0 := time.Now()
	if len(os.Args) >= 4 && os.Args[1] == "select" {
		runSelect(os.Args[2], os.Args[3])
		finish(os.Args[3], t0)
		return
	}
	if len(os.Args) >= 6 && os.Args[1] == "forge" {
		runForge(os.Args[2], os.Args[3], os.Args[4], os.Args[5])
		finish(os.Args[5], t0)
		return
	}
	if len(os.Args) >= 6 && os.Args[1] == "handover" {
		runHandover(os.Args[2], os.Args[3], os.Args[4], os.Args[5])
		finish(os.Args[5], t0)
		return
	}
	if len(os.Args) >= 4 && os.Args[1] == "guard" {
		runGuard(os.Args[2], os.Args[3])
		return
	}
	fmt.Fprintln(os.Stderr, "usage: c15 select <cases.ndjson> <out.json> | c15 forge <scripts.ndjson> <cases.ndjson|-> <config.json> <out.json>")
	os.Exit(2)
}

func finish(path string, t0 time.Time) {
	sort.Slice(out.Violations, func(i, j int) bool { return out.Violations[i].Key < out.Violations[j].Key })
	tj.WriteJSON(path, out)
	fmt.Printf("c15 %s: cases=%d selections=%d scripts=%d forges=%d accepted=%d violations=%v errors=%d in %.1fs\n", out.Mode, out.Cases, out.Selections,
		out.Scripts, out.Forges, out.Accepted, out.PerKey, len(out.Errors), time.Since(t0).Seconds())
}
