// c15 guard: is VerifForgeOnce (pkg/generator/export_verif.go) still forge() (pkg/generator/generator.go)?
//
// All Forges of a script except the last run through VerifForgeOnce, a copy of forge() in which the two time.Now()
// reads are replaced by the slot's time and failures are returned instead of logged.  A change of forge() that is
// not mirrored in the copy would silently be tested on one forge per script only.  The guard normalises both bodies
// (go/ast) and compares them statement by statement:
//
//	dropped:   statements that only log (g.logger.*), `return` statements, and `if <cond> { only logging / return }`
//	           blocks (of an `if init; cond {..}` the init statement is kept) - error handling is the documented difference
//	dropped:   `now := time.Now().Unix()` (forge) and `partialHeader.Timestamp = uint32(now)` (copy) - the documented
//	           difference in the source of time
//	inlined:   a variable defined once by `x := expr` and used exactly once afterwards (forge() names the encoded info,
//	           the copy does not)
//
// The verdict is never a violation: a drift makes the run inconclusive (the driver), because the replayed behaviours
// no longer exercise the production path.
package main

import (
	"bytes"
	"encoding/json"
	"fmt"
	"go/ast"
	"go/parser"
	"go/printer"
	"go/token"
	"regexp"
	"strings"
)

type guardOut struct {
	Equal  bool     `json:"equal"`
	Error  string   `json:"error,omitempty"`
	Forge  []string `json:"forge"`
	Copy   []string `json:"copy"`
	FirstF string   `json:"first_difference_forge,omitempty"`
	FirstC string   `json:"first_difference_copy,omitempty"`
}

func findFunc(path, name string) (*token.FileSet, *ast.FuncDecl, error) {
	fset := token.NewFileSet()
	f, err := parser.ParseFile(fset, path, nil, 0)
	if err != nil {
		return nil, nil, err
	}
	for _, d := range f.Decls {
		if fd, ok := d.(*ast.FuncDecl); ok && fd.Name.Name == name && fd.Recv != nil && fd.Body != nil {
			return fset, fd, nil
		}
	}
	return nil, nil, fmt.Errorf("%s: method %s not found", path, name)
}

func src(fset *token.FileSet, n ast.Node) string {
	var b bytes.Buffer
	printer.Fprint(&b, fset, n) //nolint
	return strings.Join(strings.Fields(b.String()), " ")
}

func canon(s string) string {
	s = strings.Join(strings.Fields(s), " ")
	s = strings.ReplaceAll(s, "( ", "(")
	s = strings.ReplaceAll(s, ", )", ")")
	s = strings.ReplaceAll(s, " )", ")")
	return s
}

func isLoggerCall(fset *token.FileSet, st ast.Stmt) bool {
	es, ok := st.(*ast.ExprStmt)
	if !ok {
		return false
	}
	call, ok := es.X.(*ast.CallExpr)
	if !ok {
		return false
	}
	return strings.HasPrefix(src(fset, call.Fun), "g.logger.")
}

func onlyLogAndReturn(fset *token.FileSet, b *ast.BlockStmt) bool {
	sawReturn := false
	for _, st := range b.List {
		if _, ok := st.(*ast.ReturnStmt); ok {
			sawReturn = true
			continue
		}
		if !isLoggerCall(fset, st) {
			return false
		}
	}
	return sawReturn
}

func normalise(fset *token.FileSet, list []ast.Stmt) []string {
	res := []string{}
	for _, st := range list {
		switch v := st.(type) {
		case *ast.ReturnStmt:
			continue
		case *ast.IfStmt:
			if v.Else == nil && onlyLogAndReturn(fset, v.Body) {
				if v.Init != nil {
					res = append(res, canon(src(fset, v.Init)))
				}
				continue
			}
			head := "if "
			if v.Init != nil {
				head += canon(src(fset, v.Init)) + "; "
			}
			res = append(res, head+canon(src(fset, v.Cond))+" {")
			res = append(res, normalise(fset, v.Body.List)...)
			res = append(res, "}")
			if v.Else != nil {
				res = append(res, "else "+canon(src(fset, v.Else)))
			}
			continue
		}
		if isLoggerCall(fset, st) {
			continue
		}
		text := canon(src(fset, st))
		if text == "now := time.Now().Unix()" || text == "partialHeader.Timestamp = uint32(now)" {
			continue
		}
		res = append(res, text)
	}
	return res
}

var simpleDef = regexp.MustCompile(`^([A-Za-z_]\w*) := (.+)$`)

// inline replaces `x := expr` + exactly one later use of x by the use with expr substituted (repeated to a fixed point).
func inline(stmts []string) []string {
	for changed := true; changed; {
		changed = false
		for i, st := range stmts {
			m := simpleDef.FindStringSubmatch(st)
			if m == nil || m[1] == "err" {
				continue
			}
			word := regexp.MustCompile(`\b` + regexp.QuoteMeta(m[1]) + `\b`)
			uses, at := 0, -1
			for j := i + 1; j < len(stmts); j++ {
				n := len(word.FindAllStringIndex(stmts[j], -1))
				uses += n
				if n > 0 && at < 0 {
					at = j
				}
			}
			if uses != 1 {
				continue
			}
			expr := m[2]
			stmts[at] = word.ReplaceAllLiteralString(stmts[at], expr)
			stmts = append(stmts[:i], stmts[i+1:]...)
			changed = true
			break
		}
	}
	return stmts
}

func runGuard(genPath, expPath string) {
	o := &guardOut{}
	defer func() {
		b, _ := json.MarshalIndent(o, "", " ")
		fmt.Println(string(b))
	}()
	fs1, forge, err := findFunc(genPath, "forge")
	if err != nil {
		o.Error = err.Error()
		return
	}
	fs2, cp, err := findFunc(expPath, "VerifForgeOnce")
	if err != nil {
		o.Error = err.Error()
		return
	}
	o.Forge = inline(normalise(fs1, forge.Body.List))
	o.Copy = inline(normalise(fs2, cp.Body.List))
	o.Equal = len(o.Forge) == len(o.Copy)
	for i := 0; i < len(o.Forge) || i < len(o.Copy); i++ {
		a, b := "", ""
		if i < len(o.Forge) {
			a = o.Forge[i]
		}
		if i < len(o.Copy) {
			b = o.Copy[i]
		}
		if a != b {
			o.Equal = false
			o.FirstF, o.FirstC = a, b
			break
		}
	}
}
