// handover mode of c15: spec/Handover.tla (the operator interface of block generation across nodes) on real code.
//
//	c15 handover <scripts.ndjson> <config.json> <trace.ndjson> <out.json>
//
// Every script (TLC behaviour of Handover.tla: setkeys / other / catch / forge / idle / getstatus / setstatus / enable /
// enable-badpw / disable / restart on two nodes) is run on TWO real nodes (real Executer, real generator.Generator with
// its database on a strict in-memory file system, the real generatorEndpoint of pkg/engine/endpoint called with JSON
// requests).  The harness only DRIVES: every answer, every header and the generator's own view of its stored info
// are logged with the real values and validated by spec/trace/HandoverTrace.tla.
package main

import (
	"bufio"
	"bytes"
	"context"
	"encoding/json"
	"fmt"
	"os"
	"strings"

	"github.com/LiskHQ/lisk-engine/pkg/blockchain"
	"github.com/LiskHQ/lisk-engine/pkg/codec"
	"github.com/LiskHQ/lisk-engine/pkg/crypto"
	"github.com/LiskHQ/lisk-engine/pkg/engine/config"
	"github.com/LiskHQ/lisk-engine/pkg/engine/endpoint"
	"github.com/LiskHQ/lisk-engine/pkg/generator"
	"github.com/LiskHQ/lisk-engine/pkg/log"
	"github.com/LiskHQ/lisk-engine/pkg/router"

	"verifharness/internal/node"
	"verifharness/internal/tj"
)

type hoInfo struct {
	H   uint32 `json:"h"`
	Mhp uint32 `json:"mhp"`
	Mhg uint32 `json:"mhg"`
}

type hoStep struct {
	Op   string `json:"op"`
	N    int    `json:"n"`
	Type string `json:"type"`
	Src  string `json:"src"`
	Info hoInfo `json:"info"`
}

type hoScript struct {
	Script   []hoStep `json:"script"`
	Followed bool     `json:"followed"`
}

type capWriter struct {
	data interface{}
	err  error
}

func (w *capWriter) Write(d interface{}) { w.data = d }
func (w *capWriter) Error(e error)       { w.err = e }

const hoG = 1 // the validator under study
const hoPassword = "correct horse"

type hoNode struct {
	r   *rig
	eps router.EndpointHandlers
}

func (hn *hoNode) mkEndpoint() {
	gcfg := &config.Config{System: &config.SystemConfig{}, Generator: &config.GeneratorConfig{Keys: &config.KeysConfig{}},
		Genesis: &config.GenesisConfig{ChainID: hn.r.n.ChainID, BlockTime: node.BlockTime}}
	hn.eps = endpoint.NewGeneratorEndpoint(gcfg, hn.r.n.Chain, hn.r.n.Ex, hn.r.g, hn.r.n.DB, hn.r.gdb, hn.r.abi).Endpoint()
}

func (hn *hoNode) call(name string, req interface{}, logger log.Logger) (w *capWriter, pv interface{}) {
	w = &capWriter{}
	b, err := json.Marshal(req)
	if err != nil {
		panic(err)
	}
	func() {
		defer func() { pv = recover() }()
		hn.eps[name](w, router.NewEndpointRequest(context.Background(), logger, b))
	}()
	return w, pv
}

func hoResult(w *capWriter) string {
	if w.err == nil {
		return "ok"
	}
	e := w.err.Error()
	switch {
	case strings.Contains(e, "is not stored"):
		return "not-stored"
	case strings.Contains(e, "not synced"):
		return "not-synced"
	case strings.Contains(e, "contradicting block generation info"):
		return "contradicting"
	case strings.Contains(e, "no previous generator info"):
		return "no-previous"
	}
	// a refusal whose text is not one of the known ones: the property does not fix error texts - only THAT the call was refused
	return "refused"
}

func runHandover(scriptsPath, cfgPath, tracePath, outPath string) {
	out.Mode = "handover"
	h := &HCfg{}
	b, err := os.ReadFile(cfgPath)
	if err == nil {
		err = json.Unmarshal(b, h)
	}
	if err != nil {
		herr("config: %v", err)
		return
	}
	f, err := os.Open(scriptsPath)
	if err != nil {
		herr("%v", err)
		return
	}
	defer f.Close()
	w, err := tj.NewWriter(tracePath)
	if err != nil {
		herr("%v", err)
		return
	}
	defer w.Close()
	sc := bufio.NewScanner(f)
	sc.Buffer(make([]byte, 1<<20), 1<<26)
	idx := 0
	for sc.Scan() {
		s := &hoScript{}
		if err := json.Unmarshal(sc.Bytes(), s); err != nil || len(s.Script) == 0 {
			continue
		}
		func() {
			defer func() {
				if e := recover(); e != nil {
					herr("handover script %d: %v", idx, e)
				}
			}()
			handoverScript(h, s, idx, w)
		}()
		idx++
	}
	_ = outPath
}

func handoverScript(h *HCfg, s *hoScript, idx int, w *tj.Writer) {
	cfg := h.Node
	gens := cfg.Init.Gens
	// ---- plan the slots
	used := 0
	slots := map[int]int{}
	gensOf := map[int]int{}
	for i, st := range s.Script {
		switch st.Op {
		case "forge", "idle":
			used = slotOf(gens, used, hoG)
			slots[i] = used
		case "other":
			u := used + 1
			for gens[u%len(gens)] == hoG {
				u++
			}
			used = u
			slots[i] = u
			gensOf[i] = gens[u%len(gens)]
		}
	}
	if used < 1 {
		used = 1
	}
	cfg.Now = used
	logger, _ := log.NewSilentLogger()
	rep := func(i int) interface{} {
		return map[string]interface{}{"mode": "handover", "script": s.Script[:i+1], "followed": s.Followed}
	}
	nodes := map[int]*hoNode{}
	var gts uint32
	for _, id := range []int{1, 2} {
		n, err := node.New(&cfg, nil, gts)
		if err != nil {
			herr("handover script %d: node: %v", idx, err)
			return
		}
		gts = n.GenesisTS
		c := cfg
		r := &rig{cfg: &c, own: nil, n: n, fs: newGFS(), logger: logger}
		if err := r.openGenerator(); err != nil {
			herr("handover script %d: generator: %v", idx, err)
			r.close()
			return
		}
		hn := &hoNode{r: r}
		hn.mkEndpoint()
		nodes[id] = hn
	}
	defer func() {
		for _, hn := range nodes {
			hn.r.close()
		}
	}()
	val := node.Validator(hoG)
	addr := codec.Lisk32(val.Address)
	plain := &generator.PlainKeys{GeneratorKey: val.PubKey, GeneratorPrivateKey: val.PrivKey, BLSKey: val.BLS.PublicKey, BLSPrivateKey: val.BLS.PrivateKey}
	count(func() { out.Scripts++ })
	w.Emit(map[string]interface{}{"ev": "reset", "script": idx, "followed": tj.B(s.Followed)})

	blocks := []*blockchain.Block{}
	have := map[int]int{1: 0, 2: 0}
	ever := map[int]uint32{}
	note := hoInfo{}
	signed := map[uint32]hoInfo{}
	tipOf := func(hn *hoNode) map[string]interface{} {
		o, err := hn.r.n.Observe()
		if err != nil {
			panic(err)
		}
		return map[string]interface{}{"h": o.TipH, "mhp": o.Mhpv}
	}
	resolve := func(st *hoStep) hoInfo {
		switch st.Src {
		case "zero":
			return hoInfo{}
		case "note":
			return note
		default: // a header the validator signed: identified by its height (heights are the same in the model and here)
			if x, ok := signed[st.Info.H]; ok {
				return x
			}
			return st.Info
		}
	}
	apply := func(hn *hoNode, b *blockchain.Block) bool {
		hn.r.n.Ex.VerifProcess(b, peer) //nolint:errcheck // the tip tells
		ok := bytes.Equal(hn.r.n.Tip().Header.ID, b.Header.ID)
		hn.r.deliver()
		return ok
	}
	for i := range s.Script {
		st := &s.Script[i]
		hn := nodes[st.N]
		r := hn.r
		count(func() { out.Steps++ })
		ev := map[string]interface{}{"ev": st.Op, "n": st.N, "tip": tipOf(hn)}
		stop := false
		switch st.Op {
		case "setkeys":
			var data []byte
			typ := generator.KeyTypePlain
			if st.Type == "enc" {
				typ = generator.KeyTypeEncrypted
				em, err := crypto.EncryptMessageWithPassword(plain.Encode(), hoPassword, &crypto.EncryptOptions{KDF: crypto.KDFArgon2ID, Parallelism: 1, Iterations: 1, MemorySize: 64})
				if err != nil {
					panic(err)
				}
				data, _ = json.Marshal(em)
			} else {
				data, _ = json.Marshal(plain)
			}
			cw, pv := hn.call("setKeys", &endpoint.SetKeysRequest{Address: addr, Type: typ, Data: data}, logger)
			if pv != nil {
				viol("panic:setKeys", fmt.Sprintf("generator_setKeys panics: %v", pv), rep(i))
				return
			}
			ev["type"] = st.Type
			ev["res"] = hoResult(cw)
			hw, _ := hn.call("hasKeys", &endpoint.HasKeysRequest{Address: addr}, logger)
			has := false
			if x, ok := hw.data.(*endpoint.HasKeysResponse); ok {
				has = x.HasKeys
			}
			ev["haskeys"] = tj.B(has)
			listed := ""
			aw, _ := hn.call("getAllKeys", map[string]interface{}{}, logger)
			if x, ok := aw.data.(*endpoint.GetAllKeysResponse); ok {
				for _, k := range x.Keys {
					if bytes.Equal(k.Address, addr) {
						listed = map[string]string{generator.KeyTypePlain: "plain", generator.KeyTypeEncrypted: "enc"}[k.Type]
					}
				}
			}
			ev["listed"] = listed
		case "other":
			o, _ := r.n.Observe()
			g := gensOf[i]
			c := &node.Cand{Version: 2, H: o.TipH + 1, Prev: "tip", Slot: slots[i], Gen: g, Signer: g, Sig: "ok", Mhp: o.Mhpv, Mhg: ever[g]}
			c.Ac.H, c.Ac.Kind = o.Cert, "empty"
			blk := r.n.Build(c)
			if !apply(hn, blk) {
				herr("handover script %d step %d: block of validator %d at height %d is not accepted", idx, i, g, c.H)
				return
			}
			ever[g] = c.H
			blocks = append(blocks, blk)
			have[st.N]++
			ev["newtip"] = tipOf(hn)
		case "catch":
			if have[st.N] >= len(blocks) {
				herr("handover script %d step %d: nothing to catch up with", idx, i)
				return
			}
			if !apply(hn, blocks[have[st.N]]) {
				herr("handover script %d step %d: node %d does not accept block %d of the common chain", idx, i, st.N, have[st.N]+1)
				return
			}
			have[st.N]++
			ev["newtip"] = tipOf(hn)
		case "forge", "idle":
			r.clearPool()
			r.abi.outcome = map[string]string{}
			r.added = nil
			var ferr error
			func() {
				defer func() {
					if e := recover(); e != nil {
						ferr = fmt.Errorf("panic: %v", e)
					}
				}()
				_, ferr = r.g.VerifForgeOnce(int64(r.n.Slot.GetSlotTime(slots[i])) + int64(node.BlockTime)/2)
			}()
			count(func() { out.Forges++ })
			if ferr != nil && ferr != generator.ErrVerifNotForging {
				viol("handover:forge-error", fmt.Sprintf("the generator fails in its slot on node %d: %v", st.N, ferr), rep(i))
				return
			}
			forged := len(r.added) == 1
			ev["forged"] = tj.B(forged)
			if forged {
				blk := r.added[0]
				hd := hoInfo{blk.Header.Height, blk.Header.MaxHeightPrevoted, blk.Header.MaxHeightGenerated}
				ev["hdr"] = hd
				ev["own"] = tj.B(bytes.Equal(blk.Header.GeneratorAddress, val.Address))
				signed[hd.H] = hd
				if apply(hn, blk) {
					ev["accepted"] = 1
					count(func() { out.Accepted++ })
					blocks = append(blocks, blk)
					have[st.N]++
					ev["newtip"] = tipOf(hn)
				} else {
					// legitimate exactly when the header contradicts an earlier one of the validator (the monitor decides)
					ev["accepted"] = 0
					count(func() { out.Rejected++ })
					stop = true
				}
			}
			if forged != (st.Op == "forge") {
				stop = true // the chains of the model and of the nodes differ from here on: the monitor reports, the script ends
			}
		case "getstatus":
			gw, pv := hn.call("getStatus", map[string]interface{}{}, logger)
			if pv != nil {
				viol("panic:getStatus", fmt.Sprintf("generator_getStatus panics: %v", pv), rep(i))
				return
			}
			present, strays := false, 0
			info := hoInfo{}
			enabled := false
			if x, ok := gw.data.(*endpoint.GetGeneratorsResponse); ok {
				for _, g := range x.Status {
					if bytes.Equal(g.Address, addr) {
						present, enabled = true, g.Enabled
						info = hoInfo{g.Height, g.MaxHeightPrevoted, g.MaxHeightGenerated}
					} else {
						strays++
					}
				}
			}
			ev["res"] = hoResult(gw)
			ev["present"], ev["info"], ev["enabled"], ev["strays"] = tj.B(present), info, tj.B(enabled), strays
			note = hoInfo{}
			if present {
				note = info
			}
		case "setstatus":
			in := resolve(st)
			cw, pv := hn.call("setStatus", &endpoint.SetStatusRequest{Address: addr, Height: in.H, MaxHeightPrevoted: in.Mhp, MaxHeightGenerated: in.Mhg}, logger)
			if pv != nil {
				viol("panic:setStatus", fmt.Sprintf("generator_setStatus panics: %v", pv), rep(i))
				return
			}
			ev["info"], ev["res"] = in, hoResult(cw)
		case "enable", "enable-badpw", "disable":
			in := hoInfo{}
			if st.Op == "enable" {
				in = resolve(st)
			}
			pw := hoPassword
			if st.Op == "enable-badpw" {
				pw = "wrong password"
			}
			cw, pv := hn.call("updateStatus", &endpoint.UpdateStatusRequest{GeneratorAddress: addr, Password: pw, Enable: st.Op != "disable",
				Height: in.H, MaxHeightPrevoted: in.Mhp, MaxHeightGenerated: in.Mhg}, logger)
			if pv != nil {
				viol("panic:updateStatus", fmt.Sprintf("generator_updateStatus panics: %v", pv), rep(i))
				return
			}
			res := hoResult(cw)
			if st.Op == "enable-badpw" && cw.err != nil {
				res = "bad-password" // any refusal: the password is looked at before everything else
			}
			ev["info"], ev["res"] = in, res
		case "restart":
			r.gdb.Close()
			r.n.StopExecuter()
			n2, err := node.New(r.cfg, r.n.DB, r.n.GenesisTS)
			if err != nil {
				herr("handover script %d step %d: node does not restart: %v", idx, i, err)
				return
			}
			r.n = n2
			if err := r.openGenerator(); err != nil {
				viol("generator-does-not-restart", "the generator does not start on its own database: "+err.Error(), rep(i))
				return
			}
			hn.mkEndpoint()
			count(func() { out.Restarts++ })
		default:
			herr("handover script %d: unknown op %s", idx, st.Op)
			return
		}
		// the generator's own view after the step (what initBlockHeader will read, and who may generate)
		info, exist, err := r.g.VerifGeneratorInfo(val.Address)
		if err != nil {
			viol("handover:info-unreadable", fmt.Sprintf("the generator cannot read its stored info: %v", err), rep(i))
			return
		}
		ev["stored"] = map[string]interface{}{"present": tj.B(exist), "info": hoInfo{info.Height, info.MaxHeightPrevoted, info.MaxHeightGenerated}}
		ev["en"] = tj.B(r.g.IsGenerationEnabled(val.Address))
		ev["step"] = i
		w.Emit(ev)
		if stop {
			return
		}
	}
}
