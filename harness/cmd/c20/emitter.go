package main

import (
	"fmt"
	"math/rand"
	"runtime"
	"sync"
	"sync/atomic"
	"time"

	"github.com/LiskHQ/lisk-engine/pkg/event"
)

// ---------------------------------------------------------------------------------------------- event emitter

// scnEmitter.  Phase 0: fresh emitters with live subscribers on which Publish, Emit, Subscribe, On, Unsubscribe,
// UnsubscribeAll and two Close calls are released at the same instant (one goroutine per call), a few hundred rounds.
// Main phase: publishers alternate Publish / Emit on two topics with persistent live subscribers; churners alternate
// Subscribe / On and Unsubscribe / UnsubscribeAll (the latter on a third topic); Close arrives while all of that runs and
// is repeated.  The property is race and deadlock freedom: a send on a closed channel, a double close (both panic), a
// goroutine stuck in a send are violations; how many messages a subscriber received is reported, not judged.
func scnEmitter(out *ScnOut, seed int64, dur, limit time.Duration) {
	var drainers sync.WaitGroup
	drain := func(ch chan interface{}, ctr *atomic.Int64) {
		drainers.Add(1)
		go func() {
			defer drainers.Done()
			for range ch {
				if ctr != nil {
					ctr.Add(1)
				}
			}
		}()
	}

	// ---- phase 0
	simRounds := 300
	if raceBuild {
		simRounds = 150
	}
	{
		const roles = 8
		type round struct {
			ee  *event.EventEmitter
			old chan interface{} // a channel subscribed before the round: the one Unsubscribe removes
		}
		var cur atomic.Pointer[round]
		var roundNo, arrived atomic.Int64
		g := &group{out: out}
		for i := 0; i < roles; i++ {
			role := i
			g.spawn(fmt.Sprintf("sim%d", i), func(tick func(), stop func() bool) {
				for r := int64(1); r <= int64(simRounds) && !stop(); r++ {
					if role == 0 { // coordinator: a fresh emitter with live subscribers, then the starting signal
						for arrived.Load() != (r-1)*(roles-1) && !stop() {
							runtime.Gosched()
						}
						if old := cur.Load(); old != nil {
							old.ee.Close() //nolint // third Close: releases the subscribers that came after the two concurrent ones
						}
						ee := event.New()
						for s := 0; s < 2; s++ {
							drain(ee.Subscribe("a"), nil)
							drain(ee.Subscribe("b"), nil)
						}
						old := ee.Subscribe("a")
						drain(old, nil)
						cur.Store(&round{ee, old})
						roundNo.Store(r)
						tick()
						continue
					}
					for roundNo.Load() < r && !stop() {
						runtime.Gosched()
					}
					if stop() {
						return
					}
					x := cur.Load()
					switch role {
					case 1:
						x.ee.Publish("a", r)
					case 2:
						x.ee.Emit("a", r)
					case 3:
						drain(x.ee.Subscribe("a"), nil)
					case 4:
						ch := make(chan interface{})
						drain(ch, nil)
						x.ee.On("b", ch)
					case 5:
						x.ee.Unsubscribe("a", x.old) //nolint
					case 6:
						if r%2 == 0 {
							x.ee.UnsubscribeAll("b") //nolint
						} else {
							x.ee.Close() //nolint
						}
					default:
						x.ee.Close() //nolint
					}
					arrived.Add(1)
					tick()
				}
			})
		}
		ok := g.watch(time.Duration(simRounds)*50*time.Millisecond+dur, limit)
		g.collect()
		out.count("simultaneous_rounds", roundNo.Load())
		if !ok {
			return
		}
		if old := cur.Load(); old != nil {
			old.ee.Close() //nolint
		}
	}

	// ---- main phase
	ee := event.New()
	topics := []string{"a", "b"}
	var published [2]atomic.Int64
	var received [2][2]atomic.Int64
	for t := range topics {
		for s := 0; s < 2; s++ {
			drain(ee.Subscribe(topics[t]), &received[t][s]) // persistent live subscribers
		}
	}
	g := &group{out: out}
	var closed, closing atomic.Bool // closing: Close is about to be called; closed: Close has returned
	for i := 0; i < 3; i++ {
		idx := i
		g.spawn(fmt.Sprintf("publisher%d", i), func(tick func(), stop func() bool) {
			for j := 0; !stop(); j++ {
				t := (j + idx) % 2
				afterClose := closed.Load()
				if (j/2+idx)%2 == 0 {
					ee.Publish(topics[t], j)
				} else {
					ee.Emit(topics[t], j)
					out.count("emit_calls", 1)
				}
				if !closing.Load() {
					published[t].Add(1)
				} else if !afterClose {
					out.count("publish_overlapped_close", 1) // delivery not determined
				}
				tick()
			}
		})
	}
	for i := 0; i < 3; i++ {
		idx := i
		g.spawn(fmt.Sprintf("churn%d", i), func(tick func(), stop func() bool) {
			r := rand.New(rand.NewSource(seed*5 + int64(idx)))
			for j := 0; !stop(); j++ {
				// churners 0 and 1 work on the published topics; churner 2 (and sometimes the others) on a third topic that is
				// released with UnsubscribeAll
				topic := topics[r.Intn(2)]
				third := idx == 2 || r.Intn(4) == 0
				if third {
					topic = "c"
				}
				var ch chan interface{}
				if j%2 == 0 {
					ch = ee.Subscribe(topic)
				} else {
					ch = make(chan interface{})
					ee.On(topic, ch)
					out.count("on_calls", 1)
				}
				drain(ch, nil)
				if r.Intn(2) == 0 {
					time.Sleep(time.Duration(r.Intn(200)) * time.Microsecond)
				}
				if third && r.Intn(2) == 0 {
					ee.UnsubscribeAll("c") //nolint // also releases the channels the other churners hold on this topic
					out.count("unsubscribe_all_calls", 1)
				}
				// also after UnsubscribeAll / Close: the topic is gone or re-created without this channel, nothing is closed twice
				ee.Unsubscribe(topic, ch) //nolint
				tick()
			}
		})
	}
	g.spawn("closer", func(tick func(), stop func() bool) {
		// Close arrives while publishers are still publishing, and is repeated
		deadline := time.Now().Add(dur * 3 / 4)
		for !stop() && time.Now().Before(deadline) {
			time.Sleep(5 * time.Millisecond)
			tick()
		}
		closing.Store(true)
		ee.Close() //nolint
		closed.Store(true)
		out.count("close_calls", 1)
		tick()
		for !stop() {
			time.Sleep(2 * time.Millisecond)
			ee.Close() //nolint // subscribers that arrived after the previous Close are released by the next one
			out.count("close_calls", 1)
			tick()
		}
	})
	ok := g.watch(dur, limit)
	g.collect()
	if !ok {
		return
	}
	ee.Close() //nolint
	ee.UnsubscribeAll("c") //nolint
	fin := make(chan struct{})
	go func() { drainers.Wait(); close(fin) }()
	select {
	case <-fin:
	case <-time.After(limit):
		out.count("note_subscriber_channel_not_closed_by_close", 1) // releasing subscribers is not part of the statement
		return
	}
	out.mu.Lock()
	overlapped := out.Counts["publish_overlapped_close"]
	out.mu.Unlock()
	for t := range topics {
		for s := 0; s < 2; s++ {
			p, r := published[t].Load(), received[t][s].Load()
			out.count("published", p)
			if r < p || r > p+overlapped {
				out.count("note_delivery_differs", 1) // exactly-once delivery is not part of the statement
			}
		}
	}
}
