package main

import (
	"context"
	"time"

	"verifharness/internal/node"

	"github.com/LiskHQ/lisk-engine/pkg/p2p"
)

// ---------------------------------------------------------------------------------------------- block sync collector

// scnSync lets a fresh node synchronise with two connected peers through the real Executer: a block far ahead of
// the tip routes into blockSyncer.Sync, which asks every connected peer for its last block header from one
// goroutine per peer and collects the answers.  Only the -race build can observe the collector.
func scnSync(out *ScnOut, seed int64, dur, limit time.Duration) {
	mk := func(ts uint32) *node.Node {
		cfg := hcfg
		cfg.Network = true
		n, err := node.New(&cfg, nil, ts)
		if err != nil {
			out.harnessErr("node.New: %v", err)
			return nil
		}
		return n
	}
	p1 := mk(0)
	if p1 == nil {
		return
	}
	p2, s := mk(p1.GenesisTS), mk(p1.GenesisTS)
	if p2 == nil || s == nil {
		return
	}
	e1 := &chainEnv{n: p1, da: p1.Chain.DataAccess(), out: out, gens: []int{0}}
	for i := 0; i < 30; i++ {
		if !e1.add() {
			out.harnessErr("cannot build the peers' chain")
			return
		}
		if err := p2.Ex.VerifProcess(p1.Tip(), "12D3KooWverifpeer"); err != nil {
			out.harnessErr("second peer rejects block %d: %v", i+1, err)
			return
		}
	}
	for _, p := range []*node.Node{p1, p2} {
		addrs, err := p.Conn.MultiAddress()
		if err != nil || len(addrs) == 0 {
			out.harnessErr("peer has no listen address: %v", err)
			return
		}
		ai, err := p2p.AddrInfoFromMultiAddr(addrs[0])
		if err == nil {
			err = s.Conn.Connect(context.Background(), *ai)
		}
		if err != nil {
			out.harnessErr("connect: %v", err)
			return
		}
	}
	for i := 0; i < 100 && len(s.Conn.ConnectedPeers()) < 2; i++ {
		time.Sleep(20 * time.Millisecond)
	}
	out.count("peers", int64(len(s.Conn.ConnectedPeers())))
	g := &group{out: out}
	g.spawn("syncer", func(tick func(), stop func() bool) {
		err := s.Ex.VerifProcess(p1.Tip(), p1.Conn.ID())
		out.count("synced_to_height", int64(s.Tip().Header.Height))
		if err != nil {
			out.count("sync_returned_error", 1)
		}
		tick()
	})
	if g.watch(dur+10*time.Second, 5*limit) {
		s.Close()
		p1.Close()
		p2.Close()
	}
	g.collect()
}
