package main

import (
	"fmt"
	"math/rand"
	"sync"
	"sync/atomic"
	"time"

	"github.com/LiskHQ/lisk-engine/pkg/blockchain"
	"github.com/LiskHQ/lisk-engine/pkg/consensus/certificate"
	"github.com/LiskHQ/lisk-engine/pkg/crypto"
)

// ---------------------------------------------------------------------------------------------- certificate pool

// scnPool: 6 adders, 3 selectors (overlapping Select calls; what Select hands out is read OUTSIDE the pool's lock, kept
// and read again one round later - the caller of the engine encodes the result unlocked), 2 getters (Get / Has / Size
// against the lists that the selectors sort) and a cleaner that removes one height class after the other, so that the
// adders keep appending commits with lower heights behind higher ones (the lists are unsorted whenever a Select starts).
// Oracles: an added commit that no Cleanup removes is always found by Has and exactly once by Get (once: only if the
// pool keeps one commit per block and validator when used sequentially); a handed-out slice never changes.
func scnPool(out *ScnOut, seed int64, dur, limit time.Duration) {
	const G, perG, shared = 6, 40, 12
	chainID := []byte{4, 0, 0, 7}
	keys := make([]*crypto.BLSKeyPair, G)
	for i := range keys {
		keys[i] = crypto.BLSKeyGen(crypto.Hash([]byte(fmt.Sprintf("c20-pool-%d", i))))
	}
	mk := func(h uint32, tag string, v int) *certificate.SingleCommit {
		hd := &blockchain.BlockHeader{Height: h, Timestamp: h, StateRoot: make([]byte, 32), ValidatorsHash: make([]byte, 32),
			PreviousBlockID: crypto.Hash([]byte(tag)), GeneratorAddress: make([]byte, 20), AggregateCommit: &blockchain.AggregateCommit{}}
		hd.Init()
		addr := crypto.Hash([]byte(fmt.Sprintf("validator-%d", v)))[:20]
		return certificate.NewSingleCommit(hd, addr, chainID, keys[v%G].PrivateKey)
	}
	key := func(c *certificate.SingleCommit) string {
		return string(c.BlockID()) + "/" + string(c.ValidatorAddress())
	}
	// sequential reference: does the pool keep one commit per (block, validator)?  Only then is a second copy after
	// concurrent use something no sequential order of the same calls produces.
	dedupes := false
	{
		ref := certificate.NewPool()
		ref.Add(mk(77, "reference", 97))
		ref.Add(mk(77, "reference", 97))
		dedupes = len(ref.Get(77)) == 1
	}
	if dedupes {
		out.count("pool_dedupes_sequentially", 1)
	}
	keepAlways := func(h uint32) bool { return h%7 == 0 } // heights no Cleanup of this scenario removes
	pool := certificate.NewPool()
	own := make([][]*certificate.SingleCommit, G)
	for i := 0; i < G; i++ {
		for j := 0; j < perG; j++ {
			h := uint32(100 + j%20)
			if j%3 == 0 {
				h = uint32(20 + j%30) // below maxHeightPrecommited - CommitRangeStored of the selectors: the GetUntil branches of Select
			}
			own[i] = append(own[i], mk(h, fmt.Sprintf("own-%d-%d", i, j), i))
		}
		for j := 0; j < shared; j++ { // the same (block, validator) is offered by every goroutine as a distinct object
			own[i] = append(own[i], mk(uint32(130+j), fmt.Sprintf("shared-%d", j), 99))
		}
	}
	for j := 0; j < 10; j++ {
		pool.Add(mk(uint32(1+j), fmt.Sprintf("low-%d", j), 0))
	}
	expect := map[string]uint32{}
	inPool := map[string]*atomic.Bool{} // protected commits: set once the first Add has returned
	protected := []*certificate.SingleCommit{}
	for i := range own {
		for _, c := range own[i] {
			if _, ok := expect[key(c)]; !ok && keepAlways(c.Height()) {
				inPool[key(c)] = &atomic.Bool{}
				protected = append(protected, c)
			}
			expect[key(c)] = c.Height()
		}
	}
	// phase 0: one fresh commit offered by all goroutines at the same instant (the same commit arriving from several
	// peers): a duplicate check that is not atomic with the insertion shows here, and almost nowhere else
	const simRounds = 400
	simDup := 0
	for r := 0; dedupes && r < simRounds && simDup == 0; r++ {
		c := mk(uint32(160+r%30), fmt.Sprintf("simultaneous-%d", r), 98)
		var ready, done sync.WaitGroup
		var goFlag atomic.Bool
		for i := 0; i < G; i++ {
			ready.Add(1)
			done.Add(1)
			go func() {
				defer done.Done()
				ready.Done()
				for !goFlag.Load() {
				}
				pool.Add(c)
			}()
		}
		ready.Wait()
		goFlag.Store(true)
		done.Wait()
		n := 0
		for _, x := range pool.Get(c.Height()) {
			if key(x) == key(c) {
				n++
			}
		}
		if n != 1 {
			simDup++
			out.fail("pool:duplicate-commit", fmt.Sprintf("round %d: one single commit added by %d goroutines at once is in the pool %d times (sequentially the pool keeps one)", r, G, n), nil)
		}
		out.count("simultaneous_add_rounds", 1)
	}
	// occurrences of c among the commits of its height
	occurrences := func(c *certificate.SingleCommit) int {
		seen := 0
		for _, x := range pool.Get(c.Height()) {
			if x != nil && key(x) == key(c) {
				seen++
			}
		}
		return seen
	}
	judge := func(c *certificate.SingleCommit, seen int, where string) {
		if seen == 0 {
			out.fail("lost-item:Pool.Get", fmt.Sprintf("%s: Get(height %d) does not contain a commit that was added and that no Cleanup removes", where, c.Height()), nil)
		} else if seen > 1 && dedupes {
			out.fail("dup-item:Pool.Get", fmt.Sprintf("%s: Get(height %d) contains one commit %d times (sequentially the pool keeps one)", where, c.Height(), seen), nil)
		}
	}
	g := &group{out: out}
	var added atomic.Int64
	for i := 0; i < G; i++ {
		idx := i
		g.spawn(fmt.Sprintf("adder%d", i), func(tick func(), stop func() bool) {
			r := rand.New(rand.NewSource(seed*13 + int64(idx)))
			for j := 0; !stop(); j++ {
				c := own[idx][j%len(own[idx])]
				pool.Add(c)
				added.Add(1)
				if flag := inPool[key(c)]; flag != nil {
					flag.Store(true)
					if !pool.Has(c) {
						out.fail("lost-item:Pool.nonGossiped", "Has is false right after Add (no Cleanup removes this height)", nil)
					}
					judge(c, occurrences(c), "adder")
				}
				if r.Intn(4) == 0 {
					_ = pool.Size()
				}
				tick()
			}
		})
	}
	var inflight atomic.Int32
	fingerprint := func(sel certificate.SingleCommits) (string, int) {
		fp, below := make([]byte, 0, len(sel)*8), 0
		for _, c := range sel {
			if c == nil {
				fp = append(fp, 0)
				continue
			}
			id, h, addr := c.BlockID(), c.Height(), c.ValidatorAddress()
			fp = append(fp, id[:4]...)
			fp = append(fp, byte(h), byte(h>>8), addr[0], addr[1])
			if h < 50 {
				below++
			}
		}
		return string(fp), below
	}
	for i := 0; i < 3; i++ {
		idx := i
		g.spawn(fmt.Sprintf("selector%d", i), func(tick func(), stop func() bool) {
			var prev certificate.SingleCommits
			prevFp := ""
			for round := 0; !stop(); round++ {
				lim := 30
				if (round+idx)%3 == 0 {
					lim = 200 // more than the first branch delivers: all branches of Select, both lists sorted
				}
				if inflight.Add(1) > 1 {
					out.count("overlapping_selects", 1)
				}
				sel := pool.Select(150, lim)
				inflight.Add(-1)
				// the caller reads what it was handed outside the pool's lock
				fp, below := fingerprint(sel)
				for _, c := range sel {
					if c == nil {
						out.fail("nil-item:Pool.Select", "nil commit in the selection", nil)
						break
					}
				}
				if below > 0 {
					out.count("select_below_stored_range", 1)
				}
				if prev != nil {
					// ... keeps it, and reads it again later: a slice handed out must not change under the caller's feet
					if again, _ := fingerprint(prev); again != prevFp {
						out.fail("pool:select-result-changed", "the slice returned by an earlier Select has different contents one round later (it aliases a list the pool keeps sorting)", nil)
					}
					out.count("select_rereads", 1)
				}
				prev, prevFp = sel, fp
				if idx == 0 && round%2 == 0 {
					pool.Upgrade(sel)
				}
				tick()
			}
		})
	}
	for i := 0; i < 2; i++ {
		idx := i
		g.spawn(fmt.Sprintf("getter%d", i), func(tick func(), stop func() bool) {
			for j := idx; !stop(); j++ {
				c := protected[j%len(protected)]
				if inPool[key(c)].Load() {
					judge(c, occurrences(c), "getter")
					if !pool.Has(c) {
						out.fail("lost-item:Pool.nonGossiped", "Has is false for a commit that was added and that no Cleanup removes", nil)
					}
					out.count("get_checks", 1)
				}
				if j%16 == 0 {
					_ = pool.Size()
				}
				tick()
			}
		})
	}
	g.spawn("cleaner", func(tick func(), stop func() bool) {
		for k := uint32(1); !stop(); k = k%6 + 1 {
			pool.Cleanup(func(h uint32) bool { return h >= 20 && (keepAlways(h) || h%7 != k) })
			tick()
			time.Sleep(150 * time.Microsecond)
		}
	})
	ok := g.watch(dur, limit)
	g.collect()
	if !ok {
		return
	}
	// quiescence.  Observations come first: a scenario that was cut short by what it found is not "too short".
	lost, dup := 0, 0
	for _, c := range protected {
		if !inPool[key(c)].Load() {
			continue
		}
		switch n := occurrences(c); {
		case n == 0:
			lost++
		case n > 1:
			dup++
		}
	}
	if lost > 0 {
		out.fail("lost-item:Pool.nonGossiped", fmt.Sprintf("%d added commits that no Cleanup removes are not in the pool at quiescence", lost), nil)
	}
	if dup > 0 && dedupes {
		out.fail("pool:duplicate-commit", fmt.Sprintf("%d commits are in the pool more than once at quiescence (sequentially the pool keeps one)", dup), nil)
	}
	out.count("pool_commits", int64(len(expect)))
	out.count("pool_protected_commits", int64(len(protected)))
	out.count("note_pool_size_at_quiescence", int64(pool.Size())) // sequential semantics (C06): reported, not judged
	out.mu.Lock()
	clean := len(out.Failures) == 0 && len(out.Panics) == 0
	out.mu.Unlock()
	if clean && added.Load() < int64(G*(perG+shared)) {
		out.harnessErr("pool scenario too short: %d adds", added.Load())
	}
}
