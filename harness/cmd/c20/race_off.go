//go:build !race

package main

const raceBuild = false
