package main

import (
	"bytes"
	"fmt"
	"math/rand"
	"sync"
	"sync/atomic"
	"time"

	"github.com/LiskHQ/lisk-engine/pkg/db"
	"github.com/LiskHQ/lisk-engine/pkg/db/diffdb"
)

// ---------------------------------------------------------------------------------------------- diffdb views

// scnDiffdb.  Phase 0: a reader and a writer on two views of the same prefix meet on one key.  Group 1: six owners, each
// with its own prefix view of ONE shared overlay (one mutex), run Set / Del / Has / Get / Iterate / Range / WithPrefix and
// compare every result with what they wrote themselves (another owner's write showing up, or an own write missing, is how
// unsynchronised access to the shared overlay looks from outside), while a snapshotter takes and drops snapshots.
// Group 2 (races, deadlocks and panics only - after RestoreSnapshot the contents are no longer any owner's): views read
// and write while one goroutine loops Snapshot -> RestoreSnapshot and another one Commits into a scratch batch.
func scnDiffdb(out *ScnOut, seed int64, dur, limit time.Duration) {
	store, err := db.NewInMemoryDB()
	if err != nil {
		out.harnessErr("db: %v", err)
		return
	}
	// (the store is closed on the success path only: the goroutines of an abandoned scenario keep running)
	const G = 6
	rootPrefix := []byte{10}
	models := make([]map[string][]byte, G)
	for i := 0; i < G; i++ {
		models[i] = map[string][]byte{}
		for k := 0; k < 8; k++ { // pre-existing committed keys: the store path is exercised
			key, val := []byte{byte(k), 0, 1}, []byte{byte(i), byte(k)}
			store.Set(append(append([]byte{}, rootPrefix...), append([]byte{byte(i)}, key...)...), val)
			models[i][string(key)] = val
		}
	}
	// phase 0: a reader and a writer on two views of the SAME prefix meet on a key that is committed but not yet in the
	// overlay (the reader goes to the store): once the writer's Set / Del has returned, every later read sees it
	{
		const N = 3000
		pfx := []byte{200}
		for k := 0; k < N; k++ {
			store.Set(append(append([]byte{}, rootPrefix...), append(pfx, byte(k>>8), byte(k))...), []byte{1, byte(k)})
		}
		shared := diffdb.New(store, rootPrefix)
		lostSet, lostDel := 0, 0
		for k := 0; k < N && lostSet+lostDel == 0; k++ {
			key := []byte{byte(k >> 8), byte(k)}
			del := k%3 == 0
			var ready, done sync.WaitGroup
			var goFlag atomic.Bool
			ready.Add(2)
			done.Add(2)
			go func() {
				defer done.Done()
				v := shared.WithPrefix(pfx)
				ready.Done()
				for !goFlag.Load() {
				}
				v.Get(key)
			}()
			go func() {
				defer done.Done()
				v := shared.WithPrefix(pfx)
				ready.Done()
				for !goFlag.Load() {
				}
				if del {
					v.Del(key)
				} else {
					v.Set(key, []byte{2, byte(k)})
				}
			}()
			ready.Wait()
			goFlag.Store(true)
			done.Wait()
			got, ok := shared.WithPrefix(pfx).Get(key)
			if del && ok {
				lostDel++
			}
			if !del && (!ok || !bytes.Equal(got, []byte{2, byte(k)})) {
				lostSet++
			}
		}
		if lostSet+lostDel > 0 {
			out.fail("diffdb:staged-write-lost", fmt.Sprintf("a Set / Del that had returned is not seen by a later Get on a view of the same prefix after a concurrent Get of the same key (lost sets %d, lost deletes %d)", lostSet, lostDel), nil)
		}
	}
	root := diffdb.New(store, rootPrefix)
	g := &group{out: out}
	check := func(idx int, view *diffdb.Database, m map[string][]byte, where string) {
		kvs := view.Iterate([]byte{}, -1, false)
		if len(kvs) != len(m) {
			out.fail("diffdb:view-inconsistent", fmt.Sprintf("%s: view %d iterates %d keys, its owner wrote %d", where, idx, len(kvs), len(m)), nil)
			return
		}
		for i, kv := range kvs {
			if v, ok := m[string(kv.Key())]; !ok || !bytes.Equal(v, kv.Value()) {
				out.fail("diffdb:view-inconsistent", fmt.Sprintf("%s: view %d key %x differs from what its owner wrote", where, idx, kv.Key()), nil)
				return
			}
			if i > 0 && bytes.Compare(kvs[i-1].Key(), kv.Key()) >= 0 {
				out.count("note_iteration_not_ascending", 1) // ordering is sequential semantics (C12), not part of this statement
			}
		}
	}
	for i := 0; i < G; i++ {
		idx := i
		g.spawn(fmt.Sprintf("view%d", i), func(tick func(), stop func() bool) {
			r := rand.New(rand.NewSource(seed*31 + int64(idx)))
			view := root.WithPrefix([]byte{byte(idx)})
			m := models[idx]
			for j := 0; !stop(); j++ {
				key := []byte{byte(r.Intn(12)), 0, byte(r.Intn(3))}
				switch r.Intn(9) {
				case 8:
					// Range (what liskbft uses): keys strictly inside the bounds must be exactly the owner's keys in between
					a, b := []byte{byte(r.Intn(6)), 0, 0}, []byte{byte(6 + r.Intn(6)), 0, 3}
					kvs := view.Range(a, b, -1, r.Intn(2) == 0)
					out.count("range_calls", 1)
					got := map[string][]byte{}
					for _, kv := range kvs {
						got[string(kv.Key())] = kv.Value()
					}
					for k, v := range m {
						if bytes.Compare([]byte(k), a) > 0 && bytes.Compare([]byte(k), b) < 0 {
							if w, ok := got[k]; !ok || !bytes.Equal(v, w) {
								out.fail("diffdb:view-inconsistent", fmt.Sprintf("view %d Range: key %x written by its owner is missing or differs", idx, k), nil)
								break
							}
						}
					}
					for k := range got {
						if _, ok := m[k]; !ok && bytes.Compare([]byte(k), a) > 0 && bytes.Compare([]byte(k), b) < 0 {
							out.fail("diffdb:view-inconsistent", fmt.Sprintf("view %d Range: key %x was not written by its owner", idx, k), nil)
							break
						}
					}
				case 0, 1, 2:
					val := []byte{byte(idx), byte(j), byte(j >> 8)}
					view.Set(key, val)
					m[string(key)] = val
				case 3:
					view.Del(key)
					delete(m, string(key))
				case 4:
					if _, ok := m[string(key)]; view.Has(key) != ok {
						out.fail("diffdb:view-inconsistent", fmt.Sprintf("view %d Has(%x) disagrees with its owner's writes", idx, key), nil)
					}
				case 5:
					check(idx, view, m, "Iterate")
				case 6:
					view = root.WithPrefix([]byte{byte(idx)}) // a fresh view of the same prefix shares overlay and mutex
				default:
					v, ok := view.Get(key)
					if w, has := m[string(key)]; ok != has || !bytes.Equal(v, w) {
						out.fail("diffdb:view-inconsistent", fmt.Sprintf("view %d Get(%x) = %x,%v; its owner wrote %x,%v", idx, key, v, ok, w, has), nil)
					}
				}
				tick()
			}
		})
	}
	g.spawn("snapshotter", func(tick func(), stop func() bool) {
		for !stop() {
			id := root.Snapshot()
			root.DeleteSnapshot(id)
			tick()
		}
	})
	ok := g.watch(dur*2/3, limit)
	g.collect()
	if !ok {
		return
	}
	// ---- group 2: RestoreSnapshot, Commit and Range concurrently with readers and writers (no contents oracle)
	{
		root2 := diffdb.New(store, []byte{11})
		for k := 0; k < 64; k++ {
			store.Set([]byte{11, byte(k % 4), byte(k), 0}, []byte{byte(k)})
		}
		g2 := &group{out: out}
		for i := 0; i < 4; i++ {
			idx := i
			g2.spawn(fmt.Sprintf("rview%d", i), func(tick func(), stop func() bool) {
				r := rand.New(rand.NewSource(seed*37 + int64(idx)))
				view := root2.WithPrefix([]byte{byte(idx)})
				for j := 0; !stop(); j++ {
					key := []byte{byte(r.Intn(80)), 0}
					switch r.Intn(7) {
					case 0, 1:
						view.Set(key, []byte{byte(idx), byte(j)})
					case 2:
						view.Del(key)
					case 3:
						view.Has(key)
					case 4:
						view.Iterate([]byte{}, 10, r.Intn(2) == 0)
					case 5:
						view.Range([]byte{byte(r.Intn(40)), 0}, []byte{byte(40 + r.Intn(40)), 0}, -1, false)
					default:
						view.Get(key)
					}
					tick()
				}
			})
		}
		g2.spawn("restorer", func(tick func(), stop func() bool) {
			for !stop() {
				id := root2.Snapshot()
				time.Sleep(50 * time.Microsecond)
				if err := root2.RestoreSnapshot(id); err != nil {
					out.fail("diffdb:snapshot-lost", "RestoreSnapshot of a snapshot just taken by the same goroutine: "+err.Error(), nil)
				}
				out.count("restore_cycles", 1)
				tick()
			}
		})
		g2.spawn("committer", func(tick func(), stop func() bool) {
			for !stop() {
				scratch := store.NewBatch() // never written: the store stays what the views were created on
				root2.Commit(scratch)
				out.count("commit_calls", 1)
				tick()
				time.Sleep(100 * time.Microsecond)
			}
		})
		ok := g2.watch(dur/3, limit)
		g2.collect()
		if !ok {
			return
		}
	}
	defer store.Close()
	batch := store.NewBatch()
	root.Commit(batch)
	store.Write(batch)
	fresh := diffdb.New(store, rootPrefix)
	for i := 0; i < G; i++ {
		check(i, fresh.WithPrefix([]byte{byte(i)}), models[i], "after Commit")
	}
}
