// Command c20 is the real-code binding of property C20: a stress driver with a watchdog.  It is built twice
// (normal and -race).  Every scenario runs on fresh objects for a bounded time; a scenario whose goroutines stop
// making progress is abandoned (its goroutines leak) after the blocked call sites were recorded.
//
//	c20 out.json scenario[,scenario..] seconds [watchdogSeconds]
//
// scenarios: chain-tip, chain-read, bulk, sync, pool, emitter, diffdb
package main

import (
	"bytes"
	"context"
	"encoding/json"
	"fmt"
	"math/rand"
	"os"
	"regexp"
	"runtime"
	"sort"
	"strconv"
	"strings"
	"sync"
	"sync/atomic"
	"time"

	"verifharness/internal/node"

	"github.com/LiskHQ/lisk-engine/pkg/blockchain"
	"github.com/LiskHQ/lisk-engine/pkg/consensus/certificate"
	"github.com/LiskHQ/lisk-engine/pkg/crypto"
	"github.com/LiskHQ/lisk-engine/pkg/db"
	"github.com/LiskHQ/lisk-engine/pkg/db/diffdb"
	"github.com/LiskHQ/lisk-engine/pkg/event"
	"github.com/LiskHQ/lisk-engine/pkg/p2p"
)

type Failure struct {
	Key    string      `json:"key"`
	What   string      `json:"what"`
	Detail interface{} `json:"detail,omitempty"`
}

type Frame struct {
	Fn   string `json:"fn"`
	File string `json:"file"`
	Line int    `json:"line"`
}

type Blocked struct {
	State  string  `json:"state"`
	Count  int     `json:"count"`
	Frames []Frame `json:"frames"` // frames inside lisk-engine, innermost first
}

type Deadlock struct {
	Kind    string    `json:"kind"` // "global": nobody progressed; "stall": the named goroutines did not
	AfterMs int64     `json:"after_ms"`
	Stalled []string  `json:"stalled"`
	Blocked []Blocked `json:"blocked"`
}

type ScnOut struct {
	Name     string           `json:"name"`
	WallMs   int64            `json:"wall_ms"`
	Ops      map[string]int64 `json:"ops"`
	Counts   map[string]int64 `json:"counts"`
	Deadlock *Deadlock        `json:"deadlock"`
	Failures []Failure        `json:"failures"`
	Panics   []string         `json:"panics"`
	Err      string           `json:"harness_error,omitempty"`
	mu       sync.Mutex
	perKey   map[string]int
}

func (o *ScnOut) fail(key, what string, detail interface{}) {
	o.mu.Lock()
	defer o.mu.Unlock()
	o.Counts["fail:"+key]++
	o.perKey[key]++
	if o.perKey[key] <= 2 {
		o.Failures = append(o.Failures, Failure{key, what, detail})
	}
}

func (o *ScnOut) count(k string, n int64) {
	o.mu.Lock()
	o.Counts[k] += n
	o.mu.Unlock()
}

func (o *ScnOut) harnessErr(format string, a ...interface{}) {
	o.mu.Lock()
	if o.Err == "" {
		o.Err = fmt.Sprintf(format, a...)
	}
	o.mu.Unlock()
}

// ---------------------------------------------------------------------------------------------- watchdog

type worker struct {
	name string
	ctr  atomic.Int64
	done atomic.Bool
}

type group struct {
	out     *ScnOut
	workers []*worker
	stop    atomic.Bool
	wg      sync.WaitGroup
}

// spawn starts a worker; f must call tick() after every completed operation and return when stop() is true.
func (g *group) spawn(name string, f func(tick func(), stop func() bool)) {
	w := &worker{name: name}
	g.workers = append(g.workers, w)
	g.wg.Add(1)
	go func() {
		defer g.wg.Done()
		defer w.done.Store(true)
		defer func() {
			if e := recover(); e != nil {
				buf := make([]byte, 4096)
				buf = buf[:runtime.Stack(buf, false)]
				g.out.mu.Lock()
				g.out.Panics = append(g.out.Panics, fmt.Sprintf("%s: %v\n%s", name, e, firstRepoFrames(string(buf))))
				g.out.mu.Unlock()
			}
		}()
		f(func() { w.ctr.Add(1) }, g.stop.Load)
	}()
}

// watch runs the scenario for dur; returns false when the scenario had to be abandoned.
func (g *group) watch(dur, limit time.Duration) bool {
	start := time.Now()
	last := make([]int64, len(g.workers))
	lastMove := make([]time.Time, len(g.workers))
	for i := range lastMove {
		lastMove[i] = start
	}
	report := func(kind string, stalled []string) bool {
		buf := make([]byte, 8<<20)
		buf = buf[:runtime.Stack(buf, true)]
		since := time.Now()
		for i, w := range g.workers { // the moment the first of the stalled goroutines stopped
			for _, s := range stalled {
				if s == w.name && lastMove[i].Before(since) {
					since = lastMove[i]
				}
			}
		}
		blocked := parseStacks(string(buf))
		g.stop.Store(true)
		if len(blocked) == 0 {
			// nobody waits for a lock or a channel inside lisk-engine: starvation on an overloaded machine, not a verdict
			g.out.harnessErr("watchdog: %v made no progress for %v but no goroutine is blocked inside lisk-engine", stalled, limit)
			return false
		}
		g.out.Deadlock = &Deadlock{Kind: kind, AfterMs: since.Sub(start).Milliseconds(), Stalled: stalled, Blocked: blocked}
		return false
	}
	for {
		time.Sleep(20 * time.Millisecond)
		now := time.Now()
		stalled, live := []string{}, 0
		for i, w := range g.workers {
			c := w.ctr.Load()
			if c != last[i] || w.done.Load() {
				last[i], lastMove[i] = c, now
			} else if now.Sub(lastMove[i]) > limit {
				stalled = append(stalled, w.name)
			}
			if !w.done.Load() {
				live++
			}
		}
		if live > 0 && len(stalled) == live {
			return report("global", stalled)
		}
		if len(stalled) > 0 {
			return report("stall", stalled)
		}
		if live == 0 || now.Sub(start) > dur {
			break
		}
	}
	g.stop.Store(true)
	fin := make(chan struct{})
	go func() { g.wg.Wait(); close(fin) }()
	select {
	case <-fin:
		return true
	case <-time.After(limit):
		names := []string{}
		for i, w := range g.workers {
			if !w.done.Load() {
				names = append(names, w.name)
				if c := w.ctr.Load(); c != last[i] {
					last[i], lastMove[i] = c, time.Now()
				}
			}
		}
		kind := "stall"
		if len(names) == len(g.workers) {
			kind = "global"
		}
		return report(kind, names)
	}
}

func (g *group) collect() {
	g.out.mu.Lock()
	defer g.out.mu.Unlock()
	for _, w := range g.workers {
		k := strings.TrimRight(w.name, "0123456789")
		g.out.Ops[k] += w.ctr.Load()
	}
}

var (
	reGoroutine = regexp.MustCompile(`^goroutine \d+ \[([^\],]+)`)
	reFrame     = regexp.MustCompile(`^(\S.*)\(.*\)$`)
	reLoc       = regexp.MustCompile(`^\t(\S+):(\d+)`)
)

func shortFn(fn string) string {
	if i := strings.LastIndex(fn, "/"); i >= 0 {
		fn = fn[i+1:]
	}
	if i := strings.Index(fn, "."); i >= 0 {
		fn = fn[i+1:] // drop the package name
	}
	fn = strings.NewReplacer("(*", "", ")", "").Replace(fn)
	return fn
}

func repoFrames(lines []string) []Frame {
	res := []Frame{}
	for i := 0; i+1 < len(lines); i++ {
		m := reFrame.FindStringSubmatch(lines[i])
		l := reLoc.FindStringSubmatch(lines[i+1])
		if m == nil || l == nil || !strings.Contains(m[1], "LiskHQ/lisk-engine/pkg/") {
			continue
		}
		ln, _ := strconv.Atoi(l[2])
		file := l[1]
		if j := strings.Index(file, "/pkg/"); j >= 0 {
			file = file[j+1:]
		}
		res = append(res, Frame{shortFn(m[1]), file, ln})
	}
	return res
}

func firstRepoFrames(stack string) string {
	fr := repoFrames(strings.Split(stack, "\n"))
	s := []string{}
	for i, f := range fr {
		if i < 4 {
			s = append(s, fmt.Sprintf("%s (%s:%d)", f.Fn, f.File, f.Line))
		}
	}
	return strings.Join(s, " <- ")
}

// parseStacks keeps the goroutines that are blocked on a lock or a channel send inside lisk-engine code.
func parseStacks(dump string) []Blocked {
	res := []Blocked{}
	idx := map[string]int{}
	for _, blk := range strings.Split(dump, "\n\n") {
		lines := strings.Split(blk, "\n")
		m := reGoroutine.FindStringSubmatch(lines[0])
		if m == nil {
			continue
		}
		st := m[1]
		if !(strings.Contains(st, "Lock") || strings.Contains(st, "semacquire") || st == "chan send") {
			continue
		}
		fr := repoFrames(lines[1:])
		if len(fr) == 0 {
			continue
		}
		if len(fr) > 6 {
			fr = fr[:6]
		}
		k := st + fmt.Sprint(fr)
		if i, ok := idx[k]; ok {
			res[i].Count++
			continue
		}
		idx[k] = len(res)
		res = append(res, Blocked{st, 1, fr})
	}
	sort.Slice(res, func(i, j int) bool { return res[i].Count > res[j].Count })
	return res
}

// ---------------------------------------------------------------------------------------------- chain

var hcfg = node.Config{NVal: 3, Batch: 3, Init: node.ParamSet{PcT: 2, CertT: 2, W: []uint64{1, 1, 1}, Gens: []int{1, 2, 3}}, Now: 15000}

type chainEnv struct {
	n        *node.Node
	da       *blockchain.DataAccess
	out      *ScnOut
	hi       atomic.Uint32 // largest height the writer has tried to commit
	stable   atomic.Uint32 // heights <= stable are never removed again
	remStart atomic.Uint64 // removals begun
	remEnd   atomic.Uint64 // removals completed
	ids      sync.Map      // height -> block id (heights <= stable)
	txs      sync.Map      // height -> [][]byte transaction ids
	gens     []int
}

func newChainEnv(out *ScnOut) *chainEnv {
	cfg := hcfg
	n, err := node.New(&cfg, nil, 0)
	if err != nil {
		out.harnessErr("node.New: %v", err)
		return nil
	}
	e := &chainEnv{n: n, da: n.Chain.DataAccess(), out: out, gens: []int{0}}
	e.ids.Store(uint32(0), []byte(n.Genesis.Header.ID))
	e.txs.Store(uint32(0), [][]byte{})
	return e
}

func (e *chainEnv) add() bool {
	n := e.n
	tip := n.Tip()
	o, err := n.Observe()
	if err != nil {
		e.out.harnessErr("observe: %v", err)
		return false
	}
	h := tip.Header.Height + 1
	slot := n.Slot.GetSlotNumber(tip.Header.Timestamp) + 1
	if slot > n.Cfg.Now {
		return false
	}
	gen := n.Cfg.Init.Gens[slot%len(n.Cfg.Init.Gens)]
	mhg := uint32(0)
	e.gens = e.gens[:h] // heights above the tip were removed
	for x := len(e.gens) - 1; x >= 1; x-- {
		if e.gens[x] == gen {
			mhg = uint32(x)
			break
		}
	}
	c := &node.Cand{Version: 2, H: h, Prev: "tip", Slot: slot, Gen: gen, Signer: gen, Sig: "ok", Mhp: o.Mhpv, Mhg: mhg, Ntx: 2}
	c.Ac.H, c.Ac.Kind = o.Cert, "empty"
	b := n.Build(c)
	if h > e.hi.Load() {
		e.hi.Store(h)
	}
	if err := n.Ex.VerifProcess(b, "12D3KooWverifpeer"); err != nil || !bytes.Equal(n.Tip().Header.ID, b.Header.ID) {
		e.out.harnessErr("a valid successor at height %d was not accepted: %v", h, err)
		return false
	}
	e.gens = append(e.gens, gen)
	return true
}

func (e *chainEnv) remove() bool {
	e.remStart.Add(1)
	err := e.n.Ex.VerifDeleteBlock(e.n.Tip(), false)
	e.remEnd.Add(1)
	if err != nil {
		e.out.harnessErr("delete of the tip failed: %v", err)
		return false
	}
	return true
}

// publish registers everything up to the current tip as stable
// quiet reports that no removal overlapped the interval since mark = remEnd.Load()
func (e *chainEnv) quiet(mark uint64) bool { return e.remStart.Load() == mark }

func (e *chainEnv) publish() {
	tip := e.n.Tip().Header.Height
	for h := e.stable.Load() + 1; h <= tip; h++ {
		b, err := e.da.GetBlockByHeight(h)
		if err != nil {
			e.out.harnessErr("writer cannot read its own block %d: %v", h, err)
			return
		}
		ids := [][]byte{}
		for _, tx := range b.Transactions {
			ids = append(ids, tx.ID)
		}
		e.ids.Store(h, []byte(b.Header.ID))
		e.txs.Store(h, ids)
	}
	e.stable.Store(tip)
}

func (e *chainEnv) writer(tick func(), stop func() bool) {
	for !stop() {
		e.publish()
		for k := 0; k < 3; k++ {
			if !e.add() {
				return
			}
			tick()
		}
		for k := 0; k < 2; k++ {
			if !e.remove() {
				return
			}
			tick()
		}
	}
}

func (e *chainEnv) checkTip(b *blockchain.Block, api string, stableBefore uint32) {
	if b == nil || b.Header == nil {
		e.out.fail("tip:incomplete:"+api, api+" returned no block while the chain has a tip", nil)
		return
	}
	if !bytes.Equal(crypto.Hash(b.Header.Encode()), b.Header.ID) {
		e.out.fail("tip:incomplete:"+api, fmt.Sprintf("%s: header at height %d does not hash to its id", api, b.Header.Height), nil)
	}
	if b.Header.Height > e.hi.Load() {
		e.out.fail("tip:uncommitted:"+api, fmt.Sprintf("%s returned height %d beyond anything the writer has committed (%d)", api, b.Header.Height, e.hi.Load()), nil)
	}
	if b.Header.Height < stableBefore {
		e.out.fail("tip:stale:"+api, fmt.Sprintf("%s returned height %d below %d, which was committed for good before the call", api, b.Header.Height, stableBefore), nil)
	}
}

func (e *chainEnv) tipReader(idx int) func(func(), func() bool) {
	return func(tick func(), stop func() bool) {
		for i := 0; !stop(); i++ {
			rm, st := e.remEnd.Load(), e.stable.Load()
			var b *blockchain.Block
			api := ""
			switch (i + idx) % 3 {
			case 0:
				api, b = "Chain.LastBlock", e.n.Chain.LastBlock()
			case 1:
				api, b = "DataAccess.CachedLastBlock", e.da.CachedLastBlock()
			default:
				api = "DataAccess.GetLastBlock"
				x, err := e.da.GetLastBlock()
				if err != nil {
					e.out.fail("tip:incomplete:"+api, api+": "+err.Error(), nil)
				}
				b = x
			}
			e.checkTip(b, api, st)
			if b != nil && b.Header != nil {
				got, err := e.da.GetBlock(b.Header.ID)
				if (err != nil || !bytes.Equal(got.Header.ID, b.Header.ID)) && e.quiet(rm) {
					e.out.fail("tip:not-retrievable", fmt.Sprintf("tip %d obtained through %s cannot be fetched by id: %v", b.Header.Height, api, err), nil)
				}
				// "some complete COMMITTED tip": what the tip announces must already be in the database (these look-ups do
				// not go through the block cache)
				if len(b.Transactions) > 0 {
					if _, err := e.da.GetTransaction(b.Transactions[0].ID); err != nil && e.quiet(rm) {
						e.out.fail("tip:uncommitted-data:"+api, fmt.Sprintf("tip %d obtained through %s: its first transaction is not in the database yet: %v", b.Header.Height, api, err), nil)
					}
				}
			}
			tick()
		}
	}
}

func (e *chainEnv) pick(r *rand.Rand) (heights []uint32, ok bool) {
	st := e.stable.Load()
	if st < 6 {
		return nil, false
	}
	span := uint32(40)
	if r.Intn(3) == 0 {
		span = 700 // beyond the block cache: database path
	}
	lo := uint32(1)
	if st > span {
		lo = st - span
	}
	k := 8 + r.Intn(56)
	seen := map[uint32]bool{}
	for i := 0; i < k; i++ {
		h := lo + uint32(r.Intn(int(st-lo+1)))
		if !seen[h] {
			seen[h] = true
			heights = append(heights, h)
		}
	}
	return heights, true
}

func (e *chainEnv) id(h uint32) []byte { v, _ := e.ids.Load(h); return v.([]byte) }

// multiset compares the ids returned by a bulk lookup with the existing requested ids
func (e *chainEnv) multiset(api string, want [][]byte, got [][]byte, detail string) {
	e.out.count("bulk_calls:"+api, 1)
	e.out.count("bulk_items:"+api, int64(len(want)))
	cnt := map[string]int{}
	for _, g := range got {
		cnt[string(g)]++
	}
	lost, dup, extra := 0, 0, 0
	for _, w := range want {
		switch c := cnt[string(w)]; {
		case c == 0:
			lost++
		case c > 1:
			dup++
		}
		delete(cnt, string(w))
	}
	extra = len(cnt)
	if lost > 0 {
		e.out.fail("lost-item:"+api, fmt.Sprintf("%s(%s): %d of %d existing items missing from the result (%d returned)", api, detail, lost, len(want), len(got)), nil)
	}
	if dup > 0 {
		e.out.fail("dup-item:"+api, fmt.Sprintf("%s(%s): %d items returned more than once", api, detail, dup), nil)
	}
	if extra > 0 {
		e.out.fail("extra-item:"+api, fmt.Sprintf("%s(%s): %d items that were not requested", api, detail, extra), nil)
	}
}

func (e *chainEnv) bulk(r *rand.Rand, which int) bool {
	heights, ok := e.pick(r)
	if !ok {
		return false
	}
	switch which % 4 {
	case 0:
		ids := [][]byte{crypto.RandomBytes(32)}
		want := [][]byte{}
		for _, h := range heights {
			ids, want = append(ids, e.id(h)), append(want, e.id(h))
		}
		res, err := e.da.GetBlockHeaders(ids)
		got := [][]byte{}
		for _, x := range res {
			if x == nil {
				e.out.fail("nil-item:GetBlockHeaders", "nil header in the result", nil)
				continue
			}
			got = append(got, x.ID)
		}
		if err != nil {
			e.out.fail("error:GetBlockHeaders", err.Error(), nil)
		} else {
			e.multiset("GetBlockHeaders", want, got, fmt.Sprintf("%d ids", len(ids)))
		}
	case 1:
		want := [][]byte{}
		for _, h := range heights {
			want = append(want, e.id(h))
		}
		res, err := e.da.GetBlockHeadersByHeights(append([]uint32{4000000000}, heights...))
		got := [][]byte{}
		for _, x := range res {
			if x == nil {
				e.out.fail("nil-item:GetBlockHeadersByHeights", "nil header in the result", nil)
				continue
			}
			got = append(got, x.ID)
		}
		if err != nil {
			e.out.fail("error:GetBlockHeadersByHeights", err.Error(), nil)
		} else {
			e.multiset("GetBlockHeadersByHeights", want, got, fmt.Sprintf("%d heights", len(heights)+1))
		}
	case 2:
		ids := [][]byte{crypto.RandomBytes(32)}
		want := [][]byte{}
		for _, h := range heights {
			v, _ := e.txs.Load(h)
			for _, t := range v.([][]byte) {
				ids, want = append(ids, t), append(want, t)
			}
		}
		res, err := e.da.GetTransactions(ids)
		got := [][]byte{}
		for _, x := range res {
			if x == nil {
				e.out.fail("nil-item:GetTransactions", "nil transaction in the result", nil)
				continue
			}
			got = append(got, x.ID)
		}
		if err != nil {
			e.out.fail("error:GetTransactions", err.Error(), nil)
		} else {
			e.multiset("GetTransactions", want, got, fmt.Sprintf("%d ids", len(ids)))
		}
	default:
		sort.Slice(heights, func(i, j int) bool { return heights[i] < heights[j] })
		from, to := heights[0], heights[0]+uint32(len(heights))
		if st := e.stable.Load(); to > st {
			to = st
		}
		want := [][]byte{}
		for h := from; h <= to; h++ {
			want = append(want, e.id(h))
		}
		res, err := e.da.GetBlocksBetweenHeight(from, to)
		got := [][]byte{}
		for _, x := range res {
			if x == nil || x.Header == nil {
				e.out.fail("nil-item:GetBlocksBetweenHeight", "nil block in the result", nil)
				continue
			}
			got = append(got, x.Header.ID)
		}
		if err != nil {
			e.out.fail("error:GetBlocksBetweenHeight", err.Error(), nil)
		} else {
			e.multiset("GetBlocksBetweenHeight", want, got, fmt.Sprintf("%d..%d", from, to))
		}
	}
	return true
}

func (e *chainEnv) reader(idx int, seed int64) func(func(), func() bool) {
	return func(tick func(), stop func() bool) {
		r := rand.New(rand.NewSource(seed*1000 + int64(idx)))
		for i := 0; !stop(); i++ {
			st := e.stable.Load()
			switch r.Intn(6) {
			case 0: // single lookups of stable blocks, by height and by id
				h := uint32(r.Intn(int(st) + 1))
				hd, err := e.da.GetBlockHeaderByHeight(h)
				if err != nil || !bytes.Equal(hd.ID, e.id(h)) {
					e.out.fail("lookup:GetBlockHeaderByHeight", fmt.Sprintf("committed height %d: %v", h, err), nil)
				}
				hd, err = e.da.GetBlockHeader(e.id(h))
				if err != nil || hd.Height != h {
					e.out.fail("lookup:GetBlockHeader", fmt.Sprintf("committed height %d: %v", h, err), nil)
				}
				b, err := e.da.GetBlockByHeight(h)
				if err != nil || !bytes.Equal(b.Header.ID, e.id(h)) || (h > 0 && len(b.Transactions) != 2) {
					e.out.fail("lookup:GetBlockByHeight", fmt.Sprintf("committed height %d: %v", h, err), nil)
				}
			case 1: // tip through the database index
				rm := e.remEnd.Load()
				hd, err := e.da.GetLastBlockHeader()
				if err != nil {
					if e.quiet(rm) {
						e.out.fail("tip:incomplete:DataAccess.GetLastBlockHeader", err.Error(), nil)
					} else {
						e.out.count("tip_lookup_overlapped_by_removal", 1)
					}
				} else if hd.Height > e.hi.Load() || hd.Height < st {
					e.out.fail("tip:uncommitted:DataAccess.GetLastBlockHeader", fmt.Sprintf("height %d outside [%d, %d]", hd.Height, st, e.hi.Load()), nil)
				}
			default:
				e.bulk(r, i)
			}
			tick()
		}
	}
}

func scnChain(out *ScnOut, tip bool, seed int64, dur, limit time.Duration) {
	e := newChainEnv(out)
	if e == nil {
		return
	}
	g := &group{out: out}
	g.spawn("writer", e.writer)
	for i := 0; i < 8; i++ {
		if tip {
			g.spawn(fmt.Sprintf("tipreader%d", i), e.tipReader(i))
		} else {
			g.spawn(fmt.Sprintf("reader%d", i), e.reader(i, seed))
		}
	}
	if g.watch(dur, limit) {
		e.n.Close()
	}
	g.collect()
	out.count("tip_height", int64(e.hi.Load()))
}

// bulk lookups on a quiescent chain: the only concurrency is the fan-out inside the lookup itself (and K callers)
func scnBulk(out *ScnOut, seed int64, dur, limit time.Duration) {
	e := newChainEnv(out)
	if e == nil {
		return
	}
	for i := 0; i < 120; i++ {
		if !e.add() {
			out.harnessErr("cannot build the chain")
			return
		}
	}
	e.publish()
	g := &group{out: out}
	for i := 0; i < 4; i++ {
		idx := i
		g.spawn(fmt.Sprintf("bulk%d", i), func(tick func(), stop func() bool) {
			r := rand.New(rand.NewSource(seed*77 + int64(idx)))
			for j := 0; !stop(); j++ {
				e.bulk(r, j+idx)
				tick()
			}
		})
	}
	if g.watch(dur, limit) {
		e.n.Close()
	}
	g.collect()
}

// ---------------------------------------------------------------------------------------------- block sync collector

// scnSync lets a fresh node synchronise with two connected peers through the real Executer: a block far ahead of
// the tip routes into blockSyncer.Sync, which asks every connected peer for its last block header from one
// goroutine per peer and collects the answers.  Only the -race build can observe the collector.
func scnSync(out *ScnOut, seed int64, dur, limit time.Duration) {
	mk := func(ts uint32) *node.Node {
		cfg := hcfg
		cfg.Network = true
		n, err := node.New(&cfg, nil, ts)
		if err != nil {
			out.harnessErr("node.New: %v", err)
			return nil
		}
		return n
	}
	p1 := mk(0)
	if p1 == nil {
		return
	}
	p2, s := mk(p1.GenesisTS), mk(p1.GenesisTS)
	if p2 == nil || s == nil {
		return
	}
	e1 := &chainEnv{n: p1, da: p1.Chain.DataAccess(), out: out, gens: []int{0}}
	for i := 0; i < 30; i++ {
		if !e1.add() {
			out.harnessErr("cannot build the peers' chain")
			return
		}
		if err := p2.Ex.VerifProcess(p1.Tip(), "12D3KooWverifpeer"); err != nil {
			out.harnessErr("second peer rejects block %d: %v", i+1, err)
			return
		}
	}
	for _, p := range []*node.Node{p1, p2} {
		addrs, err := p.Conn.MultiAddress()
		if err != nil || len(addrs) == 0 {
			out.harnessErr("peer has no listen address: %v", err)
			return
		}
		ai, err := p2p.AddrInfoFromMultiAddr(addrs[0])
		if err == nil {
			err = s.Conn.Connect(context.Background(), *ai)
		}
		if err != nil {
			out.harnessErr("connect: %v", err)
			return
		}
	}
	for i := 0; i < 100 && len(s.Conn.ConnectedPeers()) < 2; i++ {
		time.Sleep(20 * time.Millisecond)
	}
	out.count("peers", int64(len(s.Conn.ConnectedPeers())))
	g := &group{out: out}
	g.spawn("syncer", func(tick func(), stop func() bool) {
		err := s.Ex.VerifProcess(p1.Tip(), p1.Conn.ID())
		out.count("synced_to_height", int64(s.Tip().Header.Height))
		if err != nil {
			out.count("sync_returned_error", 1)
		}
		tick()
	})
	if g.watch(dur+10*time.Second, 5*limit) {
		s.Close()
		p1.Close()
		p2.Close()
	}
	g.collect()
}

// ---------------------------------------------------------------------------------------------- certificate pool

func scnPool(out *ScnOut, seed int64, dur, limit time.Duration) {
	const G, perG, shared = 6, 40, 12
	chainID := []byte{4, 0, 0, 7}
	keys := make([]*crypto.BLSKeyPair, G)
	for i := range keys {
		keys[i] = crypto.BLSKeyGen(crypto.Hash([]byte(fmt.Sprintf("c20-pool-%d", i))))
	}
	mk := func(h uint32, tag string, v int) *certificate.SingleCommit {
		hd := &blockchain.BlockHeader{Height: h, Timestamp: h, StateRoot: make([]byte, 32), ValidatorsHash: make([]byte, 32),
			PreviousBlockID: crypto.Hash([]byte(tag)), GeneratorAddress: make([]byte, 20), AggregateCommit: &blockchain.AggregateCommit{}}
		hd.Init()
		addr := crypto.Hash([]byte(fmt.Sprintf("validator-%d", v)))[:20]
		return certificate.NewSingleCommit(hd, addr, chainID, keys[v%G].PrivateKey)
	}
	key := func(c *certificate.SingleCommit) string {
		return string(c.BlockID()) + "/" + string(c.ValidatorAddress())
	}
	pool := certificate.NewPool()
	own := make([][]*certificate.SingleCommit, G)
	for i := 0; i < G; i++ {
		for j := 0; j < perG; j++ {
			own[i] = append(own[i], mk(uint32(100+j%20), fmt.Sprintf("own-%d-%d", i, j), i))
		}
		for j := 0; j < shared; j++ { // the same (block, validator) is offered by every goroutine as a distinct object
			own[i] = append(own[i], mk(uint32(130+j), fmt.Sprintf("shared-%d", j), 99))
		}
	}
	low := []*certificate.SingleCommit{}
	for j := 0; j < 10; j++ {
		c := mk(uint32(1+j), fmt.Sprintf("low-%d", j), 0)
		low = append(low, c)
		pool.Add(c)
	}
	expect := map[string]uint32{}
	for i := range own {
		for _, c := range own[i] {
			expect[key(c)] = c.Height()
		}
	}
	// phase 0: one fresh commit offered by all goroutines at the same instant (the same commit arriving from several
	// peers): a duplicate check that is not atomic with the insertion shows here, and almost nowhere else
	const simRounds = 400
	simDup := 0
	for r := 0; r < simRounds && simDup == 0; r++ {
		c := mk(uint32(160+r%30), fmt.Sprintf("simultaneous-%d", r), 98)
		expect[key(c)] = c.Height()
		var ready, done sync.WaitGroup
		var goFlag atomic.Bool
		for i := 0; i < G; i++ {
			ready.Add(1)
			done.Add(1)
			go func() {
				defer done.Done()
				ready.Done()
				for !goFlag.Load() {
				}
				pool.Add(c)
			}()
		}
		ready.Wait()
		goFlag.Store(true)
		done.Wait()
		n := 0
		for _, x := range pool.Get(c.Height()) {
			if key(x) == key(c) {
				n++
			}
		}
		if n != 1 {
			simDup++
			out.fail("pool:duplicate-commit", fmt.Sprintf("round %d: one single commit added by %d goroutines at once is in the pool %d times", r, G, n), nil)
		}
	}
	g := &group{out: out}
	var added atomic.Int64
	for i := 0; i < G; i++ {
		idx := i
		g.spawn(fmt.Sprintf("adder%d", i), func(tick func(), stop func() bool) {
			r := rand.New(rand.NewSource(seed*13 + int64(idx)))
			for j := 0; !stop(); j++ {
				c := own[idx][j%len(own[idx])]
				pool.Add(c)
				added.Add(1)
				if !pool.Has(c) {
					out.fail("lost-item:Pool.nonGossiped", "Has is false right after Add (Cleanup keeps this height)", nil)
				}
				seen := 0
				for _, x := range pool.Get(c.Height()) {
					if key(x) == key(c) {
						seen++
					}
				}
				if seen != 1 {
					out.fail("pool:commit-count", fmt.Sprintf("Get(height) returned the added commit %d times", seen), nil)
				}
				if r.Intn(4) == 0 {
					_ = pool.Size()
				}
				tick()
			}
		})
	}
	g.spawn("selector", func(tick func(), stop func() bool) {
		for !stop() {
			// (Select may list a commit twice by construction - below the stored range and again among the largest -
			// which is sequential behaviour outside this property)
			sel := pool.Select(150, 30)
			pool.Upgrade(sel)
			tick()
		}
	})
	g.spawn("cleaner", func(tick func(), stop func() bool) {
		for !stop() {
			pool.Cleanup(func(h uint32) bool { return h >= 100 })
			tick()
		}
	})
	if !g.watch(dur, limit) {
		g.collect()
		return
	}
	g.collect()
	// quiescence: every goroutine offered all of its commits at least once
	if added.Load() < int64(G*(perG+shared)) {
		out.harnessErr("pool scenario too short: %d adds", added.Load())
		return
	}
	pool.Cleanup(func(h uint32) bool { return h >= 100 })
	got := map[string]int{}
	for h := uint32(0); h < 200; h++ {
		for _, c := range pool.Get(h) {
			got[key(c)]++
		}
	}
	lost, dup := 0, 0
	for k := range expect {
		switch {
		case got[k] == 0:
			lost++
		case got[k] > 1:
			dup++
		}
	}
	if lost > 0 {
		out.fail("lost-item:Pool.nonGossiped", fmt.Sprintf("%d of %d added commits are not in the pool at quiescence", lost, len(expect)), nil)
	}
	if dup > 0 {
		out.fail("pool:duplicate-commit", fmt.Sprintf("%d commits are in the pool more than once at quiescence", dup), nil)
	}
	for _, c := range low {
		if pool.Has(c) {
			out.fail("pool:cleanup-ineffective", "a commit below the cleanup height survived", nil)
			break
		}
	}
	if pool.Size() != len(expect) {
		out.fail("pool:size", fmt.Sprintf("Size() = %d, distinct commits added = %d", pool.Size(), len(expect)), nil)
	}
	out.count("pool_commits", int64(len(expect)))
}

// ---------------------------------------------------------------------------------------------- event emitter

func scnEmitter(out *ScnOut, seed int64, dur, limit time.Duration) {
	ee := event.New()
	topics := []string{"a", "b"}
	var published [2]atomic.Int64
	var received [2][2]atomic.Int64
	var drainers sync.WaitGroup
	drain := func(ch chan interface{}, ctr *atomic.Int64) {
		drainers.Add(1)
		go func() {
			defer drainers.Done()
			for range ch {
				if ctr != nil {
					ctr.Add(1)
				}
			}
		}()
	}
	for t := range topics {
		for s := 0; s < 2; s++ {
			drain(ee.Subscribe(topics[t]), &received[t][s]) // persistent live subscribers
		}
	}
	g := &group{out: out}
	var closed, closing atomic.Bool // closing: Close is about to be called; closed: Close has returned
	for i := 0; i < 3; i++ {
		idx := i
		g.spawn(fmt.Sprintf("publisher%d", i), func(tick func(), stop func() bool) {
			for j := 0; !stop(); j++ {
				t := (j + idx) % 2
				afterClose := closed.Load()
				ee.Publish(topics[t], j)
				if !closing.Load() {
					published[t].Add(1) // completed before Close was called: delivered to every persistent subscriber
				} else if !afterClose {
					out.count("publish_overlapped_close", 1) // delivery not determined
				}
				tick()
			}
		})
	}
	for i := 0; i < 2; i++ {
		idx := i
		g.spawn(fmt.Sprintf("churn%d", i), func(tick func(), stop func() bool) {
			r := rand.New(rand.NewSource(seed*5 + int64(idx)))
			for !stop() && !closing.Load() {
				t := r.Intn(2)
				ch := ee.Subscribe(topics[t])
				drain(ch, nil)
				if r.Intn(2) == 0 {
					time.Sleep(time.Duration(r.Intn(200)) * time.Microsecond)
				}
				// also after Close: a topic re-created by a late Subscribe is released here (Close already closed the others)
				ee.Unsubscribe(topics[t], ch) //nolint
				tick()
			}
		})
	}
	g.spawn("closer", func(tick func(), stop func() bool) {
		// Close arrives while publishers are still publishing
		deadline := time.Now().Add(dur * 3 / 4)
		for !stop() && time.Now().Before(deadline) {
			time.Sleep(5 * time.Millisecond)
			tick()
		}
		closing.Store(true)
		ee.Close() //nolint
		closed.Store(true)
		tick()
	})
	ok := g.watch(dur, limit)
	g.collect()
	if !ok {
		return
	}
	fin := make(chan struct{})
	go func() { drainers.Wait(); close(fin) }()
	select {
	case <-fin:
	case <-time.After(limit):
		out.fail("emitter:subscriber-not-released", "Close returned but a live subscriber's channel was never closed", nil)
		return
	}
	out.mu.Lock()
	overlapped := out.Counts["publish_overlapped_close"]
	out.mu.Unlock()
	for t := range topics {
		for s := 0; s < 2; s++ {
			p, r := published[t].Load(), received[t][s].Load()
			out.count("published", p)
			// every Publish that completed before Close started was delivered once; those overlapping Close may or may not be
			if r < p || r > p+overlapped {
				out.fail("emitter:delivery", fmt.Sprintf("persistent subscriber %d of topic %s received %d messages, %d were published", s, topics[t], r, p), nil)
			}
		}
	}
}

// ---------------------------------------------------------------------------------------------- diffdb views

func scnDiffdb(out *ScnOut, seed int64, dur, limit time.Duration) {
	store, err := db.NewInMemoryDB()
	if err != nil {
		out.harnessErr("db: %v", err)
		return
	}
	defer store.Close()
	const G = 6
	rootPrefix := []byte{10}
	models := make([]map[string][]byte, G)
	for i := 0; i < G; i++ {
		models[i] = map[string][]byte{}
		for k := 0; k < 8; k++ { // pre-existing committed keys: the store path is exercised
			key, val := []byte{byte(k), 0, 1}, []byte{byte(i), byte(k)}
			store.Set(append(append([]byte{}, rootPrefix...), append([]byte{byte(i)}, key...)...), val)
			models[i][string(key)] = val
		}
	}
	// phase 0: a reader and a writer on two views of the SAME prefix meet on a key that is committed but not yet in the
	// overlay (the reader goes to the store): once the writer's Set / Del has returned, every later read sees it
	{
		const N = 3000
		pfx := []byte{200}
		for k := 0; k < N; k++ {
			store.Set(append(append([]byte{}, rootPrefix...), append(pfx, byte(k>>8), byte(k))...), []byte{1, byte(k)})
		}
		shared := diffdb.New(store, rootPrefix)
		lostSet, lostDel := 0, 0
		for k := 0; k < N && lostSet+lostDel == 0; k++ {
			key := []byte{byte(k >> 8), byte(k)}
			del := k%3 == 0
			var ready, done sync.WaitGroup
			var goFlag atomic.Bool
			ready.Add(2)
			done.Add(2)
			go func() {
				defer done.Done()
				v := shared.WithPrefix(pfx)
				ready.Done()
				for !goFlag.Load() {
				}
				v.Get(key)
			}()
			go func() {
				defer done.Done()
				v := shared.WithPrefix(pfx)
				ready.Done()
				for !goFlag.Load() {
				}
				if del {
					v.Del(key)
				} else {
					v.Set(key, []byte{2, byte(k)})
				}
			}()
			ready.Wait()
			goFlag.Store(true)
			done.Wait()
			got, ok := shared.WithPrefix(pfx).Get(key)
			if del && ok {
				lostDel++
			}
			if !del && (!ok || !bytes.Equal(got, []byte{2, byte(k)})) {
				lostSet++
			}
		}
		if lostSet+lostDel > 0 {
			out.fail("diffdb:staged-write-lost", fmt.Sprintf("a Set / Del that had returned is not seen by a later Get on a view of the same prefix after a concurrent Get of the same key (lost sets %d, lost deletes %d)", lostSet, lostDel), nil)
		}
	}
	root := diffdb.New(store, rootPrefix)
	g := &group{out: out}
	check := func(idx int, view *diffdb.Database, m map[string][]byte, where string) {
		kvs := view.Iterate([]byte{}, -1, false)
		if len(kvs) != len(m) {
			out.fail("diffdb:view-inconsistent", fmt.Sprintf("%s: view %d iterates %d keys, its owner wrote %d", where, idx, len(kvs), len(m)), nil)
			return
		}
		for i, kv := range kvs {
			if v, ok := m[string(kv.Key())]; !ok || !bytes.Equal(v, kv.Value()) {
				out.fail("diffdb:view-inconsistent", fmt.Sprintf("%s: view %d key %x differs from what its owner wrote", where, idx, kv.Key()), nil)
				return
			}
			if i > 0 && bytes.Compare(kvs[i-1].Key(), kv.Key()) >= 0 {
				out.fail("diffdb:view-order", fmt.Sprintf("%s: view %d iteration not strictly ascending", where, idx), nil)
				return
			}
		}
	}
	for i := 0; i < G; i++ {
		idx := i
		g.spawn(fmt.Sprintf("view%d", i), func(tick func(), stop func() bool) {
			r := rand.New(rand.NewSource(seed*31 + int64(idx)))
			view := root.WithPrefix([]byte{byte(idx)})
			m := models[idx]
			for j := 0; !stop(); j++ {
				key := []byte{byte(r.Intn(12)), 0, byte(r.Intn(3))}
				switch r.Intn(8) {
				case 0, 1, 2:
					val := []byte{byte(idx), byte(j), byte(j >> 8)}
					view.Set(key, val)
					m[string(key)] = val
				case 3:
					view.Del(key)
					delete(m, string(key))
				case 4:
					if _, ok := m[string(key)]; view.Has(key) != ok {
						out.fail("diffdb:view-inconsistent", fmt.Sprintf("view %d Has(%x) disagrees with its owner's writes", idx, key), nil)
					}
				case 5:
					check(idx, view, m, "Iterate")
				case 6:
					view = root.WithPrefix([]byte{byte(idx)}) // a fresh view of the same prefix shares overlay and mutex
				default:
					v, ok := view.Get(key)
					if w, has := m[string(key)]; ok != has || !bytes.Equal(v, w) {
						out.fail("diffdb:view-inconsistent", fmt.Sprintf("view %d Get(%x) = %x,%v; its owner wrote %x,%v", idx, key, v, ok, w, has), nil)
					}
				}
				tick()
			}
		})
	}
	g.spawn("snapshotter", func(tick func(), stop func() bool) {
		for !stop() {
			id := root.Snapshot()
			root.DeleteSnapshot(id)
			tick()
		}
	})
	ok := g.watch(dur, limit)
	g.collect()
	if !ok {
		return
	}
	batch := store.NewBatch()
	root.Commit(batch)
	store.Write(batch)
	fresh := diffdb.New(store, rootPrefix)
	for i := 0; i < G; i++ {
		check(i, fresh.WithPrefix([]byte{byte(i)}), models[i], "after Commit")
	}
}

// ---------------------------------------------------------------------------------------------- main

func main() {
	if len(os.Args) < 4 {
		fmt.Fprintln(os.Stderr, "usage: c20 out.json scenario[,scenario..] seconds [watchdogSeconds]")
		os.Exit(2)
	}
	secs, _ := strconv.ParseFloat(os.Args[3], 64)
	limit := 3 * time.Second
	if len(os.Args) > 4 {
		if w, err := strconv.ParseFloat(os.Args[4], 64); err == nil {
			limit = time.Duration(w * float64(time.Second))
		}
	}
	seed, _ := strconv.ParseInt(os.Getenv("VERIF_SEED"), 10, 64)
	dur := time.Duration(secs * float64(time.Second))
	outs := []*ScnOut{}
	for _, name := range strings.Split(os.Args[2], ",") {
		out := &ScnOut{Name: name, Ops: map[string]int64{}, Counts: map[string]int64{}, Failures: []Failure{}, Panics: []string{}, perKey: map[string]int{}}
		outs = append(outs, out)
		fmt.Fprintf(os.Stderr, "C20-SCENARIO %s begin\n", name)
		t := time.Now()
		func() {
			defer func() {
				if e := recover(); e != nil {
					out.harnessErr("scenario set-up panicked: %v", e)
				}
			}()
			switch name {
			case "chain-tip":
				scnChain(out, true, seed, dur, limit)
			case "chain-read":
				scnChain(out, false, seed, dur, limit)
			case "bulk":
				scnBulk(out, seed, dur, limit)
			case "sync":
				scnSync(out, seed, dur, limit)
			case "pool":
				scnPool(out, seed, dur, limit)
			case "emitter":
				scnEmitter(out, seed, dur, limit)
			case "diffdb":
				scnDiffdb(out, seed, dur, limit)
			default:
				out.harnessErr("unknown scenario")
			}
		}()
		out.WallMs = time.Since(t).Milliseconds()
		fmt.Fprintf(os.Stderr, "C20-SCENARIO %s end\n", name)
	}
	for _, o := range outs { // goroutines of an abandoned scenario may still be running
		o.mu.Lock()
		defer o.mu.Unlock()
	}
	buf, _ := json.MarshalIndent(outs, "", " ")
	if err := os.WriteFile(os.Args[1], buf, 0o644); err != nil {
		fmt.Fprintln(os.Stderr, err)
		os.Exit(2)
	}
}
