// Command c20 is the real-code binding of property C20: a stress driver with a watchdog.  It is built twice
// (normal and -race).  Every scenario runs on fresh objects for a bounded time; a scenario whose goroutines stop
// making progress is abandoned (its goroutines leak) after the blocked call sites were recorded.
//
//	c20 out.json scenario[,scenario..] seconds [watchdogSeconds]
//
// scenarios: chain-tip, chain-read (block cache 515), chain-tip-evict, chain-read-evict (block cache 8: eviction, database
// path, deep removals), bulk, serve (the sync RPC handlers while the chain changes), sync, pool, emitter, diffdb
//
// VERIF_EXPERIMENTAL=1 enables the sub-checks that are red on the unchanged tree (see DESIGN 8.3 / the check's report):
// removals of more blocks than the cache holds under readers (cache reload), getBlocksFromId for the volatile tip.
package main

import (
	"encoding/json"
	"fmt"
	"os"
	"regexp"
	"runtime"
	"sort"
	"strconv"
	"strings"
	"sync"
	"sync/atomic"
	"time"
)

type Failure struct {
	Key    string      `json:"key"`
	What   string      `json:"what"`
	Detail interface{} `json:"detail,omitempty"`
}

type Frame struct {
	Fn   string `json:"fn"`
	File string `json:"file"`
	Line int    `json:"line"`
}

type Blocked struct {
	State  string  `json:"state"`
	Count  int     `json:"count"`
	Frames []Frame `json:"frames"` // frames inside lisk-engine, innermost first
}

type Deadlock struct {
	Kind    string    `json:"kind"` // "global": nobody progressed; "stall": the named goroutines did not
	AfterMs int64     `json:"after_ms"`
	Stalled []string  `json:"stalled"`
	Blocked []Blocked `json:"blocked"`
}

type ScnOut struct {
	Name     string           `json:"name"`
	WallMs   int64            `json:"wall_ms"`
	Ops      map[string]int64 `json:"ops"`
	Counts   map[string]int64 `json:"counts"`
	Deadlock *Deadlock        `json:"deadlock"`
	Failures []Failure        `json:"failures"`
	Panics   []string         `json:"panics"`
	Err      string           `json:"harness_error,omitempty"`
	mu       sync.Mutex
	perKey   map[string]int
}

func (o *ScnOut) fail(key, what string, detail interface{}) {
	o.mu.Lock()
	defer o.mu.Unlock()
	o.Counts["fail:"+key]++
	o.perKey[key]++
	if o.perKey[key] <= 2 {
		o.Failures = append(o.Failures, Failure{key, what, detail})
	}
}

func (o *ScnOut) count(k string, n int64) {
	o.mu.Lock()
	o.Counts[k] += n
	o.mu.Unlock()
}

func (o *ScnOut) harnessErr(format string, a ...interface{}) {
	o.mu.Lock()
	if o.Err == "" {
		o.Err = fmt.Sprintf(format, a...)
	}
	o.mu.Unlock()
}

// ---------------------------------------------------------------------------------------------- watchdog

type worker struct {
	name string
	ctr  atomic.Int64
	done atomic.Bool
}

type group struct {
	out     *ScnOut
	workers []*worker
	stop    atomic.Bool
	wg      sync.WaitGroup
	// abandoned: the watchdog gave the scenario up; its goroutines leak and what they run into afterwards (objects the
	// scenario has closed in the meantime) is not an observation
	abandoned atomic.Bool
}

// spawn starts a worker; f must call tick() after every completed operation and return when stop() is true.
func (g *group) spawn(name string, f func(tick func(), stop func() bool)) {
	w := &worker{name: name}
	g.workers = append(g.workers, w)
	g.wg.Add(1)
	go func() {
		defer g.wg.Done()
		defer w.done.Store(true)
		defer func() {
			if e := recover(); e != nil {
				if g.abandoned.Load() {
					return
				}
				buf := make([]byte, 4096)
				buf = buf[:runtime.Stack(buf, false)]
				g.out.mu.Lock()
				g.out.Panics = append(g.out.Panics, fmt.Sprintf("%s: %v\n%s", name, e, firstRepoFrames(string(buf))))
				g.out.mu.Unlock()
				g.stop.Store(true) // a panic is an observation: the others need not wait for the watchdog
			}
		}()
		f(func() { w.ctr.Add(1) }, g.stop.Load)
	}()
}

// watch runs the scenario for dur; returns false when the scenario had to be abandoned.
func (g *group) watch(dur, limit time.Duration) bool {
	start := time.Now()
	last := make([]int64, len(g.workers))
	lastMove := make([]time.Time, len(g.workers))
	for i := range lastMove {
		lastMove[i] = start
	}
	counters := func() []int64 {
		c := make([]int64, len(g.workers))
		for i, w := range g.workers {
			c[i] = w.ctr.Load()
		}
		return c
	}
	report := func(kind string, stalled []string) bool {
		defer g.abandoned.Store(true)
		before := counters()
		buf := make([]byte, 8<<20)
		buf = buf[:runtime.Stack(buf, true)]
		first := parseStacks(string(buf))
		// confirmation: a goroutine counts as blocked only if it is found at the same place in a second dump taken later
		// and none of the stalled workers has moved in between (a starved process is not a deadlocked one)
		time.Sleep(400 * time.Millisecond)
		after := counters()
		for i, w := range g.workers {
			for _, s := range stalled {
				if s == w.name && after[i] != before[i] {
					g.stop.Store(true)
					g.out.harnessErr("watchdog: %v made no progress for %v but moved again afterwards: overloaded machine, no verdict", stalled, limit)
					return false
				}
			}
		}
		buf = buf[:cap(buf)]
		buf = buf[:runtime.Stack(buf, true)]
		second := map[string]bool{}
		for _, b := range parseStacks(string(buf)) {
			second[b.State+fmt.Sprint(b.Frames)] = true
		}
		since := time.Now()
		for i, w := range g.workers { // the moment the first of the stalled goroutines stopped
			for _, s := range stalled {
				if s == w.name && lastMove[i].Before(since) {
					since = lastMove[i]
				}
			}
		}
		blocked := []Blocked{}
		for _, b := range first {
			if second[b.State+fmt.Sprint(b.Frames)] {
				blocked = append(blocked, b)
			}
		}
		g.stop.Store(true)
		if len(blocked) == 0 {
			// nobody waits for a lock or a channel inside lisk-engine: starvation on an overloaded machine, not a verdict
			g.out.harnessErr("watchdog: %v made no progress for %v but no goroutine is blocked inside lisk-engine", stalled, limit)
			return false
		}
		g.out.Deadlock = &Deadlock{Kind: kind, AfterMs: since.Sub(start).Milliseconds(), Stalled: stalled, Blocked: blocked}
		return false
	}
	for {
		time.Sleep(20 * time.Millisecond)
		now := time.Now()
		stalled, live := []string{}, 0
		for i, w := range g.workers {
			c := w.ctr.Load()
			if c != last[i] || w.done.Load() {
				last[i], lastMove[i] = c, now
			} else if now.Sub(lastMove[i]) > limit {
				stalled = append(stalled, w.name)
			}
			if !w.done.Load() {
				live++
			}
		}
		if live > 0 && len(stalled) == live {
			return report("global", stalled)
		}
		if len(stalled) > 0 {
			return report("stall", stalled)
		}
		if live == 0 || now.Sub(start) > dur {
			break
		}
	}
	g.stop.Store(true)
	fin := make(chan struct{})
	go func() { g.wg.Wait(); close(fin) }()
	select {
	case <-fin:
		return true
	case <-time.After(3 * limit): // the join gets more time than a single operation: on a loaded machine wide lookups are slow
		names := []string{}
		for i, w := range g.workers {
			if !w.done.Load() {
				names = append(names, w.name)
				if c := w.ctr.Load(); c != last[i] {
					last[i], lastMove[i] = c, time.Now()
				}
			}
		}
		kind := "stall"
		if len(names) == len(g.workers) {
			kind = "global"
		}
		return report(kind, names)
	}
}

func (g *group) collect() {
	g.out.mu.Lock()
	defer g.out.mu.Unlock()
	for _, w := range g.workers {
		k := strings.TrimRight(w.name, "0123456789")
		g.out.Ops[k] += w.ctr.Load()
	}
}

var (
	reGoroutine = regexp.MustCompile(`^goroutine \d+ \[([^\],]+)`)
	reFrame     = regexp.MustCompile(`^(\S.*)\(.*\)$`)
	reLoc       = regexp.MustCompile(`^\t(\S+):(\d+)`)
)

func shortFn(fn string) string {
	if i := strings.LastIndex(fn, "/"); i >= 0 {
		fn = fn[i+1:]
	}
	if i := strings.Index(fn, "."); i >= 0 {
		fn = fn[i+1:] // drop the package name
	}
	fn = strings.NewReplacer("(*", "", ")", "").Replace(fn)
	return fn
}

func repoFrames(lines []string) []Frame {
	res := []Frame{}
	for i := 0; i+1 < len(lines); i++ {
		m := reFrame.FindStringSubmatch(lines[i])
		l := reLoc.FindStringSubmatch(lines[i+1])
		if m == nil || l == nil || !strings.Contains(m[1], "LiskHQ/lisk-engine/pkg/") {
			continue
		}
		ln, _ := strconv.Atoi(l[2])
		file := l[1]
		if j := strings.Index(file, "/pkg/"); j >= 0 {
			file = file[j+1:]
		}
		res = append(res, Frame{shortFn(m[1]), file, ln})
	}
	return res
}

func firstRepoFrames(stack string) string {
	fr := repoFrames(strings.Split(stack, "\n"))
	s := []string{}
	for i, f := range fr {
		if i < 4 {
			s = append(s, fmt.Sprintf("%s (%s:%d)", f.Fn, f.File, f.Line))
		}
	}
	return strings.Join(s, " <- ")
}

// types whose methods the property anchors (harness/extract targets and their helpers): a goroutine that waits on a
// channel receive, a select or a condition variable counts as blocked only when its innermost lisk-engine frame belongs
// to one of them (the network layer and the syncers wait on channels legitimately)
var anchored = map[string]bool{"blockCache": true, "DataAccess": true, "Chain": true, "Pool": true, "SingleCommits": true, "EventEmitter": true,
	"Database": true, "cacheDB": true, "sharedCache": true, "Syncer": true}

func waitState(st string) bool {
	return strings.HasPrefix(st, "chan receive") || strings.HasPrefix(st, "select") || strings.HasPrefix(st, "sync.Cond.Wait")
}

// parseStacks keeps the goroutines that are blocked on a lock or a channel send inside lisk-engine code, and those that
// wait on a channel receive / select / condition variable inside a method of an anchored type.
func parseStacks(dump string) []Blocked {
	res := []Blocked{}
	idx := map[string]int{}
	for _, blk := range strings.Split(dump, "\n\n") {
		lines := strings.Split(blk, "\n")
		m := reGoroutine.FindStringSubmatch(lines[0])
		if m == nil {
			continue
		}
		st := m[1]
		lockish := strings.Contains(st, "Lock") || strings.Contains(st, "semacquire") || st == "chan send"
		if !lockish && !waitState(st) {
			continue
		}
		fr := repoFrames(lines[1:])
		if len(fr) == 0 {
			continue
		}
		if !lockish && !anchored[strings.SplitN(fr[0].Fn, ".", 2)[0]] {
			continue
		}
		if len(fr) > 6 {
			fr = fr[:6]
		}
		k := st + fmt.Sprint(fr)
		if i, ok := idx[k]; ok {
			res[i].Count++
			continue
		}
		idx[k] = len(res)
		res = append(res, Blocked{st, 1, fr})
	}
	sort.Slice(res, func(i, j int) bool { return res[i].Count > res[j].Count })
	return res
}

// ---------------------------------------------------------------------------------------------- main

func main() {
	if len(os.Args) < 4 {
		fmt.Fprintln(os.Stderr, "usage: c20 out.json scenario[,scenario..] seconds [watchdogSeconds]")
		os.Exit(2)
	}
	secs, _ := strconv.ParseFloat(os.Args[3], 64)
	limit := 3 * time.Second
	if len(os.Args) > 4 {
		if w, err := strconv.ParseFloat(os.Args[4], 64); err == nil {
			limit = time.Duration(w * float64(time.Second))
		}
	}
	seed, _ := strconv.ParseInt(os.Getenv("VERIF_SEED"), 10, 64)
	dur := time.Duration(secs * float64(time.Second))
	outs := []*ScnOut{}
	for _, name := range strings.Split(os.Args[2], ",") {
		out := &ScnOut{Name: name, Ops: map[string]int64{}, Counts: map[string]int64{}, Failures: []Failure{}, Panics: []string{}, perKey: map[string]int{}}
		outs = append(outs, out)
		fmt.Fprintf(os.Stderr, "C20-SCENARIO %s begin\n", name)
		t := time.Now()
		func() {
			defer func() {
				if e := recover(); e != nil {
					buf := make([]byte, 8192)
					buf = buf[:runtime.Stack(buf, false)]
					if fr := firstRepoFrames(string(buf)); fr != "" {
						// raised inside lisk-engine while the scenario's own goroutine was calling it (set-up, final clean-up)
						out.mu.Lock()
						out.Panics = append(out.Panics, fmt.Sprintf("%s: %v\n%s", name, e, fr))
						out.mu.Unlock()
					} else {
						out.harnessErr("scenario set-up panicked: %v", e)
					}
				}
			}()
			switch name {
			case "chain-tip":
				scnChain(out, true, 0, seed, dur, limit)
			case "chain-read":
				scnChain(out, false, 0, seed, dur, limit)
			case "chain-tip-evict":
				scnChain(out, true, smallCache, seed, dur, limit)
			case "chain-read-evict":
				scnChain(out, false, smallCache, seed, dur, limit)
			case "bulk":
				scnBulk(out, seed, dur, limit)
			case "serve":
				scnServe(out, seed, dur, limit)
			case "serve-volatile":
				scnServeVolatile(out, seed, dur, limit)
			case "sync":
				scnSync(out, seed, dur, limit)
			case "pool":
				scnPool(out, seed, dur, limit)
			case "emitter":
				scnEmitter(out, seed, dur, limit)
			case "diffdb":
				scnDiffdb(out, seed, dur, limit)
			default:
				out.harnessErr("unknown scenario")
			}
		}()
		out.WallMs = time.Since(t).Milliseconds()
		fmt.Fprintf(os.Stderr, "C20-SCENARIO %s end\n", name)
	}
	for _, o := range outs { // goroutines of an abandoned scenario may still be running
		o.mu.Lock()
		defer o.mu.Unlock()
	}
	buf, _ := json.MarshalIndent(outs, "", " ")
	if err := os.WriteFile(os.Args[1], buf, 0o644); err != nil {
		fmt.Fprintln(os.Stderr, err)
		os.Exit(2)
	}
}
