//go:build race

package main

// raceBuild: the race detector slows the code down 5-10 times; set-up work (chain lengths) is scaled down
const raceBuild = true
