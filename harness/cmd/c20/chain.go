package main

import (
	"bytes"
	"encoding/binary"
	"fmt"
	"math/rand"
	"os"
	"strconv"
	"strings"
	"sync"
	"sync/atomic"
	"time"

	"verifharness/internal/node"

	"github.com/LiskHQ/lisk-engine/pkg/blockchain"
	lsync "github.com/LiskHQ/lisk-engine/pkg/consensus/sync"
	"github.com/LiskHQ/lisk-engine/pkg/crypto"
	"github.com/LiskHQ/lisk-engine/pkg/log"
	"github.com/LiskHQ/lisk-engine/pkg/p2p"
)

// ---------------------------------------------------------------------------------------------- chain

var hcfg = node.Config{NVal: 3, Batch: 3, Init: node.ParamSet{PcT: 2, CertT: 2, W: []uint64{1, 1, 1}, Gens: []int{1, 2, 3}}, Now: 15000}

// sub-checks that are red on the unchanged tree stay behind this switch until they are triaged
var experimental = os.Getenv("VERIF_EXPERIMENTAL") == "1"

// smallCache is the block cache of the "-evict" scenarios: every lookup below tip-8 takes the database path, every
// push evicts, and a removal burst drains the cache
const smallCache = 8

// bulkSizes is the input domain of the bulk lookups (VERIF_C20_SIZES): empty and one-element requests, the widths the
// engine itself uses (103 blocks per sync response, 515 blocks per cache reload) and their neighbours
var bulkSizes = func() []int {
	res := []int{}
	for _, f := range strings.Split(os.Getenv("VERIF_C20_SIZES"), ",") {
		if n, err := strconv.Atoi(strings.TrimSpace(f)); err == nil && n >= 0 && n <= 5000 {
			res = append(res, n)
		}
	}
	if len(res) == 0 {
		res = []int{0, 1, 2, 9, 33, 64, 100, 103, 104, 515, 600}
	}
	return res
}()

type chainEnv struct {
	n        *node.Node
	da       *blockchain.DataAccess
	out      *ScnOut
	cache    int           // size of the node's block cache
	lazy     bool          // all blocks by one validator of three (its slots only): nothing is ever finalized, removals can go deep
	hi       atomic.Uint32 // largest height the writer has tried to commit
	stable   atomic.Uint32 // heights <= stable are never removed again
	remStart atomic.Uint64 // removals begun
	remEnd   atomic.Uint64 // removals completed
	ids      sync.Map      // height -> block id (heights <= stable)
	txs      sync.Map      // height -> [][]byte transaction ids
	gens     []int
}

func newChainEnv(out *ScnOut, cache int) *chainEnv {
	cfg := hcfg
	cfg.CacheSize = cache
	n, err := node.New(&cfg, nil, 0)
	if err != nil {
		out.harnessErr("node.New: %v", err)
		return nil
	}
	if cache == 0 {
		cache = 515
	}
	e := &chainEnv{n: n, da: n.Chain.DataAccess(), out: out, gens: []int{0}, cache: cache, lazy: cache <= 64}
	e.ids.Store(uint32(0), []byte(n.Genesis.Header.ID))
	e.txs.Store(uint32(0), [][]byte{})
	return e
}

func (e *chainEnv) add() bool {
	n := e.n
	tip := n.Tip()
	if tip == nil || tip.Header == nil {
		e.out.harnessErr("the writer itself sees no tip")
		return false
	}
	o, err := n.Observe()
	if err != nil {
		e.out.harnessErr("observe: %v", err)
		return false
	}
	h := tip.Header.Height + 1
	slot := n.Slot.GetSlotNumber(tip.Header.Timestamp) + 1
	for e.lazy && n.Cfg.Init.Gens[slot%len(n.Cfg.Init.Gens)] != n.Cfg.Init.Gens[0] {
		slot++
	}
	if slot > n.Cfg.Now {
		return false
	}
	gen := n.Cfg.Init.Gens[slot%len(n.Cfg.Init.Gens)]
	mhg := uint32(0)
	e.gens = e.gens[:h] // heights above the tip were removed
	for x := len(e.gens) - 1; x >= 1; x-- {
		if e.gens[x] == gen {
			mhg = uint32(x)
			break
		}
	}
	c := &node.Cand{Version: 2, H: h, Prev: "tip", Slot: slot, Gen: gen, Signer: gen, Sig: "ok", Mhp: o.Mhpv, Mhg: mhg, Ntx: 2}
	if e.lazy {
		c.Ntx = 5 // more transactions per block: the fan-out over the transactions of a block read from the database is wider
	}
	c.Ac.H, c.Ac.Kind = o.Cert, "empty"
	b := n.Build(c)
	if h > e.hi.Load() {
		e.hi.Store(h)
	}
	if err := n.Ex.VerifProcess(b, "12D3KooWverifpeer"); err != nil || !bytes.Equal(n.Tip().Header.ID, b.Header.ID) {
		e.out.harnessErr("a valid successor at height %d was not accepted: %v", h, err)
		return false
	}
	e.gens = append(e.gens, gen)
	return true
}

// remove deletes the tip; saveTemp alternates: the removed block is also written to the temporary-block table, which
// the tempreader goroutine reads at the same time
func (e *chainEnv) remove(saveTemp bool) bool {
	tip := e.n.Tip()
	if tip == nil || tip.Header == nil {
		e.out.harnessErr("the writer itself sees no tip")
		return false
	}
	e.remStart.Add(1)
	err := e.n.Ex.VerifDeleteBlock(tip, saveTemp)
	e.remEnd.Add(1)
	if err != nil {
		e.out.harnessErr("delete of the tip failed: %v", err)
		return false
	}
	if saveTemp {
		e.out.count("savetemp_removals", 1)
	}
	return true
}

// quiet reports that no removal overlapped the interval since mark = remEnd.Load()
func (e *chainEnv) quiet(mark uint64) bool { return e.remStart.Load() == mark }

// publish registers everything up to the current tip as stable
func (e *chainEnv) publish() {
	tip := e.n.Tip().Header.Height
	for h := e.stable.Load() + 1; h <= tip; h++ {
		b, err := e.da.GetBlockByHeight(h)
		if err != nil {
			e.out.harnessErr("writer cannot read its own block %d: %v", h, err)
			return
		}
		ids := [][]byte{}
		for _, tx := range b.Transactions {
			ids = append(ids, tx.ID)
		}
		e.ids.Store(h, []byte(b.Header.ID))
		e.txs.Store(h, ids)
	}
	e.stable.Store(tip)
}

// writer is the consensus goroutine: cycles of add, add, add, remove, remove through the real Executer.  With a small
// block cache every fourth cycle is a burst: cache+3 additions (every push evicts) followed by cache-1 removals (the
// cache is drained to its last block; the readers' lookups of the heights in between go to the database).  Removing
// MORE than the cache holds (the reload of Chain.PrepareCache under readers) is experimental: on the unchanged tree
// the cache is empty between the last pop and the first push of the reload and LastBlock() returns nil.
func (e *chainEnv) writer(tick func(), stop func() bool) {
	for c := 0; !stop(); c++ {
		e.publish()
		e.n.Drain() // the node's event subscriptions are buffered channels: keep them from filling up
		adds, rems, temp := 3, 2, c%2 == 1
		if e.cache <= 64 && c%4 == 3 {
			adds, rems = e.cache+3, e.cache-1
			if experimental && c%8 == 7 {
				// every second burst removes MORE than the cache holds: the cache is reloaded under readers
				// (the other bursts keep the readers' lookups below the cache window, i.e. on the database path)
				rems = e.cache + 2
			}
		}
		for k := 0; k < adds; k++ {
			if !e.add() {
				return
			}
			tick()
		}
		for k := 0; k < rems; k++ {
			if !e.remove(temp) {
				return
			}
			tick()
		}
		if rems >= e.cache-1 {
			e.out.count("deep_removals", 1)
			if rems > e.cache {
				e.out.count("cache_reloads", 1)
			}
		}
		if c%6 == 5 {
			e.da.ClearTempBlocks()
		}
	}
}

func (e *chainEnv) checkTip(b *blockchain.Block, api string, stableBefore uint32) {
	if b == nil || b.Header == nil {
		key := "tip:incomplete:" + api
		if experimental {
			key = "tip:missing-during-cache-reload:" + api
		}
		e.out.fail(key, api+" returned no block while the chain has a tip", nil)
		return
	}
	if !bytes.Equal(crypto.Hash(b.Header.Encode()), b.Header.ID) {
		e.out.fail("tip:incomplete:"+api, fmt.Sprintf("%s: header at height %d does not hash to its id", api, b.Header.Height), nil)
	}
	if b.Header.Height > e.hi.Load() {
		e.out.fail("tip:uncommitted:"+api, fmt.Sprintf("%s returned height %d beyond anything the writer has committed (%d)", api, b.Header.Height, e.hi.Load()), nil)
	}
	if b.Header.Height < stableBefore {
		// "some complete committed tip": how fresh it is the statement does not say - an observation, not a violation
		e.out.count("note_tip_older_than_stable:"+api, 1)
	}
}

func (e *chainEnv) tipReader(idx int) func(func(), func() bool) {
	return func(tick func(), stop func() bool) {
		for i := 0; !stop(); i++ {
			rm, st := e.remEnd.Load(), e.stable.Load()
			var b *blockchain.Block
			api := ""
			switch (i + idx) % 3 {
			case 0:
				api, b = "Chain.LastBlock", e.n.Chain.LastBlock()
			case 1:
				api, b = "DataAccess.CachedLastBlock", e.da.CachedLastBlock()
			default:
				api = "DataAccess.GetLastBlock"
				x, err := e.da.GetLastBlock()
				if err != nil && !experimental {
					e.out.fail("tip:incomplete:"+api, api+": "+err.Error(), nil)
				}
				b = x
			}
			e.checkTip(b, api, st)
			if b != nil && b.Header != nil {
				// what a P2P / RPC goroutine does with the tip: serialise all of it (header, transactions, assets)
				if enc := b.Encode(); len(enc) == 0 {
					e.out.fail("tip:incomplete:"+api, "the tip encodes to nothing", nil)
				}
				e.out.count("encode_calls", 1)
				got, err := e.da.GetBlock(b.Header.ID)
				if (err != nil || !bytes.Equal(got.Header.ID, b.Header.ID)) && e.quiet(rm) {
					e.out.count("note_tip_not_retrievable_by_id", 1) // retrievability by id is not part of the statement
				}
				// "some complete COMMITTED tip": what the tip announces must already be in the database (these look-ups do
				// not go through the block cache)
				if len(b.Transactions) > 0 {
					if _, err := e.da.GetTransaction(b.Transactions[0].ID); err != nil && e.quiet(rm) {
						e.out.fail("tip:uncommitted-data:"+api, fmt.Sprintf("tip %d obtained through %s: its first transaction is not in the database yet: %v", b.Header.Height, api, err), nil)
					}
				}
			}
			tick()
		}
	}
}

// tempReader reads the table of temporarily saved blocks while the writer's removals fill it and ClearTempBlocks empties it
func (e *chainEnv) tempReader(tick func(), stop func() bool) {
	for !stop() {
		blocks, err := e.da.GetTempBlocks()
		if err != nil {
			e.out.fail("temp:incomplete-block", "GetTempBlocks: "+err.Error(), nil)
		}
		for _, b := range blocks {
			if b == nil || b.Header == nil || !bytes.Equal(crypto.Hash(b.Header.Encode()), b.Header.ID) {
				e.out.fail("temp:incomplete-block", "a temporarily saved block is not a complete block", nil)
				break
			}
		}
		e.out.count("temp_blocks_seen", int64(len(blocks)))
		e.out.count("temp_reads", 1)
		tick()
		time.Sleep(200 * time.Microsecond)
	}
}

func be32(h uint32) []byte { b := make([]byte, 4); binary.BigEndian.PutUint32(b, h); return b }

func (e *chainEnv) id(h uint32) []byte { v, _ := e.ids.Load(h); return v.([]byte) }

func (e *chainEnv) txIDs(h uint32) [][]byte { v, _ := e.txs.Load(h); return v.([][]byte) }

// size draws the number of elements of a lookup: half of the draws come from the input domain bulkSizes
func (e *chainEnv) size(r *rand.Rand) int {
	if r.Intn(2) == 0 {
		n := 1 // single-element requests are where fast paths live: a quarter of the draws
		if r.Intn(4) != 0 {
			n = bulkSizes[r.Intn(len(bulkSizes))]
		}
		e.out.count(fmt.Sprintf("bulk_size:%d", n), 1)
		return n
	}
	return 8 + r.Intn(56)
}

// heights returns up to n distinct stable heights in random order: near the tip (inside the cache), from a window of 700
// or from the whole chain (database path as soon as the chain is longer than the cache)
func (e *chainEnv) heights(r *rand.Rand, n int) []uint32 {
	st := e.stable.Load()
	span := uint32(40)
	switch r.Intn(3) {
	case 0:
		span = 700
	case 1:
		span = st
	}
	lo := uint32(1)
	if st > span {
		lo = st - span
	}
	if st < lo {
		return nil
	}
	cand := int(st - lo + 1)
	if n > cand {
		span, lo, cand = st, 1, int(st) // not enough heights in the window: the whole chain
	}
	res := []uint32{}
	if cand <= 0 {
		return res
	}
	for _, p := range r.Perm(cand) {
		if len(res) >= n {
			break
		}
		h := lo + uint32(p)
		res = append(res, h)
		if int(st)-int(h) >= e.cache {
			e.out.count("db_path_items", 1) // below the cache window: served from the database
		}
	}
	return res
}

// compose builds a request of n elements: the existing ones (as many as fit), elements that do not exist - at random
// positions, in one case out of three in the LAST position - and in one case out of four one duplicate of an existing
// element.  want[x] = how often the existing element x was requested.
func compose(r *rand.Rand, n int, existing [][]byte, missing func() []byte) (req [][]byte, want map[string]int) {
	want = map[string]int{}
	if n == 0 {
		return [][]byte{}, want
	}
	lastMissing := r.Intn(3) == 0
	dup := r.Intn(4) == 0 && n >= 2 && len(existing) >= 1
	body := n
	if lastMissing {
		body--
	}
	if dup {
		body--
	}
	k := 0
	for i := 0; i < body; i++ {
		if k < len(existing) && r.Intn(8) != 0 {
			req = append(req, existing[k])
			want[string(existing[k])]++
			k++
		} else {
			req = append(req, missing())
		}
	}
	if dup {
		x := existing[0]
		if k > 0 {
			x = existing[r.Intn(k)]
		}
		req = append(req, x)
		want[string(x)]++
	}
	r.Shuffle(len(req), func(i, j int) { req[i], req[j] = req[j], req[i] })
	if lastMissing {
		req = append(req, missing())
	}
	return req, want
}

// multiset compares what a bulk lookup returned with the existing requested elements: every one of them at least once
// and not more often than it was requested.  Elements that were not requested are counted, not judged (the statement
// speaks about the existing requested items).
func (e *chainEnv) multiset(api string, want map[string]int, got [][]byte, detail string) {
	e.out.count("bulk_calls:"+api, 1)
	e.out.count("bulk_items:"+api, int64(len(want)))
	cnt := map[string]int{}
	for _, g := range got {
		cnt[string(g)]++
	}
	lost, dup := 0, 0
	for w, times := range want {
		switch c := cnt[w]; {
		case c == 0:
			lost++
		case c > times:
			dup++
		}
		delete(cnt, w)
	}
	if lost > 0 {
		e.out.fail("lost-item:"+api, fmt.Sprintf("%s(%s): %d of %d existing items missing from the result (%d returned)", api, detail, lost, len(want), len(got)), nil)
	}
	if dup > 0 {
		e.out.fail("dup-item:"+api, fmt.Sprintf("%s(%s): %d items returned more often than they were requested", api, detail, dup), nil)
	}
	if len(cnt) > 0 {
		e.out.count("note_unrequested_items:"+api, int64(len(cnt)))
	}
}

// blocksOK checks a list of blocks that must be the contiguous heights from..to: every stable height exactly once with
// the committed id; heights above `stable` (volatile) are only required to be present
func (e *chainEnv) blocksOK(api string, res []*blockchain.Block, from, to, stable uint32, detail string) {
	e.out.count("bulk_calls:"+api, 1)
	e.out.count("bulk_items:"+api, int64(to-from+1))
	seen := map[uint32]int{}
	for _, b := range res {
		if b == nil || b.Header == nil {
			e.out.fail("nil-item:"+api, "nil block in the result", nil)
			continue
		}
		seen[b.Header.Height]++
		if b.Header.Height <= stable && b.Header.Height >= from && b.Header.Height <= to && !bytes.Equal(b.Header.ID, e.id(b.Header.Height)) {
			e.out.fail("lost-item:"+api, fmt.Sprintf("%s(%s): the block returned for committed height %d is not the committed block", api, detail, b.Header.Height), nil)
		}
	}
	lost, dup := 0, 0
	for h := from; h <= to; h++ {
		switch c := seen[h]; {
		case c == 0:
			lost++
		case c > 1:
			dup++
		}
	}
	if lost > 0 {
		e.out.fail("lost-item:"+api, fmt.Sprintf("%s(%s): %d of %d existing blocks missing from the result (%d returned)", api, detail, lost, to-from+1, len(res)), nil)
	}
	if dup > 0 {
		e.out.fail("dup-item:"+api, fmt.Sprintf("%s(%s): %d blocks returned more than once", api, detail, dup), nil)
	}
}

// lastN: Chain.GetLastNBlocks - a range that ends at the volatile tip
func (e *chainEnv) lastN(r *rand.Rand) {
	n := e.size(r)
	if n == 0 {
		n = 1
	}
	rm, st := e.remEnd.Load(), e.stable.Load()
	res, err := e.n.Chain.GetLastNBlocks(n)
	e.out.count("lastn_calls", 1)
	if err != nil {
		if e.quiet(rm) {
			e.out.fail("error:GetLastNBlocks", err.Error(), nil)
		} else {
			e.out.count("lastn_overlapped_by_removal", 1)
		}
		return
	}
	if len(res) == 0 || res[len(res)-1] == nil || res[len(res)-1].Header == nil {
		e.out.fail("lost-item:GetLastNBlocks", fmt.Sprintf("GetLastNBlocks(%d) returned nothing", n), nil)
		return
	}
	top := uint32(0)
	for _, b := range res {
		if b != nil && b.Header != nil && b.Header.Height > top {
			top = b.Header.Height
		}
	}
	if top > e.hi.Load() {
		e.out.fail("tip:uncommitted:GetLastNBlocks", fmt.Sprintf("height %d beyond anything the writer has committed", top), nil)
		return
	}
	from := uint32(0)
	if top+1 > uint32(n) {
		from = top + 1 - uint32(n)
	}
	e.blocksOK("GetLastNBlocks", res, from, top, st, fmt.Sprintf("n=%d, tip %d", n, top))
}

func (e *chainEnv) bulk(r *rand.Rand, which int) bool {
	st := e.stable.Load()
	if st < 6 {
		return false
	}
	n := e.size(r)
	switch which % 4 {
	case 0:
		existing := [][]byte{}
		for _, h := range e.heights(r, n) {
			existing = append(existing, e.id(h))
		}
		ids, want := compose(r, n, existing, func() []byte { return crypto.RandomBytes(32) })
		res, err := e.da.GetBlockHeaders(ids)
		got := [][]byte{}
		for _, x := range res {
			if x == nil {
				e.out.fail("nil-item:GetBlockHeaders", "nil header in the result", nil)
				continue
			}
			got = append(got, x.ID)
		}
		if err != nil {
			e.out.fail("error:GetBlockHeaders", err.Error(), nil)
		} else {
			e.multiset("GetBlockHeaders", want, got, fmt.Sprintf("%d ids", len(ids)))
		}
	case 1:
		existing := [][]byte{}
		for _, h := range e.heights(r, n) {
			existing = append(existing, be32(h))
		}
		req, want := compose(r, n, existing, func() []byte { return be32(4000000000 + uint32(r.Intn(1000000))) })
		hs := make([]uint32, len(req))
		for i, x := range req {
			hs[i] = binary.BigEndian.Uint32(x)
		}
		res, err := e.da.GetBlockHeadersByHeights(hs)
		got := [][]byte{}
		for _, x := range res {
			if x == nil {
				e.out.fail("nil-item:GetBlockHeadersByHeights", "nil header in the result", nil)
				continue
			}
			if x.Height <= st && !bytes.Equal(x.ID, e.id(x.Height)) {
				e.out.fail("lost-item:GetBlockHeadersByHeights", fmt.Sprintf("the header returned for committed height %d is not the committed one", x.Height), nil)
			}
			got = append(got, be32(x.Height))
		}
		if err != nil {
			e.out.fail("error:GetBlockHeadersByHeights", err.Error(), nil)
		} else {
			e.multiset("GetBlockHeadersByHeights", want, got, fmt.Sprintf("%d heights", len(hs)))
		}
	case 2:
		existing := [][]byte{}
		for _, h := range e.heights(r, (n+1)/2) {
			existing = append(existing, e.txIDs(h)...)
		}
		ids, want := compose(r, n, existing, func() []byte { return crypto.RandomBytes(32) })
		res, err := e.da.GetTransactions(ids)
		got := [][]byte{}
		for _, x := range res {
			if x == nil {
				e.out.fail("nil-item:GetTransactions", "nil transaction in the result", nil)
				continue
			}
			got = append(got, x.ID)
		}
		if err != nil {
			e.out.fail("error:GetTransactions", err.Error(), nil)
		} else {
			e.multiset("GetTransactions", want, got, fmt.Sprintf("%d ids", len(ids)))
		}
	default:
		if n == 0 {
			n = 1 // from == to
		}
		if uint32(n) > st {
			n = int(st)
		}
		from := uint32(1) + uint32(r.Intn(int(st)-n+1))
		if r.Intn(2) == 0 && int(st)-n+1 > 40 {
			from = st - uint32(n) + 1 - uint32(r.Intn(40)) // ends near the tip
		}
		to := from + uint32(n) - 1
		for h := from; h <= to; h++ {
			if int(st)-int(h) >= e.cache {
				e.out.count("db_path_items", 1)
			}
		}
		res, err := e.da.GetBlocksBetweenHeight(from, to)
		if err != nil {
			e.out.fail("error:GetBlocksBetweenHeight", err.Error(), nil)
		} else {
			e.blocksOK("GetBlocksBetweenHeight", res, from, to, st, fmt.Sprintf("%d..%d", from, to))
		}
	}
	return true
}

// sameItems: every id of want exactly once in got (transactions of one block)
func sameItems(want, got [][]byte) (lost, dup int) {
	cnt := map[string]int{}
	for _, g := range got {
		cnt[string(g)]++
	}
	for _, w := range want {
		switch c := cnt[string(w)]; {
		case c == 0:
			lost++
		case c > 1:
			dup++
		}
	}
	return
}

func (e *chainEnv) reader(idx int, seed int64) func(func(), func() bool) {
	return func(tick func(), stop func() bool) {
		r := rand.New(rand.NewSource(seed*1000 + int64(idx)))
		for i := 0; !stop(); i++ {
			st := e.stable.Load()
			switch r.Intn(7) {
			case 0: // single lookups of stable blocks, by height and by id
				h := uint32(r.Intn(int(st) + 1))
				if r.Intn(2) == 0 && int(st) > e.cache+4 {
					h = uint32(r.Intn(int(st) - e.cache)) // below the cache window: database path
				}
				if int(st)-int(h) >= e.cache {
					e.out.count("db_path_items", 1)
				}
				hd, err := e.da.GetBlockHeaderByHeight(h)
				if err != nil || !bytes.Equal(hd.ID, e.id(h)) {
					e.out.fail("lookup:GetBlockHeaderByHeight", fmt.Sprintf("committed height %d: %v", h, err), nil)
				}
				hd, err = e.da.GetBlockHeader(e.id(h))
				if err != nil || hd.Height != h {
					e.out.fail("lookup:GetBlockHeader", fmt.Sprintf("committed height %d: %v", h, err), nil)
				}
				for k, get := range []func() (*blockchain.Block, error){
					func() (*blockchain.Block, error) { return e.da.GetBlockByHeight(h) },
					func() (*blockchain.Block, error) { return e.da.GetBlock(e.id(h)) }} {
					api := []string{"GetBlockByHeight", "GetBlock"}[k]
					b, err := get()
					if err != nil || b == nil || b.Header == nil || !bytes.Equal(b.Header.ID, e.id(h)) {
						e.out.fail("lookup:"+api, fmt.Sprintf("committed height %d: %v", h, err), nil)
						continue
					}
					got := [][]byte{}
					for _, tx := range b.Transactions {
						if tx == nil {
							e.out.fail("nil-item:"+api+".transactions", fmt.Sprintf("committed height %d: nil transaction in the block", h), nil)
							continue
						}
						got = append(got, tx.ID)
					}
					if lost, dup := sameItems(e.txIDs(h), got); lost > 0 {
						e.out.fail("lost-item:"+api+".transactions", fmt.Sprintf("committed height %d: %d of its %d transactions missing from the block returned", h, lost, len(e.txIDs(h))), nil)
					} else if dup > 0 {
						e.out.fail("dup-item:"+api+".transactions", fmt.Sprintf("committed height %d: %d transactions more than once in the block returned", h, dup), nil)
					}
					_ = b.Encode()
				}
				if _, err := e.da.GetEvents(h); err != nil {
					e.out.count("note_events_not_found", 1)
				}
			case 1: // tip through the database index
				rm := e.remEnd.Load()
				hd, err := e.da.GetLastBlockHeader()
				if err != nil {
					if e.quiet(rm) {
						e.out.fail("tip:incomplete:DataAccess.GetLastBlockHeader", err.Error(), nil)
					} else {
						e.out.count("tip_lookup_overlapped_by_removal", 1)
					}
				} else if hd.Height > e.hi.Load() {
					e.out.fail("tip:uncommitted:DataAccess.GetLastBlockHeader", fmt.Sprintf("height %d beyond anything the writer has committed (%d)", hd.Height, e.hi.Load()), nil)
				} else if hd.Height < st {
					e.out.count("note_tip_older_than_stable:DataAccess.GetLastBlockHeader", 1)
				}
			case 2:
				e.lastN(r)
			default:
				e.bulk(r, i)
			}
			tick()
		}
	}
}

// single is a reader that does nothing but ONE kind of single-element bulk lookup on a committed block, with no other
// synchronisation in between (targets are refreshed rarely, counters are kept locally): a fast path for one element
// that bypasses the cache lock is unordered with every write of the consensus goroutine that falls between two calls.
func (e *chainEnv) single(api int) func(func(), func() bool) {
	names := []string{"GetBlockHeaders", "GetBlockHeadersByHeights", "GetTransactions", "GetBlocksBetweenHeight"}
	return func(tick func(), stop func() bool) {
		name := names[api%4]
		calls, lost, dup := int64(0), 0, 0
		var h uint32
		var id, tx []byte
		for i := 0; !stop(); i++ {
			if i%4000 == 0 {
				st := e.stable.Load()
				if st < 6 {
					i = -1
					time.Sleep(time.Millisecond)
					tick()
					continue
				}
				h = st - uint32(i/4000)%5 // near the tip: inside the cache
				id, tx = e.id(h), e.txIDs(h)[0]
			}
			got := [][]byte{}
			want := id
			switch api % 4 {
			case 0:
				res, _ := e.da.GetBlockHeaders([][]byte{id})
				for _, x := range res {
					if x != nil {
						got = append(got, x.ID)
					}
				}
			case 1:
				res, _ := e.da.GetBlockHeadersByHeights([]uint32{h})
				for _, x := range res {
					if x != nil {
						got = append(got, x.ID)
					}
				}
			case 2:
				want = tx
				res, _ := e.da.GetTransactions([][]byte{tx})
				for _, x := range res {
					if x != nil {
						got = append(got, x.ID)
					}
				}
			default:
				res, _ := e.da.GetBlocksBetweenHeight(h, h)
				for _, x := range res {
					if x != nil && x.Header != nil {
						got = append(got, x.Header.ID)
					}
				}
			}
			calls++
			n := 0
			for _, g := range got {
				if bytes.Equal(g, want) {
					n++
				}
			}
			if n == 0 {
				lost++
			} else if n > 1 {
				dup++
			}
			tick()
		}
		e.out.count("bulk_calls:"+name, calls)
		e.out.count("bulk_items:"+name, calls)
		e.out.count("single_element_calls", calls)
		if lost > 0 {
			e.out.fail("lost-item:"+name, fmt.Sprintf("%s(one committed element): the element is missing from the result in %d of %d calls", name, lost, calls), nil)
		}
		if dup > 0 {
			e.out.fail("dup-item:"+name, fmt.Sprintf("%s(one committed element): the element is in the result more than once in %d of %d calls", name, dup, calls), nil)
		}
	}
}

func scnChain(out *ScnOut, tip bool, cache int, seed int64, dur, limit time.Duration) {
	e := newChainEnv(out, cache)
	if e == nil {
		return
	}
	g := &group{out: out}
	g.spawn("writer", e.writer)
	for i := 0; i < 8; i++ {
		if tip {
			g.spawn(fmt.Sprintf("tipreader%d", i), e.tipReader(i))
		} else {
			g.spawn(fmt.Sprintf("reader%d", i), e.reader(i, seed))
		}
	}
	if tip {
		g.spawn("tempreader", e.tempReader)
	} else {
		for i := 0; i < 4; i++ {
			g.spawn(fmt.Sprintf("single%d", i), e.single(i))
		}
	}
	if g.watch(dur, limit) {
		e.n.Close()
	}
	g.collect()
	out.count("tip_height", int64(e.hi.Load()))
	if int(e.hi.Load()) > e.cache {
		out.count("evictions", int64(int(e.hi.Load())-e.cache))
	}
}

// bulk lookups on a quiescent chain: the only concurrency is the fan-out inside the lookup itself (and K callers).
// Two nodes: a long chain inside the default cache, and a chain on a cache of 8 blocks (every block lookup takes the
// database path with its second fan-out over the transactions).
func scnBulk(out *ScnOut, seed int64, dur, limit time.Duration) {
	long, short := 640, 160
	if raceBuild {
		long, short = 230, 120
	}
	envs := []*chainEnv{}
	for i, length := range []int{long, short} {
		e := newChainEnv(out, []int{0, smallCache}[i])
		if e == nil {
			return
		}
		for k := 0; k < length; k++ {
			if !e.add() {
				out.harnessErr("cannot build the chain")
				return
			}
			if k%256 == 255 {
				e.n.Drain()
			}
		}
		e.n.Drain()
		e.publish()
		envs = append(envs, e)
	}
	out.count("chain_length", int64(long))
	g := &group{out: out}
	for i := 0; i < 4; i++ {
		idx := i
		e := envs[0]
		if i == 3 {
			e = envs[1]
		}
		g.spawn(fmt.Sprintf("bulk%d", i), func(tick func(), stop func() bool) {
			r := rand.New(rand.NewSource(seed*77 + int64(idx)))
			for j := 0; !stop(); j++ {
				if j%9 == 8 {
					e.lastN(r)
				} else {
					e.bulk(r, j+idx)
				}
				tick()
			}
		})
	}
	if g.watch(dur, limit) {
		for _, e := range envs {
			e.n.Close()
		}
	}
	g.collect()
}

// ---------------------------------------------------------------------------------------------- sync RPC handlers

type respWriter struct {
	data []byte
	err  error
	n    int
}

func (w *respWriter) Write(b []byte) { w.data, w.n = b, w.n+1 }
func (w *respWriter) Error(e error)  { w.err, w.n = e, w.n+1 }

// scnServe: the three P2P handlers of the sync package (what a peer that synchronises with this node calls) are served by
// 4 client goroutines while the consensus goroutine adds and removes blocks.  Requests name committed (stable) blocks,
// so the answers are determined: the highest common block is the highest of the requested ids, the blocks after an id are
// the contiguous committed heights that follow it.
func scnServe(out *ScnOut, seed int64, dur, limit time.Duration) {
	e := newChainEnv(out, 24)
	if e == nil {
		return
	}
	pre := 130
	if raceBuild {
		pre = 112
	}
	for k := 0; k < pre; k++ {
		if !e.add() {
			out.harnessErr("cannot build the chain")
			return
		}
	}
	e.publish()
	logger, err := log.NewSilentLogger()
	if err != nil {
		out.harnessErr("logger: %v", err)
		return
	}
	syncer := lsync.NewSyncer(e.n.Chain, e.n.Slot, e.n.Conn, logger, nil, nil)
	hLast, hCommon, hBlocks := syncer.HandleRPCEndpointGetLastBlock(), syncer.HandleRPCEndpointGetHighestCommonBlock(), syncer.HandleRPCEndpointGetBlocksFromID()
	g := &group{out: out}
	g.spawn("writer", e.writer)
	for i := 0; i < 4; i++ {
		idx := i
		g.spawn(fmt.Sprintf("client%d", i), func(tick func(), stop func() bool) {
			r := rand.New(rand.NewSource(seed*91 + int64(idx)))
			peer := p2p.PeerID(fmt.Sprintf("12D3KooWverifclient%d", idx))
			for j := 0; !stop(); j++ {
				rm, st := e.remEnd.Load(), e.stable.Load()
				w := &respWriter{}
				switch (j + idx) % 3 {
				case 0:
					hLast(w, &p2p.Request{ID: "verif", Procedure: lsync.RPCEndpointGetLastBlock, PeerID: peer})
					out.count("calls:getLastBlock", 1)
					b, err := blockchain.NewBlock(w.data)
					if w.err != nil || err != nil || b == nil || b.Header == nil {
						e.out.fail("tip:incomplete:getLastBlock", fmt.Sprintf("the handler did not answer with a block: %v %v", w.err, err), nil)
						break
					}
					e.checkTip(b, "getLastBlock", st)
				case 1:
					k := 10 + r.Intn(51)
					hs := e.heights(r, k)
					req := &lsync.GetHighestCommonBlockRequest{}
					best := uint32(0)
					for _, h := range hs {
						req.IDs = append(req.IDs, e.id(h))
						if h > best {
							best = h
						}
						if r.Intn(6) == 0 {
							req.IDs = append(req.IDs, crypto.RandomBytes(32))
						}
					}
					if len(req.IDs) == 0 {
						break
					}
					hCommon(w, &p2p.Request{ID: "verif", Procedure: lsync.RPCEndpointGetHighestCommonBlock, PeerID: peer, Data: req.Encode()})
					out.count("calls:getHighestCommonBlock", 1)
					out.count("bulk_calls:getHighestCommonBlock", 1)
					out.count("bulk_items:getHighestCommonBlock", int64(len(hs)))
					resp := &lsync.GetHighestCommonBlockResponse{}
					if w.err != nil || w.n != 1 || len(w.data) == 0 || resp.Decode(w.data) != nil {
						e.out.fail("lost-item:getHighestCommonBlock", fmt.Sprintf("%d committed ids requested, the handler answered with no block (%v)", len(hs), w.err), nil)
						break
					}
					if !bytes.Equal(resp.ID, e.id(best)) {
						e.out.fail("lost-item:getHighestCommonBlock", fmt.Sprintf("%d committed ids requested, the highest of them (height %d) is not the answer", len(hs), best), nil)
					}
				default:
					h := uint32(r.Intn(int(st) + 1))
					if r.Intn(3) == 0 && st > 8 {
						h = st - uint32(r.Intn(8)) // close to the volatile part of the chain
					}
					req := &lsync.GetBlocksFromIDRequest{ID: e.id(h)}
					hBlocks(w, &p2p.Request{ID: "verif", Procedure: lsync.RPCEndpointGetBlocksFromID, PeerID: peer, Data: req.Encode()})
					out.count("calls:getBlocksFromId", 1)
					if w.err != nil {
						if e.quiet(rm) {
							e.out.fail("error:getBlocksFromId", w.err.Error(), nil)
						} else {
							out.count("blocks_from_id_overlapped_by_removal", 1)
						}
						break
					}
					resp := &lsync.GetBlocksFromIDResponse{}
					if len(w.data) > 0 {
						if err := resp.Decode(w.data); err != nil {
							e.out.fail("error:getBlocksFromId", "undecodable answer: "+err.Error(), nil)
							break
						}
					}
					for _, b := range resp.Blocks {
						if b != nil {
							b.Init()
						}
					}
					to := h + 103
					if to > st {
						to = st
					}
					if to > h {
						e.blocksOK("getBlocksFromId", resp.Blocks, h+1, to, st, fmt.Sprintf("after height %d", h))
					}
				}
				tick()
			}
		})
	}
	if g.watch(dur, limit) {
		e.n.Close()
	}
	g.collect()
	out.count("tip_height", int64(e.hi.Load()))
}

// scnServeVolatile (experimental): getBlocksFromId for the id of the CURRENT tip while the writer removes it.  On the
// unchanged tree the handler computes `to = min(h+103, tip)` from a second, later read of the tip: when the requested
// block was the tip and has been removed in between, to = h-1 < from = h+1 and GetBlocksBetweenHeight allocates
// make([]*Block, to-from+1) with the uint32 difference wrapped around (4 294 967 295 elements).  The check runs this
// scenario in a process with a limited address space: the allocation fails and the process dies inside lisk-engine.
func scnServeVolatile(out *ScnOut, seed int64, dur, limit time.Duration) {
	e := newChainEnv(out, 24)
	if e == nil {
		return
	}
	for k := 0; k < 12; k++ {
		if !e.add() {
			out.harnessErr("cannot build the chain")
			return
		}
	}
	logger, _ := log.NewSilentLogger()
	syncer := lsync.NewSyncer(e.n.Chain, e.n.Slot, e.n.Conn, logger, nil, nil)
	hBlocks := syncer.HandleRPCEndpointGetBlocksFromID()
	g := &group{out: out}
	g.spawn("writer", e.writer)
	for i := 0; i < 4; i++ {
		idx := i
		g.spawn(fmt.Sprintf("client%d", i), func(tick func(), stop func() bool) {
			peer := p2p.PeerID(fmt.Sprintf("12D3KooWverifclient%d", idx))
			for !stop() {
				tip := e.n.Chain.LastBlock()
				if tip == nil || tip.Header == nil {
					continue
				}
				w := &respWriter{}
				req := &lsync.GetBlocksFromIDRequest{ID: tip.Header.ID}
				hBlocks(w, &p2p.Request{ID: "verif", Procedure: lsync.RPCEndpointGetBlocksFromID, PeerID: peer, Data: req.Encode()})
				out.count("calls:getBlocksFromId(tip)", 1)
				resp := &lsync.GetBlocksFromIDResponse{}
				if w.err == nil && len(w.data) > 0 && resp.Decode(w.data) == nil && len(resp.Blocks) > 200 {
					e.out.fail("serve:blocks-from-removed-tip", fmt.Sprintf("getBlocksFromId(id of the tip, removed meanwhile) answered with %d blocks", len(resp.Blocks)), nil)
				}
				tick()
			}
		})
	}
	if g.watch(dur, limit) {
		e.n.Close()
	}
	g.collect()
}

