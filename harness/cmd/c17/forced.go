package main

// forced schedules and directed scenarios on the real code.  Verdicts come from the real outcome only; a schedule that
// cannot be established is reported as such (inconclusive), never as a violation.

import (
	"context"
	"fmt"
	"strconv"
	"sync"
	"sync/atomic"
	"time"

	"github.com/LiskHQ/lisk-engine/pkg/p2p"

	"verifharness/internal/tj"
)

type forcedResult struct {
	Scenario    string                   `json:"scenario"`
	TimeoutMs   int                      `json:"timeout_ms"`
	MaxRetry    int                      `json:"max_retry"`
	Established bool                     `json:"established"`
	Why         string                   `json:"why_not_established"`
	Attempts    []map[string]interface{} `json:"attempts"`
	Call        callResult               `json:"call"`
	Fresh       *callResult              `json:"fresh_call,omitempty"`
	Others      []callResult             `json:"other_calls,omitempty"`
	Violation   string                   `json:"violation"`
	What        string                   `json:"what"`
	Dump        *dumpInfo                `json:"dump,omitempty"`
	DumpHold    *dumpInfo                `json:"dump_while_held,omitempty"`
	LockFree    *bool                    `json:"resMu_free_at_watchdog,omitempty"`
	Shape       map[string]interface{}   `json:"shape"`
	Schedule    []string                 `json:"schedule"`
	Events      []string                 `json:"events"`
	SetupErr    string                   `json:"setup_error"`
	Lines       int                      `json:"lines"`
	Coverage    map[string]interface{}   `json:"coverage,omitempty"`
}

func evStrings(evs []rawEv, ids map[string]string) []string {
	out := []string{}
	for _, e := range evs {
		id := e.ID
		if s, ok := ids[id]; ok {
			id = s
		}
		switch e.Point {
		case "call.start":
			out = append(out, fmt.Sprintf("%7dus g%d call.start(%d)", e.T, e.Gid, e.Call))
		case "call.return":
			out = append(out, fmt.Sprintf("%7dus g%d call.return(%d)=%s", e.T, e.Gid, e.Call, e.Res))
		default:
			out = append(out, fmt.Sprintf("%7dus g%d %s(%s)", e.T, e.Gid, e.Point, id))
		}
	}
	return out
}

func writeForcedTrace(path string, evs []rawEv, w *world, res *forcedResult) {
	st := segStats{}
	pending := 0
	if n, ok := w.hosts["A"].c.VerifTryPending(); ok {
		pending = n
	}
	no := normalise(evs, w, "A", pending, false, st)
	if no.Unattrib > 0 {
		return
	}
	tw, err := tj.NewWriter(path)
	if err != nil {
		return
	}
	for _, l := range no.Lines {
		if l.Ev == "Quiesce" {
			continue // forced runs may end with blocked goroutines: the trace is a prefix
		}
		tw.Emit(l)
	}
	res.Lines = tw.N
	tw.Close()
	ids := map[string]string{}
	for c, as := range no.Atts {
		for k, a := range as {
			ids[a.ID] = fmt.Sprintf("<<%d,%d>>", no.Local[c], k)
		}
	}
	res.Events = evStrings(evs, ids)
	if len(res.Events) > 80 {
		res.Events = res.Events[:80]
	}
}

func errSuffix(e string) string {
	if e == "" {
		return ""
	}
	return " (" + e + ")"
}

func plainCall(c int, lat []int, dup []int) callSpec {
	return callSpec{Call: c, From: "A", To: "B", Payload: reqPayload{N: c, Lat: lat, Dup: dup}, CancelUs: -1}
}

// forced schedule (a): every attempt is held at req.afterSend until its response arrived and was looked up.
func forcedLost(args []string) int {
	tracePath, resPath := args[0], args[1]
	tms, _ := strconv.Atoi(args[2])
	T := time.Duration(tms) * time.Millisecond
	R := p2p.VerifMaxRetries()
	res := forcedResult{Scenario: "lost", TimeoutMs: tms, MaxRetry: R, Shape: map[string]interface{}{}}
	res.Schedule = []string{
		"requester: send request (handler latency 0), reach req.afterSend -> HOLD",
		"responder side of the requester host: onResponse(id) takes resMu (res.locked), looks id up, returns",
		"release requester: it registers resCh[id] (if not yet registered) and waits in the select",
		"repeat for every retry attempt",
		"then: requests whose send fails (cancelled context, peer without address), each through a watchdog",
	}
	defer func() { tj.WriteJSON(resPath, res) }()
	rec := newRecorder()
	w, err := newWorld(rec, T, []string{"A", "B"}, 0)
	if err != nil {
		res.SetupErr = err.Error()
		return 3
	}
	a := w.hosts["A"].c
	var amu sync.Mutex
	rec.setGate("req.afterSend", func(id string) {
		info := map[string]interface{}{"id": id}
		t := time.Now()
		arrived := waitFor(3*time.Second, func() bool { return rec.seen("res.locked", id) })
		info["response_arrived_while_held"] = arrived
		looked := false
		if arrived {
			// lookup finished: either the deliver point was reached or resMu is free again
			looked = waitFor(1*time.Second, func() bool {
				if rec.seen("res.beforeDeliver", id) {
					return true
				}
				_, ok := a.VerifTryPending()
				return ok
			})
			time.Sleep(5 * time.Millisecond)
		}
		found := rec.seen("res.beforeDeliver", id)
		info["lookup_finished_while_held"] = looked
		info["lookup_found_entry"] = found
		info["held_us"] = time.Since(t).Microseconds()
		amu.Lock()
		res.Attempts = append(res.Attempts, info)
		amu.Unlock()
	})
	hold := 4 * time.Second
	r := w.doCall(plainCall(1, []int{0}, []int{-1}), time.Duration(R+1)*(T+hold)+5*time.Second)
	res.Call = r
	time.Sleep(50 * time.Millisecond)
	evs := rec.snapshot()
	p2p.VerifSetHook(nil)
	amu.Lock()
	atts := res.Attempts
	amu.Unlock()
	if len(atts) == 0 {
		res.Why = "hook req.afterSend never reached"
	}
	lost := 0
	dropped := 0
	allArrived := len(atts) > 0
	for _, at := range atts {
		id := at["id"].(string)
		arrived := at["response_arrived_while_held"].(bool)
		if !arrived {
			allArrived = false
			continue
		}
		fired := false
		for _, e := range evs {
			if e.Point == "req.timerFired" && e.ID == id {
				fired = true
			}
		}
		at["attempt_timed_out"] = fired
		if !at["lookup_found_entry"].(bool) && at["lookup_finished_while_held"].(bool) && fired {
			lost++
		}
		if at["lookup_found_entry"].(bool) && fired {
			// the response arrived in time, its pending entry WAS found - and the attempt still ran into its timeout:
			// the hand-over to the waiting requester dropped it
			dropped++
		}
	}
	res.Established = allArrived
	if !allArrived && res.Why == "" {
		res.Why = "the response did not arrive while the requester was held at req.afterSend"
	}
	if r.Hung {
		res.Established = false
		res.Why = "call did not return inside the harness bound"
	}
	if res.Established && lost > 0 {
		res.Violation = "lost-reply:response-before-registration"
		res.What = fmt.Sprintf("forced schedule on the real code: %d of %d attempts had their response arrive (handler latency 0) and be dropped as 'unknown request ID' before the requester registered resCh[id]; each of these attempts then waited the full %d ms and timed out; RequestFrom returned %q after %d ms", lost, len(atts), tms, r.Res+errSuffix(r.Err), r.DurUs/1000)
	}
	if res.Established && res.Violation == "" && dropped > 0 {
		res.Violation = "lost-reply:response-dropped-while-pending"
		res.What = fmt.Sprintf("forced schedule on the real code: %d of %d attempts had their response arrive in time (handler latency 0) and find the pending entry while the requester was between sending and waiting, and nevertheless timed out after the full %d ms: the hand-over dropped the reply; RequestFrom returned %q after %d ms", dropped, len(atts), tms, r.Res+errSuffix(r.Err), r.DurUs/1000)
	}
	sent, reg := -1, -1
	for _, e := range evs {
		if e.Point == "req.afterSend" && sent < 0 {
			sent = e.Seq
		}
		if e.Point == "req.registered" && reg < 0 {
			reg = e.Seq
		}
	}
	if sent >= 0 && reg >= 0 {
		res.Shape["register_first"] = reg < sent
	}
	// requests that never leave: the caller's context is already cancelled, or the peer is not reachable.  They end with an
	// error - and must neither leave a pending entry behind nor leave resMu locked ("... or leak a pending entry", "blocked")
	if res.Violation == "" && res.Established {
		before, okb := a.VerifTryPending()
		failed, hung := 0, 0
		bound := time.Duration(R+1)*T + 3*time.Second
		var probes []callResult
		for i := 0; i < 11 && hung == 0; i++ {
			cs := plainCall(900+i, []int{0}, []int{-1})
			if i < 8 {
				cs.CancelUs, cs.Deadline = 0, false // cancelled before the request can leave
			} else {
				cs.To = "unknown"
			}
			pr := w.doCall(cs, bound)
			probes = append(probes, pr)
			if pr.Hung {
				hung++
			} else if pr.Res != "resp" {
				failed++
			}
		}
		after, oka := -1, false
		waitFor(2*time.Second, func() bool { after, oka = a.VerifTryPending(); return oka })
		res.Shape["failed_sends"] = failed
		res.Others = probes
		switch {
		case hung > 0 || !oka:
			di := analyzeDump()
			res.Dump = &di
			res.Violation = "deadlock:resMu-held-after-failed-send"
			res.What = fmt.Sprintf("after %d requests whose send step failed (context cancelled before the call, peer without address) the next request did not return within %v (hung=%d) / resMu was still held 2 s later (free=%v): a failing send leaves the layer blocked", failed, bound, hung, oka)
		case !okb:
		case failed > 0 && after > before:
			res.Violation = "leak:pending-entry-after-failed-send"
			res.What = fmt.Sprintf("%d requests whose send step failed (context cancelled before the call, unreachable peer) ended with an error and left %d pending entries behind (before: %d)", failed, after, before)
		}
	}
	writeForcedTrace(tracePath, evs, w, &res)
	return 0
}

// forced schedule (b): attempt 0 times out and is held at req.timerFired until its late response reached
// res.beforeDeliver; then the timer path is released.  Watchdog on the call and a fresh call.
func forcedDeadlock(args []string) int {
	tracePath, resPath := args[0], args[1]
	tms, _ := strconv.Atoi(args[2])
	T := time.Duration(tms) * time.Millisecond
	R := p2p.VerifMaxRetries()
	res := forcedResult{Scenario: "deadlock", TimeoutMs: tms, MaxRetry: R, Shape: map[string]interface{}{}}
	res.Schedule = []string{
		fmt.Sprintf("requester: attempt 0 sent and registered; handler latency %d ms > timeout %d ms", tms+tms/2, tms),
		"requester: timer fires (req.timerFired) -> HOLD before it takes resMu to unregister",
		"late response: onResponse(id) takes resMu (res.locked), finds the entry, reaches res.beforeDeliver (ch <- resp)",
		"a duplicate of the late response arrives 40 ms later, while the first copy is unread and the requester still held",
		"release requester: it needs resMu to delete resCh[id]",
		"watchdog: the call (retries answer immediately) and a fresh independent RequestFrom must return within (retries+1)*timeout+slack",
	}
	defer func() { tj.WriteJSON(resPath, res) }()
	rec := newRecorder()
	w, err := newWorld(rec, T, []string{"A", "B"}, 0)
	if err != nil {
		res.SetupErr = err.Error()
		return 3
	}
	a := w.hosts["A"].c
	var once sync.Once
	released := make(chan struct{})
	var est atomic.Bool
	var why atomic.Value
	rec.setGate("req.timerFired", func(id string) {
		first := false
		once.Do(func() { first = true })
		if !first {
			return
		}
		defer close(released)
		info := map[string]interface{}{"id": id}
		ok := waitFor(time.Duration(tms/2)*time.Millisecond+4*time.Second, func() bool { return rec.seen("res.beforeDeliver", id) })
		info["late_response_reached_beforeDeliver_while_held"] = ok
		if !ok {
			if rec.seen("res.locked", id) {
				why.Store("late response was looked up but res.beforeDeliver was not reached (entry not found)")
			} else {
				why.Store("late response never arrived while the requester was held at req.timerFired")
			}
		} else {
			time.Sleep(150 * time.Millisecond) // let onResponse proceed into the channel send
			d := analyzeDump()
			res.DumpHold = &d
			_, free := a.VerifTryPending()
			info["resMu_free_while_responder_at_send"] = free
			res.Shape["buffered_or_nonblocking_send"] = !d.ResponderInChanSend
			res.Shape["deliver_under_lock"] = !free
			est.Store(true)
		}
		res.Attempts = append(res.Attempts, info)
	})
	slack := 3 * time.Second
	bound := time.Duration(R+1)*T + slack
	late := int((T + T/2).Microseconds())
	// ... and a DUPLICATE of that late response 40 ms after it: it finds the entry still registered and the first copy unread
	// in the channel - it must be dropped (or buffered), never waited for under the lock
	cs := plainCall(1, []int{late, 0}, []int{late + 40000, -1})
	xdone := make(chan callResult, 1)
	go func() { xdone <- w.doCall(cs, 2*bound+8*time.Second) }()
	select {
	case <-released:
	case <-time.After(T + 10*time.Second):
		res.Why = "hook req.timerFired never reached"
	}
	res.Established = est.Load()
	if s, ok := why.Load().(string); ok && res.Why == "" {
		res.Why = s
	}
	// fresh independent request after the release
	y := w.doCall(plainCall(2, []int{0}, []int{-1}), bound)
	res.Fresh = &y
	var x callResult
	select {
	case x = <-xdone:
	case <-time.After(bound):
		x = callResult{Call: 1, Hung: true, DurUs: bound.Microseconds()}
	}
	res.Call = x
	evs := rec.snapshot()
	if x.Hung || y.Hung {
		d := analyzeDump()
		res.Dump = &d
		_, free := a.VerifTryPending()
		res.LockFree = &free
		if res.Established {
			if d.ResponderInChanSend && !free {
				res.Violation = "deadlock:deliver-under-lock"
				res.What = fmt.Sprintf("forced schedule on the real code: attempt 0 timed out (timeout %d ms); its late response found resCh[id] still registered and onResponse blocked in `ch <- resp` while holding resMu; the requester, past its select, blocks in resMu.Lock() to unregister: both goroutines stay blocked.  Watchdog: the call returned=%v, a fresh independent RequestFrom returned=%v within (retries+1)*timeout+%v = %v; goroutine dump: onResponse in chan send=%v, sendRequestMessage waiting for resMu=%v; resMu free=%v", tms, !x.Hung, !y.Hung, slack, bound, d.ResponderInChanSend, d.RequesterOnMutex, free)
			} else {
				res.Violation = "request-never-returns"
				res.What = fmt.Sprintf("forced schedule on the real code: after a late response raced with the timeout path, RequestFrom did not return within %v (call returned=%v, fresh call returned=%v); onResponse in chan send=%v, resMu free=%v", bound, !x.Hung, !y.Hung, d.ResponderInChanSend, free)
			}
		}
	}
	// "the response the remote handler produced for that very request": the payload a call returns must be one the handler
	// produced for the request id of its LAST attempt (a late response to an earlier attempt that was left behind in a
	// re-used channel is a response delivered to a different request)
	if res.Violation == "" && res.Established {
		unat := 0
		atts, _, _ := attempts(evs, w, &unat)
		for _, c := range []callResult{x, y} {
			as := atts[c.Call]
			if c.Hung || c.Res != "resp" || len(as) == 0 {
				continue
			}
			last := as[len(as)-1].ID
			if !w.correlated(c, []string{last}) {
				res.Violation = "miscorrelated-response:after-late-response"
				res.What = fmt.Sprintf("forced schedule on the real code: attempt 0 of call 1 timed out and its late response arrived while the requester was between its select and the unregistration; call %d then returned payload %q, the remote handler produced %+v for the request id %s of its last attempt", c.Call, c.Data.Head, w.producedFor(last), last)
				break
			}
		}
	}
	p2p.VerifSetHook(nil)
	writeForcedTrace(tracePath, evs, w, &res)
	return 0
}

// forced schedule (c): the caller's context is cancelled exactly while the reply sits at res.beforeDeliver (entry found,
// about to be handed over, resMu possibly held): the requester leaves through ctx.Done() and needs resMu to unregister.
func forcedCancel(args []string) int {
	tracePath, resPath := args[0], args[1]
	tms, _ := strconv.Atoi(args[2])
	T := time.Duration(tms) * time.Millisecond
	R := p2p.VerifMaxRetries()
	res := forcedResult{Scenario: "cancelrace", TimeoutMs: tms, MaxRetry: R, Shape: map[string]interface{}{}}
	res.Schedule = []string{
		"requester: attempt 0 sent and registered, waits in its select (handler latency timeout/3)",
		"response: onResponse(id) takes resMu (res.locked), finds the entry, reaches res.beforeDeliver -> HOLD",
		"the caller's context is cancelled; the requester leaves its select through ctx.Done() and wants resMu to unregister",
		"release the response handler 60 ms later: it hands the reply to a channel nobody reads any more",
		"watchdog: the call and a fresh independent RequestFrom must return within (retries+1)*timeout+slack; nothing stays pending",
	}
	defer func() { tj.WriteJSON(resPath, res) }()
	rec := newRecorder()
	w, err := newWorld(rec, T, []string{"A", "B"}, 0)
	if err != nil {
		res.SetupErr = err.Error()
		return 3
	}
	a := w.hosts["A"].c
	var once sync.Once
	var est atomic.Bool
	cancelNow := make(chan struct{})
	rec.setGate("res.beforeDeliver", func(id string) {
		first := false
		once.Do(func() { first = true })
		if !first {
			return
		}
		close(cancelNow)
		time.Sleep(60 * time.Millisecond)
		est.Store(true)
	})
	slack := 3 * time.Second
	bound := time.Duration(R+1)*T + slack
	// the call is made here (not through doCall) because the harness must cancel its context at the gate
	xdone := make(chan callResult, 1)
	go func() {
		ctx, cancel := context.WithCancel(context.Background())
		defer cancel()
		go func() {
			select {
			case <-cancelNow:
				cancel()
			case <-ctx.Done():
			}
		}()
		rec.startCall(1, "A")
		t := time.Now()
		data := []byte(fmt.Sprintf(`{"n":1,"lat":[%d],"dup":[-1]}`, T.Microseconds()/3))
		resp := a.RequestFrom(ctx, w.hosts["B"].c.ID(), proc, data)
		r := callResult{Call: 1, From: "A", To: "B", DurUs: time.Since(t).Microseconds(), Data: digest(resp.Data())}
		r.Res, r.Err = w.classify(1, resp, ctx)
		rec.add(rawEv{Point: "call.return", Call: 1, Host: "A", Res: r.Res, Data: r.Data, Err: r.Err, Held: -1})
		xdone <- r
	}()
	var x callResult
	select {
	case x = <-xdone:
	case <-time.After(bound):
		x = callResult{Call: 1, Hung: true, DurUs: bound.Microseconds()}
	}
	res.Call = x
	res.Established = est.Load()
	if !res.Established {
		res.Why = "the response never reached res.beforeDeliver (entry not found or response late)"
	}
	y := w.doCall(plainCall(2, []int{0}, []int{-1}), bound)
	res.Fresh = &y
	time.Sleep(30 * time.Millisecond)
	evs := rec.snapshot()
	if res.Established {
		pend, free := -1, false
		waitFor(2*time.Second, func() bool { pend, free = a.VerifTryPending(); return free })
		res.LockFree = &free
		switch {
		case x.Hung || y.Hung || !free:
			d := analyzeDump()
			res.Dump = &d
			res.Violation = "deadlock:cancel-at-delivery"
			res.What = fmt.Sprintf("forced schedule on the real code: the caller's context was cancelled while the reply was at the delivery point; the call returned=%v, a fresh independent RequestFrom returned=%v within %v; resMu free=%v; onResponse blocked in chan send=%v, requester waiting for resMu=%v", !x.Hung, !y.Hung, bound, free, d.ResponderInChanSend, d.RequesterOnMutex)
		case pend != 0:
			res.Violation = "pending-leak:cancel-at-delivery"
			res.What = fmt.Sprintf("forced schedule on the real code: after a cancellation that raced with the delivery of the reply %d pending entries were left", pend)
		case x.Res == "resp" && !w.correlated(x, idsOf(evs, w, 1)):
			res.Violation = "miscorrelated-response:cancel-at-delivery"
			res.What = fmt.Sprintf("forced schedule on the real code: the cancelled call returned payload %q which no handler produced for its request", x.Data.Head)
		}
		res.Coverage = map[string]interface{}{"cancelled_call_result": x.Res, "fresh_call_result": y.Res}
	}
	p2p.VerifSetHook(nil)
	writeForcedTrace(tracePath, evs, w, &res)
	return 0
}

func idsOf(evs []rawEv, w *world, call int) []string {
	unat := 0
	atts, _, _ := attempts(evs, w, &unat)
	var ids []string
	for _, a := range atts[call] {
		ids = append(ids, a.ID)
	}
	return ids
}

// directed scenario (d): a request to an address that accepts the TCP connection and never speaks blocks in mp.send until
// its context gives up.  While it is blocked, is resMu held (shape SendUnderLock)?  Do requests to the healthy peer B still
// finish inside their budget?
func forcedBlackhole(args []string) int {
	tracePath, resPath := args[0], args[1]
	tms, _ := strconv.Atoi(args[2])
	T := time.Duration(tms) * time.Millisecond
	R := p2p.VerifMaxRetries()
	res := forcedResult{Scenario: "blackhole", TimeoutMs: tms, MaxRetry: R, Shape: map[string]interface{}{}}
	budget := time.Duration(R+1) * T
	hold := budget + 1100*time.Millisecond
	res.Schedule = []string{
		"two requests A->B in flight (handler latency timeout/2)",
		fmt.Sprintf("request A->X where X accepts the TCP connection and never speaks; its context has a deadline of %v: mp.send blocks in the dial", hold),
		"a sampler try-locks resMu of A every 0.5 ms while that send is blocked",
		"60 ms later: four requests A->B (handler latency 0)",
		fmt.Sprintf("verdict: resMu held during >= 90 %% of the samples AND the B requests made no progress until the blocked send gave up (they took longer than their whole budget (retries+1)*timeout = %v)", budget),
	}
	defer func() { tj.WriteJSON(resPath, res) }()
	rec := newRecorder()
	w, err := newWorld(rec, T, []string{"A", "B"}, 0)
	if err != nil {
		res.SetupErr = err.Error()
		return 3
	}
	a := w.hosts["A"].c
	bound := hold + budget + 3*time.Second
	var mu sync.Mutex
	var others []callResult
	var wg sync.WaitGroup
	launch := func(c int, lat int) {
		wg.Add(1)
		go func() {
			defer wg.Done()
			r := w.doCall(plainCall(c, []int{lat}, []int{-1}), bound)
			mu.Lock()
			others = append(others, r)
			mu.Unlock()
		}()
	}
	launch(2, int(T.Microseconds()/2))
	launch(3, int(T.Microseconds()/2))
	time.Sleep(5 * time.Millisecond)
	// sampler
	type sample struct {
		t    int64
		free bool
	}
	var samples []sample
	stopS := make(chan struct{})
	sdone := make(chan struct{})
	go func() {
		defer close(sdone)
		for {
			select {
			case <-stopS:
				return
			default:
			}
			_, ok := a.VerifTryPending()
			samples = append(samples, sample{rec.now(), ok})
			time.Sleep(500 * time.Microsecond)
		}
	}()
	xdone := make(chan callResult, 1)
	go func() {
		xdone <- w.doCall(callSpec{Call: 1, From: "A", To: "blackhole", Payload: reqPayload{N: 1, Lat: []int{0}, Dup: []int{-1}}, CancelUs: int(hold.Microseconds()), Deadline: true}, bound)
	}()
	// wait until the blocked request is on its way (its first schedule point), then the probes
	started := waitFor(5*time.Second, func() bool { _, _, ok := rec.seenCall("req.registered", 1); return ok })
	if !started {
		// send-first shapes have no schedule point before the send: go by call.start
		started = waitFor(1*time.Second, func() bool { _, _, ok := rec.seenCall("call.start", 1); return ok })
	}
	time.Sleep(60 * time.Millisecond)
	for c := 4; c <= 7; c++ {
		launch(c, 0)
	}
	x := <-xdone
	res.Call = x
	wg.Wait()
	close(stopS)
	<-sdone
	time.Sleep(30 * time.Millisecond)
	evs := rec.snapshot()
	p2p.VerifSetHook(nil)
	res.Others = others
	// the window in which the send of call 1 was blocked
	var t0, t1 int64 = -1, -1
	for _, e := range evs {
		if e.Call == 1 && t0 < 0 && (e.Point == "req.registered" || e.Point == "call.start") {
			t0 = e.T
		}
		if e.Call == 1 && e.Point == "req.registered" {
			t0 = e.T
		}
		if e.Call == 1 && e.Point == "call.return" {
			t1 = e.T
		}
	}
	sentX := false
	for _, e := range evs {
		if e.Call == 1 && e.Point == "req.afterSend" {
			sentX = true
		}
	}
	n, heldN := 0, 0
	for _, s := range samples {
		if t0 >= 0 && s.t > t0+20000 && s.t < t1-20000 {
			n++
			if !s.free {
				heldN++
			}
		}
	}
	frac := 0.0
	if n > 0 {
		frac = float64(heldN) / float64(n)
	}
	res.Coverage = map[string]interface{}{"blocked_send_window_us": t1 - t0, "lock_samples": n, "lock_samples_held": heldN, "held_fraction": frac, "blocked_call": x.Res}
	switch {
	case !started || t0 < 0 || t1 < 0 || x.Hung:
		res.Why = "the request to the black-holed address did not start / did not return"
	case sentX || x.Res == "resp":
		res.Why = "the send to the black-holed address completed (no black hole)"
	case t1-t0 < (hold * 8 / 10).Microseconds():
		res.Why = fmt.Sprintf("the send to the black-holed address failed after %d us, long before its deadline (dial refused / backoff)", t1-t0)
	case n < 100:
		res.Why = "too few lock samples in the window"
	case frac > 0.1 && frac < 0.9:
		res.Why = fmt.Sprintf("lock samples ambiguous (held in %.0f %%)", frac*100)
	default:
		res.Established = true
	}
	if res.Established {
		res.Shape["send_under_lock"] = frac >= 0.9
		if frac >= 0.9 {
			// real outcome: did the requests to B make progress while the send was blocked?
			blocked, total := 0, 0
			var worst int64
			for _, r := range others {
				if r.Call < 4 {
					continue
				}
				total++
				_, tr, ok := firstEv(evs, r.Call, "req.afterSend")
				if r.Hung || !ok || tr > t1-20000 {
					if r.DurUs > budget.Microseconds() {
						blocked++
					}
				}
				if r.DurUs > worst {
					worst = r.DurUs
				}
			}
			if total > 0 && blocked == total {
				res.Violation = "deadlock:resMu-held-across-blocking-call"
				res.What = fmt.Sprintf("real code: while a request to a peer that accepts the TCP connection and never speaks was blocked in mp.send for %d ms, resMu of the requesting host was held (%d of %d try-locks failed); %d of %d requests to the healthy peer B (handler latency 0) issued meanwhile sent nothing until that send gave up and took up to %d ms, their whole budget (retries+1)*timeout is %d ms: one unresponsive peer blocks the whole request/response layer", (t1-t0)/1000, heldN, n, blocked, total, worst/1000, budget.Milliseconds())
			} else {
				res.Established = false
				res.Why = fmt.Sprintf("resMu looked held (%.0f %%) but %d of %d requests to B made progress", frac*100, total-blocked, total)
			}
		}
	}
	writeForcedTrace(tracePath, evs, w, &res)
	return 0
}

func firstEv(evs []rawEv, call int, point string) (string, int64, bool) {
	for _, e := range evs {
		if e.Call == call && e.Point == point {
			return e.ID, e.T, true
		}
	}
	return "", 0, false
}

// directed scenario (e): the payload domain.  nil / empty / 1 B / 4 KiB / 64 KiB+1 / 1 MiB / 5 MiB requests whose padding is
// echoed, nil and empty answers, error answers - one call at a time with a generous timeout; every reply that the remote
// handler produced in time must come back unchanged (compared by length and SHA-256).
func forcedPayload(args []string) int {
	tracePath, resPath := args[0], args[1]
	tms, _ := strconv.Atoi(args[2])
	T := time.Duration(tms) * time.Millisecond
	R := p2p.VerifMaxRetries()
	res := forcedResult{Scenario: "payload", TimeoutMs: tms, MaxRetry: R, Shape: map[string]interface{}{}}
	defer func() { tj.WriteJSON(resPath, res) }()
	rec := newRecorder()
	w, err := newWorld(rec, T, []string{"A", "B"}, 0)
	if err != nil {
		res.SetupErr = err.Error()
		return 3
	}
	type pc struct {
		name string
		cs   callSpec
	}
	var cases []pc
	sizes := []int{0, 1, 4 << 10, 64<<10 + 1, 1 << 20, 5 << 20}
	if tj.EnvInt("VERIF_C17_MAXPAD", 0) > 0 {
		sizes = append(sizes, tj.EnvInt("VERIF_C17_MAXPAD", 0))
	}
	c := 0
	next := func() int { c++; return c }
	for _, s := range sizes {
		cs := plainCall(next(), []int{0}, []int{-1})
		cs.Payload.Echo, cs.Pad = true, s
		cases = append(cases, pc{fmt.Sprintf("echo-%d", s), cs})
	}
	nl := plainCall(next(), []int{0}, []int{-1})
	nl.NilReq = true
	cases = append(cases, pc{"nil-request", nl})
	for i, nm := range []string{"reply-nil", "reply-empty"} {
		cs := plainCall(next(), []int{0}, []int{-1})
		cs.Payload.Emp = []int{i + 1}
		cases = append(cases, pc{nm, cs})
	}
	for i, nm := range []string{"reply-error", "reply-error-with-data"} {
		cs := plainCall(next(), []int{0}, []int{-1})
		cs.Payload.Err = []int{i + 1}
		cases = append(cases, pc{nm, cs})
	}
	bound := time.Duration(R+1)*T + 5*time.Second
	ok, notok := []string{}, []string{}
	for _, k := range cases {
		r := w.doCall(k.cs, bound)
		res.Others = append(res.Others, r)
		if r.Hung {
			res.Violation = "request-never-returns:payload"
			res.What = fmt.Sprintf("payload case %s: RequestFrom did not return within %v", k.name, bound)
			break
		}
		ids := idsOf(rec.snapshot(), w, k.cs.Call)
		if r.Res == "resp" {
			if !w.correlated(r, ids) {
				var want []product
				for _, id := range ids {
					want = append(want, w.producedFor(id)...)
				}
				res.Violation = "miscorrelated-response:payload"
				res.What = fmt.Sprintf("payload case %s: the call returned %d bytes (sha %s, error %q), the remote handler produced %+v for its request", k.name, r.Data.Len, r.Data.Sum, r.Err, want)
				break
			}
			ok = append(ok, k.name)
			continue
		}
		notok = append(notok, k.name+":"+r.Res)
		if r.Res == "panic" {
			res.Violation = "panic:request-path"
			res.What = fmt.Sprintf("payload case %s: RequestFrom panicked: %s", k.name, firstLine(r.Panic))
			break
		}
	}
	// twin requests: two calls with byte-identical procedure and payload, pending at the same time (real callers send the same
	// payload-less request to several peers at once).  The handler answers each after 100 ms, far inside the timeout: each call
	// must get an answer without one of its attempts timing out.  A finding must show in three consecutive rounds.
	twinRounds, twinBad := 0, 0
	for round := 0; round < 6 && res.Violation == ""; round++ {
		a, b := plainCall(next(), []int{100000}, []int{-1}), plainCall(next(), []int{100000}, []int{-1})
		b.Payload.N = a.Payload.N
		var ra, rb callResult
		var wg sync.WaitGroup
		wg.Add(2)
		go func() { defer wg.Done(); ra = w.doCall(a, bound) }()
		go func() { defer wg.Done(); rb = w.doCall(b, bound) }()
		wg.Wait()
		res.Others = append(res.Others, ra, rb)
		twinRounds++
		if ra.Hung || rb.Hung {
			res.Violation = "request-never-returns:twin-requests"
			res.What = fmt.Sprintf("two simultaneous requests with identical procedure and payload: RequestFrom did not return within %v", bound)
			break
		}
		produced := 0
		for _, e := range rec.snapshot() {
			if e.Point == "rs.return" && w.nonceOf(e.ID) == a.Payload.N {
				produced++
			}
		}
		clean := ra.Res == "resp" && rb.Res == "resp" && ra.DurUs < T.Microseconds() && rb.DurUs < T.Microseconds() // shorter than one timeout: no attempt timed out
		if clean || produced < 2 {
			twinBad = 0
			continue
		}
		twinBad++
		if twinBad >= 3 {
			res.Violation = "miscorrelated-response:twin-requests"
			res.What = fmt.Sprintf("two simultaneous requests with identical procedure and payload (handler answers after 100 ms, timeout %v): the handler produced %d replies, "+
				"but the calls ended %s after %d ms / %s after %d ms in three consecutive rounds - a reply was delivered to the other request or lost",
				T, produced, ra.Res, ra.DurUs/1000, rb.Res, rb.DurUs/1000)
		}
	}
	res.Shape["twin_rounds"] = twinRounds
	// replies that were produced and never reached the lookup of the requesting host
	waitFor(3*time.Second, func() bool { return int64(rec.count("res.locked")) >= atomic.LoadInt64(&w.responses) })
	evs := rec.snapshot()
	p2p.VerifSetHook(nil)
	if res.Violation == "" && w.respondErrors() == 0 {
		locked := map[string]bool{}
		for _, e := range evs {
			if e.Point == "res.locked" {
				locked[e.ID] = true
			}
		}
		for _, e := range evs {
			if e.Point == "rs.return" && !locked[e.ID] {
				cn := w.nonceOf(e.ID)
				name := "nil-request"
				for _, k := range cases {
					if k.cs.Call == cn {
						name = k.name
					}
				}
				res.Violation = "lost-reply:response-never-reached-lookup"
				res.What = fmt.Sprintf("payload case %s: the remote handler returned its reply for request %s (the responder's layer reported no send error), and the reply never reached the lookup of the requesting host (no res.locked for that id within 3 s): the request then ran into its timeouts", name, e.ID)
				break
			}
		}
	}
	res.Established = true
	res.Coverage = map[string]interface{}{"cases": len(cases), "echoed": ok, "not_answered": notok, "respond_errors": w.respondErrors()}
	writeForcedTrace(tracePath, evs, w, &res)
	return 0
}
