// c17: conformance harness for the request/response layer of pkg/p2p (property C17).
//
// Two or three real p2p.Connections (libp2p hosts on 127.0.0.1) live in this process.  The five schedule points of
// message_protocol.go (build tag `verif`) call recorder.hook, which logs (goroutine, sequence number, point, request id)
// and may block (scheduler gate).
//
//	c17 traffic    <trace-prefix> <meta.json> <profile,profile,...> <workers> <callsPerWorker> <timeoutMs>
//	     rounds of random concurrent traffic (see traffic.go for the profiles); writes one trace per round and requesting
//	     host for spec/trace/ReqRespTrace.tla and asserts directly on the real results (bounded completion, correlation,
//	     VerifPending()==0 at quiescence on every host).
//	c17 lost       <trace.ndjson> <result.json> <timeoutMs>   response before registration; then failing sends under a watchdog
//	c17 deadlock   <trace.ndjson> <result.json> <timeoutMs>   late response racing with the timeout path (+ duplicate)
//	c17 cancelrace <trace.ndjson> <result.json> <timeoutMs>   cancellation forced at the delivery point
//	c17 blackhole  <trace.ndjson> <result.json> <timeoutMs>   a peer that accepts TCP and never speaks: is resMu held across mp.send?
//	c17 payload    <trace.ndjson> <result.json> <timeoutMs>   nil / empty / 64 KiB+1 / 1 MiB / 5 MiB payloads echoed, error replies
//
// Exit code 0 = ran to completion (verdicts are in the json); 3 = set-up failure (inconclusive).
package main

import (
	"fmt"
	"os"
)

func main() {
	if len(os.Args) < 2 {
		fmt.Fprintln(os.Stderr, "usage: c17 traffic|lost|deadlock|cancelrace|blackhole|payload ...")
		os.Exit(3)
	}
	rc := 3
	forced := map[string]func([]string) int{"lost": forcedLost, "deadlock": forcedDeadlock, "cancelrace": forcedCancel, "blackhole": forcedBlackhole, "payload": forcedPayload}
	switch {
	case os.Args[1] == "traffic":
		if len(os.Args) >= 8 {
			rc = traffic(os.Args[2:])
		}
	case forced[os.Args[1]] != nil:
		if len(os.Args) >= 5 {
			rc = forced[os.Args[1]](os.Args[2:])
		}
	}
	// hosts of a deadlocked scenario are abandoned: leave without waiting for them
	os.Exit(rc)
}
