// c17: conformance harness for the request/response layer of pkg/p2p (property C17).
//
// Two real p2p.Connections (libp2p hosts on 127.0.0.1) live in this process.  The five schedule
// points of message_protocol.go (build tag `verif`) call recorder.hook, which logs
// (goroutine, sequence number, point, request id) and may block (scheduler gate).
//
//	c17 traffic  <trace-prefix> <meta.json> <rounds> <workers> <callsPerWorker> <timeoutMs>
//	     random concurrent traffic with handler latencies around the timeout, cancellations, late and
//	     duplicate responses; writes the trace for spec/trace/ReqRespTrace.tla and asserts directly on
//	     the real results (bounded completion, correlation, VerifPending()==0 at quiescence).
//	c17 lost     <trace.ndjson> <result.json> <timeoutMs>
//	     forced schedule: every attempt is held at req.afterSend until its response arrived and was
//	     looked up; outcome read from the real call.
//	c17 deadlock <trace.ndjson> <result.json> <timeoutMs>
//	     forced schedule: the first attempt times out and is held at req.timerFired until its late
//	     response reached res.beforeDeliver; then released; watchdog on the call and on a fresh call.
//
// Exit code 0 = ran to completion (verdicts are in the json); 3 = set-up failure (inconclusive).
package main

import (
	"bytes"
	"context"
	crand "crypto/rand"
	"encoding/json"
	"fmt"
	"math/rand"
	"os"
	"regexp"
	"runtime"
	"strconv"
	"strings"
	"sync"
	"sync/atomic"
	"time"

	lcrypto "github.com/libp2p/go-libp2p/core/crypto"
	"github.com/libp2p/go-libp2p/core/peer"

	"github.com/LiskHQ/lisk-engine/pkg/log"
	"github.com/LiskHQ/lisk-engine/pkg/p2p"

	"verifharness/internal/tj"
)

const proc = "verifEcho"

func goid() int64 {
	var b [64]byte
	n := runtime.Stack(b[:], false)
	s := b[len("goroutine "):n]
	i := bytes.IndexByte(s, ' ')
	v, _ := strconv.ParseInt(string(s[:i]), 10, 64)
	return v
}

// ---------------------------------------------------------------- recorder

type rawEv struct {
	Seq   int
	T     int64 // microseconds since recorder start
	Gid   int64
	Point string // hook point, or "call.start" / "call.return"
	ID    string
	Call  int
	Res   string // call.return: resp|timeout|cancel|error
	Data  string // call.return: response payload
	Err   string
	Held  int // res.beforeDeliver: 1 if resMu was held at that point, 0 if free
}

type recorder struct {
	mu    sync.Mutex
	t0    time.Time
	evs   []rawEv
	gates map[string]func(id string)
	hostA atomic.Pointer[p2p.Connection]
}

func newRecorder() *recorder {
	return &recorder{t0: time.Now(), gates: map[string]func(string){}}
}

func (r *recorder) add(e rawEv) {
	e.Gid = goid()
	r.mu.Lock()
	e.Seq = len(r.evs)
	e.T = time.Since(r.t0).Microseconds()
	r.evs = append(r.evs, e)
	r.mu.Unlock()
}

func (r *recorder) hook(point, id string) {
	e := rawEv{Point: point, ID: id, Held: -1}
	if point == "res.beforeDeliver" {
		if a := r.hostA.Load(); a != nil {
			_, ok := a.VerifTryPending()
			e.Held = 1 - tj.B(ok)
		}
	}
	r.add(e)
	r.mu.Lock()
	g := r.gates[point]
	r.mu.Unlock()
	if g != nil {
		g(id)
	}
}

func (r *recorder) setGate(point string, f func(id string)) {
	r.mu.Lock()
	r.gates[point] = f
	r.mu.Unlock()
}

func (r *recorder) snapshot() []rawEv {
	r.mu.Lock()
	defer r.mu.Unlock()
	return append([]rawEv(nil), r.evs...)
}

func (r *recorder) reset() {
	r.mu.Lock()
	r.evs = nil
	r.mu.Unlock()
}

// seen reports whether an event (point, id) has been recorded.
func (r *recorder) seen(point, id string) bool {
	r.mu.Lock()
	defer r.mu.Unlock()
	for i := len(r.evs) - 1; i >= 0; i-- {
		if r.evs[i].Point == point && r.evs[i].ID == id {
			return true
		}
	}
	return false
}

func (r *recorder) count(point string) int {
	r.mu.Lock()
	defer r.mu.Unlock()
	n := 0
	for i := range r.evs {
		if r.evs[i].Point == point {
			n++
		}
	}
	return n
}

func waitFor(d time.Duration, cond func() bool) bool {
	end := time.Now().Add(d)
	for {
		if cond() {
			return true
		}
		if time.Now().After(end) {
			return false
		}
		time.Sleep(500 * time.Microsecond)
	}
}

// ---------------------------------------------------------------- hosts

type reqPayload struct {
	N   int   `json:"n"`   // nonce of the call
	Lat []int `json:"lat"` // handler latency per attempt in microseconds (last entry repeats)
	Dup []int `json:"dup"` // per attempt: delay (us) of an extra copy of the response, -1 = none
}

type responder struct {
	mu        sync.Mutex
	attempts  map[int]int       // nonce -> attempts seen
	produced  map[string]string // request id -> payload produced by the handler for it
	nonceOf   map[string]int
	wg        sync.WaitGroup // running handlers and duplicate senders
	responses int64          // responses handed to the network (handler returns + duplicates sent)
	b         atomic.Pointer[p2p.Connection]
}

func newResponder() *responder {
	return &responder{attempts: map[int]int{}, produced: map[string]string{}, nonceOf: map[string]int{}}
}

func pick(a []int, i int, def int) int {
	if len(a) == 0 {
		return def
	}
	if i >= len(a) {
		i = len(a) - 1
	}
	return a[i]
}

func (rs *responder) handle(w p2p.ResponseWriter, req *p2p.Request) {
	rs.wg.Add(1)
	defer rs.wg.Done()
	var p reqPayload
	if err := json.Unmarshal(req.Data, &p); err != nil {
		w.Error(fmt.Errorf("bad payload"))
		return
	}
	rs.mu.Lock()
	idx := rs.attempts[p.N]
	rs.attempts[p.N] = idx + 1
	out := fmt.Sprintf("%d|%s|%d", p.N, req.ID, idx)
	rs.produced[req.ID] = out
	rs.nonceOf[req.ID] = p.N
	rs.mu.Unlock()
	if d := pick(p.Dup, idx, -1); d >= 0 {
		rs.wg.Add(1)
		go func() {
			defer rs.wg.Done()
			time.Sleep(time.Duration(d) * time.Microsecond)
			if b := rs.b.Load(); b != nil {
				ctx, cancel := context.WithTimeout(context.Background(), 2*time.Second)
				if err := b.VerifRespond(ctx, req.PeerID, req.ID, proc, []byte(out)); err == nil {
					atomic.AddInt64(&rs.responses, 1)
				}
				cancel()
			}
		}()
	}
	if l := pick(p.Lat, idx, 0); l > 0 {
		time.Sleep(time.Duration(l) * time.Microsecond)
	}
	w.Write([]byte(out))
	atomic.AddInt64(&rs.responses, 1)
}

type pair struct {
	a, b *p2p.Connection
	bID  p2p.PeerID
	rs   *responder
}

var hostSeq int64

func newHost(handler p2p.RPCHandler, timeout time.Duration) (*p2p.Connection, error) {
	lg, err := log.NewSilentLogger()
	if err != nil {
		return nil, err
	}
	cfg := &p2p.Config{
		Addresses:          []string{"/ip4/127.0.0.1/tcp/0"},
		ConnectionSecurity: "noise",
		ChainID:            []byte{0xc1, 0x17, 0, 0},
		Version:            "1.0",
	}
	c := p2p.NewConnection(lg, cfg)
	if err := c.RegisterRPCHandler(proc, handler, p2p.WithRPCMessageCounter(1<<30, 0)); err != nil {
		return nil, err
	}
	seed := []byte(fmt.Sprintf("c17-host-%d-%d", os.Getpid(), atomic.AddInt64(&hostSeq, 1)))
	if err := c.Start(seed); err != nil {
		return nil, err
	}
	c.VerifSetTimeout(timeout)
	return c, nil
}

func newPair(rec *recorder, timeout time.Duration) (*pair, error) {
	rs := newResponder()
	a, err := newHost(func(w p2p.ResponseWriter, req *p2p.Request) {}, timeout)
	if err != nil {
		return nil, fmt.Errorf("host A: %w", err)
	}
	b, err := newHost(rs.handle, timeout)
	if err != nil {
		return nil, fmt.Errorf("host B: %w", err)
	}
	rs.b.Store(b)
	addrs, err := b.MultiAddress()
	if err != nil || len(addrs) == 0 {
		return nil, fmt.Errorf("host B has no address: %v", err)
	}
	ai, err := p2p.AddrInfoFromMultiAddr(addrs[0])
	if err != nil {
		return nil, err
	}
	ctx, cancel := context.WithTimeout(context.Background(), 10*time.Second)
	defer cancel()
	if err := a.Connect(ctx, *ai); err != nil {
		return nil, fmt.Errorf("connect: %w", err)
	}
	rec.hostA.Store(a)
	p := &pair{a: a, b: b, bID: b.ID(), rs: rs}
	// warm-up request (stream negotiation, not recorded)
	p2p.VerifSetHook(nil)
	wctx, wcancel := context.WithTimeout(context.Background(), 10*time.Second)
	data, _ := json.Marshal(reqPayload{N: 0})
	resp := a.RequestFrom(wctx, p.bID, proc, data)
	wcancel()
	if err := resp.Error(); err != nil && err.Error() != "timeout" {
		// a timeout is behaviour of the layer under test (judged by the scenarios), not a set-up failure
		return nil, fmt.Errorf("warm-up request failed: %v", err)
	}
	waitFor(2*time.Second, func() bool { n, ok := a.VerifTryPending(); return ok && n == 0 })
	atomic.StoreInt64(&rs.responses, 0)
	rec.reset()
	p2p.VerifSetHook(rec.hook)
	return p, nil
}

func (p *pair) stop() {
	done := make(chan struct{})
	go func() { _ = p.a.Stop(); _ = p.b.Stop(); close(done) }()
	select {
	case <-done:
	case <-time.After(8 * time.Second):
	}
}

// ---------------------------------------------------------------- calls

type callSpec struct {
	Call     int
	Payload  reqPayload
	CancelUs int // >= 0: cancel ctx after that many microseconds
}

type callResult struct {
	Call   int
	Res    string
	Data   string
	Err    string
	DurUs  int64
	Hung   bool
	Cancel int
}

func classify(resp p2p.Response, evs func() (sent, fired int)) (string, string) {
	err := resp.Error()
	if err == nil {
		return "resp", ""
	}
	if err.Error() == "timeout" {
		return "timeout", err.Error()
	}
	if err == context.Canceled || err == context.DeadlineExceeded || strings.Contains(err.Error(), "context canceled") || strings.Contains(err.Error(), "deadline exceeded") {
		s, f := evs()
		if s > f {
			return "cancel", err.Error()
		}
		return "error", err.Error()
	}
	if len(resp.Data()) > 0 {
		return "resp", err.Error() // handler-level error carried by a response
	}
	return "error", err.Error()
}

// doCall runs one RequestFrom in its own goroutine and waits for it at most `bound`.
func doCall(rec *recorder, p *pair, cs callSpec, bound time.Duration) callResult {
	done := make(chan callResult, 1)
	go func() {
		gid := goid()
		ctx, cancel := context.WithCancel(context.Background())
		defer cancel()
		if cs.CancelUs >= 0 {
			tm := time.AfterFunc(time.Duration(cs.CancelUs)*time.Microsecond, cancel)
			defer tm.Stop()
		}
		data, _ := json.Marshal(cs.Payload)
		rec.add(rawEv{Point: "call.start", Call: cs.Call, Held: -1})
		t := time.Now()
		resp := p.a.RequestFrom(ctx, p.bID, proc, data)
		dur := time.Since(t)
		kind, es := classify(resp, func() (int, int) {
			s, f := 0, 0
			for _, e := range rec.snapshot() {
				if e.Gid == gid {
					switch e.Point {
					case "call.start":
						s, f = 0, 0
					case "req.afterSend":
						s++
					case "req.timerFired":
						f++
					}
				}
			}
			return s, f
		})
		rec.add(rawEv{Point: "call.return", Call: cs.Call, Res: kind, Data: string(resp.Data()), Err: es, Held: -1})
		done <- callResult{Call: cs.Call, Res: kind, Data: string(resp.Data()), Err: es, DurUs: dur.Microseconds(), Cancel: cs.CancelUs}
	}()
	select {
	case r := <-done:
		return r
	case <-time.After(bound):
		return callResult{Call: cs.Call, Hung: true, DurUs: bound.Microseconds(), Cancel: cs.CancelUs}
	}
}

// ---------------------------------------------------------------- goroutine dump analysis

type dumpInfo struct {
	ResponderInChanSend bool     `json:"responder_blocked_in_chan_send"`
	RequesterOnMutex    bool     `json:"requester_blocked_on_resMu"`
	Excerpt             []string `json:"excerpt"`
}

var hdrRe = regexp.MustCompile(`^goroutine \d+ \[([^\]]+)\]:`)

func analyzeDump() dumpInfo {
	buf := make([]byte, 8<<20)
	n := runtime.Stack(buf, true)
	var di dumpInfo
	for _, g := range strings.Split(string(buf[:n]), "\n\n") {
		lines := strings.Split(g, "\n")
		m := hdrRe.FindStringSubmatch(lines[0])
		if m == nil {
			continue
		}
		state := m[1]
		onResp := strings.Contains(g, "p2p.(*MessageProtocol).onResponse")
		inReq := strings.Contains(g, "p2p.(*MessageProtocol).sendRequestMessage")
		if onResp && strings.HasPrefix(state, "chan send") {
			di.ResponderInChanSend = true
			di.Excerpt = append(di.Excerpt, firstFrames(lines, 7)...)
		}
		if inReq && (strings.HasPrefix(state, "sync.Mutex.Lock") || strings.HasPrefix(state, "semacquire")) {
			if !di.RequesterOnMutex {
				di.Excerpt = append(di.Excerpt, firstFrames(lines, 9)...)
			}
			di.RequesterOnMutex = true
		}
	}
	return di
}

func firstFrames(lines []string, n int) []string {
	out := []string{}
	for i, l := range lines {
		if i >= n {
			break
		}
		l = strings.TrimSpace(l)
		if len(l) > 160 {
			l = l[:160]
		}
		out = append(out, l)
	}
	return out
}

// ---------------------------------------------------------------- trace normalisation

type tev struct {
	Ev      string `json:"ev"`
	C       int    `json:"c"`
	K       int    `json:"k"`
	D       int    `json:"d"`
	Res     string `json:"res"`
	Corr    int    `json:"corr"`
	N       int    `json:"n"`
	Pending int    `json:"pending"`
	T       int64  `json:"t"`
}

type attemptInfo struct {
	ID                                string
	SentSeq, RegSeq, FiredSeq         int
	Locked, Found, Missed, MissBefore int // MissBefore: misses before the timer fired / the attempt ended
	MissBeforeReg                     int
}

type segStats struct {
	Calls, Attempts, Sent, Registered, Timers, Locked, Found, Miss, Dups, Stray int
	Resp, Timeout, Cancel, Error                                                int
	EarlyLocked                                                                 int // response handler ran before req.afterSend was logged
	HeldAtDeliver, FreeAtDeliver                                                int
	RegisterBeforeSend, SendBeforeRegister                                      int
	LateMiss                                                                    int
}

type finding struct {
	Key    string      `json:"key"`
	What   string      `json:"what"`
	Detail interface{} `json:"detail"`
}

// normalise turns the raw events of one segment into trace lines; returns per-call attempt infos.
func normalise(evs []rawEv, ncalls, maxRetry, pending int, rs *responder, results map[int]callResult, st *segStats) ([]tev, map[int][]*attemptInfo, []finding) {
	out := []tev{{Ev: "Reset", N: ncalls, K: maxRetry, C: 0, D: -1}}
	var finds []finding
	gidCall := map[int64]int{}
	idCall := map[string]int{}
	idK := map[string]int{}
	atts := map[int][]*attemptInfo{}
	ai := map[string]*attemptInfo{}
	// pass 1: request-side ids
	for _, e := range evs {
		switch e.Point {
		case "call.start":
			gidCall[e.Gid] = e.Call
		case "req.afterSend", "req.registered", "req.timerFired":
			c, ok := gidCall[e.Gid]
			if !ok {
				continue
			}
			if _, known := idCall[e.ID]; !known {
				idCall[e.ID] = c
				idK[e.ID] = len(atts[c])
				a := &attemptInfo{ID: e.ID, SentSeq: -1, RegSeq: -1, FiredSeq: -1}
				atts[c] = append(atts[c], a)
				ai[e.ID] = a
			}
			a := ai[e.ID]
			switch e.Point {
			case "req.afterSend":
				a.SentSeq = e.Seq
			case "req.registered":
				a.RegSeq = e.Seq
			case "req.timerFired":
				a.FiredSeq = e.Seq
			}
		}
	}
	returnSeq := map[int]int{}
	for _, e := range evs {
		if e.Point == "call.return" {
			returnSeq[e.Call] = e.Seq
		}
	}
	// pass 2: emit
	dupCount := map[string]int{}
	lastLocked := map[int64]string{} // goroutine -> id it has locked for
	lastD := map[int64]int{}
	// next event index per goroutine, to decide Found vs Miss
	nextOfGid := make([]int, len(evs))
	last := map[int64]int{}
	for i := len(evs) - 1; i >= 0; i-- {
		if j, ok := last[evs[i].Gid]; ok {
			nextOfGid[i] = j
		} else {
			nextOfGid[i] = -1
		}
		last[evs[i].Gid] = i
	}
	for i, e := range evs {
		switch e.Point {
		case "req.afterSend":
			if c, ok := idCall[e.ID]; ok {
				out = append(out, tev{Ev: "Sent", C: c, K: idK[e.ID], D: -1, T: e.T})
				st.Sent++
			}
		case "req.registered":
			if c, ok := idCall[e.ID]; ok {
				out = append(out, tev{Ev: "Registered", C: c, K: idK[e.ID], D: -1, T: e.T})
				st.Registered++
			}
		case "req.timerFired":
			if c, ok := idCall[e.ID]; ok {
				out = append(out, tev{Ev: "TimerFired", C: c, K: idK[e.ID], D: -1, T: e.T})
				st.Timers++
			}
		case "res.locked":
			c, ok := idCall[e.ID]
			if !ok {
				st.Stray++
				continue
			}
			d := dupCount[e.ID]
			dupCount[e.ID] = d + 1
			if d > 0 {
				st.Dups++
			}
			a := ai[e.ID]
			a.Locked++
			if a.SentSeq < 0 || e.Seq < a.SentSeq {
				st.EarlyLocked++
			}
			lastLocked[e.Gid] = e.ID
			lastD[e.Gid] = d
			out = append(out, tev{Ev: "Locked", C: c, K: idK[e.ID], D: d, T: e.T})
			st.Locked++
			j := nextOfGid[i]
			if j < 0 || evs[j].Point != "res.beforeDeliver" || evs[j].ID != e.ID {
				out = append(out, tev{Ev: "Miss", C: c, K: idK[e.ID], D: d, T: e.T})
				st.Miss++
				a.Missed++
				// was the attempt still going to wait for it (timer not fired, call not returned)?
				ended := a.FiredSeq >= 0 && a.FiredSeq < e.Seq
				if rs, ok := returnSeq[c]; ok && rs < e.Seq {
					ended = true
				}
				if !ended {
					a.MissBefore++
					if a.RegSeq < 0 || e.Seq < a.RegSeq {
						a.MissBeforeReg++
					}
				} else {
					st.LateMiss++
				}
			}
		case "res.beforeDeliver":
			c, ok := idCall[e.ID]
			if !ok {
				continue
			}
			if lastLocked[e.Gid] != e.ID {
				continue
			}
			out = append(out, tev{Ev: "Found", C: c, K: idK[e.ID], D: lastD[e.Gid], T: e.T})
			st.Found++
			ai[e.ID].Found++
			if e.Held == 1 {
				st.HeldAtDeliver++
			} else if e.Held == 0 {
				st.FreeAtDeliver++
			}
		case "call.return":
			c := e.Call
			k := len(atts[c]) - 1
			corr := 0
			if e.Res == "resp" && k >= 0 {
				rs.mu.Lock()
				want, ok := rs.produced[atts[c][k].ID]
				rs.mu.Unlock()
				if ok && want == e.Data {
					corr = 1
				}
			}
			out = append(out, tev{Ev: "Returned", C: c, K: k, D: -1, Res: e.Res, Corr: corr, T: e.T})
		}
	}
	out = append(out, tev{Ev: "Quiesce", N: ncalls, Pending: pending, D: -1, K: -1})
	for c, as := range atts {
		st.Attempts += len(as)
		for _, a := range as {
			if a.SentSeq >= 0 && a.RegSeq >= 0 {
				if a.RegSeq < a.SentSeq {
					st.RegisterBeforeSend++
				} else {
					st.SendBeforeRegister++
				}
			}
			if a.MissBefore > 0 && a.FiredSeq >= 0 && a.Found == 0 {
				key := "lost-reply:response-dropped-while-pending"
				if a.MissBeforeReg > 0 {
					key = "lost-reply:response-before-registration"
				}
				finds = append(finds, finding{Key: key, What: fmt.Sprintf("random traffic: the response for attempt %d of call %d arrived while the attempt was still pending, was dropped as unknown request ID, and the attempt then timed out", idK[a.ID], c), Detail: a})
			}
		}
	}
	return out, atts, finds
}

// ---------------------------------------------------------------- traffic mode

func genCall(r *rand.Rand, call int, T time.Duration, maxRetry int) callSpec {
	tu := int(T.Microseconds())
	lat := make([]int, maxRetry+1)
	dup := make([]int, maxRetry+1)
	for i := range lat {
		switch x := r.Intn(100); {
		case x < 30:
			lat[i] = 0
		case x < 50:
			lat[i] = r.Intn(tu / 2)
		case x < 68:
			lat[i] = tu*85/100 + r.Intn(tu*30/100) // around the deadline
		case x < 90:
			lat[i] = tu*125/100 + r.Intn(tu) // late: arrives during a later attempt or after the call
		default:
			lat[i] = 3 * tu
		}
		dup[i] = -1
		if r.Intn(100) < 22 {
			switch r.Intn(3) {
			case 0:
				dup[i] = r.Intn(lat[i] + 1) // before the regular response
			case 1:
				dup[i] = lat[i] + r.Intn(2000) // right after it
			default:
				dup[i] = lat[i] + tu/2 + r.Intn(tu)
			}
		}
	}
	cs := callSpec{Call: call, Payload: reqPayload{N: call, Lat: lat, Dup: dup}, CancelUs: -1}
	if r.Intn(100) < 15 {
		cs.CancelUs = r.Intn(2 * tu)
	}
	return cs
}

type trafficMeta struct {
	Rounds        int                    `json:"rounds"`
	RoundsDone    int                    `json:"rounds_done"`
	Calls         int                    `json:"calls"`
	TimeoutMs     int                    `json:"timeout_ms"`
	MaxRetry      int                    `json:"max_retry"`
	Stats         segStats               `json:"stats"`
	Lines         int                    `json:"lines"`
	MaxDup        int                    `json:"max_dup"`
	MaxDurUs      int64                  `json:"max_call_duration_us"`
	BoundUs       int64                  `json:"duration_bound_us"`
	Findings      []finding              `json:"findings"`
	Shape         map[string]interface{} `json:"shape"`
	SetupErr      string                 `json:"setup_error"`
	PendingChecks int                    `json:"pending_checks"`
	Traces        []traceFile            `json:"traces"`
	Samples       []tev                  `json:"samples"`
	Abandoned     int                    `json:"rounds_abandoned"`
}

type traceFile struct {
	File  string `json:"file"`
	Lines int    `json:"lines"`
	Calls int    `json:"calls"`
	Round int    `json:"round"`
}

func traffic(args []string) int {
	tracePath, metaPath := args[0], args[1]
	rounds, _ := strconv.Atoi(args[2])
	workers, _ := strconv.Atoi(args[3])
	per, _ := strconv.Atoi(args[4])
	tms, _ := strconv.Atoi(args[5])
	T := time.Duration(tms) * time.Millisecond
	seed := int64(tj.EnvInt("VERIF_SEED", 1))
	rng := rand.New(rand.NewSource(seed))
	R := p2p.VerifMaxRetries()
	meta := trafficMeta{Rounds: rounds, TimeoutMs: tms, MaxRetry: R, Shape: map[string]interface{}{}}
	defer func() { tj.WriteJSON(metaPath, meta) }()
	rec := newRecorder()
	ncalls := workers * per
	slack := 2 * time.Second
	for round := 0; round < rounds; round++ {
		p, err := newPair(rec, T)
		if err != nil {
			meta.SetupErr = err.Error()
			return 3
		}
		specs := make([]callSpec, ncalls)
		for i := range specs {
			specs[i] = genCall(rng, i+1, T, R)
		}
		results := make([]callResult, ncalls)
		var wg sync.WaitGroup
		var hung int32
		for wk := 0; wk < workers; wk++ {
			wg.Add(1)
			go func(wk int) {
				defer wg.Done()
				for j := 0; j < per; j++ {
					if atomic.LoadInt32(&hung) != 0 {
						return
					}
					i := wk*per + j
					// bound: (retries+1) * timeout (+ hold of a cancel) + slack
					bound := time.Duration(R+1)*T + slack
					res := doCall(rec, p, specs[i], bound+3*time.Second)
					results[i] = res
					if res.Hung {
						atomic.StoreInt32(&hung, 1)
						return
					}
				}
			}(wk)
		}
		wg.Wait()
		boundUs := (time.Duration(R+1)*T + slack).Microseconds()
		meta.BoundUs = boundUs
		if atomic.LoadInt32(&hung) != 0 {
			di := analyzeDump()
			_, lockFree := p.a.VerifTryPending()
			key := "request-never-returns"
			if di.ResponderInChanSend && !lockFree {
				key = "deadlock:deliver-under-lock"
			}
			var hc []int
			for _, r := range results {
				if r.Hung {
					hc = append(hc, r.Call)
				}
			}
			meta.Findings = append(meta.Findings, finding{Key: key, What: fmt.Sprintf("random traffic round %d: RequestFrom did not return within (retries+1)*timeout+%v; resMu free=%v; onResponse blocked in chan send=%v", round, slack+3*time.Second, lockFree, di.ResponderInChanSend), Detail: map[string]interface{}{"round": round, "hung_calls": hc, "dump": di}})
			// abandon this pair of hosts; its events are not part of the trace
			rec.hostA.Store(nil)
			p2p.VerifSetHook(nil)
			meta.Abandoned++
			continue
		}
		// quiescence: all handlers and duplicate senders finished, their responses handled
		hdone := make(chan struct{})
		go func() { p.rs.wg.Wait(); close(hdone) }()
		select {
		case <-hdone:
		case <-time.After(4*T + 3*time.Second):
		}
		waitFor(1500*time.Millisecond, func() bool { return int64(rec.count("res.locked")) >= atomic.LoadInt64(&p.rs.responses) })
		time.Sleep(30 * time.Millisecond)
		pending := -1
		waitFor(2*time.Second, func() bool {
			n, ok := p.a.VerifTryPending()
			if ok {
				pending = n
			}
			return ok
		})
		meta.PendingChecks++
		evs := rec.snapshot()
		p2p.VerifSetHook(nil)
		if pending < 0 {
			di := analyzeDump()
			meta.Findings = append(meta.Findings, finding{Key: "deadlock:resMu-held-at-quiescence", What: "resMu still held 2 s after all calls returned", Detail: di})
			rec.hostA.Store(nil)
			meta.Abandoned++
			continue
		}
		resMap := map[int]callResult{}
		for _, r := range results {
			resMap[r.Call] = r
		}
		var st segStats
		lines, atts, finds := normalise(evs, ncalls, R, pending, p.rs, resMap, &st)
		meta.Findings = append(meta.Findings, finds...)
		if pending != 0 {
			meta.Findings = append(meta.Findings, finding{Key: "pending-leak", What: fmt.Sprintf("VerifPending() = %d after all %d calls of round %d returned", pending, ncalls, round), Detail: map[string]int{"round": round, "pending": pending}})
		}
		// direct assertions on the real results
		for _, r := range results {
			meta.Calls++
			if r.DurUs > meta.MaxDurUs {
				meta.MaxDurUs = r.DurUs
			}
			if r.DurUs > boundUs {
				meta.Findings = append(meta.Findings, finding{Key: "request-exceeds-budget", What: fmt.Sprintf("call %d returned %s after %d us > (retries+1)*timeout+slack = %d us", r.Call, r.Res, r.DurUs, boundUs), Detail: r})
			}
			as := atts[r.Call]
			switch r.Res {
			case "resp":
				st.Resp++
				ok := false
				if len(as) > 0 {
					p.rs.mu.Lock()
					want, have := p.rs.produced[as[len(as)-1].ID]
					p.rs.mu.Unlock()
					ok = have && want == r.Data && strings.HasPrefix(r.Data, fmt.Sprintf("%d|%s|", r.Call, as[len(as)-1].ID))
				}
				if !ok {
					meta.Findings = append(meta.Findings, finding{Key: "miscorrelated-response", What: fmt.Sprintf("call %d (round %d) received payload %q which is not what the remote handler produced for the request id of its last attempt", r.Call, round, r.Data), Detail: map[string]interface{}{"result": r, "attempts": as}})
				}
			case "timeout":
				st.Timeout++
				if len(as) != R+1 {
					meta.Findings = append(meta.Findings, finding{Key: "retry-budget", What: fmt.Sprintf("call %d returned timeout after %d attempts (budget %d)", r.Call, len(as), R+1), Detail: r})
				}
			case "cancel":
				st.Cancel++
			default:
				st.Error++
			}
			if len(as) > R+1 {
				meta.Findings = append(meta.Findings, finding{Key: "retry-budget", What: fmt.Sprintf("call %d made %d attempts (budget %d)", r.Call, len(as), R+1), Detail: r})
			}
		}
		st.Calls = ncalls
		addStats(&meta.Stats, &st)
		tf := fmt.Sprintf("%s_%03d.ndjson", tracePath, round)
		w, err := tj.NewWriter(tf)
		if err != nil {
			meta.SetupErr = err.Error()
			return 3
		}
		for _, l := range lines {
			if l.D > meta.MaxDup {
				meta.MaxDup = l.D
			}
			w.Emit(l)
		}
		w.Close()
		meta.Lines += w.N
		meta.Traces = append(meta.Traces, traceFile{File: tf, Lines: w.N, Calls: ncalls, Round: round})
		if len(meta.Samples) < 8 {
			for _, l := range lines {
				if len(meta.Samples) < 8 && (l.Ev == "Miss" || l.Ev == "Found" || l.Ev == "Returned" || l.Ev == "TimerFired") {
					meta.Samples = append(meta.Samples, l)
				}
			}
		}
		meta.RoundsDone++
		p.stop()
	}
	s := meta.Stats
	meta.Shape["register_first"] = s.RegisterBeforeSend > 0 && s.SendBeforeRegister == 0
	meta.Shape["register_first_evidence"] = map[string]int{"registered_then_sent": s.RegisterBeforeSend, "sent_then_registered": s.SendBeforeRegister}
	meta.Shape["deliver_under_lock"] = s.HeldAtDeliver > 0 && s.FreeAtDeliver == 0
	meta.Shape["deliver_under_lock_evidence"] = map[string]int{"resMu_held_at_beforeDeliver": s.HeldAtDeliver, "resMu_free_at_beforeDeliver": s.FreeAtDeliver}
	return 0
}

func addStats(a, b *segStats) {
	a.Calls += b.Calls
	a.Attempts += b.Attempts
	a.Sent += b.Sent
	a.Registered += b.Registered
	a.Timers += b.Timers
	a.Locked += b.Locked
	a.Found += b.Found
	a.Miss += b.Miss
	a.Dups += b.Dups
	a.Stray += b.Stray
	a.Resp += b.Resp
	a.Timeout += b.Timeout
	a.Cancel += b.Cancel
	a.Error += b.Error
	a.EarlyLocked += b.EarlyLocked
	a.HeldAtDeliver += b.HeldAtDeliver
	a.FreeAtDeliver += b.FreeAtDeliver
	a.RegisterBeforeSend += b.RegisterBeforeSend
	a.SendBeforeRegister += b.SendBeforeRegister
	a.LateMiss += b.LateMiss
}

// ---------------------------------------------------------------- forced schedules

type forcedResult struct {
	Scenario    string                   `json:"scenario"`
	TimeoutMs   int                      `json:"timeout_ms"`
	MaxRetry    int                      `json:"max_retry"`
	Established bool                     `json:"established"`
	Why         string                   `json:"why_not_established"`
	Attempts    []map[string]interface{} `json:"attempts"`
	Call        callResult               `json:"call"`
	Fresh       *callResult              `json:"fresh_call,omitempty"`
	Violation   string                   `json:"violation"`
	What        string                   `json:"what"`
	Dump        *dumpInfo                `json:"dump,omitempty"`
	DumpHold    *dumpInfo                `json:"dump_while_held,omitempty"`
	LockFree    *bool                    `json:"resMu_free_at_watchdog,omitempty"`
	Shape       map[string]interface{}   `json:"shape"`
	Schedule    []string                 `json:"schedule"`
	Events      []string                 `json:"events"`
	SetupErr    string                   `json:"setup_error"`
	Lines       int                      `json:"lines"`
}

func evStrings(evs []rawEv, ids map[string]string) []string {
	out := []string{}
	for _, e := range evs {
		id := e.ID
		if s, ok := ids[id]; ok {
			id = s
		}
		switch e.Point {
		case "call.start":
			out = append(out, fmt.Sprintf("%7dus g%d call.start(%d)", e.T, e.Gid, e.Call))
		case "call.return":
			out = append(out, fmt.Sprintf("%7dus g%d call.return(%d)=%s", e.T, e.Gid, e.Call, e.Res))
		default:
			out = append(out, fmt.Sprintf("%7dus g%d %s(%s)", e.T, e.Gid, e.Point, id))
		}
	}
	return out
}

func writeForcedTrace(path string, evs []rawEv, ncalls int, p *pair, results map[int]callResult, res *forcedResult) {
	var st segStats
	pending := 0
	if n, ok := p.a.VerifTryPending(); ok {
		pending = n
	}
	lines, atts, _ := normalise(evs, ncalls, p2p.VerifMaxRetries(), pending, p.rs, results, &st)
	w, err := tj.NewWriter(path)
	if err != nil {
		return
	}
	for _, l := range lines {
		if l.Ev == "Quiesce" {
			continue // forced runs may end with blocked goroutines: the trace is a prefix
		}
		w.Emit(l)
	}
	res.Lines = w.N
	w.Close()
	ids := map[string]string{}
	for c, as := range atts {
		for k, a := range as {
			ids[a.ID] = fmt.Sprintf("<<%d,%d>>", c, k)
		}
	}
	res.Events = evStrings(evs, ids)
	if len(res.Events) > 80 {
		res.Events = res.Events[:80]
	}
}

// forced schedule (a): every attempt is held at req.afterSend until its response arrived and was
// looked up.  The verdict is read from the real run only.
func forcedLost(args []string) int {
	tracePath, resPath := args[0], args[1]
	tms, _ := strconv.Atoi(args[2])
	T := time.Duration(tms) * time.Millisecond
	R := p2p.VerifMaxRetries()
	res := forcedResult{Scenario: "lost", TimeoutMs: tms, MaxRetry: R, Shape: map[string]interface{}{}}
	res.Schedule = []string{
		"requester: send request (handler latency 0), reach req.afterSend -> HOLD",
		"responder side of the requester host: onResponse(id) takes resMu (res.locked), looks id up, returns",
		"release requester: it registers resCh[id] (if not yet registered) and waits in the select",
		"repeat for every retry attempt",
	}
	defer func() { tj.WriteJSON(resPath, res) }()
	rec := newRecorder()
	p, err := newPair(rec, T)
	if err != nil {
		res.SetupErr = err.Error()
		return 3
	}
	var amu sync.Mutex
	rec.setGate("req.afterSend", func(id string) {
		info := map[string]interface{}{"id": id}
		t := time.Now()
		arrived := waitFor(3*time.Second, func() bool { return rec.seen("res.locked", id) })
		info["response_arrived_while_held"] = arrived
		looked := false
		if arrived {
			// lookup finished: either the deliver point was reached or resMu is free again
			looked = waitFor(1*time.Second, func() bool {
				if rec.seen("res.beforeDeliver", id) {
					return true
				}
				_, ok := p.a.VerifTryPending()
				return ok
			})
			time.Sleep(5 * time.Millisecond)
		}
		found := rec.seen("res.beforeDeliver", id)
		info["lookup_finished_while_held"] = looked
		info["lookup_found_entry"] = found
		info["held_us"] = time.Since(t).Microseconds()
		amu.Lock()
		res.Attempts = append(res.Attempts, info)
		amu.Unlock()
	})
	hold := 4 * time.Second
	cs := callSpec{Call: 1, Payload: reqPayload{N: 1, Lat: []int{0}, Dup: []int{-1}}, CancelUs: -1}
	r := doCall(rec, p, cs, time.Duration(R+1)*(T+hold)+5*time.Second)
	res.Call = r
	time.Sleep(50 * time.Millisecond)
	evs := rec.snapshot()
	p2p.VerifSetHook(nil)
	// evaluate
	amu.Lock()
	atts := res.Attempts
	amu.Unlock()
	if len(atts) == 0 {
		res.Why = "hook req.afterSend never reached"
	}
	lost := 0
	dropped := 0
	allArrived := len(atts) > 0
	for _, a := range atts {
		id := a["id"].(string)
		arrived := a["response_arrived_while_held"].(bool)
		if !arrived {
			allArrived = false
			continue
		}
		fired := false
		for _, e := range evs {
			if e.Point == "req.timerFired" && e.ID == id {
				fired = true
			}
		}
		a["attempt_timed_out"] = fired
		if !a["lookup_found_entry"].(bool) && a["lookup_finished_while_held"].(bool) && fired {
			lost++
		}
		if a["lookup_found_entry"].(bool) && fired {
			// the response arrived in time, its pending entry WAS found - and the attempt still ran into its timeout:
			// the hand-over to the waiting requester dropped it
			dropped++
		}
	}
	res.Established = allArrived
	if !allArrived && res.Why == "" {
		res.Why = "the response did not arrive while the requester was held at req.afterSend"
	}
	if r.Hung {
		res.Established = false
		res.Why = "call did not return inside the harness bound"
	}
	if res.Established && lost > 0 {
		res.Violation = "lost-reply:response-before-registration"
		res.What = fmt.Sprintf("forced schedule on the real code: %d of %d attempts had their response arrive (handler latency 0) and be dropped as 'unknown request ID' before the requester registered resCh[id]; each of these attempts then waited the full %d ms and timed out; RequestFrom returned %q after %d ms", lost, len(atts), tms, r.Res+errSuffix(r.Err), r.DurUs/1000)
	}
	if res.Established && res.Violation == "" && dropped > 0 {
		res.Violation = "lost-reply:response-dropped-while-pending"
		res.What = fmt.Sprintf("forced schedule on the real code: %d of %d attempts had their response arrive in time (handler latency 0) and find the pending entry while the requester was between sending and waiting, and nevertheless timed out after the full %d ms: the hand-over dropped the reply; RequestFrom returned %q after %d ms", dropped, len(atts), tms, r.Res+errSuffix(r.Err), r.DurUs/1000)
	}
	sent, reg := -1, -1
	for _, e := range evs {
		if e.Point == "req.afterSend" && sent < 0 {
			sent = e.Seq
		}
		if e.Point == "req.registered" && reg < 0 {
			reg = e.Seq
		}
	}
	if sent >= 0 && reg >= 0 {
		res.Shape["register_first"] = reg < sent
	}
	// requests that never leave: the caller's context is already cancelled, or the peer is not reachable.  They end with an
	// error - and must not leave a pending entry behind ("... or leak a pending entry")
	if res.Violation == "" && res.Established {
		p2p.VerifSetHook(nil)
		before, okb := p.a.VerifTryPending()
		failed := 0
		for i := 0; i < 8; i++ {
			cctx, cancel := context.WithCancel(context.Background())
			cancel()
			if resp := p.a.RequestFrom(cctx, p.bID, proc, []byte(`{"n":900,"lat":[0],"dup":[-1]}`)); resp.Error() != nil {
				failed++
			}
		}
		_, pk, _ := lcryptoKey()
		if unknown, err := peer.IDFromPublicKey(pk); err == nil {
			for i := 0; i < 3; i++ {
				cctx, cancel := context.WithTimeout(context.Background(), 300*time.Millisecond)
				if resp := p.a.RequestFrom(cctx, unknown, proc, []byte(`{"n":901,"lat":[0],"dup":[-1]}`)); resp.Error() != nil {
					failed++
				}
				cancel()
			}
		}
		time.Sleep(100 * time.Millisecond)
		after, oka := p.a.VerifTryPending()
		res.Shape["failed_sends"] = failed
		if okb && oka && failed > 0 && after > before {
			res.Violation = "leak:pending-entry-after-failed-send"
			res.What = fmt.Sprintf("%d requests whose send step failed (context cancelled before the call, unreachable peer) ended with an error and left %d pending entries behind (before: %d)", failed, after, before)
		}
	}
	writeForcedTrace(tracePath, evs, 1, p, map[int]callResult{1: r}, &res)
	return 0
}

func lcryptoKey() (lcrypto.PrivKey, lcrypto.PubKey, error) {
	return lcrypto.GenerateEd25519Key(crand.Reader)
}

func errSuffix(e string) string {
	if e == "" {
		return ""
	}
	return " (" + e + ")"
}

// forced schedule (b): attempt 0 times out and is held at req.timerFired until its late response
// reached res.beforeDeliver; then the timer path is released.  Watchdog on the call and a fresh call.
func forcedDeadlock(args []string) int {
	tracePath, resPath := args[0], args[1]
	tms, _ := strconv.Atoi(args[2])
	T := time.Duration(tms) * time.Millisecond
	R := p2p.VerifMaxRetries()
	res := forcedResult{Scenario: "deadlock", TimeoutMs: tms, MaxRetry: R, Shape: map[string]interface{}{}}
	res.Schedule = []string{
		fmt.Sprintf("requester: attempt 0 sent and registered; handler latency %d ms > timeout %d ms", tms+tms/2, tms),
		"requester: timer fires (req.timerFired) -> HOLD before it takes resMu to unregister",
		"late response: onResponse(id) takes resMu (res.locked), finds the entry, reaches res.beforeDeliver (ch <- resp)",
		"a duplicate of the late response arrives 40 ms later, while the first copy is unread and the requester still held",
		"release requester: it needs resMu to delete resCh[id]",
		"watchdog: the call (retries answer immediately) and a fresh independent RequestFrom must return within (retries+1)*timeout+slack",
	}
	defer func() { tj.WriteJSON(resPath, res) }()
	rec := newRecorder()
	p, err := newPair(rec, T)
	if err != nil {
		res.SetupErr = err.Error()
		return 3
	}
	var once sync.Once
	released := make(chan struct{})
	var est atomic.Bool
	var why atomic.Value
	rec.setGate("req.timerFired", func(id string) {
		first := false
		once.Do(func() { first = true })
		if !first {
			return
		}
		defer close(released)
		info := map[string]interface{}{"id": id}
		ok := waitFor(time.Duration(tms/2)*time.Millisecond+4*time.Second, func() bool { return rec.seen("res.beforeDeliver", id) })
		info["late_response_reached_beforeDeliver_while_held"] = ok
		if !ok {
			if rec.seen("res.locked", id) {
				why.Store("late response was looked up but res.beforeDeliver was not reached (entry not found)")
			} else {
				why.Store("late response never arrived while the requester was held at req.timerFired")
			}
		} else {
			time.Sleep(150 * time.Millisecond) // let onResponse proceed into the channel send
			d := analyzeDump()
			res.DumpHold = &d
			_, free := p.a.VerifTryPending()
			info["resMu_free_while_responder_at_send"] = free
			res.Shape["buffered_or_nonblocking_send"] = !d.ResponderInChanSend
			res.Shape["deliver_under_lock"] = !free
			est.Store(true)
		}
		res.Attempts = append(res.Attempts, info)
	})
	slack := 3 * time.Second
	bound := time.Duration(R+1)*T + slack
	late := int((T + T/2).Microseconds())
	// ... and a DUPLICATE of that late response 40 ms after it: it finds the entry still registered and the first copy unread
	// in the channel - it must be dropped (or buffered), never waited for under the lock
	cs := callSpec{Call: 1, Payload: reqPayload{N: 1, Lat: []int{late, 0}, Dup: []int{late + 40000, -1}}, CancelUs: -1}
	xdone := make(chan callResult, 1)
	go func() { xdone <- doCall(rec, p, cs, 2*bound+8*time.Second) }()
	select {
	case <-released:
	case <-time.After(T + 10*time.Second):
		res.Why = "hook req.timerFired never reached"
	}
	res.Established = est.Load()
	if w, ok := why.Load().(string); ok && res.Why == "" {
		res.Why = w
	}
	// fresh independent request after the release
	ydone := make(chan callResult, 1)
	go func() {
		ydone <- doCall(rec, p, callSpec{Call: 2, Payload: reqPayload{N: 2, Lat: []int{0}, Dup: []int{-1}}, CancelUs: -1}, bound)
	}()
	y := <-ydone
	res.Fresh = &y
	var x callResult
	select {
	case x = <-xdone:
	case <-time.After(bound):
		x = callResult{Call: 1, Hung: true, DurUs: bound.Microseconds()}
	}
	res.Call = x
	evs := rec.snapshot()
	if x.Hung || y.Hung {
		d := analyzeDump()
		res.Dump = &d
		_, free := p.a.VerifTryPending()
		res.LockFree = &free
		if res.Established {
			if d.ResponderInChanSend && !free {
				res.Violation = "deadlock:deliver-under-lock"
				res.What = fmt.Sprintf("forced schedule on the real code: attempt 0 timed out (timeout %d ms); its late response found resCh[id] still registered and onResponse blocked in `ch <- resp` while holding resMu; the requester, past its select, blocks in resMu.Lock() to unregister: both goroutines stay blocked.  Watchdog: the call returned=%v, a fresh independent RequestFrom returned=%v within (retries+1)*timeout+%v = %v; goroutine dump: onResponse in chan send=%v, sendRequestMessage waiting for resMu=%v; resMu free=%v", tms, !x.Hung, !y.Hung, slack, bound, d.ResponderInChanSend, d.RequesterOnMutex, free)
			} else {
				res.Violation = "request-never-returns"
				res.What = fmt.Sprintf("forced schedule on the real code: after a late response raced with the timeout path, RequestFrom did not return within %v (call returned=%v, fresh call returned=%v); onResponse in chan send=%v, resMu free=%v", bound, !x.Hung, !y.Hung, d.ResponderInChanSend, free)
			}
		}
	}
	// "the response the remote handler produced for that very request": the payload a call returns must be the one
	// produced for the request id of its LAST attempt (a late response to an earlier attempt that was left behind in a
	// re-used channel is a response delivered to a different request)
	if res.Violation == "" && res.Established {
		for _, c := range []callResult{x, y} {
			if c.Hung || c.Res != "resp" {
				continue
			}
			var gid int64 = -1
			last := ""
			for _, e := range evs {
				if e.Point == "call.start" && e.Call == c.Call {
					gid = e.Gid
				}
				if e.Point == "req.registered" && e.Gid == gid && gid >= 0 {
					last = e.ID
				}
			}
			p.rs.mu.Lock()
			want, have := p.rs.produced[last]
			p.rs.mu.Unlock()
			if !have || want != c.Data {
				res.Violation = "miscorrelated-response:after-late-response"
				res.What = fmt.Sprintf("forced schedule on the real code: attempt 0 of call 1 timed out and its late response arrived while the requester was between its select and the unregistration; call %d then returned payload %q, the remote handler produced %q for the request id %s of its last attempt", c.Call, c.Data, want, last)
				break
			}
		}
	}
	p2p.VerifSetHook(nil)
	writeForcedTrace(tracePath, evs, 2, p, map[int]callResult{1: x, 2: y}, &res)
	return 0
}

func main() {
	if len(os.Args) < 2 {
		fmt.Fprintln(os.Stderr, "usage: c17 traffic|lost|deadlock ...")
		os.Exit(3)
	}
	rc := 3
	switch os.Args[1] {
	case "traffic":
		if len(os.Args) >= 8 {
			rc = traffic(os.Args[2:])
		}
	case "lost":
		if len(os.Args) >= 5 {
			rc = forcedLost(os.Args[2:])
		}
	case "deadlock":
		if len(os.Args) >= 5 {
			rc = forcedDeadlock(os.Args[2:])
		}
	}
	// hosts of a deadlocked scenario are abandoned: leave without waiting for them
	os.Exit(rc)
}
