package main

// trace normalisation: raw events of one segment -> lines of spec/trace/ReqRespTrace.tla, one trace per requesting host.

import (
	"fmt"
	"sort"
	"strings"
)

type tev struct {
	Ev      string `json:"ev"`
	C       int    `json:"c"`
	K       int    `json:"k"`
	D       int    `json:"d"`
	Res     string `json:"res"`
	Corr    int    `json:"corr"`
	N       int    `json:"n"`
	Pending int    `json:"pending"`
	T       int64  `json:"t"`
	Tmo     int64  `json:"tmo"`
	Dl      int    `json:"dl"`
}

type attemptInfo struct {
	ID                                string
	Call, K                           int
	FirstSeq                          int
	SentSeq, RegSeq, FiredSeq         int
	SentT, RegT, FiredT, FoundT       int64
	Locked, Found, Missed, MissBefore int // MissBefore: misses before the timer fired / the attempt ended
	MissBeforeReg                     int
	Responded                         int
}

type segStats map[string]int

func addStats(a, b segStats) {
	for k, v := range b {
		a[k] += v
	}
}

type finding struct {
	Key    string      `json:"key"`
	What   string      `json:"what"`
	Detail interface{} `json:"detail"`
}

type normOut struct {
	Lines    []tev
	Atts     map[int][]*attemptInfo // global call number -> attempts
	Local    map[int]int            // global call number -> call number in this trace
	Finds    []finding
	Unattrib int // request-side events that could not be attributed to a call
	SharedID int // attempts that re-used the id of an earlier attempt
}

// attempts segments the request-side events of every call into attempts.  A new attempt starts with a new id, with an event
// of a kind the current attempt already has, or with any event after the timer of the current attempt fired (so that a layer
// that keeps one message id over its retries is segmented correctly as well).
func attempts(evs []rawEv, w *world, unattrib *int) (map[int][]*attemptInfo, map[string][]*attemptInfo, map[string]int) {
	atts := map[int][]*attemptInfo{}
	byID := map[string][]*attemptInfo{}
	idCall := map[string]int{}
	for _, e := range evs {
		if !strings.HasPrefix(e.Point, "req.") {
			continue
		}
		c := e.Call
		if c == 0 {
			c = idCall[e.ID]
		}
		if c == 0 {
			c = w.nonceOf(e.ID) // the answering handler saw the call number in the payload of that request id
		}
		if c == 0 {
			*unattrib++
			continue
		}
		if _, ok := idCall[e.ID]; !ok {
			idCall[e.ID] = c
		}
		var a *attemptInfo
		if n := len(atts[c]); n > 0 {
			a = atts[c][n-1]
			fresh := a.ID != e.ID || a.FiredSeq >= 0
			switch e.Point {
			case "req.afterSend":
				fresh = fresh || a.SentSeq >= 0
			case "req.registered":
				fresh = fresh || a.RegSeq >= 0
			}
			if fresh {
				a = nil
			}
		}
		if a == nil {
			a = &attemptInfo{ID: e.ID, Call: c, K: len(atts[c]), FirstSeq: e.Seq, SentSeq: -1, RegSeq: -1, FiredSeq: -1}
			atts[c] = append(atts[c], a)
			byID[e.ID] = append(byID[e.ID], a)
		}
		switch e.Point {
		case "req.afterSend":
			a.SentSeq, a.SentT = e.Seq, e.T
		case "req.registered":
			a.RegSeq, a.RegT = e.Seq, e.T
		case "req.timerFired":
			a.FiredSeq, a.FiredT = e.Seq, e.T
		}
	}
	return atts, byID, idCall
}

// attemptAt: the attempt an event for request id `id` at sequence number seq belongs to (the last attempt with that id
// that had started by then).
func attemptAt(byID map[string][]*attemptInfo, id string, seq int) *attemptInfo {
	as := byID[id]
	if len(as) == 0 {
		return nil
	}
	a := as[0]
	for _, x := range as[1:] {
		if x.FirstSeq < seq {
			a = x
		}
	}
	return a
}

// normalise emits the trace of the calls made by host `host`.
func normalise(evs []rawEv, w *world, host string, pending int, withResponded bool, st segStats) normOut {
	var no normOut
	atts, byID, _ := attempts(evs, w, &no.Unattrib)
	no.Atts = atts
	// calls of this host, numbered 1..n in the order of their call numbers
	var calls []int
	deadline := map[int]int{}
	returnSeq := map[int]int{}
	for _, e := range evs {
		if e.Point == "call.start" && e.Host == host {
			calls = append(calls, e.Call)
		}
		if e.Point == "call.return" {
			returnSeq[e.Call] = e.Seq
			deadline[e.Call] = e.Dl
		}
	}
	sort.Ints(calls)
	no.Local = map[int]int{}
	for i, c := range calls {
		no.Local[c] = i + 1
	}
	shared := map[string]bool{}
	for id, as := range byID {
		if len(as) > 1 {
			shared[id] = true
			no.SharedID += len(as) - 1
		}
	}
	out := []tev{{Ev: "Reset", N: len(calls), K: w.R, C: 0, D: -1, Tmo: w.T.Microseconds()}}
	dupCount := map[*attemptInfo]int{}
	lastLocked := map[int64]*attemptInfo{} // goroutine -> attempt it has locked for
	lastD := map[int64]int{}
	nextOfGid := make([]int, len(evs))
	last := map[int64]int{}
	for i := len(evs) - 1; i >= 0; i-- {
		if j, ok := last[evs[i].Gid]; ok {
			nextOfGid[i] = j
		} else {
			nextOfGid[i] = -1
		}
		last[evs[i].Gid] = i
	}
	mine := func(a *attemptInfo) (int, bool) {
		if a == nil {
			return 0, false
		}
		c, ok := no.Local[a.Call]
		return c, ok
	}
	for i, e := range evs {
		switch e.Point {
		case "req.afterSend", "req.registered", "req.timerFired":
			a := attemptAt(byID, e.ID, e.Seq+1)
			c, ok := mine(a)
			if !ok {
				continue
			}
			name := map[string]string{"req.afterSend": "Sent", "req.registered": "Registered", "req.timerFired": "TimerFired"}[e.Point]
			out = append(out, tev{Ev: name, C: c, K: a.K, D: -1, T: e.T})
			st[map[string]string{"Sent": "Sent", "Registered": "Registered", "TimerFired": "Timers"}[name]]++
		case "rs.return":
			a := attemptAt(byID, e.ID, e.Seq)
			c, ok := mine(a)
			if !ok {
				continue
			}
			a.Responded++
			st["HandlerReturns"]++
			if withResponded && !shared[e.ID] && a.Responded == 1 {
				out = append(out, tev{Ev: "Responded", C: c, K: a.K, D: -1, T: e.T})
				st["Responded"]++
			}
		case "res.locked":
			a := attemptAt(byID, e.ID, e.Seq)
			c, ok := mine(a)
			if !ok {
				if a == nil {
					st["Stray"]++
				}
				continue
			}
			d := dupCount[a]
			dupCount[a] = d + 1
			if d > 0 {
				st["Dups"]++
			}
			a.Locked++
			if a.SentSeq < 0 || e.Seq < a.SentSeq {
				st["EarlyLocked"]++
			}
			lastLocked[e.Gid] = a
			lastD[e.Gid] = d
			out = append(out, tev{Ev: "Locked", C: c, K: a.K, D: d, T: e.T})
			st["Locked"]++
			j := nextOfGid[i]
			if j < 0 || evs[j].Point != "res.beforeDeliver" || evs[j].ID != e.ID {
				out = append(out, tev{Ev: "Miss", C: c, K: a.K, D: d, T: e.T})
				st["Miss"]++
				a.Missed++
				// was the attempt still going to wait for it (timer not fired, call not returned)?
				ended := a.FiredSeq >= 0 && a.FiredSeq < e.Seq
				if rs, ok := returnSeq[a.Call]; ok && rs < e.Seq {
					ended = true
				}
				if !ended {
					a.MissBefore++
					if a.RegSeq < 0 || e.Seq < a.RegSeq {
						a.MissBeforeReg++
					}
				} else {
					st["LateMiss"]++
				}
			}
		case "res.beforeDeliver":
			a := lastLocked[e.Gid]
			c, ok := mine(a)
			if !ok || a.ID != e.ID {
				continue
			}
			out = append(out, tev{Ev: "Found", C: c, K: a.K, D: lastD[e.Gid], T: e.T})
			st["Found"]++
			st["Found@"+host]++
			if a.Found == 0 {
				a.FoundT = e.T
			}
			a.Found++
			if e.Held == 1 {
				st["HeldAtDeliver"]++
			} else if e.Held == 0 {
				st["FreeAtDeliver"]++
			}
		case "call.return":
			c, ok := no.Local[e.Call]
			if !ok {
				continue
			}
			k := len(atts[e.Call]) - 1
			corr := 0
			if e.Res == "resp" && k >= 0 {
				if w.correlated(callResult{Data: e.Data, Err: e.Err}, []string{atts[e.Call][k].ID}) {
					corr = 1
				}
			}
			out = append(out, tev{Ev: "Returned", C: c, K: k, D: -1, Res: e.Res, Corr: corr, T: e.T, Dl: e.Dl})
		}
	}
	out = append(out, tev{Ev: "Quiesce", N: len(calls), Pending: pending, D: -1, K: -1})
	for _, c := range calls {
		as := atts[c]
		st["Attempts"] += len(as)
		for _, a := range as {
			if a.SentSeq >= 0 && a.RegSeq >= 0 {
				if a.RegSeq < a.SentSeq {
					st["RegisterBeforeSend"]++
				} else {
					st["SendBeforeRegister"]++
				}
			}
			if a.MissBefore > 0 && a.FiredSeq >= 0 && a.Found == 0 {
				key := "lost-reply:response-dropped-while-pending"
				if a.MissBeforeReg > 0 {
					key = "lost-reply:response-before-registration"
				}
				no.Finds = append(no.Finds, finding{Key: key, What: fmt.Sprintf("random traffic: the response for attempt %d of call %d (host %s) arrived while the attempt was still pending, was dropped as unknown request ID, and the attempt then timed out", a.K, c, host), Detail: a})
			}
		}
	}
	no.Lines = out
	return no
}
