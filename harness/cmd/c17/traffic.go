package main

// traffic mode: rounds of random concurrent traffic between real hosts, one profile per round.
//
//	plain   A requests, B answers (latencies around the timeout, duplicates, cancellations, deadlines)
//	sym     A and B request and answer at the same time, C is a second responder, some handlers issue a request of their own
//	limit   plain with a small real rate limit (10 messages per window, penalty 0) on every host
//	fail    plain + requests to a peer without address and to a black-holed address while the other traffic runs
//	err     handler-error replies (with and without data), nil / empty replies, nil requests, padded payloads that are echoed
//	burst   64 callers released at the same instant, two responders
//	stop    the connection is closed / the answering host stopped at a random time while requests wait

import (
	"fmt"
	"math/rand"
	"sort"
	"strconv"
	"strings"
	"sync"
	"sync/atomic"
	"time"

	"github.com/LiskHQ/lisk-engine/pkg/p2p"

	"verifharness/internal/tj"
)

func genCall(r *rand.Rand, call int, T time.Duration, maxRetry int, profile string) callSpec {
	tu := int(T.Microseconds())
	lat := make([]int, maxRetry+1)
	dup := make([]int, maxRetry+1)
	for i := range lat {
		switch x := r.Intn(100); {
		case x < 30:
			lat[i] = 0
		case x < 50:
			lat[i] = r.Intn(tu / 2)
		case x < 68:
			lat[i] = tu*85/100 + r.Intn(tu*30/100) // around the deadline
		case x < 90:
			lat[i] = tu*125/100 + r.Intn(tu) // late: arrives during a later attempt or after the call
		default:
			lat[i] = 3 * tu
		}
		dup[i] = -1
		if r.Intn(100) < 22 {
			switch r.Intn(3) {
			case 0:
				dup[i] = r.Intn(lat[i] + 1) // before the regular response
			case 1:
				dup[i] = lat[i] + r.Intn(2000) // right after it
			default:
				dup[i] = lat[i] + tu/2 + r.Intn(tu)
			}
		}
	}
	cs := callSpec{Call: call, From: "A", To: "B", Payload: reqPayload{N: call, Lat: lat, Dup: dup}, CancelUs: -1}
	if r.Intn(100) < 15 {
		cs.CancelUs = r.Intn(2 * tu)
		cs.Deadline = r.Intn(3) == 0
	}
	switch profile {
	case "fail":
		if r.Intn(100) < 12 {
			cs.To = "unknown"
		}
	case "err":
		errs := make([]int, maxRetry+1)
		emp := make([]int, maxRetry+1)
		for i := range errs {
			switch x := r.Intn(100); {
			case x < 14:
				errs[i] = 1
			case x < 28:
				errs[i] = 2
			case x < 37:
				emp[i] = 1
			case x < 45:
				emp[i] = 2
			}
		}
		cs.Payload.Err, cs.Payload.Emp = errs, emp
		switch x := r.Intn(100); {
		case x < 10:
			cs.NilReq = true
		case x < 50:
			cs.Payload.Echo = true
			cs.Pad = []int{0, 1, 4096, 64<<10 + 1}[r.Intn(4)]
		}
	}
	return cs
}

type trafficMeta struct {
	Rounds        int                    `json:"rounds"`
	RoundsDone    int                    `json:"rounds_done"`
	Profiles      []string               `json:"profiles"`
	Calls         int                    `json:"calls"`
	TimeoutMs     int                    `json:"timeout_ms"`
	MaxRetry      int                    `json:"max_retry"`
	Stats         segStats               `json:"stats"`
	PerProfile    map[string]segStats    `json:"per_profile"`
	Lines         int                    `json:"lines"`
	MaxDup        int                    `json:"max_dup"`
	MaxDurUs      int64                  `json:"max_call_duration_us"`
	BoundUs       int64                  `json:"duration_bound_us"`
	Findings      []finding              `json:"findings"`
	Shape         map[string]interface{} `json:"shape"`
	SetupErr      string                 `json:"setup_error"`
	PendingChecks int                    `json:"pending_checks"`
	Traces        []traceFile            `json:"traces"`
	Samples       []tev                  `json:"samples"`
	Abandoned     int                    `json:"rounds_abandoned"`
	Notes         []string               `json:"notes"`
	NoiseMaxUs    int64                  `json:"timer_noise_max_us"`
}

type traceFile struct {
	File    string `json:"file"`
	Lines   int    `json:"lines"`
	Calls   int    `json:"calls"`
	Round   int    `json:"round"`
	Host    string `json:"host"`
	Profile string `json:"profile"`
}

// hungKey names a round in which calls did not return.
func hungKey(w *world, di dumpInfo) (string, map[string]bool) {
	free := map[string]bool{}
	anyHeld := false
	for _, n := range w.names {
		_, ok := w.hosts[n].c.VerifTryPending()
		free[n] = ok
		if !ok && !w.hosts[n].stopped.Load() {
			anyHeld = true
		}
	}
	switch {
	case di.ResponderInChanSend && anyHeld:
		return "deadlock:deliver-under-lock", free
	case di.NestedUnderHandler && anyHeld:
		return "deadlock:handler-runs-under-resMu", free
	case anyHeld:
		return "deadlock:resMu-never-released", free
	}
	return "request-never-returns", free
}

func traffic(args []string) int {
	tracePath, metaPath := args[0], args[1]
	profiles := strings.Split(args[2], ",")
	if n, err := strconv.Atoi(args[2]); err == nil { // older replay files: a number of plain rounds
		profiles = nil
		for i := 0; i < n; i++ {
			profiles = append(profiles, "plain")
		}
	}
	workers, _ := strconv.Atoi(args[3])
	per, _ := strconv.Atoi(args[4])
	tms, _ := strconv.Atoi(args[5])
	T := time.Duration(tms) * time.Millisecond
	seed := int64(tj.EnvInt("VERIF_SEED", 1))
	rng := rand.New(rand.NewSource(seed))
	R := p2p.VerifMaxRetries()
	meta := trafficMeta{Rounds: len(profiles), Profiles: profiles, TimeoutMs: tms, MaxRetry: R, Shape: map[string]interface{}{}, Stats: segStats{}, PerProfile: map[string]segStats{}}
	defer func() { tj.WriteJSON(metaPath, meta) }()
	rec := newRecorder()
	slack := 2 * time.Second
	for round, profile := range profiles {
		names := []string{"A", "B"}
		limit := 0
		wk, pr := workers, per
		switch profile {
		case "sym", "burst":
			names = []string{"A", "B", "C"}
		case "limit":
			limit = 10
		}
		if profile == "burst" {
			wk, pr = 64, 1
		}
		w, err := newWorld(rec, T, names, limit)
		if err != nil {
			meta.SetupErr = err.Error()
			return 3
		}
		ncalls := wk * pr
		specs := make([]callSpec, ncalls)
		for i := range specs {
			specs[i] = genCall(rng, i+1, T, R, profile)
		}
		switch profile {
		case "sym":
			for i := range specs {
				if (i/pr)%2 == 1 { // every other worker runs on host B
					specs[i].From, specs[i].To = "B", "A"
				}
				if x := rng.Intn(100); x < 30 {
					specs[i].To = "C"
				} else if x < 50 { // the answering handler first asks back (or asks the second responder)
					if rng.Intn(2) == 0 {
						specs[i].Payload.Nest = specs[i].From
					} else {
						specs[i].Payload.Nest = "C"
					}
				}
			}
		case "burst":
			for i := range specs {
				if rng.Intn(3) == 0 {
					specs[i].To = "C"
				}
			}
		case "fail":
			// two requests to an address that accepts the TCP connection and never speaks, while the other traffic runs
			for _, i := range []int{1, pr + 2} {
				if i < ncalls {
					specs[i].To, specs[i].CancelUs, specs[i].Deadline = "blackhole", int((2*T + time.Duration(rng.Intn(int(2*T)))).Microseconds()), true
				}
			}
		}
		results := make([]callResult, ncalls)
		var wg sync.WaitGroup
		var hung int32
		nz := startNoise(5 * time.Millisecond)
		release := make(chan struct{})
		var closeAt time.Duration
		closed := make(chan struct{})
		pendingAtClose := -1
		stopKind := ""
		if profile == "stop" {
			closeAt = time.Duration(rng.Intn(int(2 * T)))
			stopKind = []string{"disconnect", "stop"}[rng.Intn(2)]
			go func() {
				<-release
				time.Sleep(closeAt)
				if n, ok := w.hosts["A"].c.VerifTryPending(); ok {
					pendingAtClose = n
				}
				if stopKind == "disconnect" {
					_ = w.hosts["A"].c.Disconnect(w.hosts["B"].c.ID())
				} else {
					w.hosts["B"].stopped.Store(true)
					_ = w.hosts["B"].c.Stop()
				}
				close(closed)
			}()
		} else {
			close(closed)
		}
		for k := 0; k < wk; k++ {
			wg.Add(1)
			go func(k int) {
				defer wg.Done()
				<-release
				for j := 0; j < pr; j++ {
					if atomic.LoadInt32(&hung) != 0 {
						return
					}
					i := k*pr + j
					// bound: (retries+1) * timeout + slack (+ the scheduling noise measured so far); the harness waits 3 s longer
					bound := time.Duration(R+1)*T + slack + 10*nz.max()
					if specs[i].Payload.Nest != "" {
						bound += time.Duration(R+1) * T
					}
					res := w.doCall(specs[i], bound+3*time.Second)
					results[i] = res
					if res.Hung {
						atomic.StoreInt32(&hung, 1)
						return
					}
				}
			}(k)
		}
		close(release)
		wg.Wait()
		<-closed
		noiseMin, noiseMax, _ := nz.end()
		if noiseMax > meta.NoiseMaxUs {
			meta.NoiseMaxUs = noiseMax
		}
		bound := time.Duration(R+1)*T + slack + 10*time.Duration(noiseMax)*time.Microsecond
		meta.BoundUs = bound.Microseconds()
		// panics of the request path (recovered on the calling goroutine)
		for _, r := range results {
			if r.Res == "panic" {
				meta.Findings = append(meta.Findings, finding{Key: "panic:request-path", What: fmt.Sprintf("round %d (%s): RequestFrom panicked on the caller's goroutine: %s", round, profile, firstLine(r.Panic)), Detail: r})
			}
		}
		w.mu.Lock()
		nested := append([]callResult(nil), w.nested...)
		w.mu.Unlock()
		for _, r := range nested {
			if r.Hung {
				atomic.StoreInt32(&hung, 1)
			}
		}
		if atomic.LoadInt32(&hung) != 0 {
			di := analyzeDump()
			key, free := hungKey(w, di)
			var hc []int
			for _, r := range append(results, nested...) {
				if r.Hung {
					hc = append(hc, r.Call)
				}
			}
			meta.Findings = append(meta.Findings, finding{Key: key, What: fmt.Sprintf("random traffic round %d (%s): RequestFrom did not return within (retries+1)*timeout+%v; resMu free per host=%v; onResponse blocked in chan send=%v; a handler's own request blocked inside onRequest=%v", round, profile, slack+3*time.Second, free, di.ResponderInChanSend, di.NestedUnderHandler), Detail: map[string]interface{}{"round": round, "profile": profile, "hung_calls": hc, "dump": di}})
			// abandon these hosts; their events are not part of the trace
			p2p.VerifSetHook(nil)
			meta.Abandoned++
			continue
		}
		// quiescence: all handlers and duplicate senders finished, their responses handled
		hdone := make(chan struct{})
		go func() {
			for _, n := range w.names {
				w.hosts[n].rs.wg.Wait()
			}
			close(hdone)
		}()
		select {
		case <-hdone:
		case <-time.After(8*T + 5*time.Second):
		}
		if profile != "stop" {
			waitFor(5*time.Second, func() bool { return int64(rec.count("res.locked")) >= atomic.LoadInt64(&w.responses) })
		}
		time.Sleep(30 * time.Millisecond)
		pending := map[string]int{}
		lockStuck := ""
		for _, n := range w.names {
			h := w.hosts[n]
			if h.stopped.Load() {
				continue
			}
			pending[n] = -1
			waitFor(2*time.Second, func() bool {
				x, ok := h.c.VerifTryPending()
				if ok {
					pending[n] = x
				}
				return ok
			})
			if pending[n] < 0 {
				lockStuck = n
			}
			meta.PendingChecks++
		}
		evs := rec.snapshot()
		p2p.VerifSetHook(nil)
		if lockStuck != "" {
			di := analyzeDump()
			meta.Findings = append(meta.Findings, finding{Key: "deadlock:resMu-held-at-quiescence", What: fmt.Sprintf("round %d (%s): resMu of host %s still held 2 s after all calls returned", round, profile, lockStuck), Detail: di})
			meta.Abandoned++
			continue
		}
		st := segStats{}
		all := append(append([]callResult(nil), results...), nested...)
		respondErrs := w.respondErrors()
		withResponded := profile != "stop" && respondErrs == 0
		if respondErrs > 0 {
			st["RespondErrors"] += int(respondErrs)
		}
		reqHosts := []string{"A"}
		if profile == "sym" {
			reqHosts = []string{"A", "B"}
		}
		var no0 normOut
		unattrib := 0
		type hostTrace struct {
			host string
			no   normOut
		}
		var hts []hostTrace
		for hi, hn := range reqHosts {
			no := normalise(evs, w, hn, pending[hn], withResponded, st)
			if hi == 0 {
				no0 = no
				unattrib = no.Unattrib
			}
			meta.Findings = append(meta.Findings, no.Finds...)
			hts = append(hts, hostTrace{hn, no})
		}
		for _, n := range w.names {
			if p, ok := pending[n]; ok && p != 0 {
				meta.Findings = append(meta.Findings, finding{Key: "pending-leak", What: fmt.Sprintf("VerifPending() of host %s = %d after all calls of round %d (%s) returned", n, p, round, profile), Detail: map[string]interface{}{"round": round, "pending": p, "host": n, "profile": profile}})
			}
		}
		// direct assertions on the real results
		atts := no0.Atts
		var timerDur, lateDeliveries []int64
		for _, r := range all {
			meta.Calls++
			st["Calls"]++
			if r.From == "B" {
				st["CallsFromB"]++
			}
			if r.Call > 1000 {
				st["NestedCalls"]++
				if r.Res == "resp" {
					st["NestedResp"]++
				}
			}
			if r.DurUs > meta.MaxDurUs {
				meta.MaxDurUs = r.DurUs
			}
			callBound := bound
			if r.Call <= ncalls && r.Call >= 1 && specs[r.Call-1].Payload.Nest != "" {
				callBound += time.Duration(R+1) * T
			}
			if r.DurUs > callBound.Microseconds() && r.Res != "panic" {
				meta.Findings = append(meta.Findings, finding{Key: "request-exceeds-budget", What: fmt.Sprintf("call %d (%s) returned %s after %d us > (retries+1)*timeout+slack = %d us", r.Call, profile, r.Res, r.DurUs, callBound.Microseconds()), Detail: r})
			}
			as := atts[r.Call]
			for _, a := range as {
				from := a.RegT
				if a.SentSeq >= 0 && a.SentT > from {
					from = a.SentT
				}
				if a.FiredSeq >= 0 {
					timerDur = append(timerDur, a.FiredT-from)
				} else if a.Found > 0 && a.SentSeq >= 0 && a.FoundT-from > 2*T.Microseconds() {
					lateDeliveries = append(lateDeliveries, a.FoundT-from) // still waiting (no timer) more than 2 x timeout after the send
				}
			}
			switch r.Res {
			case "resp":
				st["Resp"]++
				ok := false
				if len(as) > 0 {
					ok = w.correlated(r, []string{as[len(as)-1].ID})
				}
				if !ok {
					var want []product
					if len(as) > 0 {
						want = w.producedFor(as[len(as)-1].ID)
					}
					meta.Findings = append(meta.Findings, finding{Key: "miscorrelated-response", What: fmt.Sprintf("call %d (round %d, %s) received payload %q (%d bytes, error %q) which is not what the remote handler produced for the request id of its last attempt", r.Call, round, profile, r.Data.Head, r.Data.Len, r.Err), Detail: map[string]interface{}{"result": r, "attempts": as, "produced": want}})
				} else {
					if r.Err != "" {
						st["HandlerErrorDelivered"]++
						if r.Data.Len > 0 {
							st["HandlerErrorWithDataDelivered"]++
						}
					} else if r.Data.Len == 0 {
						st["EmptyReplyDelivered"]++
					}
					if strings.HasPrefix(r.Data.Head, "nil|") {
						st["NilRequestAnswered"]++
					}
					if r.Data.Len > 60<<10 {
						st["LargeEchoDelivered"]++
					}
					if r.To == "C" {
						st["SecondResponderReplies"]++
					}
				}
			case "timeout":
				st["Timeout"]++
				// fewer attempts than the budget are fine when the caller's deadline could not cover another one
				if len(as) < R+1 && !r.Deadline && len(as) > 0 {
					meta.Findings = append(meta.Findings, finding{Key: "retry-budget", What: fmt.Sprintf("call %d returned timeout after %d attempts (budget %d) although its context carried no deadline", r.Call, len(as), R+1), Detail: r})
				}
				if len(as) < R+1 && r.Deadline {
					st["EarlyGiveUp"]++
				}
			case "cancel":
				st["Cancel"]++
				if r.Deadline {
					st["DeadlineExpired"]++
				}
			case "error":
				st["Error"]++
				if r.To == "unknown" || r.To == "blackhole" {
					st["FailedSends"]++
					if r.To == "blackhole" {
						st["BlackholeCalls"]++
					}
				}
			}
			if len(as) > R+1 {
				meta.Findings = append(meta.Findings, finding{Key: "retry-budget", What: fmt.Sprintf("call %d made %d attempts (budget %d)", r.Call, len(as), R+1), Detail: r})
			}
		}
		// "within its timeout": the timers of this round, as a statistic that a busy machine cannot fake - the SHORTEST of
		// them is compared with the configured timeout (an early timer is judged per attempt by the trace specification);
		// if no timer fired at all although several attempts were still waiting for their reply after 2 x timeout, the
		// timer is longer than configured as well
		sort.Slice(timerDur, func(i, j int) bool { return timerDur[i] < timerDur[j] })
		st["TimersMeasured"] += len(timerDur)
		ctl := noiseMin // the least lateness of the harness' own 5 ms timers while the round ran
		tooLong := (len(timerDur) >= 5 && timerDur[0] > 2*T.Microseconds()) || (len(lateDeliveries) >= 3 && (len(timerDur) == 0 || timerDur[0] > 2*T.Microseconds()))
		if tooLong && ctl < (T / 2).Microseconds() {
			shortest := int64(-1)
			if len(timerDur) > 0 {
				shortest = timerDur[0]
			}
			meta.Findings = append(meta.Findings, finding{Key: "request-exceeds-budget:attempt-timer", What: fmt.Sprintf("round %d (%s): the configured timeout is %d us; the shortest of %d attempt timers fired %d us after the attempt started waiting (-1: none fired), and %d attempts were still waiting for their reply more than 2 x timeout after their send (control timers of the harness were %d us late at least)", round, profile, T.Microseconds(), len(timerDur), shortest, len(lateDeliveries), ctl), Detail: map[string]interface{}{"timers_us": timerDur[:minInt(5, len(timerDur))], "waits_us": lateDeliveries[:minInt(5, len(lateDeliveries))], "timeout_us": T.Microseconds()}})
		}
		if profile == "stop" {
			st["StopRounds"]++
			st["Stop:"+stopKind]++
			if pendingAtClose > 0 {
				st["PendingWhenConnectionClosed"] += pendingAtClose
			}
			// a fresh call on the surviving host: must return (whatever the result), and leave nothing pending
			fr := w.doCall(callSpec{Call: 999, From: "A", To: "B", Payload: reqPayload{N: 999, Lat: []int{0}, Dup: []int{-1}}, CancelUs: -1}, bound+3*time.Second)
			if fr.Hung {
				di := analyzeDump()
				key, free := hungKey(w, di)
				meta.Findings = append(meta.Findings, finding{Key: key, What: fmt.Sprintf("round %d: after the connection was closed (%s) while %d requests were pending, a fresh RequestFrom did not return; resMu free=%v", round, stopKind, pendingAtClose, free), Detail: di})
			} else {
				st["FreshCallAfterStop:"+fr.Res]++
			}
		}
		if profile == "burst" {
			st["BurstCallers"] += wk
		}
		st["Unattributed"] += unattrib
		st["SharedIdAttempts"] += no0.SharedID
		addStats(meta.Stats, st)
		if meta.PerProfile[profile] == nil {
			meta.PerProfile[profile] = segStats{}
		}
		addStats(meta.PerProfile[profile], st)
		if unattrib > 0 {
			// request-side schedule points that belong to no known call: the trace would be incomplete - not validated
			meta.Notes = append(meta.Notes, fmt.Sprintf("round %d (%s): %d request-side events could not be attributed to a call; trace not validated", round, profile, unattrib))
		} else {
			for _, ht := range hts {
				// the projection of a behaviour of ReqResp onto a subset of the calls of a host is a behaviour of ReqResp (calls
				// interact through resMu only, and every logged critical section is atomic): a trace with many calls is
				// validated as several traces of at most 32 calls (the cost of a TLC step grows with the number of calls)
				parts := (len(ht.no.Local) + 31) / 32
				if parts < 1 {
					parts = 1
				}
				for part := 0; part < parts; part++ {
					tf := fmt.Sprintf("%s_%03d%s%d.ndjson", tracePath, round, ht.host, part)
					tw, err := tj.NewWriter(tf)
					if err != nil {
						meta.SetupErr = err.Error()
						return 3
					}
					for _, l := range ht.no.Lines {
						if l.D > meta.MaxDup {
							meta.MaxDup = l.D
						}
						switch {
						case l.Ev == "Reset" || l.Ev == "Quiesce":
							l.N = (len(ht.no.Local) - part + parts - 1) / parts
						case (l.C-1)%parts != part:
							continue
						default:
							l.C = (l.C-1)/parts + 1
						}
						tw.Emit(l)
					}
					tw.Close()
					meta.Lines += tw.N
					meta.Traces = append(meta.Traces, traceFile{File: tf, Lines: tw.N, Calls: (len(ht.no.Local) - part + parts - 1) / parts, Round: round, Host: ht.host, Profile: profile})
				}
			}
		}
		if len(meta.Samples) < 8 {
			for _, l := range no0.Lines {
				if len(meta.Samples) < 8 && (l.Ev == "Miss" || l.Ev == "Found" || l.Ev == "Returned" || l.Ev == "TimerFired") {
					meta.Samples = append(meta.Samples, l)
				}
			}
		}
		meta.RoundsDone++
		w.stop()
	}
	s := meta.Stats
	meta.Shape["register_first"] = s["RegisterBeforeSend"] > 0 && s["SendBeforeRegister"] == 0
	meta.Shape["register_first_evidence"] = map[string]int{"registered_then_sent": s["RegisterBeforeSend"], "sent_then_registered": s["SendBeforeRegister"]}
	meta.Shape["deliver_under_lock"] = s["HeldAtDeliver"] > 0 && s["FreeAtDeliver"] == 0
	meta.Shape["deliver_under_lock_evidence"] = map[string]int{"resMu_held_at_beforeDeliver": s["HeldAtDeliver"], "resMu_free_at_beforeDeliver": s["FreeAtDeliver"]}
	return 0
}

func minInt(a, b int) int {
	if a < b {
		return a
	}
	return b
}

func firstLine(s string) string {
	if i := strings.IndexByte(s, '\n'); i >= 0 {
		return s[:i]
	}
	return s
}
