package main

// world: the real hosts of a scenario (two or three p2p.Connections on loopback, a black-holed TCP listener), their
// handlers, and the calls the harness makes between them.

import (
	"bytes"
	"context"
	crand "crypto/rand"
	"encoding/json"
	"errors"
	"fmt"
	"net"
	"os"
	"regexp"
	"runtime"
	"strings"
	"sync"
	"sync/atomic"
	"time"

	lcrypto "github.com/libp2p/go-libp2p/core/crypto"
	"github.com/libp2p/go-libp2p/core/peer"

	"github.com/LiskHQ/lisk-engine/pkg/log"
	"github.com/LiskHQ/lisk-engine/pkg/p2p"
)

const proc = "verifEcho"

// ---------------------------------------------------------------- logger that notices failed reply sends

type capLogger struct {
	respondErrors int64 // "Error sending response message": the reply of a handler did not leave this host
	errors        int64
}

func (l *capLogger) Debug(msg string, others ...interface{})  {}
func (l *capLogger) Info(msg string, others ...interface{})   {}
func (l *capLogger) Debugf(msg string, others ...interface{}) {}
func (l *capLogger) Infof(msg string, others ...interface{})  {}
func (l *capLogger) Warning(msg string, others ...interface{}) {
}
func (l *capLogger) Warningf(msg string, others ...interface{}) {}
func (l *capLogger) Error(msg string, others ...interface{}) {
	atomic.AddInt64(&l.errors, 1)
}
func (l *capLogger) Errorf(msg string, others ...interface{}) {
	atomic.AddInt64(&l.errors, 1)
	if strings.Contains(msg, "sending response") {
		atomic.AddInt64(&l.respondErrors, 1)
	}
}
func (l *capLogger) With(kv ...interface{}) log.Logger { return l }

// ---------------------------------------------------------------- request payload

type reqPayload struct {
	N    int    `json:"n"`              // nonce = call number
	Lat  []int  `json:"lat"`            // handler latency per attempt in microseconds (last entry repeats)
	Dup  []int  `json:"dup"`            // per attempt: delay (us) of an extra copy of the response, -1 = none
	Err  []int  `json:"err,omitempty"`  // per attempt: 1 = the handler answers with an error only, 2 = error and data
	Emp  []int  `json:"emp,omitempty"`  // per attempt: 1 = the handler writes nil, 2 = an empty slice
	Echo bool   `json:"echo,omitempty"` // the handler appends the padding of the request to its answer
	Nest string `json:"nest,omitempty"` // the handler first issues a request of its own to that host
}

func pick(a []int, i int, def int) int {
	if len(a) == 0 {
		return def
	}
	if i >= len(a) {
		i = len(a) - 1
	}
	return a[i]
}

func padding(call, n int) []byte {
	if n <= 0 {
		return nil
	}
	b := make([]byte, n)
	x := uint32(call)*2654435761 + 12345
	for i := range b {
		x = x*1664525 + 1013904223
		b[i] = byte(x >> 24)
	}
	return b
}

// ---------------------------------------------------------------- responder (handler of one host)

type product struct {
	Data blob
	Err  string
}

type responder struct {
	w        *world
	host     string
	mu       sync.Mutex
	attempts map[int]int          // nonce -> attempts seen
	produced map[string][]product // request id -> what the handler produced for it (one entry per handler run)
	nonceOf  map[string]int
	runs     int
	wg       sync.WaitGroup // running handlers and duplicate senders
}

func newResponder(w *world, host string) *responder {
	return &responder{w: w, host: host, attempts: map[int]int{}, produced: map[string][]product{}, nonceOf: map[string]int{}}
}

func (rs *responder) record(id string, n int, out []byte, errText string) {
	rs.mu.Lock()
	rs.produced[id] = append(rs.produced[id], product{Data: digest(out), Err: errText})
	if n > 0 {
		rs.nonceOf[id] = n
	}
	rs.runs++
	rs.mu.Unlock()
}

func (rs *responder) returned(id string) {
	rs.w.rec.add(rawEv{Point: "rs.return", ID: id, Host: rs.host, Held: -1})
	atomic.AddInt64(&rs.w.responses, 1)
}

func (rs *responder) handle(w p2p.ResponseWriter, req *p2p.Request) {
	rs.wg.Add(1)
	defer rs.wg.Done()
	if len(req.Data) == 0 { // a request without payload (real callers send nil)
		out := []byte("nil|" + req.ID)
		rs.record(req.ID, 0, out, "")
		w.Write(out)
		rs.returned(req.ID)
		return
	}
	hdr, pad := req.Data, []byte(nil)
	if i := bytes.IndexByte(req.Data, '\n'); i >= 0 {
		hdr, pad = req.Data[:i], req.Data[i+1:]
	}
	var p reqPayload
	if err := json.Unmarshal(hdr, &p); err != nil {
		w.Error(fmt.Errorf("bad payload"))
		return
	}
	rs.mu.Lock()
	idx := rs.attempts[p.N]
	rs.attempts[p.N] = idx + 1
	rs.mu.Unlock()
	head := fmt.Sprintf("%d|%s|%d", p.N, req.ID, idx)
	if p.Nest != "" && idx == 0 {
		nr := rs.w.nestedCall(rs.host, p.Nest)
		head += "|nest:" + nr.Res
	}
	out := []byte(head)
	if p.Echo {
		out = append(out, '|')
		out = append(out, pad...)
	}
	errText := ""
	switch pick(p.Err, idx, 0) {
	case 1:
		errText, out = "herr|"+head, nil
	case 2:
		errText = "herr|" + head
	default:
		switch pick(p.Emp, idx, 0) {
		case 1:
			out = nil
		case 2:
			out = []byte{}
		}
	}
	rs.record(req.ID, p.N, out, errText)
	if d := pick(p.Dup, idx, -1); d >= 0 && errText == "" {
		rs.wg.Add(1)
		go func() {
			defer rs.wg.Done()
			time.Sleep(time.Duration(d) * time.Microsecond)
			if h := rs.w.hosts[rs.host]; h != nil && !h.stopped.Load() {
				ctx, cancel := context.WithTimeout(context.Background(), 2*time.Second)
				if err := h.c.VerifRespond(ctx, req.PeerID, req.ID, proc, out); err == nil {
					atomic.AddInt64(&rs.w.responses, 1)
				}
				cancel()
			}
		}()
	}
	if l := pick(p.Lat, idx, 0); l > 0 {
		time.Sleep(time.Duration(l) * time.Microsecond)
	}
	if errText != "" {
		if out != nil {
			w.Write(out)
		}
		w.Error(errors.New(errText))
	} else {
		w.Write(out)
	}
	rs.returned(req.ID)
}

// ---------------------------------------------------------------- hosts

type hostT struct {
	name    string
	c       *p2p.ExtendedConnection
	rs      *responder
	lg      *capLogger
	stopped atomic.Bool
}

type world struct {
	rec       *recorder
	T         time.Duration
	R         int
	hosts     map[string]*hostT
	names     []string
	responses int64 // responses handed to the network (handler returns + duplicates sent)
	bh        net.Listener
	bhMu      sync.Mutex
	bhConns   []net.Conn
	mu        sync.Mutex
	nextCall  int
	nested    []callResult
	nestBound time.Duration
}

var hostSeq int64

func newHost(w *world, name string, timeout time.Duration, limit int) (*hostT, error) {
	h := &hostT{name: name, lg: &capLogger{}}
	h.rs = newResponder(w, name)
	cfg := &p2p.Config{
		Addresses:          []string{"/ip4/127.0.0.1/tcp/0"},
		ConnectionSecurity: "noise",
		ChainID:            []byte{0xc1, 0x17, 0, 0},
		Version:            "1.0",
	}
	c := p2p.NewExtendedConnection(h.lg, cfg)
	if limit <= 0 {
		limit = 1 << 30
	}
	if err := c.RegisterRPCHandler(proc, h.rs.handle, p2p.WithRPCMessageCounter(limit, 0)); err != nil {
		return nil, err
	}
	seed := []byte(fmt.Sprintf("c17-host-%d-%d", os.Getpid(), atomic.AddInt64(&hostSeq, 1)))
	if err := c.Start(seed); err != nil {
		return nil, err
	}
	c.VerifSetTimeout(timeout)
	h.c = c
	return h, nil
}

func addrInfoOf(h *hostT) (*p2p.AddrInfo, error) {
	addrs, err := h.c.MultiAddress()
	if err != nil || len(addrs) == 0 {
		return nil, fmt.Errorf("host %s has no address: %v", h.name, err)
	}
	return p2p.AddrInfoFromMultiAddr(addrs[0])
}

// newWorld starts the named hosts ("A", "B", "C"), connects every pair, and sends one warm-up request along every
// directed edge (stream negotiation; not recorded).  limit > 0: a real rate limit of that many messages per window.
func newWorld(rec *recorder, T time.Duration, names []string, limit int) (*world, error) {
	w := &world{rec: rec, T: T, R: p2p.VerifMaxRetries(), hosts: map[string]*hostT{}, names: names, nextCall: 1000}
	p2p.VerifSetHook(nil)
	for _, n := range names {
		h, err := newHost(w, n, T, limit)
		if err != nil {
			return nil, fmt.Errorf("host %s: %w", n, err)
		}
		w.hosts[n] = h
	}
	for i, x := range names {
		for _, y := range names[i+1:] {
			ai, err := addrInfoOf(w.hosts[y])
			if err != nil {
				return nil, err
			}
			ctx, cancel := context.WithTimeout(context.Background(), 20*time.Second)
			err = w.hosts[x].c.Connect(ctx, *ai)
			cancel()
			if err != nil {
				return nil, fmt.Errorf("connect %s-%s: %w", x, y, err)
			}
		}
	}
	rec.mu.Lock()
	rec.tryLock = func(host string) (bool, bool) {
		h := w.hosts[host]
		if h == nil || h.stopped.Load() {
			return false, false
		}
		_, free := h.c.VerifTryPending()
		return !free, true
	}
	rec.mu.Unlock()
	for _, x := range names {
		for _, y := range names {
			if x == y || x == "C" { // C only answers
				continue
			}
			ok := false
			var last error
			for try := 0; try < 3 && !ok; try++ {
				wctx, wcancel := context.WithTimeout(context.Background(), 10*time.Second)
				data, _ := json.Marshal(reqPayload{N: 0})
				resp := w.hosts[x].c.RequestFrom(wctx, w.hosts[y].c.ID(), proc, data)
				wcancel()
				last = resp.Error()
				// a timeout is behaviour of the layer under test (judged by the scenarios), not a set-up failure
				ok = last == nil || strings.Contains(last.Error(), "timeout")
			}
			if !ok {
				return nil, fmt.Errorf("warm-up request %s->%s failed: %v", x, y, last)
			}
		}
	}
	for _, x := range names {
		h := w.hosts[x]
		waitFor(2*time.Second, func() bool { n, ok := h.c.VerifTryPending(); return ok && n == 0 })
		h.rs.wg.Wait()
		h.rs.mu.Lock()
		h.rs.attempts = map[int]int{}
		h.rs.produced = map[string][]product{}
		h.rs.nonceOf = map[string]int{}
		h.rs.runs = 0
		h.rs.mu.Unlock()
		atomic.StoreInt64(&h.lg.respondErrors, 0)
		atomic.StoreInt64(&h.lg.errors, 0)
	}
	time.Sleep(20 * time.Millisecond)
	atomic.StoreInt64(&w.responses, 0)
	rec.reset()
	p2p.VerifSetHook(rec.hook)
	return w, nil
}

func (w *world) stop() {
	done := make(chan struct{})
	go func() {
		for _, n := range w.names {
			if h := w.hosts[n]; !h.stopped.Swap(true) {
				_ = h.c.Stop()
			}
		}
		close(done)
	}()
	select {
	case <-done:
	case <-time.After(8 * time.Second):
	}
	if w.bh != nil {
		w.bh.Close()
		w.bhMu.Lock()
		for _, c := range w.bhConns {
			c.Close()
		}
		w.bhMu.Unlock()
	}
}

// producedFor returns what any handler of the world produced for a request id.
func (w *world) producedFor(id string) []product {
	var out []product
	for _, n := range w.names {
		rs := w.hosts[n].rs
		rs.mu.Lock()
		out = append(out, rs.produced[id]...)
		rs.mu.Unlock()
	}
	return out
}

func (w *world) nonceOf(id string) int {
	for _, n := range w.names {
		rs := w.hosts[n].rs
		rs.mu.Lock()
		v, ok := rs.nonceOf[id]
		rs.mu.Unlock()
		if ok {
			return v
		}
	}
	return 0
}

func (w *world) respondErrors() int64 {
	var n int64
	for _, x := range w.names {
		n += atomic.LoadInt64(&w.hosts[x].lg.respondErrors)
	}
	return n
}

// ---------------------------------------------------------------- black hole: accepts TCP, never speaks

func (w *world) blackholeTarget(from string) (peer.ID, error) {
	w.bhMu.Lock()
	if w.bh == nil {
		ln, err := net.Listen("tcp", "127.0.0.1:0")
		if err != nil {
			w.bhMu.Unlock()
			return "", err
		}
		w.bh = ln
		go func() {
			for {
				c, err := ln.Accept()
				if err != nil {
					return
				}
				w.bhMu.Lock()
				w.bhConns = append(w.bhConns, c)
				w.bhMu.Unlock()
			}
		}()
	}
	port := w.bh.Addr().(*net.TCPAddr).Port
	w.bhMu.Unlock()
	_, pk, err := lcrypto.GenerateEd25519Key(crand.Reader)
	if err != nil {
		return "", err
	}
	fake, err := peer.IDFromPublicKey(pk)
	if err != nil {
		return "", err
	}
	ai, err := p2p.AddrInfoFromMultiAddr(fmt.Sprintf("/ip4/127.0.0.1/tcp/%d/p2p/%s", port, fake.String()))
	if err != nil {
		return "", err
	}
	// plant the address in the peer store of the requesting host: a connect attempt that gives up at once
	ctx, cancel := context.WithTimeout(context.Background(), 40*time.Millisecond)
	_ = w.hosts[from].c.Connect(ctx, *ai)
	cancel()
	w.hosts[from].c.SwarmClear(fake)
	return fake, nil
}

func unknownPeer() (peer.ID, error) {
	_, pk, err := lcrypto.GenerateEd25519Key(crand.Reader)
	if err != nil {
		return "", err
	}
	return peer.IDFromPublicKey(pk)
}

// ---------------------------------------------------------------- calls

type callSpec struct {
	Call     int
	From, To string // To: a host name, "unknown" (peer without address) or "blackhole"
	Payload  reqPayload
	Pad      int
	NilReq   bool
	CancelUs int  // >= 0: the caller's ctx ends after that many microseconds ...
	Deadline bool // ... as a deadline known in advance (context.WithTimeout) instead of a cancel
}

type callResult struct {
	Call     int
	From, To string
	Res      string
	Data     blob
	Err      string
	DurUs    int64
	Hung     bool
	Cancel   int
	Deadline bool
	Attempts int
	Panic    string `json:",omitempty"`
}

// classify decides from the schedule points of the call (not from error texts) how it ended.
func (w *world) classify(call int, resp p2p.Response, ctx context.Context) (string, string) {
	err := resp.Error()
	if err == nil {
		return "resp", ""
	}
	evs := w.rec.eventsOfCall(call)
	last := ""
	sentAfterReg := false
	ids := map[string]bool{}
	nreq := 0
	for _, e := range evs {
		if strings.HasPrefix(e.Point, "req.") {
			nreq++
			last = e.Point
			ids[e.ID] = true
			switch e.Point {
			case "req.afterSend":
				sentAfterReg = true
			case "req.timerFired":
				sentAfterReg = false
			}
		}
	}
	if nreq == 0 { // hooks off (probes of the forced scenarios): nothing to go by but the error itself
		if strings.Contains(err.Error(), "timeout") {
			return "timeout", err.Error()
		}
		return "error", err.Error()
	}
	if last == "req.timerFired" {
		return "timeout", err.Error()
	}
	for id := range ids { // an error the remote handler produced for one of the ids of this call is a response
		for _, p := range w.producedFor(id) {
			if p.Err != "" && strings.Contains(err.Error(), p.Err) {
				return "resp", err.Error()
			}
		}
	}
	if ctx.Err() != nil && sentAfterReg {
		return "cancel", err.Error()
	}
	return "error", err.Error()
}

func (w *world) target(cs callSpec) (peer.ID, error) {
	switch cs.To {
	case "unknown":
		return unknownPeer()
	case "blackhole":
		return w.blackholeTarget(cs.From)
	}
	h := w.hosts[cs.To]
	if h == nil {
		return "", fmt.Errorf("no host %s", cs.To)
	}
	return h.c.ID(), nil
}

// doCall runs one RequestFrom in its own goroutine and waits for it at most `bound`.
func (w *world) doCall(cs callSpec, bound time.Duration) callResult {
	done := make(chan callResult, 1)
	out := callResult{Call: cs.Call, From: cs.From, To: cs.To, Cancel: cs.CancelUs, Deadline: cs.Deadline && cs.CancelUs >= 0}
	to, terr := w.target(cs)
	if terr != nil {
		out.Res, out.Err = "setup", terr.Error()
		return out
	}
	var data []byte
	if !cs.NilReq {
		data, _ = json.Marshal(cs.Payload)
		if cs.Pad > 0 || cs.Payload.Echo {
			data = append(data, '\n')
			data = append(data, padding(cs.Call, cs.Pad)...)
		}
	}
	from := w.hosts[cs.From]
	go func() {
		r := out
		var ctx context.Context
		var cancel context.CancelFunc
		if cs.CancelUs >= 0 && cs.Deadline {
			ctx, cancel = context.WithTimeout(context.Background(), time.Duration(cs.CancelUs)*time.Microsecond)
		} else {
			ctx, cancel = context.WithCancel(context.Background())
			if cs.CancelUs >= 0 {
				tm := time.AfterFunc(time.Duration(cs.CancelUs)*time.Microsecond, cancel)
				defer tm.Stop()
			}
		}
		defer cancel()
		w.rec.startCall(cs.Call, cs.From)
		t := time.Now()
		defer func() {
			if x := recover(); x != nil {
				buf := make([]byte, 4<<10)
				n := runtime.Stack(buf, false)
				r.Res, r.Panic, r.DurUs = "panic", fmt.Sprintf("%v\n%s", x, buf[:n]), time.Since(t).Microseconds()
				w.rec.add(rawEv{Point: "call.return", Call: cs.Call, Host: cs.From, Res: "panic", Held: -1})
				done <- r
			}
		}()
		resp := from.c.RequestFrom(ctx, to, proc, data)
		r.DurUs = time.Since(t).Microseconds()
		r.Res, r.Err = w.classify(cs.Call, resp, ctx)
		r.Data = digest(resp.Data())
		w.rec.add(rawEv{Point: "call.return", Call: cs.Call, Host: cs.From, Res: r.Res, Data: r.Data, Err: r.Err, Held: -1, Dl: b2i(r.Deadline)})
		done <- r
	}()
	select {
	case r := <-done:
		return r
	case <-time.After(bound):
		out.Hung, out.DurUs = true, bound.Microseconds()
		return out
	}
}

func b2i(b bool) int {
	if b {
		return 1
	}
	return 0
}

// nestedCall is issued by a handler of host `from` (on the handler's goroutine) to host `to`.
func (w *world) nestedCall(from, to string) callResult {
	w.mu.Lock()
	w.nextCall++
	c := w.nextCall
	bound := w.nestBound
	w.mu.Unlock()
	if bound == 0 {
		bound = time.Duration(w.R+1)*w.T + 5*time.Second
	}
	r := w.doCall(callSpec{Call: c, From: from, To: to, Payload: reqPayload{N: c, Lat: []int{0}, Dup: []int{-1}}, CancelUs: -1}, bound)
	w.mu.Lock()
	w.nested = append(w.nested, r)
	w.mu.Unlock()
	return r
}

// correlated: the payload (and error) a call returned is one that a handler produced for one of the given request ids.
func (w *world) correlated(r callResult, ids []string) bool {
	for _, id := range ids {
		for _, p := range w.producedFor(id) {
			if !p.Data.same(r.Data) {
				continue
			}
			if p.Err == "" && r.Err == "" {
				return true
			}
			if p.Err != "" && strings.Contains(r.Err, p.Err) {
				return true
			}
		}
	}
	return false
}

// ---------------------------------------------------------------- goroutine dump analysis

type dumpInfo struct {
	ResponderInChanSend bool     `json:"responder_blocked_in_chan_send"`
	RequesterOnMutex    bool     `json:"requester_blocked_on_resMu"`
	NestedUnderHandler  bool     `json:"request_of_a_handler_blocked_on_resMu_inside_onRequest"`
	Excerpt             []string `json:"excerpt"`
}

var hdrRe = regexp.MustCompile(`^goroutine \d+ \[([^\]]+)\]:`)

func analyzeDump() dumpInfo {
	buf := make([]byte, 16<<20)
	n := runtime.Stack(buf, true)
	var di dumpInfo
	handlerWaits := false
	var waitEx []string
	for _, g := range strings.Split(string(buf[:n]), "\n\n") {
		lines := strings.Split(g, "\n")
		m := hdrRe.FindStringSubmatch(lines[0])
		if m == nil {
			continue
		}
		state := m[1]
		onResp := strings.Contains(g, "p2p.(*MessageProtocol).onResponse")
		inReq := strings.Contains(g, "p2p.(*MessageProtocol).sendRequestMessage")
		onReq := strings.Contains(g, "p2p.(*MessageProtocol).onRequest")
		onMutex := strings.HasPrefix(state, "sync.Mutex.Lock") || strings.HasPrefix(state, "semacquire")
		if onResp && strings.HasPrefix(state, "chan send") {
			di.ResponderInChanSend = true
			di.Excerpt = append(di.Excerpt, firstFrames(lines, 7)...)
		}
		if inReq && onMutex {
			if !di.RequesterOnMutex {
				di.Excerpt = append(di.Excerpt, firstFrames(lines, 9)...)
			}
			di.RequesterOnMutex = true
		}
		if onReq && strings.Contains(g, "nestedCall") {
			// onRequest -> handler (harness) -> the handler's own request: still waiting for it
			handlerWaits = true
			if len(waitEx) == 0 {
				waitEx = firstFrames(lines, 9)
			}
		}
	}
	if handlerWaits && di.RequesterOnMutex {
		// a handler waits for its own request while a requester is blocked on resMu: the handler runs under resMu
		di.NestedUnderHandler = true
		di.Excerpt = append(di.Excerpt, waitEx...)
	}
	return di
}

func firstFrames(lines []string, n int) []string {
	out := []string{}
	for i, l := range lines {
		if i >= n {
			break
		}
		l = strings.TrimSpace(l)
		if len(l) > 160 {
			l = l[:160]
		}
		out = append(out, l)
	}
	return out
}
