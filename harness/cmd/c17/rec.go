package main

// recorder: the process-wide log of schedule points (hook events of pkg/p2p), the harness' own call / handler events, the
// scheduler gates of the forced scenarios, and the live attribution of request ids to calls.

import (
	"bytes"
	"crypto/sha256"
	"encoding/hex"
	"runtime"
	"strconv"
	"strings"
	"sync"
	"time"

	"verifharness/internal/tj"
)

func goid() int64 {
	var b [64]byte
	n := runtime.Stack(b[:], false)
	s := b[len("goroutine "):n]
	i := bytes.IndexByte(s, ' ')
	if i < 0 {
		return -1
	}
	v, _ := strconv.ParseInt(string(s[:i]), 10, 64)
	return v
}

// parentGid returns the id of the goroutine that created the current one ("created by ... in goroutine N"), -1 if unknown.
func parentGid() int64 {
	buf := make([]byte, 32<<10)
	n := runtime.Stack(buf, false)
	s := buf[:n]
	i := bytes.LastIndex(s, []byte(" in goroutine "))
	if i < 0 {
		return -1
	}
	s = s[i+len(" in goroutine "):]
	j := 0
	for j < len(s) && s[j] >= '0' && s[j] <= '9' {
		j++
	}
	v, err := strconv.ParseInt(string(s[:j]), 10, 64)
	if err != nil {
		return -1
	}
	return v
}

// blob is what the harness keeps of a payload: enough to compare (length + SHA-256) and to show (head).
type blob struct {
	Head string `json:"head"`
	Len  int    `json:"len"`
	Sum  string `json:"sum"`
	Nil  bool   `json:"nil"`
}

func digest(b []byte) blob {
	h := sha256.Sum256(b)
	hd := b
	if len(hd) > 96 {
		hd = hd[:96]
	}
	return blob{Head: string(hd), Len: len(b), Sum: hex.EncodeToString(h[:8]), Nil: b == nil}
}

func (a blob) same(b blob) bool { return a.Len == b.Len && a.Sum == b.Sum }

type rawEv struct {
	Seq   int
	T     int64 // microseconds since recorder start
	Gid   int64
	Point string // hook point, "call.start" / "call.return", "rs.return" (remote handler returned)
	ID    string
	Call  int    // attributed call (0 = unknown at record time)
	Host  string // call.*: requesting host; rs.return: answering host
	Res   string // call.return: resp|timeout|cancel|error|panic
	Data  blob   // call.return: response payload
	Err   string
	Held  int // res.beforeDeliver: 1 if resMu of the requesting host was held at that point, 0 if free, -1 unknown
	Dl    int // call.return: 1 if the caller's ctx carried a deadline
}

type recorder struct {
	mu       sync.Mutex
	t0       time.Time
	evs      []rawEv
	gates    map[string]func(id string)
	gidCall  map[int64]int
	parentOf map[int64]int64
	callHost map[int]string
	idCall   map[string]int
	tryLock  func(host string) (held bool, ok bool) // set by the world
	unattrib int
}

func newRecorder() *recorder {
	return &recorder{t0: time.Now(), gates: map[string]func(string){}, gidCall: map[int64]int{}, parentOf: map[int64]int64{},
		callHost: map[int]string{}, idCall: map[string]int{}}
}

func (r *recorder) add(e rawEv) {
	if e.Gid == 0 {
		e.Gid = goid()
	}
	r.mu.Lock()
	e.Seq = len(r.evs)
	e.T = time.Since(r.t0).Microseconds()
	r.evs = append(r.evs, e)
	r.mu.Unlock()
}

// startCall registers the calling goroutine and logs call.start.
func (r *recorder) startCall(call int, host string) int64 {
	gid := goid()
	r.mu.Lock()
	r.gidCall[gid] = call
	r.callHost[call] = host
	r.mu.Unlock()
	r.add(rawEv{Point: "call.start", Call: call, Host: host, Held: -1, Gid: gid})
	return gid
}

// callOf resolves a goroutine to a call: the goroutine itself or one of its ancestors (as far as they are known) is a caller.
// A request-side schedule point may run on a helper goroutine started by RequestFrom.
func (r *recorder) callOf(gid int64, lookParent bool) int {
	r.mu.Lock()
	c, ok := r.gidCall[gid]
	r.mu.Unlock()
	if ok {
		return c
	}
	if !lookParent {
		return 0
	}
	par := parentGid()
	r.mu.Lock()
	defer r.mu.Unlock()
	if par > 0 {
		r.parentOf[gid] = par
	}
	g := gid
	for depth := 0; depth < 6; depth++ {
		p, ok := r.parentOf[g]
		if !ok {
			return 0
		}
		if c, ok := r.gidCall[p]; ok {
			r.gidCall[gid] = c
			return c
		}
		g = p
	}
	return 0
}

func (r *recorder) hook(point, id string) {
	e := rawEv{Point: point, ID: id, Held: -1, Gid: goid()}
	if strings.HasPrefix(point, "req.") {
		c := r.callOf(e.Gid, true)
		r.mu.Lock()
		if c != 0 {
			if _, known := r.idCall[id]; !known {
				r.idCall[id] = c
			}
		} else {
			c = r.idCall[id]
		}
		r.mu.Unlock()
		e.Call = c
	} else {
		r.mu.Lock()
		e.Call = r.idCall[id]
		host := r.callHost[e.Call]
		tl := r.tryLock
		r.mu.Unlock()
		e.Host = host
		if point == "res.beforeDeliver" && tl != nil && host != "" {
			if held, ok := tl(host); ok {
				e.Held = tj.B(held)
			}
		}
	}
	r.add(e)
	r.mu.Lock()
	g := r.gates[point]
	r.mu.Unlock()
	if g != nil {
		g(id)
	}
}

func (r *recorder) setGate(point string, f func(id string)) {
	r.mu.Lock()
	r.gates[point] = f
	r.mu.Unlock()
}

func (r *recorder) snapshot() []rawEv {
	r.mu.Lock()
	defer r.mu.Unlock()
	return append([]rawEv(nil), r.evs...)
}

// eventsOfCall returns the request-side events attributed to a call since its call.start.
func (r *recorder) eventsOfCall(call int) []rawEv {
	r.mu.Lock()
	defer r.mu.Unlock()
	var out []rawEv
	for _, e := range r.evs {
		if e.Call == call && (strings.HasPrefix(e.Point, "req.") || strings.HasPrefix(e.Point, "call.")) {
			out = append(out, e)
		}
	}
	return out
}

func (r *recorder) reset() {
	r.mu.Lock()
	r.evs = nil
	r.gidCall = map[int64]int{}
	r.parentOf = map[int64]int64{}
	r.callHost = map[int]string{}
	r.idCall = map[string]int{}
	r.mu.Unlock()
}

// seen reports whether an event (point, id) has been recorded.
func (r *recorder) seen(point, id string) bool {
	r.mu.Lock()
	defer r.mu.Unlock()
	for i := len(r.evs) - 1; i >= 0; i-- {
		if r.evs[i].Point == point && r.evs[i].ID == id {
			return true
		}
	}
	return false
}

// seenCall reports whether an event (point) attributed to a call has been recorded; returns its id and time.
func (r *recorder) seenCall(point string, call int) (string, int64, bool) {
	r.mu.Lock()
	defer r.mu.Unlock()
	for i := range r.evs {
		if r.evs[i].Point == point && r.evs[i].Call == call {
			return r.evs[i].ID, r.evs[i].T, true
		}
	}
	return "", 0, false
}

func (r *recorder) count(point string) int {
	r.mu.Lock()
	defer r.mu.Unlock()
	n := 0
	for i := range r.evs {
		if r.evs[i].Point == point {
			n++
		}
	}
	return n
}

func (r *recorder) now() int64 { return time.Since(r.t0).Microseconds() }

func waitFor(d time.Duration, cond func() bool) bool {
	end := time.Now().Add(d)
	for {
		if cond() {
			return true
		}
		if time.Now().After(end) {
			return false
		}
		time.Sleep(500 * time.Microsecond)
	}
}

// noise measures how late this process' timers fire while a scenario runs (scheduling noise of a loaded machine): every
// bound on a duration is widened by it, and a statistic over timers is only judged when the control timers were sane.
type noise struct {
	stop  chan struct{}
	done  chan struct{}
	mu    sync.Mutex
	maxUs int64
	minUs int64
	n     int
}

func startNoise(period time.Duration) *noise {
	nz := &noise{stop: make(chan struct{}), done: make(chan struct{}), minUs: 1 << 60}
	go func() {
		defer close(nz.done)
		for {
			t := time.Now()
			select {
			case <-nz.stop:
				return
			case <-time.After(period):
			}
			over := (time.Since(t) - period).Microseconds()
			nz.mu.Lock()
			if over > nz.maxUs {
				nz.maxUs = over
			}
			if over < nz.minUs {
				nz.minUs = over
			}
			nz.n++
			nz.mu.Unlock()
		}
	}()
	return nz
}

func (nz *noise) end() (minUs, maxUs int64, n int) {
	close(nz.stop)
	<-nz.done
	nz.mu.Lock()
	defer nz.mu.Unlock()
	if nz.n == 0 {
		return 0, 0, 0
	}
	return nz.minUs, nz.maxUs, nz.n
}

func (nz *noise) max() time.Duration {
	nz.mu.Lock()
	defer nz.mu.Unlock()
	return time.Duration(nz.maxUs) * time.Microsecond
}
