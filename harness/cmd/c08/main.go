// c08: drives the real generated codecs, IDs, DataAccess and Lisk32 for property C08.
//
//	c08 gen  <trace.ndjson> <out.json> <values-per-type>
//	    seeded values (VERIF_SEED) of every registered generated-codec type (types.go; the schema is read
//	    from the fieldNumber tags by reflection) through the real Encode / Decode / DecodeStrict.
//	    Asserted here (facts about the real code alone): Decode(Encode v) = v (strings in NFC, absent and
//	    empty identified), Encode deterministic and stable under re-encoding, DecodeStrict accepts own
//	    encodings, transaction / block IDs = SHA-256 of the bytes and unchanged by re-encoding, NewBlock and
//	    DataAccess save + load, Lisk32 round trip.  Logged for TLC (spec/trace/WireTrace.tla): one record per
//	    value {schema, value, bytes, strict, dec} and Lisk32 texts / verdicts.
//	c08 feed <cases.ndjson> <out.json>
//	    cases printed by TLC from spec/MCWire.tla: deviant transaction encodings with the verdict of
//	    StrictAccept (tag DV; given to NewTransaction and, wrapped in a block, to NewBlock), deviant encodings of
//	    other strictly decoded schemas (DV2, with SCH = the schema the specification assumes), string
//	    classifications (STR), Lisk32 texts (L32) and single-symbol corruption verdicts (L32C); each is given to
//	    the real code under recover().
//
// VERIF_EXPERIMENTAL=1 switches on the sub-checks that are red on the pinned tree (candidate defects, see extra.go).
package main

import (
	"bufio"
	"bytes"
	"crypto/sha256"
	"encoding/json"
	"fmt"
	"math/rand"
	"os"
	"reflect"
	"runtime/debug"
	"sort"
	"strconv"
	"strings"
	"sync"
	"sync/atomic"
	"unicode/utf8"
	"unsafe"

	"golang.org/x/text/unicode/norm"

	"github.com/LiskHQ/lisk-engine/pkg/blockchain"
	"github.com/LiskHQ/lisk-engine/pkg/codec"
	"github.com/LiskHQ/lisk-engine/pkg/crypto"
	"github.com/LiskHQ/lisk-engine/pkg/db"

	"verifharness/internal/tj"
)

type msg interface {
	Encode() []byte
	Decode([]byte) error
	DecodeStrict([]byte) error
}

type entry struct {
	name string
	mk   func() msg
}

type saved struct {
	block *blockchain.Block
	enc   []byte
}

type Violation struct {
	Key    string      `json:"key"`
	What   string      `json:"what"`
	Replay interface{} `json:"replay"`
}

type report struct {
	Violations []Violation            `json:"violations"`
	Counts     map[string]int         `json:"counts"`
	Types      int                    `json:"types"`
	Skipped    []string               `json:"types_skipped"`
	Kinds      []string               `json:"kinds"`
	Samples    []interface{}          `json:"samples"`
	Extra      map[string]interface{} `json:"extra,omitempty"`
	perKey     map[string]int
}

func (r *report) viol(key, what string, replay interface{}) {
	if r.perKey == nil {
		r.perKey = map[string]int{}
	}
	r.perKey[key]++
	if r.perKey[key] <= 2 && len(r.Violations) < 400 {
		r.Violations = append(r.Violations, Violation{key, what, replay})
	}
}

// ------------------------------------------------------------------ schema by reflection

type field struct {
	num  int
	kind string
	sub  []field
	idx  int
}

func kindOf(t reflect.Type) (string, reflect.Type) {
	switch t.Kind() {
	case reflect.Bool:
		return "bool", nil
	case reflect.Uint32:
		return "uint32", nil
	case reflect.Uint64:
		return "uint", nil
	case reflect.Int32, reflect.Int64:
		return "sint", nil
	case reflect.String:
		return "string", nil
	case reflect.Ptr:
		if t.Elem().Kind() == reflect.Struct {
			return "nested", t.Elem()
		}
	case reflect.Slice:
		e := t.Elem()
		if e.Kind() == reflect.Uint8 {
			return "bytes", nil
		}
		k, st := kindOf(e)
		switch k {
		case "bool", "uint32", "uint", "sint", "string", "bytes", "nested":
			return "r" + k, st
		}
	}
	return "", nil
}

// fld gives read/write access to field i of an addressable struct value, also when the field is unexported
// (several generated-codec types keep their wire fields private).
func fld(v reflect.Value, i int) reflect.Value {
	f := v.Field(i)
	if f.CanSet() {
		return f
	}
	return reflect.NewAt(f.Type(), unsafe.Pointer(f.UnsafeAddr())).Elem()
}

// schemaOf returns the fields carrying a fieldNumber tag in ascending field number (the generator sorts
// them the same way); ok=false when a field type is not one the generator knows.
func schemaOf(t reflect.Type, depth int) ([]field, bool) {
	if depth > 6 {
		return nil, false
	}
	var fs []field
	for i := 0; i < t.NumField(); i++ {
		sf := t.Field(i)
		tag, has := sf.Tag.Lookup("fieldNumber")
		if !has {
			continue
		}
		n, err := strconv.Atoi(tag)
		if err != nil {
			continue
		}
		k, st := kindOf(sf.Type)
		if k == "" {
			return nil, false
		}
		f := field{num: n, kind: k, idx: i}
		if st != nil {
			sub, ok := schemaOf(st, depth+1)
			if !ok {
				return nil, false
			}
			f.sub = sub
		}
		fs = append(fs, f)
	}
	sort.Slice(fs, func(i, j int) bool { return fs[i].num < fs[j].num })
	return fs, len(fs) > 0
}

func schemaJSON(fs []field) []interface{} {
	out := make([]interface{}, 0, len(fs))
	for _, f := range fs {
		out = append(out, []interface{}{f.num, f.kind, schemaJSON(f.sub)})
	}
	return out
}

func kindsOf(fs []field, into map[string]bool) {
	for _, f := range fs {
		into[f.kind] = true
		kindsOf(f.sub, into)
	}
}

// ------------------------------------------------------------------ abstract values (the vocabulary of Wire.tla)

// digits: little-endian base-128 digits without trailing zeros; zero is the empty sequence.
func digits(x uint64) []int {
	d := []int{}
	for x > 0 {
		d = append(d, int(x&127))
		x >>= 7
	}
	return d
}

// signed: <<0, m>> for m >= 0, <<1, m>> for -(m+1).
func signed(x int64) []interface{} {
	if x >= 0 {
		return []interface{}{0, digits(uint64(x))}
	}
	return []interface{}{1, digits(uint64(^x))}
}

func byteSeq(b []byte) []int {
	out := make([]int, len(b))
	for i, c := range b {
		out[i] = int(c)
	}
	return out
}

func absItem(k string, v reflect.Value, sub []field) interface{} {
	switch k {
	case "bool":
		return tj.B(v.Bool())
	case "uint32", "uint":
		return digits(v.Uint())
	case "sint":
		return signed(v.Int())
	case "string":
		return byteSeq([]byte(norm.NFC.String(v.String())))
	case "bytes":
		return byteSeq(v.Bytes())
	case "nested":
		if v.IsNil() {
			return nil
		}
		return abstract(v.Elem(), sub)
	}
	panic("kind " + k)
}

func abstract(v reflect.Value, fs []field) []interface{} {
	out := make([]interface{}, 0, len(fs))
	for _, f := range fs {
		fv := fld(v, f.idx)
		if strings.HasPrefix(f.kind, "r") {
			items := []interface{}{}
			for i := 0; i < fv.Len(); i++ {
				items = append(items, absItem(f.kind[1:], fv.Index(i), f.sub))
			}
			out = append(out, items)
		} else {
			out = append(out, absItem(f.kind, fv, f.sub))
		}
	}
	return out
}

func jsonOf(v interface{}) string {
	b, err := json.Marshal(v)
	if err != nil {
		panic(err)
	}
	return string(b)
}

// ------------------------------------------------------------------ value generation

var u64Bounds = []uint64{0, 1, 2, 127, 128, 129, 255, 256, 16383, 16384, 1<<21 - 1, 1 << 21, 1<<28 - 1, 1 << 28,
	1<<31 - 1, 1 << 31, 1<<32 - 1, 1 << 32, 1<<35 - 1, 1 << 35, 1<<42 - 1, 1 << 42, 1<<49 - 1, 1 << 49, 1<<56 - 1, 1 << 56,
	1<<63 - 1, 1 << 63, 1<<63 + 1, 1<<64 - 2, 1<<64 - 1}
var i64Bounds = []int64{0, 1, -1, 63, 64, -64, -65, 8191, 8192, -8192, -8193, 1<<31 - 1, -(1 << 31), 1 << 31, -(1 << 31) - 1,
	1<<62 - 1, 1 << 62, -(1 << 62), -(1 << 62) - 1, 1<<63 - 1, -(1 << 63), -(1 << 63) + 1}
var strPieces = []string{"a", "Z", "0", "token", "transfer", " ", "\x00", "\u00e9", "e\u0301", "\u00c5", "A\u030a", "\u212b",
	"\u1e9b\u0323", "\u4e16\u754c", "\U0001f600", "\u0644", "q\u0307\u0323", "\ufb01", "\u0104\u0301", "\uac00", "\u1100\u1161"}

type gen struct{ r *rand.Rand }

func (g *gen) u64() uint64 {
	switch g.r.Intn(4) {
	case 0, 1:
		return u64Bounds[g.r.Intn(len(u64Bounds))]
	case 2:
		return g.r.Uint64() >> uint(g.r.Intn(64))
	}
	return g.r.Uint64()
}

func (g *gen) u32() uint64 {
	for {
		x := g.u64()
		if g.r.Intn(3) == 0 {
			x &= 1<<32 - 1
		}
		if x < 1<<32 {
			return x
		}
	}
}

func (g *gen) i64(bits int) int64 {
	var x int64
	switch g.r.Intn(3) {
	case 0:
		x = i64Bounds[g.r.Intn(len(i64Bounds))]
	case 1:
		x = int64(g.r.Uint64()) >> uint(g.r.Intn(64))
	default:
		x = int64(g.r.Uint64())
	}
	if bits == 64 && x == -(1<<63) && !experimental {
		x++ // candidate defect (i): Reader.readInt decodes math.MinInt64 as 0; no type of the tree has an int64 field (int64MinProbe)
	}
	if bits == 32 {
		x = int64(int32(x))
		if g.r.Intn(8) == 0 {
			x = []int64{1<<31 - 1, -(1 << 31)}[g.r.Intn(2)]
		}
	}
	return x
}

func (g *gen) str() string {
	switch g.r.Intn(6) {
	case 0:
		return ""
	case 1:
		return strings.Repeat("x", 127+g.r.Intn(3)) + strPieces[g.r.Intn(len(strPieces))] // length prefix at the 1/2 byte boundary
	}
	n := 1 + g.r.Intn(5)
	s := ""
	for i := 0; i < n; i++ {
		s += strPieces[g.r.Intn(len(strPieces))]
	}
	return s
}

func (g *gen) bytes() []byte {
	var n int
	switch g.r.Intn(8) {
	case 0:
		return nil
	case 1:
		return []byte{}
	case 2:
		n = []int{20, 32, 64}[g.r.Intn(3)]
	case 3:
		n = 126 + g.r.Intn(5)
	case 4:
		if g.r.Intn(40) == 0 {
			n = 16383 + g.r.Intn(3)
		} else {
			n = 1
		}
	default:
		n = 1 + g.r.Intn(12)
	}
	b := make([]byte, n)
	switch g.r.Intn(4) {
	case 0:
		for i := range b {
			b[i] = 0
		}
	case 1:
		for i := range b {
			b[i] = 0xff
		}
	default:
		g.r.Read(b)
	}
	return b
}

func (g *gen) count() int {
	switch g.r.Intn(6) {
	case 0:
		return 0
	case 1:
		return 1
	case 2:
		return 12 + g.r.Intn(30)
	}
	return 1 + g.r.Intn(4)
}

func (g *gen) setItem(k string, v reflect.Value, sub []field, depth int) {
	switch k {
	case "bool":
		v.SetBool(g.r.Intn(2) == 1)
	case "uint32":
		v.SetUint(g.u32())
	case "uint":
		v.SetUint(g.u64())
	case "sint":
		if v.Kind() == reflect.Int32 {
			v.SetInt(g.i64(32))
		} else {
			v.SetInt(g.i64(64))
		}
	case "string":
		v.SetString(g.str())
	case "bytes":
		b := g.bytes()
		if b == nil {
			v.Set(reflect.Zero(v.Type()))
		} else {
			v.SetBytes(b)
		}
	case "nested":
		p := reflect.New(v.Type().Elem())
		g.fill(p.Elem(), sub, depth+1)
		v.Set(p)
	}
}

func (g *gen) fill(v reflect.Value, fs []field, depth int) {
	for _, f := range fs {
		fv := fld(v, f.idx)
		if strings.HasPrefix(f.kind, "r") {
			n := g.count()
			if depth > 0 && n > 4 {
				n = 2
			}
			if n == 0 && g.r.Intn(2) == 0 {
				fv.Set(reflect.Zero(fv.Type())) // nil slice; otherwise empty non-nil
				continue
			}
			s := reflect.MakeSlice(fv.Type(), n, n)
			for i := 0; i < n; i++ {
				g.setItem(f.kind[1:], s.Index(i), f.sub, depth)
			}
			fv.Set(s)
		} else {
			g.setItem(f.kind, fv, f.sub, depth)
		}
	}
}

// ------------------------------------------------------------------ panics

func site(stack []byte) string {
	lines := strings.Split(string(stack), "\n")
	for _, l := range lines {
		if strings.HasPrefix(l, "github.com/LiskHQ/lisk-engine/") {
			l = strings.TrimPrefix(l, "github.com/LiskHQ/lisk-engine/")
			if i := strings.LastIndex(l, "("); i > 0 {
				l = l[:i]
			}
			return l
		}
	}
	return "unknown"
}

// guard runs f and reports a panic as (site, message).
func guard(f func()) (where, what string) {
	defer func() {
		if r := recover(); r != nil {
			where, what = site(debug.Stack()), fmt.Sprint(r)
		}
	}()
	f()
	return "", ""
}

// ------------------------------------------------------------------ gen mode

func hashOf(b []byte) []byte { h := sha256.Sum256(b); return h[:] }

func genMode(tracePath, outPath string, perType int) {
	seed := int64(tj.EnvInt("VERIF_SEED", 1))
	g := &gen{rand.New(rand.NewSource(seed))}
	w, err := tj.NewWriter(tracePath)
	if err != nil {
		panic(err)
	}
	rep := &report{Counts: map[string]int{}, Skipped: []string{}, Extra: map[string]interface{}{}}
	kinds := map[string]bool{}
	driven := []string{}
	for _, e := range allTypes() {
		t := reflect.TypeOf(e.mk()).Elem()
		fs, ok := schemaOf(t, 0)
		if !ok {
			rep.Skipped = append(rep.Skipped, e.name)
			continue
		}
		rep.Types++
		driven = append(driven, e.name)
		kindsOf(fs, kinds)
		sj := schemaJSON(fs)
		for i := 0; i < perType; i++ {
			m := e.mk()
			if i > 0 { // i = 0: the zero value with present nested messages
				g.fill(reflect.ValueOf(m).Elem(), fs, 0)
			} else {
				(&gen{rand.New(rand.NewSource(0))}).zero(reflect.ValueOf(m).Elem(), fs)
			}
			oneValue(rep, w, e, fs, sj, m, i)
		}
		// nil nested messages are outside LIP-0027 (every property is required): probed and counted only
		nilProbe(rep, e, fs)
	}
	for k := range kinds {
		rep.Kinds = append(rep.Kinds, k)
	}
	sort.Strings(rep.Kinds)
	if experimental {
		int64MinProbe(rep)
	}
	idsAndStorage(rep, g, perType)
	lisk32Gen(rep, w, g, perType)
	w.Close()
	rep.Extra["driven"] = driven
	tj.WriteJSON(outPath, rep)
}

func (g *gen) zero(v reflect.Value, fs []field) {
	for _, f := range fs {
		if f.kind == "nested" {
			p := reflect.New(fld(v, f.idx).Type().Elem())
			g.zero(p.Elem(), f.sub)
			fld(v, f.idx).Set(p)
		}
	}
}

func oneValue(rep *report, w *tj.Writer, e entry, fs []field, sj []interface{}, m msg, i int) {
	rv := reflect.ValueOf(m).Elem()
	val := abstract(rv, fs)
	replay := map[string]interface{}{"type": e.name, "index": i, "value": val}
	var enc, enc2 []byte
	if where, what := guard(func() { enc = m.Encode(); enc2 = m.Encode() }); where != "" {
		rep.viol("panic:"+where, fmt.Sprintf("%s.Encode panics: %s", e.name, what), replay)
		return
	}
	if !bytes.Equal(enc, enc2) {
		rep.viol("nondeterministic:"+e.name, "two Encode calls on the same value give different bytes", replay)
	}
	// lenient decode: equal value, and the re-encoding is the same byte string
	d := e.mk()
	var derr error
	dbuf := append([]byte{}, enc...) // the decoder's input buffer: overwritten below, the decoded value must not follow it
	if where, what := guard(func() { derr = d.Decode(dbuf) }); where != "" {
		rep.viol("panic:"+where, fmt.Sprintf("%s.Decode panics on own encoding: %s", e.name, what), replay)
		return
	}
	var dec []interface{}
	if derr != nil {
		rep.viol("roundtrip:"+e.name, fmt.Sprintf("Decode rejects own encoding %x: %v", clip(enc), derr), replay)
	} else {
		dec = abstract(reflect.ValueOf(d).Elem(), fs)
		if jsonOf(dec) != jsonOf(val) {
			rep.viol("roundtrip:"+e.name, fmt.Sprintf("Decode(Encode(v)) != v: v=%s decoded=%s bytes=%x", clipS(jsonOf(val)), clipS(jsonOf(dec)), clip(enc)), replay)
		}
		if re := d.Encode(); !bytes.Equal(re, enc) {
			rep.viol("reencode:"+e.name, fmt.Sprintf("Encode(Decode(b)) != b for b=Encode(v)=%x: %x", clip(enc), clip(re)), replay)
		}
		aliasCheck(rep, e.name+".Decode", dbuf, func() string {
			return jsonOf(abstract(reflect.ValueOf(d).Elem(), fs)) + fmt.Sprintf(" %x", d.Encode())
		}, replay)
	}
	// strict decode accepts own encodings and yields the same value
	s := e.mk()
	var serr error
	sbuf := append([]byte{}, enc...)
	if where, what := guard(func() { serr = s.DecodeStrict(sbuf) }); where != "" {
		rep.viol("panic:"+where, fmt.Sprintf("%s.DecodeStrict panics on own encoding: %s", e.name, what), replay)
		return
	}
	if serr != nil {
		rep.viol("strict-rejects-own-encoding:"+e.name, fmt.Sprintf("DecodeStrict rejects Encode(v)=%x: %v (v=%s)", clip(enc), serr, clipS(jsonOf(val))), replay)
	} else if sd := abstract(reflect.ValueOf(s).Elem(), fs); jsonOf(sd) != jsonOf(val) {
		rep.viol("roundtrip:"+e.name, fmt.Sprintf("DecodeStrict(Encode(v)) != v: v=%s decoded=%s", clipS(jsonOf(val)), clipS(jsonOf(sd))), replay)
	} else {
		aliasCheck(rep, e.name+".DecodeStrict", sbuf, func() string {
			return jsonOf(abstract(reflect.ValueOf(s).Elem(), fs)) + fmt.Sprintf(" %x", s.Encode())
		}, replay)
	}
	rec := map[string]interface{}{"op": "enc", "type": e.name, "schema": sj, "value": val, "bytes": byteSeq(enc),
		"strict": tj.B(serr == nil), "dec": dec}
	if dec == nil {
		rec["dec"] = []int{}
	}
	if len(enc) <= 3000 { // very long messages are checked in Go only (TLC sequences stay small)
		w.Emit(rec)
		rep.Counts["enc"]++
	} else {
		rep.Counts["enc_go_only"]++
	}
	if len(rep.Samples) < 3 && i == 1 && len(enc) < 80 {
		rep.Samples = append(rep.Samples, map[string]interface{}{"type": e.name, "value": val, "hex": fmt.Sprintf("%x", enc)})
	}
}

func nilProbe(rep *report, e entry, fs []field) {
	has := false
	for _, f := range fs {
		if f.kind == "nested" {
			has = true
		}
	}
	if !has {
		return
	}
	m := e.mk()
	rep.Counts["nil_nested"]++
	if where, what := guard(func() {
		enc := m.Encode()
		if err := e.mk().DecodeStrict(enc); err != nil {
			rep.Counts["nil_nested_rejected"]++
		}
	}); where != "" {
		rep.viol("panic:"+where, fmt.Sprintf("%s with nil nested messages: Encode / DecodeStrict of the encoding panics: %s", e.name, what),
			map[string]interface{}{"type": e.name, "nil_nested": true})
	}
}

func clip(b []byte) []byte {
	if len(b) > 160 {
		return b[:160]
	}
	return b
}
func clipS(s string) string {
	if len(s) > 400 {
		return s[:400] + "..."
	}
	return s
}

// ------------------------------------------------------------------ IDs, NewBlock, DataAccess

func idsAndStorage(rep *report, g *gen, perType int) {
	txT := reflect.TypeOf(blockchain.Transaction{})
	txS, _ := schemaOf(txT, 0)
	hdT := reflect.TypeOf(blockchain.BlockHeader{})
	hdS, _ := schemaOf(hdT, 0)
	asT := reflect.TypeOf(blockchain.BlockAsset{})
	asS, _ := schemaOf(asT, 0)
	evT := reflect.TypeOf(blockchain.Event{})
	evS, _ := schemaOf(evT, 0)

	database, err := db.NewInMemoryDB()
	if err != nil {
		panic(err)
	}
	defer database.Close()
	genesis := &blockchain.Block{Header: &blockchain.BlockHeader{AggregateCommit: &blockchain.AggregateCommit{}}}
	genesis.Init()
	chain := blockchain.NewChain(&blockchain.ChainConfig{ChainID: []byte{0, 0, 0, 0}, MaxTransactionsLength: 1 << 20, MaxBlockCache: 4, KeepEventsForHeights: -1})
	chain.Init(genesis, database)

	nblocks := 4 * perType
	var all []saved
	_, signKey, kerr := crypto.GetKeys("c08 block signer")
	if kerr != nil {
		panic(kerr)
	}
	for h := 0; h < nblocks; h++ {
		hdr := &blockchain.BlockHeader{}
		g.fill(reflect.ValueOf(hdr).Elem(), hdS, 0)
		hdr.Height = uint32(h)
		ntx := []int{0, 1, 3, 7}[g.r.Intn(4)]
		blk := &blockchain.Block{Header: hdr, Transactions: []*blockchain.Transaction{}, Assets: []*blockchain.BlockAsset{}}
		seenTx := map[string]bool{}
		for i := 0; i < ntx; i++ {
			tx := &blockchain.Transaction{}
			g.fill(reflect.ValueOf(tx).Elem(), txS, 0)
			if len(tx.Params) > 600 {
				tx.Params = tx.Params[:600]
			}
			tx.Init()
			if seenTx[string(tx.ID)] {
				continue
			}
			seenTx[string(tx.ID)] = true
			blk.Transactions = append(blk.Transactions, tx)
		}
		for i := g.r.Intn(3); i > 0; i-- {
			a := &blockchain.BlockAsset{}
			g.fill(reflect.ValueOf(a).Elem(), asS, 0)
			blk.Assets = append(blk.Assets, a)
		}
		// the three ways in which the engine gives a header its ID: Init (decoded blocks), Sign (every locally forged block:
		// generator.go) and NewBlockHeaderWithValues; the ID comparisons below are the same for all of them
		replay := map[string]interface{}{"height": h, "id_by": []string{"init", "sign", "init", "values"}[h%4]}
		switch h % 4 {
		case 1:
			if where, what := guard(func() { hdr.Sign([]byte{0, 0, 0, 0}, signKey) }); where != "" {
				rep.viol("panic:"+where, "BlockHeader.Sign panics: "+what, replay)
				continue
			}
			rep.Counts["ids_by_sign"]++
		case 3:
			var nh *blockchain.BlockHeader
			var verr error
			if where, what := guard(func() {
				nh, verr = blockchain.NewBlockHeaderWithValues(hdr.Version, hdr.Timestamp, hdr.Height, hdr.PreviousBlockID, hdr.AssetRoot, hdr.StateRoot,
					hdr.MaxHeightPrevoted, hdr.MaxHeightGenerated, hdr.TransactionRoot, hdr.GeneratorAddress, hdr.ValidatorsHash, hdr.AggregateCommit, hdr.Signature)
			}); where != "" {
				rep.viol("panic:"+where, "NewBlockHeaderWithValues panics: "+what, replay)
				continue
			}
			if verr != nil || nh == nil {
				rep.Counts["header_with_values_errors"]++
				hdr.Init()
			} else {
				hdr = nh
				blk.Header = nh
				rep.Counts["ids_by_values"]++
			}
		default:
			hdr.Init()
		}

		// transaction IDs: hash of the accepted bytes, unchanged by re-encoding
		for _, tx := range blk.Transactions {
			rep.Counts["tx_ids"]++
			b := tx.Encode()
			var n *blockchain.Transaction
			var nerr error
			nbuf := append([]byte{}, b...)
			if where, what := guard(func() { n, nerr = blockchain.NewTransaction(nbuf) }); where != "" {
				rep.viol("panic:"+where, "NewTransaction panics on an own encoding: "+what, replay)
				continue
			}
			if nerr != nil {
				rep.viol("strict-rejects-canonical", fmt.Sprintf("NewTransaction rejects Encode(tx)=%x: %v", clip(b), nerr), replay)
				continue
			}
			if !bytes.Equal(n.ID, hashOf(b)) || !bytes.Equal(n.ID, tx.ID) || !bytes.Equal(n.Encode(), b) {
				rep.viol("id-unstable", fmt.Sprintf("transaction ID is not the hash of the accepted bytes / changes on re-encoding: bytes=%x id=%x re-decoded id=%x sha256=%x",
					clip(b), tx.ID, n.ID, hashOf(b)), replay)
			}
			aliasCheck(rep, "blockchain.NewTransaction", nbuf, func() string {
				return fmt.Sprintf("%x %x %x", n.Encode(), n.ID, hashOf(n.Encode()))
			}, replay)
		}
		// header ID: hash of the encoding, same through NewBlockHeader and NewBlock
		hb := hdr.Encode()
		if !bytes.Equal(hdr.ID, hashOf(hb)) {
			rep.viol("id-unstable", fmt.Sprintf("block ID %x is not the hash of the header encoding %x", hdr.ID, clip(hb)), replay)
		}
		var nh *blockchain.BlockHeader
		var nb *blockchain.Block
		var e1, e2 error
		bb := blk.Encode()
		hbuf, bbuf := append([]byte{}, hb...), append([]byte{}, bb...)
		if where, what := guard(func() { nh, e1 = blockchain.NewBlockHeader(hbuf); nb, e2 = blockchain.NewBlock(bbuf) }); where != "" {
			rep.viol("panic:"+where, "NewBlockHeader / NewBlock panics on an own encoding: "+what, replay)
			continue
		}
		rep.Counts["block_ids"]++
		if e1 != nil || e2 != nil {
			rep.viol("roundtrip:blockchain.Block", fmt.Sprintf("NewBlockHeader/NewBlock reject own encoding: %v %v (block %x)", e1, e2, clip(bb)), replay)
		} else {
			if !bytes.Equal(nh.ID, hdr.ID) || !bytes.Equal(nb.Header.ID, hdr.ID) || !bytes.Equal(nb.Encode(), bb) {
				rep.viol("id-unstable", fmt.Sprintf("block ID changes on decode + re-encode: %x -> %x / %x", hdr.ID, nh.ID, nb.Header.ID), replay)
			}
			for i, tx := range nb.Transactions {
				if i < len(blk.Transactions) && !bytes.Equal(tx.ID, blk.Transactions[i].ID) {
					rep.viol("id-unstable", fmt.Sprintf("transaction %d ID changes through NewBlock: %x -> %x", i, blk.Transactions[i].ID, tx.ID), replay)
				}
			}
			aliasCheck(rep, "blockchain.NewBlockHeader", hbuf, func() string {
				return fmt.Sprintf("%x %x %x", nh.Encode(), nh.ID, hashOf(nh.Encode()))
			}, replay)
			aliasCheck(rep, "blockchain.NewBlock", bbuf, func() string {
				st := fmt.Sprintf("%x %x %x", nb.Encode(), nb.Header.ID, hashOf(nb.Header.Encode()))
				for _, tx := range nb.Transactions {
					st += fmt.Sprintf(" %x %x", tx.ID, hashOf(tx.Encode()))
				}
				return st
			}, replay)
		}
		// wire forms of the same header that are NOT its canonical encoding but that the (lenient) header decoder may accept:
		// an unknown trailing field, a field encoded with a padded varint, the last field left out.  Whatever is accepted, the
		// ID is the hash of the header's own encoding - it does not follow the bytes that happened to arrive
		if e1 == nil && len(hb) > 4 {
			variants := map[string][]byte{
				"unknown-trailing-field": append(append([]byte{}, hb...), 0x80, 0x01, 0x00),
				"unknown-trailing-bytes": append(append([]byte{}, hb...), 0xfa, 0x01, 0x02, 0xab, 0xcd),
			}
			if hb[0] == 0x08 && hb[1] < 0x80 { // field 1 (version) as a one-byte varint: pad it
				variants["padded-version"] = append([]byte{0x08, hb[1] | 0x80, 0x00}, hb[2:]...)
			}
			if vb := heightPlus2p32(hb, hdr.Height); vb != nil { // field 3 (height, uint32) carries height + 2^32
				variants["height-plus-2^32"] = vb
			}
			for name, vb := range variants {
				var vh *blockchain.BlockHeader
				var ve error
				if where, what := guard(func() { vh, ve = blockchain.NewBlockHeader(vb) }); where != "" {
					rep.viol("panic:"+where, "NewBlockHeader panics on a non-canonical header ("+name+"): "+what, replay)
					continue
				}
				if ve != nil {
					rep.Counts["header_variants_rejected"]++
					continue
				}
				rep.Counts["header_variants_accepted"]++
				re := vh.Encode()
				if !bytes.Equal(vh.ID, hashOf(re)) {
					rep.viol("id-unstable", fmt.Sprintf("NewBlockHeader accepts a non-canonical wire form (%s) and gives the header the ID %x; its own encoding hashes to %x: the ID changes on re-encoding / store + load", name, vh.ID, hashOf(re)), replay)
				}
				// the same bytes inside a block
				vbb := append([]byte{0x0a}, uvarint(uint64(len(vb)))...)
				vbb = append(vbb, vb...)
				vbb = append(vbb, bb[1+len(uvarint(uint64(len(hb))))+len(hb):]...)
				var vblk *blockchain.Block
				if where, what := guard(func() { vblk, ve = blockchain.NewBlock(vbb) }); where != "" {
					rep.viol("panic:"+where, "NewBlock panics on a block with a non-canonical header ("+name+"): "+what, replay)
					continue
				}
				if ve == nil && !bytes.Equal(vblk.Header.ID, hashOf(vblk.Header.Encode())) {
					rep.viol("id-unstable", fmt.Sprintf("NewBlock accepts a non-canonical header (%s) and gives the block the ID %x; the header's own encoding hashes to %x", name, vblk.Header.ID, hashOf(vblk.Header.Encode())), replay)
				}
			}
		}
		// save through the chain
		events := []*blockchain.Event{}
		for i := g.r.Intn(3); i > 0; i-- {
			ev := &blockchain.Event{}
			g.fill(reflect.ValueOf(ev).Elem(), evS, 0)
			ev.Height = uint32(h)
			events = append(events, ev)
		}
		var aerr error
		if where, what := guard(func() { aerr = chain.AddBlock(database.NewBatch(), blk, events, 0, false) }); where != "" {
			rep.viol("panic:"+where, "Chain.AddBlock panics: "+what, replay)
			continue
		}
		if aerr != nil {
			rep.Counts["addblock_errors"]++
			continue
		}
		all = append(all, saved{blk, bb})
		if evs, err := blockchain.NewDataAccess(database, 4, -1).GetEvents(uint32(h)); err == nil {
			rep.Counts["events_loaded"] += len(evs)
			if len(evs) != len(events) {
				rep.viol("roundtrip:blockchain.Event", fmt.Sprintf("saved %d events at height %d, loaded %d", len(events), h, len(evs)), replay)
			}
			for i := range evs {
				if i < len(events) && jsonOf(abstract(reflect.ValueOf(evs[i]).Elem(), evS)) != jsonOf(abstract(reflect.ValueOf(events[i]).Elem(), evS)) {
					rep.viol("roundtrip:blockchain.Event", fmt.Sprintf("event %d at height %d changes through save + load", i, h), replay)
				}
			}
		}
	}
	// "encoding is deterministic" also when several goroutines encode at the same time (blocks and transactions are encoded
	// concurrently by the gossip, RPC and storage paths): every goroutine re-encodes its own blocks and must get the bytes the
	// sequential encoding gave
	if len(all) >= 2 {
		var cwg sync.WaitGroup
		var bad, badDec, decs int64
		seqDecoded := make([]string, len(all)) // what one goroutine alone obtains
		for i, sv := range all {
			if where, what := guard(func() { seqDecoded[i] = decodeState(sv) }); where != "" {
				rep.viol("panic:"+where, "decoding a saved block again panics: "+what, map[string]interface{}{"height": sv.block.Header.Height})
			}
		}
		for gi := 0; gi < 8; gi++ {
			cwg.Add(1)
			go func(gi int) {
				defer cwg.Done()
				defer func() { recover() }() //nolint:errcheck // a panic here is counted as a difference below
				for round := 0; round < 300 && atomic.LoadInt64(&bad) == 0; round++ {
					sv := all[(gi+round)%len(all)]
					if !bytes.Equal(sv.block.Encode(), sv.enc) {
						atomic.AddInt64(&bad, 1)
					}
					for _, tx := range sv.block.Transactions {
						enc := tx.Encode()
						if !bytes.Equal(hashOf(enc), tx.ID) {
							atomic.AddInt64(&bad, 1)
						}
					}
					// ... and decodes them (blocks and transactions arrive from several peers at once): every goroutine decodes
					// from its own buffer, overwrites the buffer and must find the IDs and bytes of the sequential run
					if round%4 == 0 {
						if decodeState(sv) != seqDecoded[(gi+round)%len(all)] {
							atomic.AddInt64(&badDec, 1)
						}
						atomic.AddInt64(&decs, 1)
					}
				}
			}(gi)
		}
		cwg.Wait()
		rep.Counts["concurrent_encode_rounds"] += 8 * 300
		rep.Counts["concurrent_decodes"] += int(decs)
		if bad > 0 {
			rep.viol("encode-nondeterministic:concurrent", fmt.Sprintf("8 goroutines re-encoding their own blocks and transactions: %d encodings differ from the bytes the sequential encoding gave", bad), nil)
		}
		if badDec > 0 {
			rep.viol("decode-nondeterministic:concurrent", fmt.Sprintf("8 goroutines decoding their own blocks, transactions and addresses at the same time: %d results differ from the sequential ones", badDec), nil)
		}
	}
	// load with a fresh DataAccess (empty cache: everything comes from the database)
	reader := blockchain.NewDataAccess(database, 4, -1)
	for _, s := range all {
		replay := map[string]interface{}{"height": s.block.Header.Height}
		var lb, lh2 *blockchain.Block
		var lh *blockchain.BlockHeader
		var e1, e2, e3 error
		if where, what := guard(func() {
			lb, e1 = reader.GetBlock(s.block.Header.ID)
			lh, e2 = reader.GetBlockHeader(s.block.Header.ID)
			lh2, e3 = reader.GetBlockByHeight(s.block.Header.Height)
		}); where != "" {
			rep.viol("panic:"+where, "DataAccess load panics: "+what, replay)
			continue
		}
		// whether a block is FOUND by its ID or height is the business of the block store (C05); here: whatever is loaded
		// has the ID and the bytes that were saved.  A block that is found by height only has changed its ID on the way
		if e1 != nil && e3 == nil {
			lb, e1 = lh2, nil
		}
		if e1 != nil {
			rep.Counts["blocks_not_loaded"]++
			continue
		}
		rep.Counts["blocks_stored"]++
		if !bytes.Equal(lb.Header.ID, s.block.Header.ID) || (e2 == nil && !bytes.Equal(lh.ID, s.block.Header.ID)) || (e3 == nil && !bytes.Equal(lh2.Header.ID, s.block.Header.ID)) ||
			!bytes.Equal(lb.Header.Encode(), s.block.Header.Encode()) || !bytes.Equal(hashOf(lb.Header.Encode()), s.block.Header.ID) {
			rep.viol("id-unstable", fmt.Sprintf("block ID / header bytes change through DataAccess save + load: %x -> %x", s.block.Header.ID, lb.Header.ID), replay)
		}
		if len(lb.Transactions) != len(s.block.Transactions) || len(lb.Assets) != len(s.block.Assets) {
			rep.viol("id-unstable", fmt.Sprintf("block %x loads with %d transactions / %d assets, saved %d / %d", s.block.Header.ID,
				len(lb.Transactions), len(lb.Assets), len(s.block.Transactions), len(s.block.Assets)), replay)
			continue
		}
		for i, tx := range lb.Transactions {
			rep.Counts["txs_stored"]++
			o := s.block.Transactions[i]
			if !bytes.Equal(tx.ID, o.ID) || !bytes.Equal(tx.Encode(), o.Encode()) {
				rep.viol("id-unstable", fmt.Sprintf("transaction ID / bytes change through DataAccess save + load: %x -> %x", o.ID, tx.ID), replay)
			}
			if t2, err := reader.GetTransaction(o.ID); err == nil && t2 != nil && (!bytes.Equal(t2.ID, o.ID) || !bytes.Equal(t2.Encode(), o.Encode())) {
				rep.viol("id-unstable", fmt.Sprintf("transaction %x loaded by its ID comes back as %x", o.ID, t2.ID), replay)
			}
		}
		for i, a := range lb.Assets {
			if !bytes.Equal(a.Encode(), s.block.Assets[i].Encode()) {
				rep.viol("roundtrip:blockchain.BlockAsset", fmt.Sprintf("asset %d of block %x changes through save + load", i, s.block.Header.ID), replay)
			}
		}
		if !bytes.Equal(lb.Encode(), s.enc) {
			rep.viol("id-unstable", fmt.Sprintf("block %x re-encodes differently after save + load", s.block.Header.ID), replay)
		}
	}
	tempBlocks(rep, chain, database, all)
}

// ------------------------------------------------------------------ Lisk32

const lisk32Charset = "zxvcpmbn3465o978uyrtkqew2adsjhfg" // LIP-0018; cross-checked against the one TLC prints (feed mode)

func symbolsOf(text string) []int {
	out := []int{}
	for _, c := range text[3:] {
		out = append(out, strings.IndexRune(lisk32Charset, c))
	}
	return out
}

func textOf(sym []int, charset string) string {
	b := []byte("lsk")
	for _, s := range sym {
		b = append(b, charset[s])
	}
	return string(b)
}

// LIP-0018 checksum (BCH code over GF(32)), written from the LIP: used only to BUILD texts of the wrong length whose
// checksum nevertheless verifies over all their symbols
func lipPolymod(v []int) int {
	gen := []int{0x3b6a57b2, 0x26508e6d, 0x1ea119fa, 0x3d4233dd, 0x2a1462b3}
	chk := 1
	for _, x := range v {
		top := chk >> 25
		chk = ((chk & 0x1ffffff) << 5) ^ x
		for i := 0; i < 5; i++ {
			if (top>>uint(i))&1 != 0 {
				chk ^= gen[i]
			}
		}
	}
	return chk
}

func withChecksum(data []int) []int {
	mod := lipPolymod(append(append([]int{}, data...), 0, 0, 0, 0, 0, 0)) ^ 1
	out := append([]int{}, data...)
	for p := 0; p < 6; p++ {
		out = append(out, (mod>>uint(5*(5-p)))&31)
	}
	return out
}

func lisk32Gen(rep *report, w *tj.Writer, g *gen, perType int) {
	n := 25 * perType
	for i := 0; i < n; i++ {
		addr := make([]byte, 20)
		switch g.r.Intn(5) {
		case 0:
			addr[g.r.Intn(20)] = byte(1 << uint(g.r.Intn(8)))
		case 1:
			for j := range addr {
				addr[j] = 0xff
			}
			addr[g.r.Intn(20)] ^= byte(1 << uint(g.r.Intn(8)))
		default:
			g.r.Read(addr)
		}
		replay := map[string]interface{}{"addr": fmt.Sprintf("%x", addr)}
		var text string
		var back []byte
		var e1, e2 error
		if where, what := guard(func() {
			text, e1 = codec.BytesToLisk32(addr)
			back, e2 = codec.Lisk32ToBytes(text)
		}); where != "" {
			rep.viol("panic:"+where, "Lisk32 conversion panics: "+what, replay)
			continue
		}
		if e1 != nil || e2 != nil || !bytes.Equal(back, addr) || len(text) != 41 || !strings.HasPrefix(text, "lsk") {
			rep.viol("lisk32", fmt.Sprintf("address %x -> %q -> %x (%v, %v): not a lossless round trip", addr, text, back, e1, e2), replay)
			continue
		}
		if t2, err := codec.BytesToLisk32(back); err != nil || t2 != text {
			rep.viol("lisk32", fmt.Sprintf("text %q -> bytes -> %q", text, t2), replay)
		}
		sym := symbolsOf(text)
		w.Emit(map[string]interface{}{"op": "l32", "addr": byteSeq(addr), "sym": sym})
		rep.Counts["l32"]++
		// a few multi-symbol corruptions: the verdict is validated by TLC (polymod = 1)
		for k := 0; k < 3; k++ {
			c := append([]int{}, sym...)
			for j := 1 + g.r.Intn(5); j > 0; j-- {
				c[g.r.Intn(38)] = g.r.Intn(32)
			}
			var err error
			var bb []byte
			ct := textOf(c, lisk32Charset)
			if where, what := guard(func() { bb, err = codec.Lisk32ToBytes(ct) }); where != "" {
				rep.viol("panic:"+where, "Lisk32ToBytes panics: "+what, map[string]interface{}{"text": ct})
				continue
			}
			if err == nil {
				if t3, _ := codec.BytesToLisk32(bb); t3 != ct {
					rep.viol("lisk32", fmt.Sprintf("accepted text %q converts back to %q", ct, t3), map[string]interface{}{"text": ct})
				}
			}
			w.Emit(map[string]interface{}{"op": "l32v", "sym": c, "ok": tj.B(err == nil)})
			rep.Counts["l32v"]++
		}
		if i < 12 { // case, prefix and alphabet probes: the verdicts are validated by TLC (WireTrace.tla, op l32t)
			lisk32TextProbes(rep, w, g, text)
		}
		if i < 40 { // malformed shapes: wrong lengths, characters outside the alphabet
			for _, bad := range []string{text[:40], text + "z", text[:10] + "1" + text[11:], text[:10] + "B" + text[11:], text[:39] + "é"} {
				var err error
				guard(func() { _, err = codec.Lisk32ToBytes(bad) })
				if err == nil {
					rep.viol("lisk32", fmt.Sprintf("malformed address text %q is accepted", bad), map[string]interface{}{"text": bad})
				}
			}
			// texts of the wrong length whose checksum is correct for what they contain (a validator that only checks the
			// polynomial accepts them): 31, 33, 34 and 40 data symbols
			if got := withChecksum(sym[:32]); textOf(got, lisk32Charset) != text {
				panic("harness: own LIP-0018 checksum disagrees with BytesToLisk32 on " + text)
			}
			for _, extra := range []int{-1, 1, 2, 8} {
				data := append([]int{}, sym[:32]...)
				if extra < 0 {
					data = data[:31]
				}
				for k := 0; k < extra; k++ {
					data = append(data, g.r.Intn(32))
				}
				bad := textOf(withChecksum(data), lisk32Charset)
				var err error
				var bb []byte
				guard(func() { bb, err = codec.Lisk32ToBytes(bad) })
				if err == nil {
					rep.viol("lisk32", fmt.Sprintf("address text %q of length %d (checksum valid for its %d data symbols) is accepted as %x", bad, len(bad), len(data), bb), map[string]interface{}{"text": bad})
				}
				var l32 codec.Lisk32
				if jerr := l32.UnmarshalJSON([]byte(`"` + bad + `"`)); jerr == nil {
					rep.viol("lisk32", fmt.Sprintf("address text %q of length %d is accepted by Lisk32.UnmarshalJSON", bad, len(bad)), map[string]interface{}{"text": bad})
				}
				rep.Counts["l32_wronglen"]++
			}
			for _, bl := range []int{1, 19, 21, 32} {
				var err error
				guard(func() { _, err = codec.BytesToLisk32(make([]byte, bl)) })
				if err == nil {
					rep.viol("lisk32", fmt.Sprintf("%d-byte address is converted to text", bl), nil)
				}
			}
		}
	}
}

// ------------------------------------------------------------------ feed mode

type feedRec struct {
	Tag     string          `json:"tag"`
	Base    int             `json:"base"`
	Cls     json.RawMessage `json:"cls"`
	Glob    string          `json:"glob"`
	K       int             `json:"k"`
	B       []int           `json:"b"`
	Ok      json.RawMessage `json:"ok"`
	Utf8    int             `json:"utf8"`
	Nfc     int             `json:"nfc"`
	Addr    []int           `json:"addr"`
	Sym     []int           `json:"sym"`
	Charset string          `json:"charset"`
	Pos     int             `json:"pos"`
	Type    string          `json:"type"`
	Fi      int             `json:"fi"`
	Kind    string          `json:"kind"`
	Schema  json.RawMessage `json:"schema"`
}

func toBytes(xs []int) []byte {
	b := make([]byte, len(xs))
	for i, x := range xs {
		b[i] = byte(x)
	}
	return b
}

func classOf(r *feedRec) string {
	var cs []string
	var one string
	if json.Unmarshal(r.Cls, &one) == nil { // DV2: one class
		return one
	}
	var many []string
	_ = json.Unmarshal(r.Cls, &many)
	for _, c := range many {
		if c != "canon" {
			cs = append(cs, c)
		}
	}
	if r.Glob != "none" && r.Glob != "" {
		cs = append(cs, r.Glob)
	}
	if len(cs) == 0 {
		return "canonical"
	}
	sort.Strings(cs)
	return strings.Join(cs, "+")
}

func feedMode(inPath, outPath string) {
	f, err := os.Open(inPath)
	if err != nil {
		panic(err)
	}
	defer f.Close()
	rep := &report{Counts: map[string]int{}, Skipped: []string{}, Extra: map[string]interface{}{}}
	classes := map[string]int{}
	var disagreements []interface{}
	charset := lisk32Charset
	byName := map[string]entry{}
	for _, e := range allTypes() {
		byName[e.name] = e
	}
	blockHeader := feedHeader()
	dv2 := map[string]int{}
	sc := bufio.NewScanner(f)
	sc.Buffer(make([]byte, 1<<20), 1<<26)
	for sc.Scan() {
		var r feedRec
		if err := json.Unmarshal(sc.Bytes(), &r); err != nil {
			panic(err)
		}
		raw := json.RawMessage(append([]byte{}, sc.Bytes()...))
		switch r.Tag {
		case "STR":
			b := toBytes(r.B)
			if (r.Utf8 == 1) != utf8.Valid(b) || (r.Utf8 == 1 && (r.Nfc == 1) != norm.NFC.IsNormal(b)) {
				disagreements = append(disagreements, map[string]interface{}{"string": r.B, "spec_utf8": r.Utf8, "spec_nfc": r.Nfc,
					"real_utf8": utf8.Valid(b), "real_nfc": norm.NFC.IsNormal(b)})
			}
			rep.Counts["strings"]++
		case "DV":
			b := toBytes(r.B)
			specOK := string(r.Ok) == "1"
			cls := classOf(&r)
			classes[cls]++
			rep.Counts["deviants"]++
			if specOK {
				rep.Counts["spec_accept"]++
			}
			replay := map[string]interface{}{"record": raw, "hex": fmt.Sprintf("%x", b)}
			var tx *blockchain.Transaction
			var derr error
			if where, what := guard(func() { tx, derr = blockchain.NewTransaction(b) }); where != "" {
				rep.viol("panic:"+where, fmt.Sprintf("NewTransaction panics on %x (%s): %s", clip(b), cls, what), replay)
				continue
			}
			accepted := derr == nil
			if accepted {
				rep.Counts["real_accept"]++
				re := tx.Encode()
				canonical := bytes.Equal(re, b)
				if !canonical {
					rep.viol("strict-accepts-noncanonical:"+cls, fmt.Sprintf("NewTransaction accepts %x, whose canonical encoding is %x (deviation: %s)", clip(b), clip(re), cls), replay)
				} else if !bytes.Equal(tx.ID, hashOf(b)) {
					rep.viol("id-unstable", fmt.Sprintf("ID %x of accepted transaction %x is not the SHA-256 of these bytes", tx.ID, clip(b)), replay)
				}
				if canonical && !specOK {
					// accepted and re-encoded identically, but not a canonical encoding of the reference grammar (ill-formed or
					// non-NFC string bytes pass through the encoder unchanged): the statement lists what canonical means
					rep.viol("strict-accepts-noncanonical:"+cls, fmt.Sprintf("NewTransaction accepts %x, which is not a canonical transaction encoding (deviation: %s); it re-encodes to the same bytes", clip(b), cls), replay)
				}
			} else if specOK {
				rep.viol("strict-rejects-canonical", fmt.Sprintf("NewTransaction rejects the canonical encoding %x (%s): %v", clip(b), cls, derr), replay)
			}
			feedInBlock(rep, blockHeader, b, specOK, cls, tx, replay)
			if len(rep.Samples) < 3 && (cls == "padval" || cls == "trail0" || cls == "canonical") {
				rep.Samples = append(rep.Samples, map[string]interface{}{"class": cls, "hex": fmt.Sprintf("%x", b), "spec_accepts": specOK, "real_accepts": accepted})
			}
		case "SCH":
			if note := schemaDiffers(byName, r.Type, r.Schema); note != "" {
				disagreements = append(disagreements, map[string]interface{}{"type": r.Type, "note": note})
			}
			rep.Counts["schemas"]++
		case "DV2":
			feedDV2(rep, byName, &r, raw, dv2)
		case "L32":
			if r.Charset != "" {
				charset = r.Charset
			}
			addr := toBytes(r.Addr)
			want := textOf(r.Sym, charset)
			rep.Counts["l32_addresses"]++
			var text string
			var back []byte
			var e1, e2 error
			if where, what := guard(func() { text, e1 = codec.BytesToLisk32(addr); back, e2 = codec.Lisk32ToBytes(want) }); where != "" {
				rep.viol("panic:"+where, "Lisk32 conversion panics: "+what, map[string]interface{}{"record": raw})
				continue
			}
			if e1 != nil || text != want {
				rep.viol("lisk32", fmt.Sprintf("BytesToLisk32(%x) = %q (%v), LIP-0018 gives %q", addr, text, e1, want), map[string]interface{}{"record": raw})
			}
			if e2 != nil || !bytes.Equal(back, addr) {
				rep.viol("lisk32", fmt.Sprintf("Lisk32ToBytes(%q) = %x (%v), LIP-0018 gives %x", want, back, e2, addr), map[string]interface{}{"record": raw})
			}
		case "L32C":
			var oks []int
			if err := json.Unmarshal(r.Ok, &oks); err != nil {
				panic(err)
			}
			for sy, ok := range oks {
				c := append([]int{}, r.Sym...)
				c[r.Pos-1] = sy
				text := textOf(c, charset)
				var err error
				if where, what := guard(func() { _, err = codec.Lisk32ToBytes(text) }); where != "" {
					rep.viol("panic:"+where, "Lisk32ToBytes panics: "+what, map[string]interface{}{"record": raw})
					continue
				}
				rep.Counts["l32_corruptions"]++
				if (err == nil) != (ok == 1) {
					rep.viol("lisk32", fmt.Sprintf("Lisk32ToBytes(%q) accepted=%v, checksum verdict of LIP-0018: %v (symbol %d replaced)", text, err == nil, ok == 1, r.Pos),
						map[string]interface{}{"record": raw})
				}
			}
		}
	}
	out := map[string]interface{}{"violations": rep.Violations, "deviants": rep.Counts["deviants"], "deviants_spec_accept": rep.Counts["spec_accept"],
		"deviants_real_accept": rep.Counts["real_accept"], "classes": len(classes), "lisk32_addresses": rep.Counts["l32_addresses"],
		"lisk32_corruptions": rep.Counts["l32_corruptions"], "strings": rep.Counts["strings"], "spec_disagreements": disagreements,
		"samples": rep.Samples, "counts": rep.Counts, "dv2": dv2}
	tj.WriteJSON(outPath, out)
}

func main() {
	if len(os.Args) >= 5 && os.Args[1] == "gen" {
		n, _ := strconv.Atoi(os.Args[4])
		genMode(os.Args[2], os.Args[3], n)
		return
	}
	if len(os.Args) >= 4 && os.Args[1] == "feed" {
		feedMode(os.Args[2], os.Args[3])
		return
	}
	fmt.Fprintln(os.Stderr, "usage: c08 gen trace.ndjson out.json n | c08 feed cases.ndjson out.json")
	os.Exit(2)
}

func uvarint(x uint64) []byte {
	out := []byte{}
	for x >= 0x80 {
		out = append(out, byte(x)|0x80)
		x >>= 7
	}
	return append(out, byte(x))
}
