package main

// Synthetic schemas for C08 (G8 / G4).  No generated-codec type of the tree has an int64, []int64, []bool, []string or
// []uint32 field, so the reader / writer primitives behind these kinds (and the generator templates that call them) are
// reached by no tree type.  SynthAll has one field of every kind the generator accepts; its codec (synth_codec.go) is
// produced by the tree's OWN generator: lib/props/c08.py runs `go run github.com/LiskHQ/lisk-engine/pkg/codec/gen` on this
// file at every check (the committed synth_codec.go is the output for the pinned tree and is used when the generator cannot
// be run).  The types are registered like every other generated-codec type (values through Encode / Decode / DecodeStrict,
// records validated by WireTrace.tla) and SynthAll is the second schema of the strict-decoding deviants (MCWire.tla S2).

//go:generate go run github.com/LiskHQ/lisk-engine/pkg/codec/gen

type SynthInner struct {
	N uint64 `fieldNumber:"1"`
	D []byte `fieldNumber:"2"`
}

type SynthAll struct {
	U    uint64        `fieldNumber:"1"`
	U32  uint32        `fieldNumber:"2"`
	I    int64         `fieldNumber:"3"`
	I32  int32         `fieldNumber:"4"`
	B    bool          `fieldNumber:"5"`
	Y    []byte        `fieldNumber:"6"`
	S    string        `fieldNumber:"7"`
	In   *SynthInner   `fieldNumber:"8"`
	Us   []uint64      `fieldNumber:"9"`
	U32s []uint32      `fieldNumber:"10"`
	Is   []int64       `fieldNumber:"11"`
	Bs   []bool        `fieldNumber:"12"`
	Ys   [][]byte      `fieldNumber:"13"`
	Ss   []string      `fieldNumber:"14"`
	Ins  []*SynthInner `fieldNumber:"15"`
	Z    uint32        `fieldNumber:"300"`
}
