package main

// Sub-checks added for the audit gaps G1 - G10 of C08 (see DESIGN.md 8.2f).  Everything here either feeds the existing
// bindings (records for WireTrace.tla, verdicts of TLC-generated cases) or asserts facts about real results that TLA+ cannot
// express (IDs are SHA-256 values, aliasing of an input buffer, concurrent use).

import (
	"bytes"
	"encoding/json"
	"fmt"
	"os"
	"reflect"
	"sort"
	"strings"

	"github.com/LiskHQ/lisk-engine/pkg/blockchain"
	"github.com/LiskHQ/lisk-engine/pkg/codec"
	"github.com/LiskHQ/lisk-engine/pkg/db"

	"verifharness/internal/tj"
)

// VERIF_EXPERIMENTAL=1: sub-checks that are red on the pinned tree (candidate defects, not yet triaged).  The default run
// still OBSERVES them where that costs nothing (lib/props/c08.py lists them as candidates in the evidence) but only this
// switch makes them violations.
var experimental = os.Getenv("VERIF_EXPERIMENTAL") == "1"

// ------------------------------------------------------------------ registry

var synthRegistry = []entry{
	{"synth.SynthAll", func() msg { return &SynthAll{} }},
	{"synth.SynthInner", func() msg { return &SynthInner{} }},
}

// exported holds the constructors of unexported generated-codec types that a package of the tree offers through
// `VerifCodecTypes()` (export_verif_codec.go, build tag verif); types.go fills it when lib/props/c08.py finds such files.
var exported []entry

func addExported(pkg string, m map[string]func() interface{}) {
	for name, mk := range m {
		mk := mk
		if _, ok := mk().(msg); !ok {
			panic("harness: " + pkg + "." + name + " offered by VerifCodecTypes has no Encode / Decode / DecodeStrict")
		}
		exported = append(exported, entry{pkg + "." + name, func() msg { return mk().(msg) }})
	}
}

// allTypes: tree types (exported ones from types.go, unexported ones through the optional exports) in a fixed order, then
// the synthetic ones (so that they do not shift the seeded values of the tree types).
func allTypes() []entry {
	out := append([]entry{}, registry...)
	out = append(out, exported...)
	sort.SliceStable(out, func(i, j int) bool { return out[i].name < out[j].name })
	return append(out, synthRegistry...)
}

// ------------------------------------------------------------------ G7: the input buffer is the caller's

// aliasCheck overwrites the buffer a value was decoded from and asks whether the value (state(): the value and what is
// derived from it - its encoding, its ID) is still what it was before.  A decoder that keeps slices of its input hands out values that change when the
// network or database layer reuses the buffer.
func aliasCheck(rep *report, what string, buf []byte, state func() string, replay interface{}) {
	if len(buf) == 0 {
		return
	}
	var before, after string
	if where, _ := guard(func() { before = state() }); where != "" {
		return // the value is unusable already: reported by the caller's own checks
	}
	for i := range buf {
		buf[i] ^= 0xAA
	}
	rep.Counts["input_overwritten"]++
	if where, msg := guard(func() { after = state() }); where != "" {
		rep.viol("panic:"+where, what+": using the decoded value after its input buffer was overwritten panics: "+msg, replay)
		return
	}
	if before != after {
		rep.viol("aliases-input:"+what, what+": the decoded value (its re-encoding / ID) changes when the caller overwrites the buffer it was decoded from", replay)
	}
}

// ------------------------------------------------------------------ candidate (i): int64 minimum

// Reader.readInt computes -1 * int64((res+1)/2) for odd res; for res = 2^64-1 (the zig-zag form of math.MinInt64) res+1
// wraps to 0 and the value decodes as 0.  No generated-codec type of the tree has an int64 field (all sint fields are int32),
// so the statement's quantifier "all values of all generated-codec struct types" does not reach it: experimental only.
func int64MinProbe(rep *report) {
	v := &SynthAll{I: -(1 << 63), In: &SynthInner{}}
	enc := v.Encode()
	d := &SynthAll{}
	err := d.Decode(enc)
	rep.Counts["int64_min_probes"]++
	if err != nil || d.I != v.I {
		rep.viol("roundtrip:int64-min", fmt.Sprintf("an int64 field with the value math.MinInt64 encodes to %x and decodes to %d (%v): lossy signed round trip at the boundary (codec.Reader.readInt: (res+1)/2 overflows)",
			enc, d.I, err), map[string]interface{}{"type": "synth.SynthAll", "field": "I", "value": "-9223372036854775808", "hex": fmt.Sprintf("%x", enc)})
	}
}

// ------------------------------------------------------------------ header wire form with a uint32 field above 2^32

// heightPlus2p32 re-writes field 3 (height) of an encoded header as height + 2^32.  A decoder that narrows the varint to 32
// bits accepts it as the same height: legal for the (lenient) header decoder as long as the ID is the hash of the header's
// own encoding (candidate (iii): not a violation of the statement, see the report).
func heightPlus2p32(hb []byte, height uint32) []byte {
	pos := 0
	for f := 1; f <= 3; f++ {
		if pos >= len(hb) || hb[pos] != byte(f<<3) {
			return nil
		}
		pos++
		start := pos
		for pos < len(hb) && hb[pos]&0x80 != 0 {
			pos++
		}
		pos++
		if pos > len(hb) {
			return nil
		}
		if f == 3 {
			out := append([]byte{}, hb[:start]...)
			out = append(out, uvarint(uint64(height)+1<<32)...)
			return append(out, hb[pos:]...)
		}
	}
	return nil
}

// ------------------------------------------------------------------ concurrent decoding

// decodeState decodes a saved block, its transactions and its generator address from private buffers (overwritten after
// decoding) and returns everything that was obtained as one string.  It is computed once sequentially and then by every
// goroutine of the concurrent phase: the strings must be equal.
func decodeState(sv saved) string {
	buf := append([]byte{}, sv.enc...)
	nb, err := blockchain.NewBlock(buf)
	if err != nil {
		return "NewBlock: " + err.Error()
	}
	for i := range buf {
		buf[i] ^= 0x55
	}
	st := fmt.Sprintf("%x %x", []byte(nb.Header.ID), nb.Encode())
	for i, tx := range sv.block.Transactions {
		tb := tx.Encode()
		n, err := blockchain.NewTransaction(tb)
		if err != nil {
			return st + " NewTransaction: " + err.Error()
		}
		d := &blockchain.Transaction{}
		if err := d.Decode(tb); err != nil {
			return st + " Decode: " + err.Error()
		}
		st += fmt.Sprintf(" %x %x", []byte(n.ID), d.Encode())
		if i < len(nb.Transactions) {
			st += fmt.Sprintf(" %x", []byte(nb.Transactions[i].ID))
		}
	}
	if addr := sv.block.Header.GeneratorAddress; len(addr) == 20 {
		text, err := codec.BytesToLisk32(addr)
		back, err2 := codec.Lisk32ToBytes(text)
		st += fmt.Sprintf(" %s %x %v %v", text, back, err, err2)
	}
	return st
}

// ------------------------------------------------------------------ G9: temporary blocks

// tempBlocks removes the last blocks of the chain with saveTemp (the path of a chain switch), reads them back with
// GetTempBlocks and compares IDs and bytes with what was saved: "IDs are unchanged by store / load" for the temp store.
func tempBlocks(rep *report, chain *blockchain.Chain, database *db.DB, all []saved) {
	var removed []saved
	for k := 0; k < 3 && len(all) > 1; k++ {
		last := all[len(all)-1]
		tip := chain.LastBlock()
		if tip == nil || !bytes.Equal(tip.Header.ID, last.block.Header.ID) {
			break
		}
		var rerr error
		if where, what := guard(func() { rerr = chain.RemoveBlock(database.NewBatch(), true) }); where != "" {
			rep.viol("panic:"+where, "Chain.RemoveBlock(saveTemp) panics: "+what, map[string]interface{}{"height": last.block.Header.Height})
			return
		}
		if rerr != nil {
			rep.Counts["temp_remove_errors"]++
			break
		}
		removed = append(removed, last)
		all = all[:len(all)-1]
	}
	if len(removed) == 0 {
		return
	}
	var temps []*blockchain.Block
	var terr error
	if where, what := guard(func() { temps, terr = blockchain.NewDataAccess(database, 4, -1).GetTempBlocks() }); where != "" {
		rep.viol("panic:"+where, "GetTempBlocks panics: "+what, nil)
		return
	}
	if terr != nil {
		rep.viol("roundtrip:blockchain.Block", fmt.Sprintf("GetTempBlocks cannot decode the %d blocks that RemoveBlock stored as temporary blocks: %v", len(removed), terr), nil)
		return
	}
	for _, s := range removed {
		replay := map[string]interface{}{"height": s.block.Header.Height, "temp": true}
		var tb *blockchain.Block
		for _, t := range temps {
			if t != nil && t.Header != nil && t.Header.Height == s.block.Header.Height {
				tb = t
			}
		}
		if tb == nil {
			rep.Counts["temp_not_found"]++ // completeness of the temp store is C05's
			continue
		}
		rep.Counts["temp_blocks"]++
		bad := !bytes.Equal(tb.Header.ID, s.block.Header.ID) || !bytes.Equal(tb.Encode(), s.enc) || len(tb.Transactions) != len(s.block.Transactions)
		for i := 0; !bad && i < len(tb.Transactions); i++ {
			bad = !bytes.Equal(tb.Transactions[i].ID, s.block.Transactions[i].ID)
		}
		if bad {
			rep.viol("id-unstable", fmt.Sprintf("block %x / its transactions come back from the temporary block store (RemoveBlock saveTemp + GetTempBlocks) with other IDs or bytes: block ID %x",
				s.block.Header.ID, tb.Header.ID), replay)
		}
	}
}

// ------------------------------------------------------------------ G10: Lisk32 text probes (case, prefix)

// Every probe is logged with the real verdict; WireTrace.tla decides it with L32TextValid: a text converts to bytes and back
// without loss only if it is exactly what BytesToLisk32 produces (lower-case prefix, lower-case alphabet, checksum).
// probe = "prefix": the three prefix characters differ - candidate (ii), reported under its own key.
func lisk32TextProbes(rep *report, w *tj.Writer, g *gen, text string) {
	type probe struct{ kind, text string }
	body := text[3:]
	ps := []probe{
		{"valid", text},
		{"case", "lsk" + strings.ToUpper(body)},
		{"case", strings.ToUpper(text)},
		{"prefix", "LSK" + body},
		{"prefix", "Lsk" + body},
		{"prefix", "xyz" + body},
		{"prefix", "lsl" + body},
		{"prefix", body[:3] + body},
	}
	letters := []int{}
	for i := 0; i < len(body); i++ {
		if body[i] >= 'a' && body[i] <= 'z' {
			letters = append(letters, i)
		}
	}
	for k := 0; k < 6 && len(letters) > 0; k++ {
		i := letters[g.r.Intn(len(letters))]
		ps = append(ps, probe{"case", "lsk" + body[:i] + strings.ToUpper(body[i:i+1]) + body[i+1:]})
	}
	for _, p := range ps {
		var err error
		var bb []byte
		if where, what := guard(func() { bb, err = codec.Lisk32ToBytes(p.text) }); where != "" {
			rep.viol("panic:"+where, "Lisk32ToBytes panics: "+what, map[string]interface{}{"text": p.text})
			continue
		}
		back := ""
		if err == nil {
			back, _ = codec.BytesToLisk32(bb)
		}
		w.Emit(map[string]interface{}{"op": "l32t", "probe": p.kind, "text": byteSeq([]byte(p.text)), "str": p.text, "ok": tj.B(err == nil), "back": back})
		rep.Counts["l32t"]++
		rep.Counts["l32t_"+p.kind]++
	}
}

// ------------------------------------------------------------------ G5: deviant transactions inside a block

func feedHeader() []byte {
	h := &blockchain.BlockHeader{Version: 2, Timestamp: 1700000000, Height: 77, PreviousBlockID: bytes.Repeat([]byte{1}, 32),
		GeneratorAddress: bytes.Repeat([]byte{2}, 20), TransactionRoot: bytes.Repeat([]byte{3}, 32), AssetRoot: bytes.Repeat([]byte{4}, 32),
		EventRoot: bytes.Repeat([]byte{5}, 32), StateRoot: bytes.Repeat([]byte{6}, 32), MaxHeightPrevoted: 70, MaxHeightGenerated: 60,
		ImpliesMaxPrevotes: true, ValidatorsHash: bytes.Repeat([]byte{7}, 32),
		AggregateCommit: &blockchain.AggregateCommit{Height: 50, AggregationBits: []byte{}, CertificateSignature: []byte{}},
		Signature:       bytes.Repeat([]byte{8}, 64)}
	h.Init()
	return h.Encode()
}

func lenDelimited(key byte, b []byte) []byte {
	out := append([]byte{key}, uvarint(uint64(len(b)))...)
	return append(out, b...)
}

// feedInBlock wraps the deviant transaction bytes in a block (canonical header, one transaction) and gives it to NewBlock, the
// path of every transaction that arrives inside a block.  The verdict must be the specification's verdict for the
// transaction bytes, and an accepted transaction has the ID = hash of exactly these bytes.
func feedInBlock(rep *report, header, b []byte, specOK bool, cls string, viaTx *blockchain.Transaction, replay map[string]interface{}) {
	bb := append(lenDelimited(0x0a, header), lenDelimited(0x12, b)...)
	var blk *blockchain.Block
	var err error
	if where, what := guard(func() { blk, err = blockchain.NewBlock(bb) }); where != "" {
		rep.viol("panic:"+where, fmt.Sprintf("NewBlock panics on a block whose transaction is %x (%s): %s", clip(b), cls, what), replay)
		return
	}
	rep.Counts["deviants_in_block"]++
	if err != nil {
		if specOK {
			rep.viol("strict-rejects-canonical-in-block", fmt.Sprintf("NewBlock rejects a block whose only transaction is the canonical encoding %x (%s): %v", clip(b), cls, err), replay)
		}
		return
	}
	rep.Counts["deviants_in_block_accepted"]++
	if len(blk.Transactions) != 1 {
		rep.viol("strict-accepts-noncanonical-in-block:"+cls, fmt.Sprintf("NewBlock turns a block with one transaction (%x, %s) into a block with %d transactions", clip(b), cls, len(blk.Transactions)), replay)
		return
	}
	tx := blk.Transactions[0]
	re := tx.Encode()
	if !specOK || !bytes.Equal(re, b) {
		rep.viol("strict-accepts-noncanonical-in-block:"+cls, fmt.Sprintf("NewBlock accepts a block whose transaction bytes %x are not a canonical transaction encoding (deviation: %s; the transaction re-encodes to %x)", clip(b), cls, clip(re)), replay)
		return
	}
	if !bytes.Equal(tx.ID, hashOf(b)) || (viaTx != nil && !bytes.Equal(tx.ID, viaTx.ID)) {
		rep.viol("id-unstable", fmt.Sprintf("transaction %x inside a block gets the ID %x, the hash of its bytes is %x", clip(b), tx.ID, hashOf(b)), replay)
	}
	// the block envelope with something after its last field: whatever NewBlock does with it, the IDs are those of the block
	if rep.Counts["rawblock_trailing"] < 64 {
		for _, trail := range [][]byte{{0x00}, {0x20, 0x01}, lenDelimited(0x12, b)[:2]} {
			rep.Counts["rawblock_trailing"]++
			var tblk *blockchain.Block
			var terr error
			if where, what := guard(func() { tblk, terr = blockchain.NewBlock(append(append([]byte{}, bb...), trail...)) }); where != "" {
				rep.viol("panic:"+where, "NewBlock panics on a block followed by trailing bytes: "+what, replay)
				continue
			}
			if terr != nil {
				rep.Counts["rawblock_trailing_rejected"]++
				continue
			}
			if !bytes.Equal(tblk.Header.ID, blk.Header.ID) || len(tblk.Transactions) != 1 || !bytes.Equal(tblk.Transactions[0].ID, tx.ID) || !bytes.Equal(tblk.Encode(), bb) {
				rep.viol("id-unstable", fmt.Sprintf("NewBlock accepts a block followed by the bytes %x and gives it other IDs / contents than the block itself", trail), replay)
			}
		}
	}
}

// ------------------------------------------------------------------ G4: deviants of other strictly decoded schemas

func schemaDiffers(byName map[string]entry, name string, spec json.RawMessage) string {
	e, ok := byName[name]
	if !ok {
		return "the tree has no generated-codec type " + name
	}
	fs, ok := schemaOf(reflect.TypeOf(e.mk()).Elem(), 0)
	if !ok {
		return "schema of " + name + " cannot be read"
	}
	var sv interface{}
	if err := json.Unmarshal(spec, &sv); err != nil {
		return err.Error()
	}
	if got, want := jsonOf(schemaJSON(fs)), jsonOf(sv); got != want {
		return fmt.Sprintf("schema of %s in the tree is %s, the specification assumes %s", name, got, want)
	}
	return ""
}

// feedDV2: one deviant encoding of schema r.Type (field kind r.Kind, class r.Cls) with the verdict of StrictAccept, given
// to the type's DecodeStrict.  Accepted implies canonical: the specification accepts it and it re-encodes to itself.
func feedDV2(rep *report, byName map[string]entry, r *feedRec, raw json.RawMessage, dv2 map[string]int) {
	e, ok := byName[r.Type]
	if !ok {
		return // reported through the SCH record
	}
	b := toBytes(r.B)
	specOK := string(r.Ok) == "1"
	cls := r.Kind + ":" + classOf(r)
	key := r.Type + ":" + cls
	replay := map[string]interface{}{"record": raw, "hex": fmt.Sprintf("%x", b)}
	rep.Counts["dv2"]++
	dv2["cases:"+r.Type]++
	dv2["kind:"+r.Kind]++
	if specOK {
		rep.Counts["dv2_spec_accept"]++
	}
	m := e.mk()
	var derr error
	if where, what := guard(func() { derr = m.DecodeStrict(b) }); where != "" {
		rep.viol("panic:"+where, fmt.Sprintf("%s.DecodeStrict panics on %x (%s): %s", r.Type, clip(b), cls, what), replay)
		return
	}
	if derr != nil {
		if specOK { // the reference grammar accepts b: rejecting is a violation only if b is the type's OWN encoding
			d := e.mk()
			var lerr error
			var re []byte
			if where, _ := guard(func() { lerr = d.Decode(b); re = d.Encode() }); where == "" && lerr == nil && bytes.Equal(re, b) {
				rep.viol("strict-rejects-own-encoding:"+r.Type, fmt.Sprintf("%s.DecodeStrict rejects %x (%s), which Decode accepts and Encode reproduces: %v", r.Type, clip(b), cls, derr), replay)
			}
		}
		return
	}
	rep.Counts["dv2_real_accept"]++
	var re []byte
	if where, what := guard(func() { re = m.Encode() }); where != "" {
		rep.viol("panic:"+where, fmt.Sprintf("%s.Encode panics after DecodeStrict(%x): %s", r.Type, clip(b), what), replay)
		return
	}
	if !specOK || !bytes.Equal(re, b) {
		dv2["noncanonical-accepted:"+key]++
		rep.viol("strict-accepts-noncanonical:"+key, fmt.Sprintf("%s.DecodeStrict accepts %x, which is not a canonical encoding (field kind %s, deviation %s); the decoded value encodes to %x",
			r.Type, clip(b), r.Kind, classOf(r), clip(re)), replay)
	}
}
