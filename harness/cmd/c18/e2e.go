// Loopback scenarios of c18 (see main.go).  The observer A listens on 127.0.0.1, the offender B on 127.0.0.2, the
// bystander on 127.0.0.3 (Linux routes all of 127/8 to the loopback interface; libp2p's TCP transport dials from
// the listen address, which the scenario verifies independently in /proc/net/tcp): the local and the remote
// address of A's connections differ, so a penalty booked on the wrong end is visible.
package main

import (
	"context"
	"errors"
	"fmt"
	"net"
	"os"
	"sort"
	"strings"
	"sync"
	"sync/atomic"
	"time"

	"github.com/LiskHQ/lisk-engine/pkg/blockchain"
	lsync "github.com/LiskHQ/lisk-engine/pkg/consensus/sync"
	"github.com/LiskHQ/lisk-engine/pkg/log"
	"github.com/LiskHQ/lisk-engine/pkg/p2p"

	"verifharness/internal/node"
	"verifharness/internal/tj"
)

type ScenarioRes struct {
	Name         string      `json:"name"`
	Checks       []string    `json:"checks"`
	Inconclusive string      `json:"inconclusive,omitempty"`
	Violations   []Violation `json:"violations,omitempty"`
	WallS        float64     `json:"wall_s"`
	Cases        int         `json:"cases,omitempty"` // table scenarios: cases that ran to their verdict
}

type node2 struct {
	c      *p2p.Connection
	info   p2p.AddrInfo
	ip     string
	start  time.Time
	served *int64 // requests that reached the RPC handler (the requester re-sends a request whose response it missed)
	stop   func()
}

var startMu sync.Mutex

const (
	rpcName  = "ping"
	rpcPlain = "plain" // registered WITHOUT WithRPCMessageCounter: the limiter's defaults apply
	rpcFail  = "fail"  // the handler answers with an error
)

var chainID = []byte{4, 0, 0, 7} // the chain id of harness/internal/node

type nodeCfg struct {
	ip           string
	blacklist    []string
	limit        int
	penalty      int
	rateInterval time.Duration
	seed         []byte
	syncNames    bool // register no-op handlers under the names of the sync procedures (a client of a real node)
}

func listenOf(ip string) string {
	if strings.Contains(ip, ":") {
		return "/ip6/" + ip + "/tcp/0"
	}
	return "/ip4/" + ip + "/tcp/0"
}

func newNode(logger log.Logger, nc nodeCfg) (*node2, error) {
	startMu.Lock()
	defer startMu.Unlock()
	cfg := &p2p.Config{ChainID: chainID, Addresses: []string{listenOf(nc.ip)}, BlacklistedIPs: nc.blacklist}
	c := p2p.NewConnection(logger, cfg)
	served := new(int64)
	if err := c.RegisterRPCHandler(rpcName, func(w p2p.ResponseWriter, req *p2p.Request) { atomic.AddInt64(served, 1); w.Write([]byte("pong")) },
		p2p.WithRPCMessageCounter(nc.limit, nc.penalty)); err != nil {
		return nil, err
	}
	if err := c.RegisterRPCHandler(rpcPlain, func(w p2p.ResponseWriter, req *p2p.Request) { w.Write([]byte("ok")) }); err != nil {
		return nil, err
	}
	if err := c.RegisterRPCHandler(rpcFail, func(w p2p.ResponseWriter, req *p2p.Request) { w.Error(errors.New("no")) },
		p2p.WithRPCMessageCounter(nc.limit, nc.penalty)); err != nil {
		return nil, err
	}
	if nc.syncNames {
		for _, name := range []string{lsync.RPCEndpointGetLastBlock, lsync.RPCEndpointGetHighestCommonBlock, lsync.RPCEndpointGetBlocksFromID} {
			if err := c.RegisterRPCHandler(name, func(w p2p.ResponseWriter, r *p2p.Request) { w.Write(nil) }); err != nil {
				return nil, err
			}
		}
	}
	c.VerifSetRateInterval(nc.rateInterval)
	seed := nc.seed
	if seed == nil {
		seed = []byte{}
	}
	if err := c.Start(seed); err != nil {
		return nil, err
	}
	c.VerifSetBanExpiration(2 * time.Second)
	addrs, err := c.MultiAddress()
	if err != nil || len(addrs) == 0 {
		return nil, fmt.Errorf("no listen address: %v", err)
	}
	info, err := p2p.AddrInfoFromMultiAddr(addrs[0])
	if err != nil {
		return nil, err
	}
	n := &node2{c: c, info: *info, ip: nc.ip, served: served, start: time.Now()}
	n.stop = func() { _ = c.Stop() }
	return n, nil
}

func waitFor(d time.Duration, f func() bool) bool {
	end := time.Now().Add(d)
	for {
		if f() {
			return true
		}
		if time.Now().After(end) {
			return false
		}
		time.Sleep(20 * time.Millisecond)
	}
}

func dial(from, to *node2) error {
	ctx, cancel := context.WithTimeout(context.Background(), 5*time.Second)
	defer cancel()
	return from.c.Connect(ctx, to.info)
}

func requestData(from, to *node2, proc string, data []byte, d time.Duration) (p2p.Response, error) {
	ctx, cancel := context.WithTimeout(context.Background(), d)
	defer cancel()
	r := from.c.RequestFrom(ctx, to.info.ID, proc, data)
	return r, (&r).Error()
}

func request(from, to *node2, proc string, d time.Duration) error {
	_, err := requestData(from, to, proc, []byte("x"), d)
	return err
}

func raw(from, to *node2, response bool, data []byte) error {
	ctx, cancel := context.WithTimeout(context.Background(), 3*time.Second)
	defer cancel()
	return from.c.VerifSendRaw(ctx, to.info.ID, response, data)
}

// tcpPort of the (single) listen address of a node
func (n *node2) port() int {
	for _, a := range n.info.Addrs {
		parts := strings.Split(a.String(), "/")
		for i, p := range parts {
			if p == "tcp" && i+1 < len(parts) {
				var v int
				fmt.Sscanf(parts[i+1], "%d", &v)
				return v
			}
		}
	}
	return 0
}

// hasEstablished reports, from the kernel's table, whether an established TCP connection exists whose local end is
// lip:lport and whose remote end has address rip (IPv4 only).  It is the oracle's own knowledge of the offender's
// source address, independent of what libp2p reports to the code under test.
func hasEstablished(lip string, lport int, rip string) (bool, error) {
	b, err := os.ReadFile("/proc/net/tcp")
	if err != nil {
		return false, err
	}
	hexIP := func(s string) string {
		ip := net.ParseIP(s).To4()
		if ip == nil {
			return ""
		}
		return fmt.Sprintf("%02X%02X%02X%02X", ip[3], ip[2], ip[1], ip[0])
	}
	l := fmt.Sprintf("%s:%04X", hexIP(lip), lport)
	r := hexIP(rip) + ":"
	for _, line := range strings.Split(string(b), "\n") {
		f := strings.Fields(line)
		if len(f) > 3 && f[1] == l && strings.HasPrefix(f[2], r) && f[3] == "01" {
			return true, nil
		}
	}
	return false, nil
}

type scenario struct {
	name      string
	ipA       string // observer
	ipB       string // offender
	ipC       string // bystander ("" when the world has one address: IPv6 loopback)
	outbound  bool   // A dials B: the offender sits at the remote end of an OUTBOUND connection of A
	blacklist bool
	// cause is run with A (observer) and B (offender) connected; returns the expected total score (>= threshold: ban;
	// 0: legal traffic; -1: "some penalty": the cause is repeated until the address is banned, every application must raise the score)
	cause        func(s *scen, A, B *node2) (expectScore int, err error)
	custom       func(s *scen) // a scenario with its own flow
	limit        int
	penalty      int
	rateInterval time.Duration
	// the offender's OWN limiter for the shared procedure: a node that sends more requests than its own limit allows
	// counts the answers above its limit; what the offender's gater then holds against A is not A's business
	offenderLimit int
}

type scen struct {
	res    *ScenarioRes
	def    scenario
	opts   *Opts
	logger log.Logger
	mu     sync.Mutex
	nodes  []*node2
}

func (s *scen) viol(key, what string) {
	s.mu.Lock()
	defer s.mu.Unlock()
	s.res.Violations = append(s.res.Violations, Violation{key, "[" + s.def.name + "] " + what, map[string]interface{}{"e2e": s.def.name}})
}
func (s *scen) ok(what string) {
	s.mu.Lock()
	defer s.mu.Unlock()
	s.res.Checks = append(s.res.Checks, what)
}
func (s *scen) nodeOn(ip string, blacklist []string) (*node2, error) {
	return s.nodeCfg(nodeCfg{ip: ip, blacklist: blacklist})
}
func (s *scen) nodeCfg(nc nodeCfg) (*node2, error) {
	if nc.limit == 0 {
		nc.limit, nc.penalty, nc.rateInterval = s.def.limit, s.def.penalty, s.def.rateInterval
	}
	n, err := newNode(s.logger, nc)
	if err == nil {
		s.mu.Lock()
		s.nodes = append(s.nodes, n)
		s.mu.Unlock()
	}
	return n, err
}

func thr() int { return p2p.VerifMaxPenaltyScore }

// connectPair connects offender and observer in the direction of the scenario and verifies the offender's source address.
func (s *scen) connectPair(A, B *node2) string {
	if s.def.outbound {
		if err := dial(A, B); err != nil {
			return fmt.Sprintf("A cannot connect to B: %v", err)
		}
	} else if err := dial(B, A); err != nil {
		return fmt.Sprintf("B cannot connect to A: %v", err)
	}
	if !waitFor(3*time.Second, func() bool { return A.c.VerifConnsTo(B.info.ID) > 0 && B.c.VerifConnsTo(A.info.ID) > 0 }) {
		return "A and B not connected"
	}
	if !s.def.outbound && A.ip != B.ip && !strings.Contains(A.ip, ":") {
		ok, err := hasEstablished(A.ip, A.port(), B.ip)
		if err != nil || !ok {
			return fmt.Sprintf("the kernel shows no established connection %s:%d <- %s (the offender does not dial from its listen address): %v", A.ip, A.port(), B.ip, err)
		}
	}
	return ""
}

// bookkeeping on other addresses: nothing may be booked on the observer's own address or on the bystander's
func (s *scen) othersClean(gA *p2p.VerifGater, when string) {
	if s.def.ipA == s.def.ipB {
		return
	}
	if sc, b, _ := gA.Score(s.def.ipA); sc != 0 || b {
		s.viol("penalty-on-local-address", fmt.Sprintf("%s: A (%s) holds score=%d banned=%v for ITS OWN address; the offender is %s", when, s.def.ipA, sc, b, s.def.ipB))
	} else {
		s.ok(when + ": nothing booked on the observer's own address")
	}
	if s.def.ipC != "" {
		if sc, b, _ := gA.Score(s.def.ipC); sc != 0 || b {
			s.viol("penalty-leaks-to-other-ip", fmt.Sprintf("%s: A holds score=%d banned=%v for the bystander %s", when, sc, b, s.def.ipC))
		}
	}
}

func runScenario(def scenario, o *Opts, logger log.Logger) (res ScenarioRes) {
	t0 := time.Now()
	res.Name = def.name
	res.Checks = []string{}
	s := &scen{res: &res, def: def, opts: o, logger: logger}
	defer func() {
		if r := recover(); r != nil {
			res.Inconclusive = fmt.Sprintf("panic: %v", r)
		}
		for _, n := range s.nodes {
			n := n
			go n.stop()
		}
		res.WallS = time.Since(t0).Seconds()
	}()
	fail := func(f string, a ...interface{}) ScenarioRes {
		res.Inconclusive = fmt.Sprintf(f, a...)
		return res
	}
	if def.custom != nil {
		// table scenarios start many hosts (host creation is serialised): the scenarios that race against the 10 s sweep go first
		time.Sleep(1500 * time.Millisecond)
		def.custom(s)
		return res
	}
	if def.blacklist {
		// the blacklist names the OFFENDER's address in one of its spellings; the bystander must stay connectable
		for bi, spelled := range blacklistSpellings(def.ipB) {
			A, err := s.nodeOn(def.ipA, []string{spelled})
			if err != nil {
				return fail("start A: %v", err)
			}
			B, err := s.nodeOn(def.ipB, nil)
			if err != nil {
				return fail("start B: %v", err)
			}
			for round := 0; round < 2; round++ {
				if err := dial(B, A); err == nil && A.c.VerifConnsTo(B.info.ID) > 0 {
					s.viol("blacklisted-ip-allowed:inbound", fmt.Sprintf("A blacklists %q; B dials A from %s and the connection is established", spelled, def.ipB))
				} else {
					s.ok("inbound connection from blacklisted IP refused (" + spelled + ")")
				}
				if err := dial(A, B); err == nil {
					s.viol("blacklisted-ip-allowed:outbound", fmt.Sprintf("A blacklists %q and dials B at %s successfully", spelled, def.ipB))
				} else {
					s.ok("outbound dial to blacklisted IP refused: " + firstLine(err.Error()))
				}
				if round == 0 && bi == 0 {
					s.bystander(A, "while "+def.ipB+" is blacklisted")
					time.Sleep(4 * time.Second) // longer than the ban expiration: a blacklist entry never expires
				} else if round == 0 {
					break
				}
			}
		}
		return res
	}
	A, err := s.nodeOn(def.ipA, nil)
	if err != nil {
		return fail("start A: %v", err)
	}
	ncB := nodeCfg{ip: def.ipB}
	if def.offenderLimit > 0 {
		ncB.limit, ncB.penalty, ncB.rateInterval = def.offenderLimit, def.penalty, def.rateInterval
	}
	B, err := s.nodeCfg(ncB)
	if err != nil {
		return fail("start B: %v", err)
	}
	gA, gB := A.c.VerifGater(), B.c.VerifGater()
	if msg := s.connectPair(A, B); msg != "" {
		return fail("%s", msg)
	}
	// well-formed traffic within the limit: no penalty
	if err := request(B, A, rpcName, 2500*time.Millisecond); err != nil {
		return fail("well-formed request failed: %v", err)
	}
	if n := atomic.LoadInt64(A.served); n != 1 {
		return fail("A received %d requests instead of 1", n)
	}
	if sc, b, _ := gA.Score(def.ipB); sc != 0 || b {
		s.viol("penalty-for-wellformed-traffic", fmt.Sprintf("one well-formed request within the limit left score=%d banned=%v for %s", sc, b, def.ipB))
	} else {
		s.ok("well-formed request: no penalty")
	}
	// A itself never misbehaves: the offender's own gater must hold nothing against it (B counts A's responses)
	defer func() {
		if sc, b, _ := gB.Score(def.ipA); sc != 0 || b {
			s.viol("penalty-for-wellformed-traffic:responses", fmt.Sprintf("A only answered B's requests, yet B's gater holds score=%d banned=%v for %s", sc, b, def.ipA))
		} else {
			s.ok("the requester holds nothing against the honest responder")
		}
	}()
	expect, err := def.cause(s, A, B)
	if err != nil {
		return fail("cause: %v", err)
	}
	if expect == 0 {
		// legal traffic only
		if sc, b, _ := gA.Score(def.ipB); sc != 0 || b {
			s.viol("penalty-within-rate-limit", fmt.Sprintf("traffic within the limit left score=%d banned=%v for %s", sc, b, def.ipB))
		} else {
			s.ok("traffic within the limits: score 0")
		}
		if A.c.VerifConnsTo(B.info.ID) == 0 {
			s.viol("disconnect-without-ban", "the peer was disconnected although it was never penalised")
		}
		s.othersClean(gA, "after legal traffic")
		return res
	}
	bannedFlag := func() bool { _, b, _ := gA.Score(def.ipB); return b }
	banned := waitFor(3*time.Second, bannedFlag)
	sc, _, _ := gA.Score(def.ipB)
	s.othersClean(gA, "after the penalty")
	if expect == -1 {
		// "leads to penalties": some penalty; repeated, the penalties must reach the threshold (then: banned)
		prev := 0
		for rep := 0; !banned && rep < 12; rep++ {
			if sc <= prev {
				s.viol("no-penalty-for:"+def.name, fmt.Sprintf("application %d of the cause left the score at %d (before: %d), not banned", rep+1, sc, prev))
				return res
			}
			if A.c.VerifConnsTo(B.info.ID) == 0 {
				s.viol("disconnect-without-ban", fmt.Sprintf("peer disconnected at score %d", sc))
				return res
			}
			prev = sc
			if _, err := def.cause(s, A, B); err != nil {
				return fail("cause (repeated): %v", err)
			}
			banned = waitFor(1500*time.Millisecond, bannedFlag)
			sc, _, _ = gA.Score(def.ipB)
		}
		expect = thr()
	}
	if expect < thr() {
		if banned {
			s.viol("ban-below-threshold", fmt.Sprintf("expected score %d, peer is banned (score %d)", expect, sc))
		} else if sc != expect {
			if sc < expect {
				s.viol("no-penalty-for:"+def.name, fmt.Sprintf("expected score %d, observed %d", expect, sc))
			} else {
				s.viol("penalty-too-large:"+def.name, fmt.Sprintf("expected score %d, observed %d", expect, sc))
			}
		} else {
			s.ok(fmt.Sprintf("score %d below the threshold, not banned", sc))
		}
		if A.c.VerifConnsTo(B.info.ID) == 0 {
			s.viol("disconnect-without-ban", fmt.Sprintf("peer disconnected at score %d", sc))
		}
		return res
	}
	if !banned {
		if sc >= thr() {
			s.viol("no-ban-at-threshold", fmt.Sprintf("score %d but no ban recorded for %s", sc, def.ipB))
		} else {
			s.viol("no-penalty-for:"+def.name, fmt.Sprintf("expected a ban (score >= %d), observed score %d for %s, not banned", expect, sc, def.ipB))
		}
		return res
	}
	s.ok(fmt.Sprintf("ban recorded for %s (score %d)", def.ipB, sc))
	banAt := time.Now()
	// the peer must be disconnected
	bannedNow := bannedFlag
	if !waitFor(2*time.Second, func() bool { return A.c.VerifConnsTo(B.info.ID) == 0 }) {
		served := ""
		if err := request(B, A, rpcName, 2*time.Second); err == nil {
			served = "; a further request of the banned peer over that connection was served"
		}
		s.viol("ban-without-disconnect:"+callSite(def.name), fmt.Sprintf("%s is banned (score %d) but A still has %d open connection(s) to the peer 2 s later%s",
			def.ipB, sc, A.c.VerifConnsTo(B.info.ID), served))
		_ = A.c.Disconnect(B.info.ID)
		waitFor(2*time.Second, func() bool { return A.c.VerifConnsTo(B.info.ID) == 0 })
	} else {
		s.ok("peer disconnected at the ban")
	}
	waitFor(2*time.Second, func() bool { return B.c.VerifConnsTo(A.info.ID) == 0 })
	// re-dials in both directions are refused (a check counts only if the ban is recorded before and after it)
	redials := 0
	pre := bannedNow()
	err = dial(A, B)
	if pre && bannedNow() {
		redials++
		if err == nil {
			s.viol("banned-ip-allowed:outbound", fmt.Sprintf("A dials the banned IP %s successfully", def.ipB))
			_ = A.c.Disconnect(B.info.ID)
		} else {
			s.ok("outbound re-dial refused: " + firstLine(err.Error()))
		}
	}
	pre = bannedNow()
	err = dial(B, A)
	conn := A.c.VerifConnsTo(B.info.ID) > 0
	if pre && bannedNow() {
		redials++
		if err == nil && conn {
			s.viol("banned-ip-allowed:inbound", fmt.Sprintf("B re-connects to A from the banned IP %s", def.ipB))
			_ = A.c.Disconnect(B.info.ID)
		} else {
			s.ok("inbound re-dial of the banned peer refused")
		}
	}
	C, err := s.nodeOn(def.ipB, nil)
	if err != nil {
		return fail("start C: %v", err)
	}
	pre = bannedNow()
	err = dial(C, A)
	conn = A.c.VerifConnsTo(C.info.ID) > 0
	if pre && bannedNow() {
		redials++
		if err == nil && conn {
			s.viol("banned-ip-allowed:inbound", fmt.Sprintf("another peer connects to A from the banned IP %s", def.ipB))
		} else {
			s.ok("inbound dial of another peer from the banned IP refused")
		}
	}
	_ = A.c.Disconnect(C.info.ID)
	if redials < 3 {
		res.Inconclusive = fmt.Sprintf("only %d of 3 re-dial checks ran while the ban was recorded", redials)
	}
	// a bystander on a third address is not affected by the ban
	if bannedNow() {
		s.bystander(A, "while "+def.ipB+" is banned")
	}
	// expiry: 2 s expiration, sweep every VerifSweepInterval.  The bookkeeping flag tells when to try (a refused dial costs
	// libp2p's dial back-off, so it is tried once, with a fresh host); the verdict is what the dial says.
	limit := 2*time.Second + p2p.VerifSweepInterval() + 3*time.Second
	waitFor(limit-time.Since(banAt), func() bool { return !bannedNow() })
	D, err := s.nodeOn(def.ipB, nil)
	if err != nil {
		return fail("start D: %v", err)
	}
	if err := dial(D, A); err != nil || !waitFor(2*time.Second, func() bool { return A.c.VerifConnsTo(D.info.ID) > 0 }) {
		if bannedNow() {
			s.viol("ban-never-expires", fmt.Sprintf("ban of %s with expiration 2 s still in force %v after the ban (sweep interval %v): a peer from that address cannot connect: %v",
				def.ipB, time.Since(banAt).Round(time.Second), p2p.VerifSweepInterval(), err))
		} else {
			s.viol("clean-ip-refused:inbound", fmt.Sprintf("after the expiry a peer from %s cannot connect to A: %v", def.ipB, err))
		}
		return res
	}
	s.ok(fmt.Sprintf("after expiry: inbound accepted %.1f s after the ban", time.Since(banAt).Seconds()))
	E, err := s.nodeOn(def.ipB, nil)
	if err != nil {
		return fail("start E: %v", err)
	}
	if err := dial(A, E); err != nil {
		s.viol("clean-ip-refused:outbound", fmt.Sprintf("after the expiry A cannot dial %s: %v", def.ipB, err))
	} else {
		s.ok("after expiry: outbound accepted")
	}
	// clean score: a penalty below the threshold does not ban again
	A.c.ApplyPenalty(D.info.ID, 10)
	time.Sleep(100 * time.Millisecond)
	if sc, b, _ := gA.Score(def.ipB); b || A.c.VerifConnsTo(D.info.ID) == 0 {
		s.viol("score-not-reset-after-expiry", fmt.Sprintf("after the ban expired a penalty of 10 for a peer from %s gives score=%d banned=%v connections=%d", def.ipB, sc, b, A.c.VerifConnsTo(D.info.ID)))
	} else {
		s.ok("after expiry: clean score (a penalty of 10 does not ban)")
	}
	return res
}

// bystander: a peer on the third address connects to A and A dials another one there
func (s *scen) bystander(A *node2, when string) {
	if s.def.ipC == "" {
		return
	}
	Y, err := s.nodeOn(s.def.ipC, nil)
	if err != nil {
		s.res.Inconclusive = "start bystander: " + err.Error()
		return
	}
	Z, err := s.nodeOn(s.def.ipC, nil)
	if err != nil {
		s.res.Inconclusive = "start bystander: " + err.Error()
		return
	}
	if err := dial(Y, A); err != nil || !waitFor(2*time.Second, func() bool { return A.c.VerifConnsTo(Y.info.ID) > 0 }) {
		s.viol("clean-ip-refused:inbound:bystander", fmt.Sprintf("%s a peer from %s cannot connect to A: %v", when, s.def.ipC, err))
	} else {
		s.ok("bystander inbound accepted " + when)
	}
	if err := dial(A, Z); err != nil {
		s.viol("clean-ip-refused:outbound:bystander", fmt.Sprintf("%s A cannot dial %s: %v", when, s.def.ipC, err))
	} else {
		s.ok("bystander outbound accepted " + when)
	}
}

func blacklistSpellings(ip string) []string {
	if strings.Contains(ip, ":") {
		if ip == "::1" {
			return []string{"::1", "0:0:0:0:0:0:0:1"}
		}
		return []string{ip}
	}
	return []string{ip, "::ffff:" + ip}
}

// callSite names the function of pkg/p2p that issued the ban in a scenario.
func callSite(name string) string {
	name = strings.TrimPrefix(name, "ipv6-")
	name = strings.TrimPrefix(name, "outbound-")
	switch {
	case strings.HasSuffix(name, "-request"):
		return "MessageProtocol.onRequest"
	case strings.HasSuffix(name, "-response"):
		return "MessageProtocol.onResponse"
	case strings.HasPrefix(name, "rate-limit"):
		return "rateLimit.checkLimit"
	case name == "ban-peer":
		return "Connection.BanPeer"
	case strings.HasPrefix(name, "apply-penalty"):
		return "Connection.ApplyPenalty"
	}
	return name
}

func firstLine(s string) string {
	if i := strings.IndexByte(s, '\n'); i >= 0 {
		s = s[:i]
	}
	if len(s) > 120 {
		s = s[:120]
	}
	return s
}

var garbage = []byte{0x0a, 0xff, 0xff, 0xff, 0xff, 0x7f, 0x01}

// rateCause: limit 3 per window (one window for the whole scenario), `extra` further requests after the limit.
// With penalty >= threshold the first request above the limit bans; the statement does not place the windows, so a
// missing penalty after limit+1 requests is only judged after 2*limit+1 (on either side of ANY boundary one part exceeds).
func rateCause(parallel bool) func(s *scen, A, B *node2) (int, error) {
	return func(s *scen, A, B *node2) (int, error) {
		gA := A.c.VerifGater()
		t0 := time.Now()
		limit, pen := s.def.limit, s.def.penalty
		send := func(n int) {
			if !parallel {
				for i := 0; i < n; i++ {
					_ = request(B, A, rpcName, 2500*time.Millisecond)
				}
				return
			}
			var wg sync.WaitGroup
			for i := 0; i < n; i++ {
				wg.Add(1)
				go func() { defer wg.Done(); _ = request(B, A, rpcName, 2500*time.Millisecond) }()
			}
			wg.Wait()
		}
		send(limit - 1) // with the warm-up request: `limit` in the window
		if n := atomic.LoadInt64(A.served); n != int64(limit) {
			return 0, fmt.Errorf("A received %d requests instead of %d (a request was re-sent)", n, limit)
		}
		if sc, b, _ := gA.Score(s.def.ipB); sc != 0 || b {
			s.viol("penalty-within-rate-limit", fmt.Sprintf("%d requests with limit %d: score %d banned %v", limit, limit, sc, b))
		} else {
			s.ok(fmt.Sprintf("%d requests with limit %d: no penalty", limit, limit))
		}
		extra := 1
		if parallel {
			extra = limit + 1
		}
		send(extra)
		sc1, b1, _ := gA.Score(s.def.ipB)
		fallback := false
		if sc1 == 0 && !b1 && !parallel {
			fallback = true
			send(limit) // 2*limit+1 in total
			sc1, b1, _ = gA.Score(s.def.ipB)
		}
		if time.Since(t0) > 20*time.Second {
			return 0, fmt.Errorf("requests too slow for one rate window")
		}
		if sc1 == 0 && !b1 {
			s.viol("no-penalty-above-rate-limit", fmt.Sprintf("%d requests inside one window with limit %d: score 0", atomic.LoadInt64(A.served), limit))
			return pen, nil
		}
		if !parallel && sc1 > pen && atomic.LoadInt64(A.served) <= int64(limit+1) {
			s.viol("penalty-too-large:rate-limit", fmt.Sprintf("%d requests with limit %d, penalty %d: score %d banned %v", limit+1, limit, pen, sc1, b1))
		}
		s.ok(fmt.Sprintf("request above the limit penalised (score %d)", sc1))
		if fallback && sc1 < thr() && !b1 {
			return sc1, nil // a window boundary fell into the scenario: how many of the later requests exceed is not fixed
		}
		return pen, nil
	}
}

func scenarios(o *Opts) []scenario {
	const ipA, ipB, ipC = "127.0.0.1", "127.0.0.2", "127.0.0.3"
	base := func(name string, cause func(s *scen, A, B *node2) (int, error)) scenario {
		return scenario{name: name, ipA: ipA, ipB: ipB, ipC: ipC, cause: cause, limit: 100, penalty: 10, rateInterval: 10 * time.Second}
	}
	out := func(sc scenario) scenario { sc.name = "outbound-" + sc.name; sc.outbound = true; return sc }
	// malformed envelopes and unknown procedures "lead to penalties": some penalty, repeated until the ban (-1)
	unknownReq := func(s *scen, A, B *node2) (int, error) {
		_ = request(B, A, "no-such-procedure", 700*time.Millisecond)
		return -1, nil
	}
	banPeer := func(s *scen, A, B *node2) (int, error) { A.c.BanPeer(B.info.ID); return thr(), nil }
	malformedReq := func(s *scen, A, B *node2) (int, error) { return -1, raw(B, A, false, garbage) }
	malformedRes := func(s *scen, A, B *node2) (int, error) { return -1, raw(B, A, true, garbage) }
	unknownRes := func(s *scen, A, B *node2) (int, error) {
		return -1, raw(B, A, true, p2p.VerifEncodeResponse("0c1f8a2e-0000-4000-8000-000000000001", "no-such-procedure", []byte("x")))
	}
	accumulate := func(s *scen, A, B *node2) (int, error) {
		gA := A.c.VerifGater()
		A.c.ApplyPenalty(B.info.ID, 10)
		A.c.ApplyPenalty(B.info.ID, 50)
		if sc, b, _ := gA.Score(s.def.ipB); sc != 60 || b || A.c.VerifConnsTo(B.info.ID) == 0 {
			s.viol("penalty-not-accumulated", fmt.Sprintf("ApplyPenalty 10 then 50: score=%d banned=%v connections=%d for %s", sc, b, A.c.VerifConnsTo(B.info.ID), s.def.ipB))
		} else {
			s.ok("ApplyPenalty 10+50: score 60, still connected")
		}
		A.c.ApplyPenalty(B.info.ID, 50)
		return 110, nil
	}
	list := []scenario{
		base("unknown-procedure-request", unknownReq),
		base("malformed-request", malformedReq),
		base("malformed-response", malformedRes),
		base("unknown-procedure-response", unknownRes),
		base("ban-peer", banPeer),
		base("apply-penalty-accumulates", accumulate),
		// the offender at the remote end of an OUTBOUND connection of the observer
		out(base("ban-peer", banPeer)),
		out(base("apply-penalty-accumulates", accumulate)),
		out(base("malformed-request", malformedReq)),
		out(base("unknown-procedure-response", unknownRes)),
		// two peers behind one address: the ban caused by B closes B; C keeps its established connection (the gate only
		// looks at new connections) - the next penalty involving C finds the address already at the threshold and must
		// close C as well ("once the total reaches the ban threshold the peer is disconnected")
		base("second-peer-on-banned-address", func(s *scen, A, B *node2) (int, error) {
			C, err := s.nodeOn(s.def.ipB, nil)
			if err != nil {
				return 0, fmt.Errorf("start C: %v", err)
			}
			if err := dial(C, A); err != nil {
				return 0, fmt.Errorf("C cannot connect to A: %v", err)
			}
			if !waitFor(3*time.Second, func() bool { return A.c.VerifConnsTo(C.info.ID) > 0 }) {
				return 0, fmt.Errorf("A and C not connected")
			}
			A.c.ApplyPenalty(B.info.ID, 100) // the address is banned from here on; B is closed by the scenario's own check
			if !waitFor(2*time.Second, func() bool { return A.c.VerifConnsTo(B.info.ID) == 0 }) {
				return 100, nil // reported by the common part
			}
			A.c.ApplyPenalty(C.info.ID, 10)
			if !waitFor(2*time.Second, func() bool { return A.c.VerifConnsTo(C.info.ID) == 0 }) {
				s.viol("peer-on-banned-address-not-disconnected", "the address is banned (another peer behind it reached the threshold); a further penalty on a peer still connected from that address does not disconnect it")
			} else {
				s.ok("penalised peer on an already banned address disconnected")
			}
			return 110, nil
		}),
		base("apply-penalty-below-threshold", func(s *scen, A, B *node2) (int, error) {
			A.c.ApplyPenalty(B.info.ID, 50)
			A.c.ApplyPenalty(B.info.ID, 10)
			return 60, nil
		}),
	}
	rate := base("rate-limit-exceeded", rateCause(false))
	rate.limit, rate.penalty, rate.rateInterval, rate.offenderLimit = 3, thr(), 90*time.Second, 100 // one window for the whole scenario; the first excess bans
	list = append(list, rate)
	ratePen := base("rate-limit-penalty", rateCause(false))
	ratePen.limit, ratePen.penalty, ratePen.rateInterval, ratePen.offenderLimit = 3, thr()/2, 90*time.Second, 100 // one excess: half the threshold, no ban
	list = append(list, ratePen)
	ratePar := base("rate-limit-parallel-burst", rateCause(true))
	ratePar.limit, ratePar.penalty, ratePar.rateInterval, ratePar.offenderLimit = 3, thr(), 90*time.Second, 100
	list = append(list, ratePar)
	within := base("traffic-within-limit", func(s *scen, A, B *node2) (int, error) {
		// 3 windows of 4 s; at most 3 requests in any 4 s interval: bursts of 3 every 4.5 s
		gA := A.c.VerifGater()
		for w := 0; w < 3; w++ {
			time.Sleep(4500 * time.Millisecond) // the previous burst (first: the warm-up request) is more than one window back
			t0 := time.Now()
			for i := 0; i < 3; i++ {
				if err := request(B, A, rpcName, 2500*time.Millisecond); err != nil {
					return 0, fmt.Errorf("legal request failed: %v", err)
				}
			}
			if time.Since(t0) > 400*time.Millisecond {
				return 0, fmt.Errorf("burst %d took %v: the traffic pattern is not the planned one", w+1, time.Since(t0))
			}
			if n := atomic.LoadInt64(A.served); n != int64(1+3*(w+1)) {
				return 0, fmt.Errorf("A received %d requests instead of %d (a request was re-sent): traffic not within the limit", n, 1+3*(w+1))
			}
			if sc, b, _ := gA.Score(s.def.ipB); sc != 0 || b {
				s.viol("penalty-within-rate-limit", fmt.Sprintf("burst %d of 3 requests (limit 3 per 4 s, bursts 4.5 s apart; A handled %d requests in total, %.2f s after its start): score=%d banned=%v",
					w+1, atomic.LoadInt64(A.served), time.Since(A.start).Seconds(), sc, b))
				return 0, nil
			}
		}
		return 0, nil
	})
	within.limit, within.penalty, within.rateInterval = 3, 50, 4*time.Second
	list = append(list, within)
	list = append(list, scenario{name: "blacklist", ipA: ipA, ipB: ipB, ipC: ipC, blacklist: true, limit: 100, penalty: 10, rateInterval: 10 * time.Second})
	list = append(list,
		scenario{name: "sync-requests", ipA: ipA, custom: syncRequests, limit: 100, penalty: 10, rateInterval: 10 * time.Second},
		scenario{name: "envelope-table", ipA: ipA, custom: envelopeTable, limit: 100, penalty: 10, rateInterval: 10 * time.Second},
		scenario{name: "default-rate-limit", ipA: ipA, ipB: ipB, custom: defaultLimit, limit: 100, penalty: 10, rateInterval: 90 * time.Second},
		scenario{name: "two-connections-one-peer", ipA: ipA, custom: twoConnections, limit: 100, penalty: 10, rateInterval: 10 * time.Second})
	if c, err := net.Listen("tcp6", "[::1]:0"); err == nil {
		c.Close()
		v6 := func(name string, cause func(s *scen, A, B *node2) (int, error)) scenario {
			return scenario{name: "ipv6-" + name, ipA: "::1", ipB: "::1", cause: cause, limit: 100, penalty: 10, rateInterval: 10 * time.Second}
		}
		bl := v6("blacklist", nil)
		bl.blacklist = true
		list = append(list, v6("ban-peer", banPeer), v6("unknown-procedure-request", unknownReq), bl)
	}
	return list
}

// ---- the real sync handlers (pkg/consensus/sync) on a real node ---------------------------------------------
// "invalid sync requests lead to penalties; well-formed traffic never does".  A is harness/internal/node: a real Executer
// whose Init registered the real Syncer handlers on its p2p.Connection.  Every case has its own offender on its own
// loopback address, sends one VALID request first (score 0, answered) and then the invalid one.
func syncRequests(s *scen) {
	srv, err := node.New(&node.Config{NVal: 3, Batch: 3, Init: node.ParamSet{PcT: 2, CertT: 2, W: []uint64{1, 1, 1}, Gens: []int{1, 2, 3}}, Now: 200, Network: true}, nil, 0)
	if err != nil {
		s.res.Inconclusive = "real node: " + err.Error()
		return
	}
	defer srv.Close()
	for slot := 1; slot <= 6; slot++ {
		if _, err := srv.Extend(slot, 0); err != nil {
			s.res.Inconclusive = "real node: extend: " + err.Error()
			return
		}
	}
	ai, err := srv.AddrInfo()
	if err != nil {
		s.res.Inconclusive = "real node: " + err.Error()
		return
	}
	A := &node2{c: srv.Conn, info: *ai, ip: "127.0.0.1"}
	A.c.VerifSetBanExpiration(2 * time.Second)
	gA := A.c.VerifGater()
	var ids [][]byte
	for h := 0; h <= 6; h++ {
		hd, err := srv.Chain.DataAccess().GetBlockHeaderByHeight(uint32(h))
		if err != nil {
			s.res.Inconclusive = "real node: " + err.Error()
			return
		}
		ids = append(ids, hd.ID)
	}
	common := lsync.RPCEndpointGetHighestCommonBlock
	blocks := lsync.RPCEndpointGetBlocksFromID
	short, long := ids[2][:31], append(append([]byte{}, ids[2]...), 0x00)
	validCommon := (&lsync.GetHighestCommonBlockRequest{IDs: [][]byte{ids[1], ids[3]}}).Encode()
	validBlocks := (&lsync.GetBlocksFromIDRequest{ID: ids[2]}).Encode()
	type tc struct {
		name, proc string
		data       []byte
	}
	cases := []tc{
		{"common:no-data", common, nil},
		{"common:garbage", common, garbage},
		{"common:no-ids", common, (&lsync.GetHighestCommonBlockRequest{IDs: [][]byte{}}).Encode()},
		{"common:id-31-bytes", common, (&lsync.GetHighestCommonBlockRequest{IDs: [][]byte{ids[1], short}}).Encode()},
		{"common:id-33-bytes", common, (&lsync.GetHighestCommonBlockRequest{IDs: [][]byte{long, ids[1]}}).Encode()},
		{"blocks:no-data", blocks, nil},
		{"blocks:garbage", blocks, garbage},
		{"blocks:id-31-bytes", blocks, (&lsync.GetBlocksFromIDRequest{ID: short}).Encode()},
		{"blocks:id-33-bytes", blocks, (&lsync.GetBlocksFromIDRequest{ID: long}).Encode()},
	}
	var wg sync.WaitGroup
	var done int64
	for ci, c := range cases {
		wg.Add(1)
		go func(ci int, c tc) {
			defer wg.Done()
			ip := fmt.Sprintf("127.0.1.%d", 10+ci)
			B, err := s.nodeCfg(nodeCfg{ip: ip, syncNames: true})
			if err != nil {
				s.ok("case " + c.name + " not run: " + err.Error())
				return
			}
			if err := dial(B, A); err != nil || !waitFor(3*time.Second, func() bool { return A.c.VerifConnsTo(B.info.ID) > 0 }) {
				s.ok("case " + c.name + " not run: cannot connect")
				return
			}
			if ok, err := hasEstablished(A.ip, A.port(), ip); err != nil || !ok {
				s.ok("case " + c.name + " not run: offender does not dial from its listen address")
				return
			}
			// valid requests: answered, no penalty
			r1, err1 := requestData(B, A, common, validCommon, 2500*time.Millisecond)
			r2, err2 := requestData(B, A, blocks, validBlocks, 2500*time.Millisecond)
			if err1 != nil || err2 != nil {
				s.ok(fmt.Sprintf("case %s not run: valid requests failed: %v / %v", c.name, err1, err2))
				return
			}
			cr := &lsync.GetHighestCommonBlockResponse{}
			br := &lsync.GetBlocksFromIDResponse{}
			if err := cr.Decode(r1.Data()); err != nil || string(cr.ID) != string(ids[3]) {
				s.ok(fmt.Sprintf("case %s not run: unexpected answer to the valid getHighestCommonBlock request", c.name))
				return
			}
			if err := br.Decode(r2.Data()); err != nil || len(br.Blocks) != 4 {
				s.ok(fmt.Sprintf("case %s not run: unexpected answer to the valid getBlocksFromId request", c.name))
				return
			}
			if sc, b, _ := gA.Score(ip); sc != 0 || b || A.c.VerifConnsTo(B.info.ID) == 0 {
				s.viol("penalty-for-wellformed-traffic:sync", fmt.Sprintf("two valid sync requests left score=%d banned=%v connections=%d for %s", sc, b, A.c.VerifConnsTo(B.info.ID), ip))
				atomic.AddInt64(&done, 1)
				return
			}
			_, _ = requestData(B, A, c.proc, c.data, 700*time.Millisecond)
			pen := waitFor(2*time.Second, func() bool { sc, b, _ := gA.Score(ip); return sc > 0 || b })
			atomic.AddInt64(&done, 1)
			sc, b, _ := gA.Score(ip)
			if !pen {
				s.viol("no-penalty-for:sync:"+c.name, fmt.Sprintf("invalid sync request (%s, %d bytes) from %s: score 0, not banned", c.name, len(c.data), ip))
				return
			}
			if osc, ob, _ := gA.Score(A.ip); osc != 0 || ob {
				s.viol("penalty-on-local-address", fmt.Sprintf("invalid sync request from %s: A holds score=%d banned=%v for its own address", ip, osc, ob))
			}
			if b || sc >= thr() {
				if !b {
					s.viol("no-ban-at-threshold", fmt.Sprintf("score %d for %s after an invalid sync request, not banned", sc, ip))
				} else if !waitFor(2*time.Second, func() bool { return A.c.VerifConnsTo(B.info.ID) == 0 }) {
					s.viol("ban-without-disconnect:sync:"+c.name, fmt.Sprintf("%s banned after an invalid sync request but still connected 2 s later", ip))
				} else {
					s.ok("sync " + c.name + ": penalised, banned, disconnected")
				}
			} else {
				s.ok(fmt.Sprintf("sync %s: penalised (score %d)", c.name, sc))
			}
		}(ci, c)
	}
	wg.Wait()
	s.res.Cases = int(done)
	if int(done)*2 < len(cases) {
		s.res.Inconclusive = fmt.Sprintf("only %d of %d sync cases ran", done, len(cases))
	}
}

// ---- envelope table --------------------------------------------------------------------------------------------
func envelopeTable(s *scen) {
	A, err := s.nodeOn(s.def.ipA, nil)
	if err != nil {
		s.res.Inconclusive = "start A: " + err.Error()
		return
	}
	gA := A.c.VerifGater()
	validRes := p2p.VerifEncodeResponse("0c1f8a2e-0000-4000-8000-0000000000aa", rpcName, []byte("late"))
	type tc struct {
		name     string
		response bool
		data     []byte
		legal    bool
		run      func(B *node2) error // instead of data
	}
	cases := []tc{}
	for _, res := range []bool{false, true} {
		side := "request"
		if res {
			side = "response"
		}
		cases = append(cases,
			tc{name: "empty-" + side, response: res, data: []byte{}},
			tc{name: "one-byte-" + side, response: res, data: []byte{0x0a}},
			tc{name: "truncated-" + side, response: res, data: validRes[:len(validRes)/2]},
			tc{name: "wrong-wire-type-" + side, response: res, data: []byte{0x08, 0x01, 0x10, 0x02}},
			tc{name: "garbage-" + side, response: res, data: garbage})
	}
	cases = append(cases,
		tc{name: "legal:response-with-unknown-id", response: true, data: validRes, legal: true},
		tc{name: "legal:request-with-empty-data", legal: true, run: func(B *node2) error {
			_, err := requestData(B, A, rpcName, nil, 2500*time.Millisecond)
			return err
		}},
		tc{name: "legal:error-response", legal: true, run: func(B *node2) error {
			// A asks B; B's handler answers with an error: a well-formed response
			_, err := requestData(A, B, rpcFail, []byte("x"), 2500*time.Millisecond)
			if err == nil {
				return errors.New("no error response received")
			}
			if err.Error() != "no" {
				return fmt.Errorf("unexpected failure of the request: %v", err)
			}
			return nil
		}})
	var wg sync.WaitGroup
	var done, legalDone int64
	for ci, c := range cases {
		wg.Add(1)
		go func(ci int, c tc) {
			defer wg.Done()
			ip := fmt.Sprintf("127.0.2.%d", 10+ci)
			B, err := s.nodeOn(ip, nil)
			if err != nil {
				s.ok("case " + c.name + " not run: " + err.Error())
				return
			}
			if err := dial(B, A); err != nil || !waitFor(3*time.Second, func() bool { return A.c.VerifConnsTo(B.info.ID) > 0 }) {
				s.ok("case " + c.name + " not run: cannot connect")
				return
			}
			if ok, err := hasEstablished(A.ip, A.port(), ip); err != nil || !ok {
				s.ok("case " + c.name + " not run: offender does not dial from its listen address")
				return
			}
			if c.run != nil {
				err = c.run(B)
			} else {
				err = raw(B, A, c.response, c.data)
			}
			if err != nil {
				s.ok("case " + c.name + " not run: " + err.Error())
				return
			}
			if c.legal {
				time.Sleep(700 * time.Millisecond)
				atomic.AddInt64(&done, 1)
				atomic.AddInt64(&legalDone, 1)
				if sc, b, _ := gA.Score(ip); sc != 0 || b || A.c.VerifConnsTo(B.info.ID) == 0 {
					s.viol("penalty-for-wellformed-traffic:"+strings.TrimPrefix(c.name, "legal:"), fmt.Sprintf("%s from %s: score=%d banned=%v connections=%d", c.name, ip, sc, b, A.c.VerifConnsTo(B.info.ID)))
				} else {
					s.ok(c.name + ": no penalty, still connected")
				}
				if sc, b, _ := B.c.VerifGater().Score(A.ip); sc != 0 || b {
					s.viol("penalty-for-wellformed-traffic:responses", fmt.Sprintf("%s: B's gater holds score=%d banned=%v for the honest A", c.name, sc, b))
				}
				return
			}
			pen := waitFor(2*time.Second, func() bool { sc, b, _ := gA.Score(ip); return sc > 0 || b })
			atomic.AddInt64(&done, 1)
			sc, b, _ := gA.Score(ip)
			if !pen {
				s.viol("no-penalty-for:envelope:"+c.name, fmt.Sprintf("%s (% x) from %s: score 0, not banned", c.name, c.data, ip))
				return
			}
			if b && !waitFor(2*time.Second, func() bool { return A.c.VerifConnsTo(B.info.ID) == 0 }) {
				site := "MessageProtocol.onRequest"
				if c.response {
					site = "MessageProtocol.onResponse"
				}
				s.viol("ban-without-disconnect:"+site, fmt.Sprintf("%s: %s banned (score %d) but still connected 2 s later", c.name, ip, sc))
				return
			}
			s.ok(fmt.Sprintf("%s: penalised (score %d, banned %v)", c.name, sc, b))
		}(ci, c)
	}
	wg.Wait()
	if sc, b, _ := gA.Score(A.ip); sc != 0 || b {
		s.viol("penalty-on-local-address", fmt.Sprintf("A holds score=%d banned=%v for its own address after the envelope table", sc, b))
	}
	s.res.Cases = int(done)
	if int(done)*2 < len(cases) || legalDone == 0 {
		s.res.Inconclusive = fmt.Sprintf("only %d of %d envelope cases ran (%d legal)", done, len(cases), legalDone)
	}
}

// ---- a procedure registered without WithRPCMessageCounter -------------------------------------------------------
// The limit and the penalty are the package's declared defaults (constants read from the source by the driver).
func defaultLimit(s *scen) {
	lim, pen := s.opts.DefaultLimit, s.opts.DefaultPenalty
	if lim <= 0 || pen <= 0 || lim > 400 {
		s.res.Inconclusive = fmt.Sprintf("default limiter parameters unknown or too large to exercise (limit %d, penalty %d)", lim, pen)
		return
	}
	A, err := s.nodeOn(s.def.ipA, nil)
	if err != nil {
		s.res.Inconclusive = "start A: " + err.Error()
		return
	}
	B, err := s.nodeOn(s.def.ipB, nil)
	if err != nil {
		s.res.Inconclusive = "start B: " + err.Error()
		return
	}
	if msg := s.connectPair(A, B); msg != "" {
		s.res.Inconclusive = msg
		return
	}
	gA := A.c.VerifGater()
	t0 := time.Now()
	sendN := func(n int) error {
		for i := 0; i < n; i++ {
			if err := request(B, A, rpcPlain, 2500*time.Millisecond); err != nil {
				return err
			}
		}
		return nil
	}
	if err := sendN(lim); err != nil {
		if sc, b, _ := gA.Score(s.def.ipB); sc != 0 || b {
			s.res.Cases = 1
			s.viol("penalty-within-rate-limit:default-parameters", fmt.Sprintf("within the first %d requests to a procedure registered without a message counter option (declared default limit %d): score=%d banned=%v, request failed: %v", lim, lim, sc, b, err))
			return
		}
		s.res.Inconclusive = "legal request failed: " + err.Error()
		return
	}
	if time.Since(t0) > 30*time.Second {
		s.res.Inconclusive = "requests too slow for one rate window"
		return
	}
	if sc, b, _ := gA.Score(s.def.ipB); sc != 0 || b {
		s.viol("penalty-within-rate-limit:default-parameters", fmt.Sprintf("%d requests to a procedure registered without a message counter option (declared default limit %d): score=%d banned=%v", lim, lim, sc, b))
		return
	}
	s.ok(fmt.Sprintf("%d requests with the default limit %d: no penalty", lim, lim))
	_ = request(B, A, rpcPlain, 2500*time.Millisecond)
	sc, b, _ := gA.Score(s.def.ipB)
	total := lim + 1
	if sc == 0 && !b {
		_ = sendN(lim) // 2*limit+1: above the limit wherever the window lies
		total = 2*lim + 1
		sc, b, _ = gA.Score(s.def.ipB)
	}
	if time.Since(t0) > 60*time.Second {
		s.res.Inconclusive = "requests too slow for one rate window"
		return
	}
	switch {
	case sc == 0 && !b:
		s.viol("no-penalty-above-rate-limit:default-parameters", fmt.Sprintf("%d requests in one window, declared default limit %d: score 0", total, lim))
	case total == lim+1 && sc != pen:
		s.viol("penalty-differs-from-default:default-parameters", fmt.Sprintf("one request above the default limit: score %d, declared default penalty %d", sc, pen))
	default:
		s.ok(fmt.Sprintf("request %d: default penalty %d", total, sc))
	}
	if pen < thr() && !b && A.c.VerifConnsTo(B.info.ID) == 0 {
		s.viol("disconnect-without-ban", fmt.Sprintf("peer disconnected at score %d", sc))
	}
	s.res.Cases = 1
}

// ---- one peer, two connections from two addresses ---------------------------------------------------------------
// Connection.ApplyPenalty / BanPeer act on "all its IP addresses": two hosts with the same identity (same seed) on two
// addresses are, for A, one peer with two connections.
func twoConnections(s *scen) {
	A, err := s.nodeOn(s.def.ipA, nil)
	if err != nil {
		s.res.Inconclusive = "start A: " + err.Error()
		return
	}
	gA := A.c.VerifGater()
	for vi, variant := range []string{"Connection.ApplyPenalty", "Connection.BanPeer"} {
		ip1, ip2 := fmt.Sprintf("127.0.3.%d", 10+2*vi), fmt.Sprintf("127.0.3.%d", 11+2*vi)
		seed := []byte(fmt.Sprintf("c18-two-connections-%d", vi))
		B1, err := s.nodeCfg(nodeCfg{ip: ip1, seed: seed})
		if err != nil {
			s.res.Inconclusive = "start B1: " + err.Error()
			return
		}
		B2, err := s.nodeCfg(nodeCfg{ip: ip2, seed: seed})
		if err != nil {
			s.res.Inconclusive = "start B2: " + err.Error()
			return
		}
		if B1.info.ID != B2.info.ID {
			s.res.Inconclusive = "the two hosts do not share one identity"
			return
		}
		pid := B1.info.ID
		if err := dial(B1, A); err != nil {
			s.res.Inconclusive = "B1 cannot connect: " + err.Error()
			return
		}
		if err := dial(B2, A); err != nil {
			s.res.Inconclusive = "B2 cannot connect: " + err.Error()
			return
		}
		if !waitFor(3*time.Second, func() bool { return A.c.VerifConnsTo(pid) == 2 }) {
			s.res.Inconclusive = fmt.Sprintf("A has %d connections to the peer instead of 2", A.c.VerifConnsTo(pid))
			return
		}
		ok1, _ := hasEstablished(A.ip, A.port(), ip1)
		ok2, _ := hasEstablished(A.ip, A.port(), ip2)
		if !ok1 || !ok2 {
			s.res.Inconclusive = "the two connections do not come from the two addresses"
			return
		}
		if variant == "Connection.ApplyPenalty" {
			A.c.ApplyPenalty(pid, 40)
			s1, b1, _ := gA.Score(ip1)
			s2, b2, _ := gA.Score(ip2)
			if s1 != 40 || s2 != 40 || b1 || b2 || A.c.VerifConnsTo(pid) != 2 {
				s.viol("penalty-not-on-every-address:"+variant, fmt.Sprintf("ApplyPenalty(peer, 40) with connections from %s and %s: scores %d/%d banned %v/%v connections %d", ip1, ip2, s1, s2, b1, b2, A.c.VerifConnsTo(pid)))
				continue
			}
			s.ok("ApplyPenalty 40: booked on both addresses of the peer")
			A.c.ApplyPenalty(pid, 60)
		} else {
			A.c.BanPeer(pid)
		}
		both := waitFor(2*time.Second, func() bool {
			_, b1, _ := gA.Score(ip1)
			_, b2, _ := gA.Score(ip2)
			return b1 && b2
		})
		s1, b1, _ := gA.Score(ip1)
		s2, b2, _ := gA.Score(ip2)
		s.res.Cases++
		if !both {
			s.viol("penalty-not-on-every-address:"+variant, fmt.Sprintf("%s for a peer connected from %s and %s: scores %d/%d banned %v/%v", variant, ip1, ip2, s1, s2, b1, b2))
			continue
		}
		if !waitFor(2*time.Second, func() bool { return A.c.VerifConnsTo(pid) == 0 }) {
			s.viol("ban-without-disconnect:"+variant, fmt.Sprintf("both addresses banned, %d connection(s) to the peer still open 2 s later", A.c.VerifConnsTo(pid)))
			continue
		}
		// neither address gets back in
		for _, B := range []*node2{B1, B2} {
			_, pre, _ := gA.Score(B.ip)
			err := dial(B, A)
			_, post, _ := gA.Score(B.ip)
			if pre && post && err == nil && A.c.VerifConnsTo(pid) > 0 {
				s.viol("banned-ip-allowed:inbound", fmt.Sprintf("%s: the peer re-connects from its banned address %s", variant, B.ip))
				_ = A.c.Disconnect(pid)
			}
		}
		s.ok(variant + ": both addresses banned, both connections closed, re-dials refused")
	}
	if sc, b, _ := gA.Score(A.ip); sc != 0 || b {
		s.viol("penalty-on-local-address", fmt.Sprintf("A holds score=%d banned=%v for its own address", sc, b))
	}
}

func e2e(opath, optpath string) {
	out := &Out{ViolationKeys: map[string]int{}}
	defer func() { tj.WriteJSON(opath, out) }()
	o := readOpts(optpath)
	logger, err := log.NewSilentLogger()
	if err != nil {
		out.Errors = append(out.Errors, err.Error())
		return
	}
	// the loopback world needs 127.0.0.2 ...: without it the scenarios cannot tell the two ends of a connection apart
	if c, err := net.Listen("tcp4", "127.0.0.2:0"); err != nil {
		out.Errors = append(out.Errors, "cannot listen on 127.0.0.2: "+err.Error())
		return
	} else {
		c.Close()
	}
	var list []scenario
	for _, s := range scenarios(o) {
		if len(o.Scenarios) == 0 {
			list = append(list, s)
			continue
		}
		for _, n := range o.Scenarios {
			if n == s.name {
				list = append(list, s)
			}
		}
	}
	res := make([]ScenarioRes, len(list))
	var wg sync.WaitGroup
	for i := range list {
		wg.Add(1)
		go func(i int) {
			defer wg.Done()
			res[i] = runScenario(list[i], o, logger)
		}(i)
	}
	wg.Wait()
	sort.Slice(res, func(i, j int) bool { return res[i].Name < res[j].Name })
	out.Scenarios = res
	for _, r := range res {
		for _, v := range r.Violations {
			out.ViolationKeys[v.Key]++
			out.Violations = append(out.Violations, v)
		}
	}
}

var _ = blockchain.IDLength
