// c07: evaluates the real contradiction / fork-choice / priority functions on the truth tables
// printed by TLC from spec/ForkChoice.tla and compares every entry.
//
// usage: c07 <tables.txt> <out.json> <nrandom>
package main

import (
	"bufio"
	"fmt"
	"math/rand"
	"os"
	"sort"
	"strconv"
	"strings"
	"time"

	"github.com/LiskHQ/lisk-engine/pkg/blockchain"
	"github.com/LiskHQ/lisk-engine/pkg/consensus/contradiction"
	"github.com/LiskHQ/lisk-engine/pkg/consensus/forkchoice"
	"github.com/LiskHQ/lisk-engine/pkg/consensus/liskbft"
	"github.com/LiskHQ/lisk-engine/pkg/consensus/validator"
	"github.com/LiskHQ/lisk-engine/pkg/crypto"

	"verifharness/internal/bftx"
	"verifharness/internal/tj"
)

type ph struct {
	h, mhg, mhp uint32
	gen         []byte
}

func (p *ph) Height() uint32             { return p.h }
func (p *ph) GeneratorAddress() []byte   { return p.gen }
func (p *ph) MaxHeightGenerated() uint32 { return p.mhg }
func (p *ph) MaxHeightPrevoted() uint32  { return p.mhp }

type Violation struct {
	Key    string      `json:"key"`
	What   string      `json:"what"`
	Replay interface{} `json:"replay"`
}

type Out struct {
	Pairs      int         `json:"pairs"`
	PairsTrue  int         `json:"pairs_contradicting"`
	Cases      int         `json:"classify_cases"`
	Classes    map[string]int `json:"classes"`
	Prios      int         `json:"priority_rows"`
	Random     int         `json:"random_pairs"`
	RandomTrue int         `json:"random_pairs_contradicting"`
	Violations []Violation `json:"violations"`
	Samples    []string    `json:"samples"`
}

func sealed(h, mhg, mhp uint32, gen int, salt byte) *blockchain.BlockHeader {
	hdr := &blockchain.BlockHeader{Version: 2, Height: h, MaxHeightGenerated: mhg, MaxHeightPrevoted: mhp,
		GeneratorAddress: bftx.Addr(gen), PreviousBlockID: make([]byte, 32), AggregateCommit: &blockchain.AggregateCommit{},
		Signature: []byte{salt}}
	hdr.Init()
	return hdr
}

func parse(line string) []string {
	line = strings.TrimSpace(line)
	line = strings.TrimPrefix(line, "<<")
	line = strings.TrimSuffix(line, ">>")
	parts := strings.Split(line, ",")
	for i := range parts {
		parts[i] = strings.Trim(strings.TrimSpace(parts[i]), "\"")
	}
	return parts
}

func u(s string) uint32 { v, _ := strconv.Atoi(s); return uint32(v) }

func main() {
	if len(os.Args) < 4 {
		fmt.Fprintln(os.Stderr, "usage: c07 tables.txt out.json nrandom")
		os.Exit(2)
	}
	f, err := os.Open(os.Args[1])
	if err != nil {
		panic(err)
	}
	nrand, _ := strconv.Atoi(os.Args[3])
	out := &Out{Classes: map[string]int{}}
	viol := func(key, what string, replay interface{}) {
		if len(out.Violations) < 20 {
			out.Violations = append(out.Violations, Violation{key, what, replay})
		}
	}
	api := liskbft.NewModule().API()
	table := map[[8]uint32]bool{}
	maxF := uint32(0)
	sc := bufio.NewScanner(f)
	sc.Buffer(make([]byte, 1<<20), 1<<24)
	for sc.Scan() {
		line := sc.Text()
		if !strings.HasPrefix(line, "<<\"T") {
			continue
		}
		p := parse(line)
		switch p[0] {
		case "TT":
			a := &ph{u(p[1]), u(p[2]), u(p[3]), bftx.Addr(int(u(p[4])))}
			b := &ph{u(p[5]), u(p[6]), u(p[7]), bftx.Addr(int(u(p[8])))}
			exp := p[9] == "1"
			table[[8]uint32{a.h, a.mhg, a.mhp, u(p[4]), b.h, b.mhg, b.mhp, u(p[8])}] = exp
			if a.h > maxF {
				maxF = a.h
			}
			got := contradiction.AreDistinctHeadersContradicting(a, b)
			out.Pairs++
			if exp {
				out.PairsTrue++
			}
			if got != exp {
				viol("contradiction-table", fmt.Sprintf("AreDistinctHeadersContradicting(%v,%v)=%v, LIP-0014 says %v", p[1:5], p[5:9], got, exp), p)
			}
			// API level: distinct ids -> same verdict; same id -> never
			if out.Pairs%7 == 0 {
				h1 := sealed(a.h, a.mhg, a.mhp, int(u(p[4])), 1)
				h2 := sealed(b.h, b.mhg, b.mhp, int(u(p[8])), 2)
				g2, err := api.AreHeadersContradicting(h1.Readonly(), h2.Readonly())
				if err != nil || g2 != exp {
					viol("contradiction-api", fmt.Sprintf("API.AreHeadersContradicting(%v,%v)=%v err=%v, expected %v", p[1:5], p[5:9], g2, err, exp), p)
				}
				g3, err := api.AreHeadersContradicting(h1.Readonly(), h1.Readonly())
				if err != nil || g3 {
					viol("contradiction-api-same-id", "a header is reported as contradicting itself", p)
				}
			}
			if len(out.Samples) < 2 {
				out.Samples = append(out.Samples, line)
			}
		case "TC":
			out.Cases++
			exp := p[9]
			out.Classes[exp]++
			now := uint32(time.Now().Unix())
			incSlot := int(u(p[6]))
			nowSlot := incSlot
			if p[8] != "1" {
				nowSlot = incSlot + 3
			}
			genesis := now - uint32(nowSlot*1000+500)
			slot := validator.NewBlockSlot(genesis, 1000)
			ts := func(k int) uint32 { return genesis + uint32(k*1000+100) }
			parent := crypto.Hash([]byte("parent"))
			tip := &blockchain.BlockHeader{Version: 2, Height: 3, MaxHeightPrevoted: 1, Timestamp: ts(5), PreviousBlockID: parent,
				GeneratorAddress: bftx.Addr(1), AggregateCommit: &blockchain.AggregateCommit{}, Signature: []byte{1}}
			tip.Init()
			inc := tip
			if p[1] != "1" {
				prev := parent
				if p[3] == "1" {
					prev = tip.ID
				} else if p[3] == "9" {
					prev = crypto.Hash([]byte("other"))
				}
				inc = &blockchain.BlockHeader{Version: 2, Height: u(p[2]), MaxHeightPrevoted: u(p[5]), Timestamp: ts(incSlot), PreviousBlockID: prev,
					GeneratorAddress: bftx.Addr(int(u(p[4]))), AggregateCommit: &blockchain.AggregateCommit{}, Signature: []byte{2}}
				inc.Init()
			}
			var last *time.Time
			if p[7] == "in" {
				t := time.Unix(int64(genesis+5*1000+200), 0)
				last = &t
			} else if p[7] == "out" {
				t := time.Unix(int64(genesis+8*1000+200), 0)
				last = &t
			}
			fc, err := forkchoice.NewForkChoice(tip, inc, slot, last)
			if err != nil {
				viol("forkchoice-error", err.Error(), p)
				continue
			}
			preds := []bool{fc.IsIdenticalBlock(), fc.IsValidBlock(), fc.IsDoubleForging(), fc.IsTieBreak(), fc.IsDifferentChain()}
			names := []string{"identical", "valid", "doubleforging", "tiebreak", "differentchain"}
			got := "discard"
			for i, b := range preds {
				if b {
					got = names[i]
					break
				}
			}
			// individual predicates are compared where the spec row fixes them: for id=1 rows the
			// incoming header IS the tip, so only the cascade result is meaningful
			if p[1] != "1" {
				for i, b := range preds {
					if b != (p[10+i] == "1") {
						viol("forkchoice-predicate:"+names[i], fmt.Sprintf("predicate %s is %v on row %v, LIP-0014 says %v", names[i], b, p[1:9], p[10+i]), p)
					}
				}
			}
			if got != exp {
				viol("forkchoice-classify", fmt.Sprintf("row %v classified %s, expected %s", p[1:9], got, exp), p)
			}
		case "TP":
			out.Prios++
			hdr := sealed(u(p[1]), 0, u(p[2]), 1, 1)
			got, err := api.HeaderHasPriority(nil, hdr.Readonly(), u(p[3]), u(p[4]), 0)
			if err != nil || got != (p[5] == "1") {
				viol("header-priority", fmt.Sprintf("HeaderHasPriority(header h=%s mhp=%s over h=%s mhp=%s)=%v, expected %s", p[1], p[2], p[3], p[4], got, p[5]), p)
			}
		}
	}
	// uint32-range pairs: the spec's Contra uses comparisons only, so the verdict on arbitrary values equals
	// the table entry of the rank-compressed values (<= 6 distinct values -> ranks 0..5)
	r := rand.New(rand.NewSource(int64(tj.EnvInt("VERIF_SEED", 1))))
	pick := func() uint32 {
		switch r.Intn(6) {
		case 0:
			return uint32(r.Intn(4))
		case 1:
			return 0xffffffff - uint32(r.Intn(3))
		case 2:
			return 0x7fffffff + uint32(r.Intn(3)) - 1
		case 3:
			return uint32(r.Intn(200))
		}
		return r.Uint32()
	}
	for i := 0; i < nrand && maxF >= 5; i++ {
		vals := []uint32{pick(), pick(), pick(), pick(), pick(), pick()}
		if r.Intn(2) == 0 { // make coincidences likely
			for j := range vals {
				if r.Intn(3) == 0 {
					vals[j] = vals[r.Intn(len(vals))] + uint32(r.Intn(3)) - 1
				}
			}
		}
		g1, g2 := 1+r.Intn(2), 1+r.Intn(2)
		sorted := append([]uint32{}, vals...)
		sort.Slice(sorted, func(a, b int) bool { return sorted[a] < sorted[b] })
		rank := map[uint32]uint32{}
		for _, v := range sorted {
			if _, ok := rank[v]; !ok {
				rank[v] = uint32(len(rank))
			}
		}
		key := [8]uint32{rank[vals[0]], rank[vals[1]], rank[vals[2]], uint32(g1), rank[vals[3]], rank[vals[4]], rank[vals[5]], uint32(g2)}
		exp, ok := table[key]
		if !ok {
			continue
		}
		a := &ph{vals[0], vals[1], vals[2], bftx.Addr(g1)}
		b := &ph{vals[3], vals[4], vals[5], bftx.Addr(g2)}
		got := contradiction.AreDistinctHeadersContradicting(a, b)
		got2 := contradiction.AreDistinctHeadersContradicting(b, a)
		out.Random++
		if exp {
			out.RandomTrue++
		}
		if got != exp || got2 != exp {
			viol("contradiction-uint32", fmt.Sprintf("pair %v gen %d/%d: real %v/%v (swapped), LIP-0014 on ranks %v says %v", vals, g1, g2, got, got2, key, exp), vals)
		}
	}
	tj.WriteJSON(os.Args[2], out)
}
