// c07: evaluates the real contradiction / fork-choice / priority functions on the truth tables
// printed by TLC from spec/ForkChoice.tla and compares every entry.
//
// The tables are abstract: generators are ids 1..2, integers are small, receive times are offsets from the start of a
// slot.  The harness CONCRETISES every row several ways without changing what the specification says about it:
//   - generator ids -> addresses, from several families (two ordinary 20-byte addresses; two that differ in one middle byte;
//     a 19-byte address and its 20-byte extension; the empty and the nil address next to an ordinary one): "same generator"
//     is equality of the address bytes and nothing else;
//   - small integers -> uint32 values through strictly increasing maps that keep "tip height + 1" (the specification uses
//     comparisons and that one successor only), reaching 0, 2^31-1, 2^31, 2^32-2, 2^32-1; one of them puts a genesis block
//     (version 0, height 0) at the tip;
//   - receive-time offsets -> wall-clock seconds (the evaluation is repeated when the clock moved to the next second while
//     the row was being set up).
//
// usage: c07 <tables.txt> <out.json> <nrandom>
package main

import (
	"bufio"
	"bytes"
	"fmt"
	"hash/fnv"
	"math/rand"
	"os"
	"sort"
	"strconv"
	"strings"
	"time"

	"github.com/LiskHQ/lisk-engine/pkg/blockchain"
	"github.com/LiskHQ/lisk-engine/pkg/consensus/contradiction"
	"github.com/LiskHQ/lisk-engine/pkg/consensus/forkchoice"
	"github.com/LiskHQ/lisk-engine/pkg/consensus/liskbft"
	"github.com/LiskHQ/lisk-engine/pkg/consensus/validator"
	"github.com/LiskHQ/lisk-engine/pkg/crypto"

	"verifharness/internal/bftx"
	"verifharness/internal/tj"
)

type ph struct {
	h, mhg, mhp uint32
	gen         []byte
}

func (p *ph) Height() uint32             { return p.h }
func (p *ph) GeneratorAddress() []byte   { return p.gen }
func (p *ph) MaxHeightGenerated() uint32 { return p.mhg }
func (p *ph) MaxHeightPrevoted() uint32  { return p.mhp }

type Violation struct {
	Key    string      `json:"key"`
	What   string      `json:"what"`
	Replay interface{} `json:"replay"`
}

type Out struct {
	Pairs          int            `json:"pairs"`
	PairsTrue      int            `json:"pairs_contradicting"`
	APIPairs       int            `json:"api_pairs"`
	EqualFields    int            `json:"api_pairs_equal_fields_distinct_ids"`
	Redecoded      int            `json:"api_pairs_redecoded_copy"`
	Families       map[string]int `json:"generator_identity_families"`
	Cases          int            `json:"classify_cases"`
	CaseEvals      int            `json:"classify_evaluations"`
	CaseEmb        map[string]int `json:"classify_embeddings"`
	CaseFam        map[string]int `json:"classify_generator_identity_families"`
	CaseBoundary   int            `json:"classify_rows_duplicate_with_boundary_receive_times"`
	CaseRetried    int            `json:"classify_evaluations_repeated_clock_moved"`
	CaseUnjudged   int            `json:"classify_evaluations_unjudged_clock_moved"`
	PredsCompared  int            `json:"predicates_compared_where_the_cascade_reaches_them"`
	Classes        map[string]int `json:"classes"`
	Prios          int            `json:"priority_rows"`
	PriosGenesis   int            `json:"priority_rows_genesis_header"`
	PrioEvals      int            `json:"priority_evaluations"`
	Random         int            `json:"random_pairs"`
	RandomReq      int            `json:"random_pairs_requested"`
	RandomTrue     int            `json:"random_pairs_contradicting"`
	RandomAPI      int            `json:"random_pairs_through_api"`
	RandomBoundary int            `json:"random_pairs_with_uint32_boundary_value"`
	Violations     []Violation    `json:"violations"`
	Samples        []string       `json:"samples"`
}

// ---------------------------------------------------------------- generator identities

type family struct {
	name string
	a    [2][]byte // address of abstract generator 1, 2
}

func rep(b byte, n int) []byte { return bytes.Repeat([]byte{b}, n) }

func families() []family {
	mid1, mid2 := rep(0xaa, 20), rep(0xaa, 20)
	mid2[10] = 0xab
	head1, head2 := rep(0x11, 20), rep(0x11, 20) // equal in the first 8 bytes and in the last byte
	head2[9] = 0x12
	p19 := rep(0x55, 19)
	p20 := append(rep(0x55, 19), 0x00)
	return []family{
		{"ordinary", [2][]byte{bftx.Addr(1), bftx.Addr(2)}},
		{"one-middle-byte", [2][]byte{mid1, mid2}},
		{"equal-head-and-tail", [2][]byte{head1, head2}},
		{"19-vs-20-bytes", [2][]byte{p19, p20}},
		{"20-vs-19-bytes", [2][]byte{p20, p19}},
		{"empty-vs-ordinary", [2][]byte{{}, bftx.Addr(1)}},
		{"nil-vs-ordinary", [2][]byte{nil, bftx.Addr(1)}},
		{"ordinary-vs-nil", [2][]byte{bftx.Addr(2), nil}},
	}
}

// addr returns a fresh copy (own backing array) of the family's address of abstract generator g
func (f family) addr(g int) []byte {
	src := f.a[g-1]
	if src == nil {
		return nil
	}
	return append(make([]byte, 0, len(src)), src...)
}

func sealedV(version, h, mhg, mhp uint32, gen []byte, salt byte) *blockchain.BlockHeader {
	hdr := &blockchain.BlockHeader{Version: version, Height: h, MaxHeightGenerated: mhg, MaxHeightPrevoted: mhp,
		GeneratorAddress: gen, PreviousBlockID: make([]byte, 32), AggregateCommit: &blockchain.AggregateCommit{},
		Signature: []byte{salt}}
	hdr.Init()
	return hdr
}

func parse(line string) []string {
	line = strings.TrimSpace(line)
	line = strings.TrimPrefix(line, "<<")
	line = strings.TrimSuffix(line, ">>")
	parts := strings.Split(line, ",")
	for i := range parts {
		parts[i] = strings.Trim(strings.TrimSpace(parts[i]), "\"")
	}
	return parts
}

// hsh: the concretisation of a row is chosen by a hash of its text, so that it does not depend on the order in which TLC's
// workers printed the rows
func hsh(line string) int {
	h := fnv.New32a()
	h.Write([]byte(line)) //nolint
	return int(h.Sum32() >> 1)
}

func u(s string) uint32 { v, _ := strconv.Atoi(s); return uint32(v) }
func in(s string) int   { v, _ := strconv.Atoi(s); return v }

// ---------------------------------------------------------------- integer embeddings

// emb maps the abstract heights TipH-1 .. TipH+2 (2..5) and the abstract prevoted heights 0..2 of the classification
// table to uint32 values: strictly increasing, H[2] = H[1] + 1.  A negative entry: rows with that abstract value are not
// evaluated under this embedding.
type emb struct {
	name       string
	H          [4]int64
	P          [3]int64
	tipVersion uint32
	aboveTip   bool // only rows with an incoming height above the tip's (what a node at its genesis block can receive)
}

const (
	m31 = int64(1) << 31
	m32 = int64(1) << 32
	bt  = 1000 // BT of ForkChoice.tla: seconds per slot
)

var embs = []emb{
	{"small", [4]int64{2, 3, 4, 5}, [3]int64{0, 1, 2}, 2, false},
	{"low", [4]int64{0, 1, 2, m31}, [3]int64{0, m31 - 1, m31}, 2, false},
	{"sign-bit", [4]int64{m31 - 2, m31 - 1, m31, m31 + 1}, [3]int64{m31 - 1, m31, m32 - 1}, 2, false},
	{"top", [4]int64{1, m32 - 3, m32 - 2, m32 - 1}, [3]int64{m32 - 3, m32 - 2, m32 - 1}, 2, false},
	{"wide", [4]int64{0, m31, m31 + 1, m32 - 1}, [3]int64{0, 1, m32 - 1}, 2, false},
	{"genesis-tip", [4]int64{-1, 0, 1, 2}, [3]int64{-1, 0, 1}, 0, true},
}

// monotone maps of the ranks 0..4 of the priority table
var prioEmbs = [][5]uint32{
	{0, 1, 2, 3, 4},
	{0, 1, uint32(m31 - 1), uint32(m31), uint32(m32 - 1)},
	{uint32(m31 - 2), uint32(m31 - 1), uint32(m31), uint32(m31 + 1), uint32(m31 + 2)},
	{uint32(m32 - 5), uint32(m32 - 4), uint32(m32 - 3), uint32(m32 - 2), uint32(m32 - 1)},
	{0, 1 << 16, uint32(m31), uint32(m32 - 2), uint32(m32 - 1)},
}

func main() {
	if len(os.Args) < 4 {
		fmt.Fprintln(os.Stderr, "usage: c07 tables.txt out.json nrandom")
		os.Exit(2)
	}
	f, err := os.Open(os.Args[1])
	if err != nil {
		panic(err)
	}
	nrand, _ := strconv.Atoi(os.Args[3])
	out := &Out{Classes: map[string]int{}, Families: map[string]int{}, CaseEmb: map[string]int{}, CaseFam: map[string]int{}, Violations: []Violation{}, RandomReq: nrand}
	perKey := map[string]int{}
	viol := func(key, what string, replay interface{}) {
		perKey[key]++
		if perKey[key] <= 3 && len(out.Violations) < 40 {
			out.Violations = append(out.Violations, Violation{key, what, replay})
		}
	}
	r := rand.New(rand.NewSource(int64(tj.EnvInt("VERIF_SEED", 1))))
	fams := families()
	api := liskbft.NewModule().API()
	table := map[[8]uint32]bool{}
	maxF := uint32(0)
	sc := bufio.NewScanner(f)
	sc.Buffer(make([]byte, 1<<20), 1<<24)
	for sc.Scan() {
		line := sc.Text()
		if !strings.HasPrefix(line, "<<\"T") {
			continue
		}
		p := parse(line)
		switch p[0] {
		case "TT":
			fam := fams[hsh(line)%len(fams)]
			g1, g2 := int(u(p[4])), int(u(p[8]))
			a := &ph{u(p[1]), u(p[2]), u(p[3]), fam.addr(g1)}
			b := &ph{u(p[5]), u(p[6]), u(p[7]), fam.addr(g2)}
			exp := p[9] == "1"
			table[[8]uint32{a.h, a.mhg, a.mhp, u(p[4]), b.h, b.mhg, b.mhp, u(p[8])}] = exp
			if a.h > maxF {
				maxF = a.h
			}
			idKey := func(k string) string {
				if fam.name != "ordinary" {
					return k + ":generator-identity"
				}
				return k
			}
			rp := map[string]interface{}{"row": p, "generators": fam.name}
			out.Pairs++
			out.Families[fam.name]++
			if exp {
				out.PairsTrue++
			}
			// the ordinary addresses first: a deviation there is not about generator identities
			baseOK := true
			if fam.name != "ordinary" {
				oa := &ph{a.h, a.mhg, a.mhp, fams[0].addr(g1)}
				ob := &ph{b.h, b.mhg, b.mhp, fams[0].addr(g2)}
				if g0 := contradiction.AreDistinctHeadersContradicting(oa, ob); g0 != exp {
					baseOK = false
					viol("contradiction-table", fmt.Sprintf("AreDistinctHeadersContradicting(%v,%v)=%v, LIP-0014 says %v", p[1:5], p[5:9], g0, exp), rp)
				}
			}
			got := contradiction.AreDistinctHeadersContradicting(a, b)
			if got != exp && baseOK {
				viol(idKey("contradiction-table"), fmt.Sprintf("AreDistinctHeadersContradicting(%v,%v)=%v with generator addresses %x / %x (%s), LIP-0014 says %v", p[1:5], p[5:9], got, a.gen, b.gen, fam.name, exp), rp)
			}
			sameFields := a.h == b.h && a.mhg == b.mhg && a.mhp == b.mhp && g1 == g2
			// API level: distinct ids -> same verdict; same id -> never
			if hsh(line)%7 == 0 || sameFields {
				h1 := sealedV(2, a.h, a.mhg, a.mhp, fam.addr(g1), 1)
				h2 := sealedV(2, b.h, b.mhg, b.mhp, fam.addr(g2), 2)
				out.APIPairs++
				g2v, err := api.AreHeadersContradicting(h1.Readonly(), h2.Readonly())
				if (err != nil || g2v != exp) && !baseOK {
					viol("contradiction-api", fmt.Sprintf("API.AreHeadersContradicting(%v,%v)=%v err=%v, expected %v", p[1:5], p[5:9], g2v, err, exp), rp)
				} else if err != nil || g2v != exp {
					viol(idKey("contradiction-api"), fmt.Sprintf("API.AreHeadersContradicting(%v,%v)=%v err=%v (generators: %s), expected %v", p[1:5], p[5:9], g2v, err, fam.name, exp), rp)
				}
				g3, err := api.AreHeadersContradicting(h1.Readonly(), h1.Readonly())
				if err != nil || g3 {
					viol("contradiction-api-same-id", "a header is reported as contradicting itself", rp)
				}
				// the same header after a trip over the wire: another object, the same id
				if cp, derr := blockchain.NewBlockHeader(h1.Encode()); derr == nil && bytes.Equal(cp.ID, h1.ID) {
					out.Redecoded++
					g4, err := api.AreHeadersContradicting(h1.Readonly(), cp.Readonly())
					g5, err2 := api.AreHeadersContradicting(cp.Readonly(), h1.Readonly())
					if err != nil || err2 != nil || g4 || g5 {
						viol("contradiction-api-same-id:decoded-copy", fmt.Sprintf("a header %v and its re-decoded copy (same id) are reported as contradicting (%v/%v, err %v/%v)", p[1:5], g4, g5, err, err2), rp)
					}
				}
				if sameFields {
					// two DIFFERENT blocks of one generator with equal BFT fields and equal signature bytes (ids differ through the
					// timestamp / the previous block id): double forging, whatever else the two headers share
					for variant := 0; variant < 2; variant++ {
						h3 := &blockchain.BlockHeader{Version: 2, Height: a.h, MaxHeightGenerated: a.mhg, MaxHeightPrevoted: a.mhp,
							GeneratorAddress: fam.addr(g1), PreviousBlockID: make([]byte, 32), AggregateCommit: &blockchain.AggregateCommit{},
							Signature: []byte{1}}
						if variant == 0 {
							h3.Timestamp = 1
						} else {
							h3.PreviousBlockID = rep(0x01, 32)
						}
						h3.Init()
						if bytes.Equal(h3.ID, h1.ID) {
							continue
						}
						out.EqualFields++
						g6, err := api.AreHeadersContradicting(h1.Readonly(), h3.Readonly())
						g7, err2 := api.AreHeadersContradicting(h3.Readonly(), h1.Readonly())
						if err != nil || err2 != nil || g6 != exp || g7 != exp {
							viol("contradiction-api-equal-fields", fmt.Sprintf("two distinct headers of one generator with equal (height, maxHeightGenerated, maxHeightPrevoted) = %v and equal signature bytes: API.AreHeadersContradicting = %v/%v (err %v/%v), LIP-0014 says %v",
								p[1:4], g6, g7, err, err2, exp), rp)
						}
					}
				}
			}
			if len(out.Samples) < 2 {
				out.Samples = append(out.Samples, line)
			}
		case "TC":
			// <<"TC", id, h, prev, gen, mhp, slot, recvLast, recvCur, class, PIdentical, PValid, PDouble, PTie, PDiff>>
			row := hsh(line)
			out.Cases++
			exp := p[9]
			out.Classes[exp]++
			incSlot := in(p[6])
			recvLast, recvCur := in(p[7]), in(p[8])
			noRecv := recvLast <= -bt
			absH, absP := in(p[2]), in(p[5])
			if p[1] != "1" && absH == 3 && absP == 1 && p[3] == "0" && (recvLast == -1 || recvLast == 0 || recvLast == bt-1 || recvLast == bt) && recvCur != 3*bt+bt/2 {
				out.CaseBoundary++
			}
			fam := fams[row%len(fams)]
			names := []string{"identical", "valid", "doubleforging", "tiebreak", "differentchain"}
			// concretisations of the row: small integers with the ordinary addresses first (a deviation there is reported under
			// the plain key and the other concretisations of the row are not reported on top of it), then the row's address
			// family, then the uint32 maps
			type combo struct {
				e   emb
				fam family
			}
			combos := []combo{{embs[0], fams[0]}}
			if fam.name != "ordinary" {
				combos = append(combos, combo{embs[0], fam})
			}
			for _, e := range embs[1:] {
				combos = append(combos, combo{e, fams[0]})
			}
			baseOK := true
			for ci, cb := range combos {
				e, fam := cb.e, cb.fam
				if e.H[absH-2] < 0 || e.P[absP] < 0 || (e.aboveTip && absH <= 3) {
					continue
				}
				tipH, tipP := uint32(e.H[1]), uint32(e.P[1])
				incH, incP := uint32(e.H[absH-2]), uint32(e.P[absP])
				tsOffInc := []uint32{0, 100, bt - 1}[(row/8)%3]
				tsOffTip := []uint32{100, bt - 1, 0}[(row/24)%3]
				var preds []bool
				judged := false
				for attempt := 0; attempt < 6 && !judged; attempt++ {
					now := time.Now().Unix()
					genesis := uint32(now - int64(incSlot*bt+recvCur))
					slot := validator.NewBlockSlot(genesis, bt)
					parent := crypto.Hash([]byte("parent"))
					tip := &blockchain.BlockHeader{Version: e.tipVersion, Height: tipH, MaxHeightPrevoted: tipP, Timestamp: genesis + 5*bt + tsOffTip, PreviousBlockID: parent,
						GeneratorAddress: fam.addr(1), AggregateCommit: &blockchain.AggregateCommit{}, Signature: []byte{1}}
					tip.Init()
					inc := tip
					if p[1] != "1" {
						prev := parent
						if p[3] == "1" {
							prev = tip.ID
						} else if p[3] == "9" {
							prev = crypto.Hash([]byte("other"))
						}
						inc = &blockchain.BlockHeader{Version: 2, Height: incH, MaxHeightPrevoted: incP, Timestamp: genesis + uint32(incSlot*bt) + tsOffInc, PreviousBlockID: prev,
							GeneratorAddress: fam.addr(in(p[4])), AggregateCommit: &blockchain.AggregateCommit{}, Signature: []byte{2}}
						inc.Init()
					}
					var last *time.Time
					if !noRecv {
						t := time.Unix(int64(genesis)+5*bt+int64(recvLast), int64((row/72)%2)*999999999)
						last = &t
					}
					fc, err := forkchoice.NewForkChoice(tip, inc, slot, last)
					if err != nil {
						viol("forkchoice-error", err.Error(), p)
						break
					}
					preds = []bool{fc.IsIdenticalBlock(), fc.IsValidBlock(), fc.IsDoubleForging(), fc.IsTieBreak(), fc.IsDifferentChain()}
					if time.Now().Unix() == now {
						judged = true // the wall clock stayed inside the second the row was set up for
					} else {
						out.CaseRetried++
					}
				}
				if !judged {
					out.CaseUnjudged++
					continue
				}
				out.CaseEvals++
				out.CaseEmb[e.name]++
				if fam.name != "ordinary" {
					out.CaseFam[fam.name]++
				}
				got := "discard"
				for i, b := range preds {
					if b {
						got = names[i]
						break
					}
				}
				suffix := ""
				if e.name == "genesis-tip" {
					suffix = ":genesis-tip"
				} else if e.name != "small" {
					suffix = ":uint32"
				} else if fam.name != "ordinary" {
					suffix = ":generator-identity"
				}
				rp := map[string]interface{}{"row": p, "embedding": e.name, "tip": []uint32{tipH, tipP}, "incoming": []uint32{incH, incP}, "generators": fam.name}
				// an individual predicate is compared where the cascade reaches it (every earlier case of the specification is
				// false on the row): there its value IS the classification.  Where an earlier case decides, LIP-0014 leaves
				// the later predicates without meaning and so does this check.
				for i, b := range preds {
					reached := true
					for j := 0; j < i; j++ {
						if p[10+j] == "1" {
							reached = false
						}
					}
					if !reached {
						break
					}
					out.PredsCompared++
					if b != (p[10+i] == "1") && (baseOK || ci == 0) {
						viol("forkchoice-predicate:"+names[i]+suffix, fmt.Sprintf("predicate %s is %v on row %v (tip height/prevoted %d/%d version %d, incoming %d/%d, generators %s), LIP-0014 says %v",
							names[i], b, p[1:9], tipH, tipP, e.tipVersion, incH, incP, fam.name, p[10+i]), rp)
					}
				}
				if got != exp && ci == 0 {
					baseOK = false
				}
				if got != exp && (baseOK || ci == 0) {
					viol("forkchoice-classify"+suffix, fmt.Sprintf("row %v (tip height/prevoted %d/%d version %d, incoming %d/%d, generators %s; receive offsets tip %d incoming %d of %d s slots) classified %s, expected %s",
						p[1:9], tipH, tipP, e.tipVersion, incH, incP, fam.name, recvLast, recvCur, bt, got, exp), rp)
				}
			}
		case "TP":
			// <<"TP", hh, hp, h, p, res, ver>>
			out.Prios++
			ver := uint32(2)
			if len(p) > 6 {
				ver = u(p[6])
			}
			if ver == 0 {
				out.PriosGenesis++
			}
			expP := p[5] == "1"
			maps := append([][5]uint32{}, prioEmbs...)
			var rm [5]uint32 // one random strictly increasing map per row
			for {
				vs := []uint32{r.Uint32(), r.Uint32(), r.Uint32(), r.Uint32(), r.Uint32()}
				sort.Slice(vs, func(a, b int) bool { return vs[a] < vs[b] })
				if vs[0] < vs[1] && vs[1] < vs[2] && vs[2] < vs[3] && vs[3] < vs[4] {
					copy(rm[:], vs)
					break
				}
			}
			maps = append(maps, rm)
			small := u(p[1]) <= 4 && u(p[2]) <= 4 && u(p[3]) <= 4 && u(p[4]) <= 4
			for mi, m := range maps {
				hh, hp, h, pp := u(p[1]), u(p[2]), u(p[3]), u(p[4]) // maps[0] is the identity
				if mi > 0 {
					if !small {
						break
					}
					hh, hp, h, pp = m[hh], m[hp], m[h], m[pp]
				}
				hdr := sealedV(ver, hh, 0, hp, bftx.Addr(1), 1)
				got, err := api.HeaderHasPriority(nil, hdr.Readonly(), h, pp, 0)
				out.PrioEvals++
				if err != nil || got != expP {
					key := "header-priority"
					if ver == 0 {
						key += ":genesis"
					} else if mi > 0 {
						key += ":uint32"
					}
					viol(key, fmt.Sprintf("HeaderHasPriority(header version %d h=%d mhp=%d over h=%d mhp=%d)=%v err=%v, expected %v (table row %v)", ver, hh, hp, h, pp, got, err, expP, p[1:7]),
						map[string]interface{}{"row": p, "values": []uint32{hh, hp, h, pp}})
				}
			}
		}
	}
	// uint32-range pairs: the spec's Contra uses comparisons only, so the verdict on arbitrary values equals
	// the table entry of the rank-compressed values (<= 6 distinct values -> ranks 0..5)
	pick := func() uint32 {
		switch r.Intn(6) {
		case 0:
			return uint32(r.Intn(4))
		case 1:
			return 0xffffffff - uint32(r.Intn(3))
		case 2:
			return 0x7fffffff + uint32(r.Intn(3)) - 1
		case 3:
			return uint32(r.Intn(200))
		}
		return r.Uint32()
	}
	boundary := func(v uint32) bool { return v == 0 || v == 0xffffffff || v == 0x7fffffff || v == 0x80000000 }
	for i := 0; i < nrand && maxF >= 5; i++ {
		vals := []uint32{pick(), pick(), pick(), pick(), pick(), pick()}
		if r.Intn(2) == 0 { // make coincidences likely
			for j := range vals {
				if r.Intn(3) == 0 {
					vals[j] = vals[r.Intn(len(vals))] + uint32(r.Intn(3)) - 1
				}
			}
		}
		g1, g2 := 1+r.Intn(2), 1+r.Intn(2)
		fam := fams[r.Intn(len(fams))]
		sorted := append([]uint32{}, vals...)
		sort.Slice(sorted, func(a, b int) bool { return sorted[a] < sorted[b] })
		rank := map[uint32]uint32{}
		for _, v := range sorted {
			if _, ok := rank[v]; !ok {
				rank[v] = uint32(len(rank))
			}
		}
		key := [8]uint32{rank[vals[0]], rank[vals[1]], rank[vals[2]], uint32(g1), rank[vals[3]], rank[vals[4]], rank[vals[5]], uint32(g2)}
		exp, ok := table[key]
		if !ok {
			continue
		}
		a := &ph{vals[0], vals[1], vals[2], fam.addr(g1)}
		b := &ph{vals[3], vals[4], vals[5], fam.addr(g2)}
		got := contradiction.AreDistinctHeadersContradicting(a, b)
		got2 := contradiction.AreDistinctHeadersContradicting(b, a)
		out.Random++
		if exp {
			out.RandomTrue++
		}
		for _, v := range vals {
			if boundary(v) {
				out.RandomBoundary++
				break
			}
		}
		rp := map[string]interface{}{"values": vals, "generators": []int{g1, g2}, "family": fam.name}
		if got != exp || got2 != exp {
			viol("contradiction-uint32", fmt.Sprintf("pair %v gen %d/%d (addresses: %s): real %v/%v (swapped), LIP-0014 on ranks %v says %v", vals, g1, g2, fam.name, got, got2, key, exp), rp)
		}
		if i%4 == 0 {
			h1 := sealedV(2, vals[0], vals[1], vals[2], fam.addr(g1), 1)
			h2 := sealedV(2, vals[3], vals[4], vals[5], fam.addr(g2), 2)
			out.RandomAPI++
			g3, err := api.AreHeadersContradicting(h1.Readonly(), h2.Readonly())
			g4, err2 := api.AreHeadersContradicting(h2.Readonly(), h1.Readonly())
			if err != nil || err2 != nil || g3 != exp || g4 != exp {
				viol("contradiction-uint32:api", fmt.Sprintf("API.AreHeadersContradicting on pair %v gen %d/%d (addresses: %s): %v/%v (swapped) err %v/%v, LIP-0014 on ranks %v says %v", vals, g1, g2, fam.name, g3, g4, err, err2, key, exp), rp)
			}
		}
	}
	tj.WriteJSON(os.Args[2], out)
}
