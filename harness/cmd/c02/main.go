// c02: seeded driver + recorder for the real liskbft.Module (binding B of C02, C07).
// Generates header chains with parameter-change schedules, logs every call with the projected
// BFT store observed after it; spec/trace/LiskBFTTrace.tla validates the log.
//
// Every chain is fed to the main node (flushed after every block) and to peers that must end in the same abstract state:
//   shadow  the same calls, validator lists in another order, never flushed before the end of the chain;
//   twin    (every fourth chain) the same chain with EVERY height shifted by S (2^16.., 2^24.., 2^31..) and every weight
//           multiplied by K (2^32-1, 2^32, 10^17): the counting rules compare heights with each other and weights with
//           thresholds only, so they are invariant under the shift and linear in the weights; the twin's observation is
//           mapped back (x-S, w/K, ceil(threshold/K)) and validated by the SAME trace specification ("Peer" events).
//
// usage: c02 <out.ndjson> <meta.json> <chains> [std|big]
//   big: one chain in the world of a main-net round (103 identities, batch 103, 101 active validators, window 309).
package main

import (
	"bytes"
	"encoding/json"
	"errors"
	"fmt"
	"math/rand"
	"os"
	"sort"
	"strconv"

	"github.com/LiskHQ/lisk-engine/pkg/consensus/liskbft"

	"verifharness/internal/bftx"
	"verifharness/internal/tj"
)

var NVal = 5

var meta = map[string]int{} // coverage counters, written to <meta.json>

// scale maps the observation of a twin node back into the world of the main node.
type scale struct {
	S uint32
	K uint64
}

const bad = 900000000 // no model value is that large: an observation that cannot be mapped back never matches

func cl(x uint64) uint64 { // TLC integers are 32 bit
	if x > 2000000000 {
		return 2000000000
	}
	return x
}

func (s scale) h(x uint32) uint32 {
	if s.S == 0 {
		return uint32(cl(uint64(x)))
	}
	if x >= s.S && x-s.S < bad {
		return x - s.S
	}
	return bad + x%1000000
}

func (s scale) w(x uint64) uint64 {
	if s.K == 1 {
		return cl(x)
	}
	if x%s.K == 0 {
		return cl(x / s.K)
	}
	return bad + x%1000
}

// thr: K*v >= T  <=>  v >= ceil(T/K) for integers v
func (s scale) thr(x uint64) uint64 {
	if s.K == 1 {
		return cl(x)
	}
	q := x / s.K
	if x%s.K != 0 {
		q++
	}
	return cl(q)
}

type obsx struct {
	Mhpv   uint32       `json:"mhpv"`
	Mhpc   uint32       `json:"mhpc"`
	Cert   uint32       `json:"cert"`
	Api    []uint32     `json:"api"`    // API.GetBFTHeights
	ApiErr int          `json:"apiErr"` // 1: the store could not be decoded / an API returned an unexpected error
	ApiMsg string       `json:"apiMsg,omitempty"`
	Win    [][]uint64   `json:"win"`   // [h, gen, mhg, mhp, pv, pc] newest first
	VInfo  [][]uint32   `json:"vinfo"` // per validator 1..N: [active, minActive, lhp]
	PKeys  []uint32     `json:"pkeys"`
	GKeys  []uint32     `json:"gkeys"`
	PAt    [][]uint64   `json:"pAt"`   // GetBFTParameters(h): [h, found, pvT, pcT, certT]
	PW     [][]uint64   `json:"pW"`    // ... its validators' weights by identity
	PHash  []int        `json:"pHash"` // ... its validatorsHash = hash recomputed by the hand-written encoder
	NextP  [][]uint32   `json:"nextP"` // NextHeightBFTParameters(h): [h, res]
	GAt    [][]uint32   `json:"gAt"`   // GetGeneratorKeys(h): [found, ids ascending...]
	LAt    [][][]uint64 `json:"lAt"`   // GetLabiValidators(params(h).Validators(), generators(h)): [id, weight] by id
}

func observe(n *bftx.Node, sc scale, heights []uint32) *obsx {
	return project(n, n.ObserveAPI(), sc, heights)
}

func project(n *bftx.Node, o *bftx.ObsAPI, sc scale, heights []uint32) *obsx {
	ox := &obsx{Mhpv: sc.h(o.Mhpv), Mhpc: sc.h(o.Mhpc), Cert: sc.h(o.Cert), Api: []uint32{sc.h(o.Api[0]), sc.h(o.Api[1]), sc.h(o.Api[2])},
		Win: [][]uint64{}, VInfo: [][]uint32{}, PKeys: []uint32{}, GKeys: []uint32{},
		PAt: [][]uint64{}, PW: [][]uint64{}, PHash: []int{}, NextP: [][]uint32{}, GAt: [][]uint32{}, LAt: [][][]uint64{}}
	if o.ApiErr != "" {
		ox.ApiErr, ox.ApiMsg = 1, o.ApiErr
	}
	for _, e := range o.Win {
		ox.Win = append(ox.Win, []uint64{uint64(sc.h(uint32(e[0]))), e[1], uint64(sc.h(uint32(e[2]))), uint64(sc.h(uint32(e[3]))), sc.w(e[4]), sc.w(e[5])})
	}
	for _, v := range o.VInfo {
		if v[0] == 0 {
			ox.VInfo = append(ox.VInfo, []uint32{0, 0, 0})
		} else {
			ox.VInfo = append(ox.VInfo, []uint32{1, sc.h(v[1]), sc.h(v[2])})
		}
	}
	for _, k := range o.PKeys {
		ox.PKeys = append(ox.PKeys, sc.h(k))
	}
	for _, k := range o.GKeys {
		ox.GKeys = append(ox.GKeys, sc.h(k))
	}
	api := n.Mod.API()
	for _, h := range heights {
		hh := h + sc.S
		zero := make([]uint64, NVal)
		p, perr := api.GetBFTParameters(n.Store, hh)
		if perr != nil {
			if !errors.Is(perr, liskbft.ErrBFTParamsNotFound) {
				ox.ApiErr, ox.ApiMsg = 1, "GetBFTParameters: "+perr.Error()
			}
			ox.PAt = append(ox.PAt, []uint64{uint64(h), 0, 0, 0, 0})
			ox.PW = append(ox.PW, zero)
			ox.PHash = append(ox.PHash, 1)
		} else {
			ox.PAt = append(ox.PAt, []uint64{uint64(h), 1, sc.thr(p.PrevoteThreshold()), sc.thr(p.PrecommitThreshold()), sc.thr(p.CertificateThreshold())})
			pw := zero
			keys, ws := [][]byte{}, []uint64{}
			known := true
			for _, v := range p.Validators() {
				id := bftx.ValOf(v.Address())
				if id < 1 || id > NVal || pw[id-1] != 0 || v.BFTWeight() == 0 {
					known = false // an identity of another world, twice the same one, or an entry without weight
					break
				}
				pw[id-1] = sc.w(v.BFTWeight())
				keys = append(keys, bftx.BLSKey(id)) // the key the identity registered, not the one the store returns
				ws = append(ws, v.BFTWeight())
			}
			if sc.K > 1 && known {
				// ceil(T/K) forgets the low-order digits of the prevote threshold; LIP-0058 fixes them: floor(2*total/3)+1,
				// evaluated here in 64 bits on the scaled weights the store returned (compared with the model above)
				t := uint64(0)
				for _, x := range ws {
					t += x
				}
				if p.PrevoteThreshold() != 2*t/3+1 {
					ox.PAt[len(ox.PAt)-1][2] = bad + p.PrevoteThreshold()%1000
				}
			}
			if !known {
				ox.PW = append(ox.PW, []uint64{})
				ox.PHash = append(ox.PHash, 0)
			} else {
				meta["probes_weights_and_hash"]++
				ox.PW = append(ox.PW, pw)
				ox.PHash = append(ox.PHash, tj.B(bytes.Equal(p.ValidatorsHash(), bftx.ValidatorsHashLIP(keys, ws, p.CertificateThreshold()))))
			}
		}
		nh, err := api.NextHeightBFTParameters(n.Store, hh)
		if err != nil {
			ox.NextP = append(ox.NextP, []uint32{h, 0})
		} else {
			ox.NextP = append(ox.NextP, []uint32{h, sc.h(nh)})
		}
		gens, gerr := api.GetGeneratorKeys(n.Store, hh)
		if gerr != nil {
			if !errors.Is(gerr, liskbft.ErrGeneratorKeysNotFound) {
				ox.ApiErr, ox.ApiMsg = 1, "GetGeneratorKeys: "+gerr.Error()
			}
			ox.GAt = append(ox.GAt, []uint32{0})
		} else {
			ids := []uint32{}
			for _, g := range gens {
				id := bftx.ValOf(g.Address())
				if !bytes.Equal(g.GeneratorKey(), bftx.GenKey(id)) {
					id = 0 // the key of somebody else
				}
				ids = append(ids, uint32(id))
			}
			sort.Slice(ids, func(a, b int) bool { return ids[a] < ids[b] })
			ox.GAt = append(ox.GAt, append([]uint32{1}, ids...))
			meta["probes_generator_keys"]++
		}
		la := [][]uint64{}
		if perr == nil && gerr == nil {
			for _, v := range liskbft.GetLabiValidators(p.Validators(), gens) {
				la = append(la, []uint64{uint64(bftx.ValOf(v.Address)), sc.w(v.BFTWeight)})
			}
			sort.Slice(la, func(a, b int) bool { return la[a][0] < la[b][0] })
			meta["probes_labi_validators"]++
			if len(la) > len(p.Validators()) {
				meta["probes_labi_with_standby"]++
			}
		}
		ox.LAt = append(ox.LAt, la)
	}
	return ox
}

// probeHeights: a few heights around the window, always including the smallest height whose parameters must still be
// retained (min(oldest window height, certified+1)).
func probeHeights(r *rand.Rand, o *bftx.ObsAPI, tip uint32) []uint32 {
	hs := []uint32{}
	for i := 0; i < 2; i++ {
		var h uint32
		switch r.Intn(3) {
		case 0:
			h = tip + uint32(r.Intn(3))
		case 1:
			if tip > 0 {
				h = uint32(r.Intn(int(tip) + 1))
			}
		default:
			if len(o.PKeys) > 0 {
				h = o.PKeys[r.Intn(len(o.PKeys))]
				if r.Intn(2) == 0 && h > 0 {
					h--
				}
			}
		}
		hs = append(hs, h)
	}
	minReq := o.Cert + 1
	if len(o.Win) > 0 && uint32(o.Win[len(o.Win)-1][0]) < minReq {
		minReq = uint32(o.Win[len(o.Win)-1][0])
	}
	return append(hs, minReq)
}

func total(w []uint64) uint64 {
	t := uint64(0)
	for _, x := range w {
		t += x
	}
	return t
}

func active(w []uint64) int {
	n := 0
	for _, x := range w {
		if x > 0 {
			n++
		}
	}
	return n
}

func randWeights(r *rand.Rand, batch int) []uint64 {
	for {
		w := make([]uint64, NVal)
		n := 0
		for i := range w {
			if r.Intn(4) != 0 {
				w[i] = uint64(1 + r.Intn(3))
				n++
			}
		}
		if n >= 1 && (n <= batch || r.Intn(10) == 0) {
			return w
		}
	}
}

// bigWorld: thresholds mostly at or below the prevote threshold, so that the long chain keeps finalising
var bigWorld bool

func randThreshold(r *rand.Rand, w []uint64) uint64 {
	t := total(w)
	lo := t/3 + 1
	if bigWorld && r.Intn(4) != 0 {
		return lo + uint64(r.Intn(int(2*t/3+1-lo)+1))
	}
	switch r.Intn(12) {
	case 0:
		return lo - 1 // invalid
	case 1:
		return t + 1 // invalid
	case 2:
		return lo
	case 3:
		return t
	}
	return lo + uint64(r.Intn(int(t-lo)+1))
}

// peer: another real node that receives the same chain.
type peer struct {
	n     *bftx.Node
	kind  string // "shadow" | "twin"
	sc    scale
	flush bool
	r     *rand.Rand // order of the validator lists offered to this node
	done  bool       // diverged: its observation was handed to the trace specification, nothing more is compared
}

func enc(a *obsx) []byte {
	x, _ := json.Marshal(a)
	return x
}

func main() {
	if len(os.Args) < 4 {
		fmt.Fprintln(os.Stderr, "usage: c02 out.ndjson meta.json chains [std|big]")
		os.Exit(2)
	}
	chains, _ := strconv.Atoi(os.Args[3])
	big := len(os.Args) > 4 && os.Args[4] == "big"
	thorough := os.Getenv("VERIF_TIER") == "thorough"
	if big {
		NVal = 103
		bigWorld = true
	}
	seed := int64(tj.EnvInt("VERIF_SEED", 1))
	r := rand.New(rand.NewSource(seed))
	w, err := tj.NewWriter(os.Args[1])
	if err != nil {
		panic(err)
	}
	fail := func(msg string) {
		w.Close()
		tj.WriteJSON(os.Args[2], map[string]interface{}{"error": msg})
		os.Exit(3)
	}
	ks := []uint64{1<<32 - 1, 1 << 32, 100000000000000000, 1}
	for c := 0; c < chains; c++ {
		batch := 2 + r.Intn(4)
		if big {
			batch = 103
		}
		win := 3 * batch
		h0 := uint32(0)
		if r.Intn(3) == 0 {
			h0 = uint32(1 + r.Intn(4))
		}
		rr := c%5 == 0 && !big // every fifth chain: fault-free round robin with equal weights
		noParam := c%20 == 7 && !big // the first parameter set is rejected, then a header arrives
		n, err := bftx.NewNode(batch, NVal, h0)
		if err != nil {
			fail(err.Error())
		}
		rs := rand.New(rand.NewSource(seed*1000003 + int64(c)))
		peers := []*peer{}
		// shadow node: receives the same calls (lists in another order) but is flushed only at the end of the chain
		n2, err := bftx.NewNode(batch, NVal, h0)
		if err != nil {
			fail(err.Error())
		}
		peers = append(peers, &peer{n: n2, kind: "shadow", sc: scale{0, 1}, r: rand.New(rand.NewSource(rs.Int63()))})
		if c%4 == 1 || big {
			sc := scale{K: ks[rs.Intn(len(ks))]}
			switch rs.Intn(4) {
			case 0:
				sc.S = 1<<16 + uint32(rs.Intn(1000))
			case 1:
				sc.S = 1<<31 + uint32(rs.Intn(1000))
			default:
				sc.S = 1<<24 + uint32(rs.Intn(1000))
			}
			if big {
				sc.K = 1 << 32 // 300 * 10^17 does not fit into 64 bits
			}
			n3, err := bftx.NewNode(batch, NVal, h0+sc.S)
			if err != nil {
				fail(err.Error())
			}
			peers = append(peers, &peer{n: n3, kind: "twin", sc: sc, flush: true, r: rand.New(rand.NewSource(rs.Int63()))})
			meta["twin_chains"]++
			if sc.K > 1 {
				meta["twin_chains_scaled"]++
			}
		}
		rm := rand.New(rand.NewSource(rs.Int63())) // order of the lists offered to the main node
		ended := false
		// watch observes the main node after a call and compares every peer with it; a peer that differs (or every peer,
		// when final) is handed to the trace specification as a Peer event
		emitPeer := func(p *peer, po *obsx, when string) {
			w.Emit(map[string]interface{}{"ev": "Peer", "kind": p.kind, "when": when, "S": strconv.FormatUint(uint64(p.sc.S), 10), "K": strconv.FormatUint(p.sc.K, 10), "obs": po})
			meta["peer_events_"+p.kind]++
		}
		var cur *bftx.ObsAPI // the main node's store after the latest call
		watch := func(tip uint32) *obsx {
			cur = n.ObserveAPI()
			return project(n, cur, scale{0, 1}, probeHeights(r, cur, tip))
		}
		comparePeers := func(mo *obsx, final bool) {
			hs := []uint32{}
			for _, p := range mo.PAt {
				hs = append(hs, uint32(p[0]))
			}
			var me []byte
			for _, p := range peers {
				if p.done {
					continue
				}
				if !final && p.kind == "shadow" && rs.Intn(4) != 0 {
					continue
				}
				if me == nil {
					me = enc(mo)
				}
				po := observe(p.n, p.sc, hs)
				meta["peer_steps_"+p.kind]++
				if p.kind == "twin" && mo.Mhpc > h0 {
					meta["twin_steps_with_finality"]++
				}
				if !bytes.Equal(enc(po), me) {
					emitPeer(p, po, "diverged")
					p.done = true
					meta["peer_diverged"]++
				} else if final {
					emitPeer(p, po, "end")
					if p.kind == "shadow" {
						p.n.Flush() // ... and once more from the persisted encoding
						emitPeer(p, observe(p.n, p.sc, hs), "flushed")
					}
				}
			}
		}
		var wts []uint64
		var pcT, certT uint64
		q := 0
		nact := 0
		if rr {
			nact = 2 + r.Intn(batch-1)
			if nact > NVal {
				nact = NVal
			}
			wts = make([]uint64, NVal)
			for i := 0; i < nact; i++ {
				wts[i] = 1
			}
			q = 2*nact/3 + 1
			pcT, certT = uint64(q), uint64(q)
			if 2*q > win {
				rr = false
			}
		} else if big {
			wts = make([]uint64, NVal)
			for i := 0; i < 101; i++ {
				wts[i] = 1
				if r.Intn(4) == 0 {
					wts[i] = uint64(2 + r.Intn(2))
				}
			}
			pcT, certT = randThreshold(r, wts), randThreshold(r, wts)
			for pcT < total(wts)/3+1 || pcT > total(wts) {
				pcT = randThreshold(r, wts)
			}
			for certT < total(wts)/3+1 || certT > total(wts) {
				certT = randThreshold(r, wts)
			}
		} else {
			for {
				wts = randWeights(r, batch)
				pcT, certT = randThreshold(r, wts), randThreshold(r, wts)
				t := total(wts)
				if pcT >= t/3+1 && pcT <= t && certT >= t/3+1 && certT <= t {
					if active(wts) <= batch {
						break
					}
				}
			}
		}
		o := watch(h0)
		w.Emit(map[string]interface{}{"ev": "Init", "h0": h0, "win": win, "rr": tj.B(rr), "q": q, "obs": o})
		comparePeers(o, false)
		// setParams: one answer of the application (thresholds + validator list incl. standby entries of weight 0), offered to
		// every node in its own order through the engine's conversion; returns whether the main node accepted it
		setParams := func(pc, ce uint64, ws []uint64, tip uint32) bool {
			gens := []int{}
			for i, x := range ws {
				if x > 0 || r.Intn(6) == 0 || (big && i >= 101) {
					gens = append(gens, i+1)
					if x == 0 {
						meta["standby_entries"]++
					}
				}
			}
			list := func(rn *rand.Rand, k uint64) []bftx.LV {
				l := []bftx.LV{}
				for _, g := range gens {
					l = append(l, bftx.LV{ID: g, W: ws[g-1] * k})
				}
				rn.Shuffle(len(l), func(a, b int) { l[a], l[b] = l[b], l[a] })
				return l
			}
			ml := list(rm, 1)
			sorted := sort.SliceIsSorted(ml, func(a, b int) bool { return ml[a].ID < ml[b].ID })
			if !sorted {
				meta["shuffled_sets"]++
			}
			err := n.SetParamsLabi(pc, ce, ml)
			errP := []int{}
			for _, p := range peers {
				e := p.n.SetParamsLabi(pc*p.sc.K, ce*p.sc.K, list(p.r, p.sc.K))
				errP = append(errP, tj.B(e != nil))
			}
			o := watch(tip)
			w.Emit(map[string]interface{}{"ev": "SetParams", "pcT": pc, "certT": ce, "w": ws, "gens": gens, "err": tj.B(err != nil), "errP": errP, "obs": o})
			comparePeers(o, false)
			if err != nil {
				meta["setparams_rejected"]++
			} else {
				meta["setparams_ok"]++
			}
			return err == nil
		}
		if noParam {
			// guaranteed to be rejected: the header that follows finds no parameters at all
			bw := randWeights(r, batch)
			for active(bw) > batch {
				bw = randWeights(r, batch)
			}
			setParams(total(bw)/3, total(bw), bw, h0)
		} else {
			setParams(pcT, certT, wts, h0)
			if r.Intn(10) == 0 && !rr {
				// a second, different answer for the same next height (the entry of that height is overwritten, the vote info
				// carried over a second time)
				nw := randWeights(r, batch)
				if big {
					nw = append([]uint64{}, wts...)
					nw[r.Intn(NVal)] = uint64(r.Intn(3))
				}
				npc, nce := randThreshold(r, nw), randThreshold(r, nw)
				if setParams(npc, nce, nw, h0) {
					wts, pcT, certT = nw, npc, nce
				}
				meta["double_set"]++
			}
		}
		length := 5 + r.Intn(5*win)
		if rr {
			length = 2*q + 2 + r.Intn(2*win)
		}
		if big {
			length = win + win/4 + r.Intn(20) // the window slides
			if thorough {
				length = 2*win + win/2 + r.Intn(20)
			}
		}
		lastGen := map[int]uint32{}
		tip := h0
		for i := 0; i < length && !ended; i++ {
			h := tip + 1
			var gen int
			var mhg uint32
			if cur.ApiErr != "" {
				break // already in the trace (the observation after the previous call carries apiErr)
			}
			mhp := cur.Mhpv
			if rr {
				gen = 1 + int(h)%nact
				mhg = lastGen[gen]
			} else {
				gen = 1 + r.Intn(NVal)
				if big && r.Intn(8) != 0 {
					// mostly the validators take turns
					gen = 1 + int(h)%101
				}
				k := r.Intn(10)
				if big && r.Intn(2) == 0 {
					k = 9 // the long chain is mostly honest
				}
				switch k {
				case 0:
					mhg = h // no votes implied
				case 1:
					mhg = h + uint32(r.Intn(3))
				case 2, 3:
					mhg = uint32(r.Intn(int(h)))
					if big && r.Intn(2) == 0 {
						mhg = lastGen[gen]
					}
				default:
					mhg = lastGen[gen] // honest: largest height generated so far
				}
				if r.Intn(12) == 0 && !(big && r.Intn(2) == 0) {
					mhp = uint32(r.Intn(int(h)))
				}
			}
			contra := func(hd bftx.Hdr) (bool, []int, bool) {
				pc, perr := n.Contradicting(n.Header(hd))
				resP := []int{}
				for _, p := range peers {
					ph := hd
					ph.H, ph.Mhg, ph.Mhp, ph.AcH = hd.H+p.sc.S, hd.Mhg+p.sc.S, hd.Mhp+p.sc.S, hd.AcH+p.sc.S
					x, e := p.n.Contradicting(p.n.Header(ph))
					if e != nil {
						perr = e
					}
					resP = append(resP, tj.B(x))
				}
				return pc, resP, perr != nil
			}
			// directed probes at the far end of the window: a validator whose latest block is the OLDEST header the window
			// still holds (exactly win blocks below the new height) offers a header that claims less than that block's height
			if h > uint32(win) {
				gs := []int{}
				for g, lh := range lastGen {
					if lh == h-uint32(win) && lh > h0 && lh >= 1 {
						gs = append(gs, g)
					}
				}
				sort.Ints(gs)
				for _, g := range gs {
					lh := lastGen[g]
					pc, resP, perr := contra(bftx.Hdr{H: h, Gen: uint32(g), Mhg: lh - 1, Mhp: mhp, AcH: cur.Cert})
					w.Emit(map[string]interface{}{"ev": "Contra", "h": h, "gen": g, "mhg": lh - 1, "mhp": mhp, "res": tj.B(pc), "resP": resP, "err": tj.B(perr)})
					meta["contra_boundary_probes"]++
					if pc {
						meta["contra_true"]++
					}
				}
			}
			// aggregate commit: empty (certified height unchanged whatever height the commit names) or non-empty (either byte
			// field is enough), see updateMaxHeightCertified
			hd := bftx.Hdr{H: h, Gen: uint32(gen), Mhg: mhg, Mhp: mhp, AcH: cur.Cert}
			if !rr {
				k := r.Intn(12)
				switch {
				case k <= 1 && cur.Mhpc > cur.Cert:
					hd.AcNonEmpty = true
					hd.AcH = cur.Cert + 1 + uint32(r.Intn(int(cur.Mhpc-cur.Cert)))
					meta["ac_full"]++
				case k == 2 && cur.Mhpc > cur.Cert:
					hd.AcKind = bftx.AcBitsOnly
					hd.AcH = cur.Cert + 1 + uint32(r.Intn(int(cur.Mhpc-cur.Cert)))
					meta["ac_bits_only"]++
				case k == 3 && cur.Mhpc > cur.Cert:
					hd.AcKind = bftx.AcSigOnly
					hd.AcH = cur.Cert + 1 + uint32(r.Intn(int(cur.Mhpc-cur.Cert)))
					meta["ac_sig_only"]++
				case k == 4:
					// empty commit that names another height: nothing is certified by it
					hd.AcH = uint32(r.Intn(int(h) + 2))
					if r.Intn(2) == 0 {
						hd.AcH = cur.Cert + 1 + uint32(r.Intn(3))
					}
					if r.Intn(2) == 0 {
						hd.AcKind = bftx.AcNil
					}
					if hd.AcH != cur.Cert {
						meta["ac_empty_other_height"]++
					}
				case k == 5:
					hd.AcKind = bftx.AcNil
					meta["ac_nil"]++
				}
			}
			pc, resP, perr := contra(hd)
			w.Emit(map[string]interface{}{"ev": "Contra", "h": h, "gen": gen, "mhg": mhg, "mhp": mhp, "res": tj.B(pc), "resP": resP, "err": tj.B(perr)})
			if pc {
				meta["contra_true"]++
				if r.Intn(3) != 0 {
					// the engine would reject this header; try another one most of the time
					continue
				}
			}
			hdr := n.Header(hd)
			err = n.Apply(hdr)
			implies := false
			if err == nil {
				implies, _ = n.Mod.API().ImpliesMaximalPrevotes(n.Store, hdr.Readonly())
			}
			n.Flush()
			errP, impliesP := []int{}, []int{}
			for _, p := range peers {
				ph := hd
				ph.H, ph.Mhg, ph.Mhp, ph.AcH = hd.H+p.sc.S, hd.Mhg+p.sc.S, hd.Mhp+p.sc.S, hd.AcH+p.sc.S
				phdr := p.n.Header(ph)
				e := p.n.Apply(phdr)
				im := false
				if e == nil {
					im, _ = p.n.Mod.API().ImpliesMaximalPrevotes(p.n.Store, phdr.Readonly())
				}
				if p.flush {
					p.n.Flush()
				}
				errP = append(errP, tj.B(e != nil))
				impliesP = append(impliesP, tj.B(im))
			}
			if err == nil {
				tip = h
				if h > lastGen[gen] {
					lastGen[gen] = h
				}
			}
			o := watch(tip)
			bits, sig := hd.AcShape()
			w.Emit(map[string]interface{}{"ev": "Header", "h": h, "gen": gen, "mhg": mhg, "mhp": mhp, "acH": hd.AcH,
				"acBits": tj.B(bits), "acSig": tj.B(sig), "err": tj.B(err != nil), "errP": errP, "implies": tj.B(implies), "impliesP": impliesP, "obs": o})
			comparePeers(o, false)
			meta["headers"]++
			if o.Mhpc > h0 {
				meta["headers_with_finality"]++
			}
			if noParam {
				meta["no_param_headers"]++
			}
			if err != nil {
				meta["header_errors"]++
				break
			}
			if len(o.Win) == win && big {
				meta["big_full_window_headers"]++
			}
			chg := 7
			if big {
				chg = 40
			}
			if !rr && r.Intn(chg) == 0 {
				nw := randWeights(r, batch)
				if big || r.Intn(3) == 0 { // small change of the current set
					nw = append([]uint64{}, wts...)
					nw[r.Intn(NVal)] = uint64(r.Intn(3))
					if big {
						nw[r.Intn(NVal)] = uint64(r.Intn(3))
						nw[r.Intn(NVal)] = uint64(1 + r.Intn(3))
					}
				}
				if r.Intn(8) == 0 {
					nw = append([]uint64{}, wts...) // unchanged set (no-op expected)
				}
				if total(nw) == 0 {
					nw[0] = 1
				}
				npc, nce := randThreshold(r, nw), randThreshold(r, nw)
				if r.Intn(8) == 0 {
					npc, nce = pcT, certT
				}
				// remember what is in force for later "unchanged" probes
				if setParams(npc, nce, nw, tip) {
					wts, pcT, certT = nw, npc, nce
				}
				if r.Intn(10) == 0 {
					nw2 := append([]uint64{}, nw...)
					nw2[r.Intn(NVal)] = uint64(r.Intn(4))
					if total(nw2) == 0 {
						nw2[0] = 2
					}
					npc, nce = randThreshold(r, nw2), randThreshold(r, nw2)
					if setParams(npc, nce, nw2, tip) {
						wts, pcT, certT = nw2, npc, nce
					}
					meta["double_set"]++
				}
			}
		}
		comparePeers(watch(tip), true)
		for _, p := range peers {
			p.n.Close()
		}
		meta["chains"]++
		if rr {
			meta["rr_chains"]++
		}
		n.Close()
	}
	w.Close()
	meta["events"] = w.N
	tj.WriteJSON(os.Args[2], meta)
}
