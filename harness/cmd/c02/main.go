// c02: seeded driver + recorder for the real liskbft.Module (binding B of C02, C07).
// Generates header chains with parameter-change schedules, logs every call with the projected
// BFT store observed after it; spec/trace/LiskBFTTrace.tla validates the log.
//
// usage: c02 <out.ndjson> <meta.json> <chains>
package main

import (
	"fmt"
	"math/rand"
	"os"
	"strconv"

	"verifharness/internal/bftx"
	"verifharness/internal/tj"
)

const NVal = 5

type obsx struct {
	*bftx.Obs
	PAt   [][]uint64 `json:"pAt"`
	NextP [][]uint32 `json:"nextP"`
}

func observe(n *bftx.Node, r *rand.Rand, tip uint32) (*obsx, error) {
	o, err := n.Observe()
	if err != nil {
		return nil, err
	}
	ox := &obsx{Obs: o, PAt: [][]uint64{}, NextP: [][]uint32{}}
	// probe GetBFTParameters / NextHeightBFTParameters at a few heights around the window
	for i := 0; i < 3; i++ {
		var h uint32
		switch r.Intn(3) {
		case 0:
			h = tip + uint32(r.Intn(3))
		case 1:
			if tip > 0 {
				h = uint32(r.Intn(int(tip) + 1))
			}
		default:
			if len(o.PKeys) > 0 {
				h = o.PKeys[r.Intn(len(o.PKeys))]
				if r.Intn(2) == 0 && h > 0 {
					h--
				}
			}
		}
		p, err := n.Mod.API().GetBFTParameters(n.Store, h)
		if err != nil {
			ox.PAt = append(ox.PAt, []uint64{uint64(h), 0, 0, 0, 0})
		} else {
			ox.PAt = append(ox.PAt, []uint64{uint64(h), 1, p.PrevoteThreshold(), p.PrecommitThreshold(), p.CertificateThreshold()})
		}
		nh, err := n.Mod.API().NextHeightBFTParameters(n.Store, h)
		if err != nil {
			nh = 0
		}
		ox.NextP = append(ox.NextP, []uint32{h, nh})
	}
	return ox, nil
}

func total(w []uint64) uint64 {
	t := uint64(0)
	for _, x := range w {
		t += x
	}
	return t
}

func randWeights(r *rand.Rand, batch int) []uint64 {
	for {
		w := make([]uint64, NVal)
		n := 0
		for i := range w {
			if r.Intn(4) != 0 {
				w[i] = uint64(1 + r.Intn(3))
				n++
			}
		}
		if n >= 1 && (n <= batch || r.Intn(10) == 0) {
			return w
		}
	}
}

func randThreshold(r *rand.Rand, w []uint64) uint64 {
	t := total(w)
	lo := t/3 + 1
	switch r.Intn(12) {
	case 0:
		return lo - 1 // invalid
	case 1:
		return t + 1 // invalid
	case 2:
		return lo
	case 3:
		return t
	}
	return lo + uint64(r.Intn(int(t-lo)+1))
}

func main() {
	if len(os.Args) < 4 {
		fmt.Fprintln(os.Stderr, "usage: c02 out.ndjson meta.json chains")
		os.Exit(2)
	}
	chains, _ := strconv.Atoi(os.Args[3])
	seed := int64(tj.EnvInt("VERIF_SEED", 1))
	r := rand.New(rand.NewSource(seed))
	w, err := tj.NewWriter(os.Args[1])
	if err != nil {
		panic(err)
	}
	meta := map[string]int{}
	fail := func(msg string) {
		w.Close()
		tj.WriteJSON(os.Args[2], map[string]interface{}{"error": msg})
		os.Exit(3)
	}
	for c := 0; c < chains; c++ {
		batch := 2 + r.Intn(4)
		win := 3 * batch
		h0 := uint32(0)
		if r.Intn(3) == 0 {
			h0 = uint32(1 + r.Intn(4))
		}
		rr := c%5 == 0 // every fifth chain: fault-free round robin with equal weights
		n, err := bftx.NewNode(batch, NVal, h0)
		if err != nil {
			fail(err.Error())
		}
		// shadow node: receives the same calls but is flushed only at the end of the chain
		n2, err := bftx.NewNode(batch, NVal, h0)
		if err != nil {
			fail(err.Error())
		}
		var wts []uint64
		var pcT, certT uint64
		q := 0
		nact := 0
		if rr {
			nact = 2 + r.Intn(batch-1)
			if nact > NVal {
				nact = NVal
			}
			wts = make([]uint64, NVal)
			for i := 0; i < nact; i++ {
				wts[i] = 1
			}
			q = 2*nact/3 + 1
			pcT, certT = uint64(q), uint64(q)
			if 2*q > win {
				rr = false
			}
		} else {
			for {
				wts = randWeights(r, batch)
				pcT, certT = randThreshold(r, wts), randThreshold(r, wts)
				t := total(wts)
				if pcT >= t/3+1 && pcT <= t && certT >= t/3+1 && certT <= t {
					act := 0
					for _, x := range wts {
						if x > 0 {
							act++
						}
					}
					if act <= batch {
						break
					}
				}
			}
		}
		o, err := observe(n, r, h0)
		if err != nil {
			fail(err.Error())
		}
		w.Emit(map[string]interface{}{"ev": "Init", "h0": h0, "win": win, "rr": tj.B(rr), "q": q, "obs": o})
		setParams := func(pc, ce uint64, ws []uint64, tip uint32) {
			gens := []int{}
			for i, x := range ws {
				if x > 0 || r.Intn(6) == 0 {
					gens = append(gens, i+1)
				}
			}
			err := n.SetParams(pc, ce, ws, gens)
			n2.SetParams(pc, ce, ws, gens) //nolint
			o, oerr := observe(n, r, tip)
			if oerr != nil {
				fail(oerr.Error())
			}
			w.Emit(map[string]interface{}{"ev": "SetParams", "pcT": pc, "certT": ce, "w": ws, "gens": gens, "err": tj.B(err != nil), "obs": o})
			if err != nil {
				meta["setparams_rejected"]++
			} else {
				meta["setparams_ok"]++
			}
		}
		setParams(pcT, certT, wts, h0)
		length := 5 + r.Intn(5*win)
		if rr {
			length = 2*q + 2 + r.Intn(2*win)
		}
		lastGen := map[int]uint32{}
		tip := h0
		for i := 0; i < length; i++ {
			h := tip + 1
			var gen int
			var mhg uint32
			cur, _ := n.Observe()
			mhp := cur.Mhpv
			if rr {
				gen = 1 + int(h)%nact
				mhg = lastGen[gen]
			} else {
				gen = 1 + r.Intn(NVal)
				switch r.Intn(10) {
				case 0:
					mhg = h // no votes implied
				case 1:
					mhg = h + uint32(r.Intn(3))
				case 2, 3:
					mhg = uint32(r.Intn(int(h)))
				default:
					mhg = lastGen[gen] // honest: largest height generated so far
				}
				if r.Intn(12) == 0 {
					mhp = uint32(r.Intn(int(h)))
				}
			}
			// directed probes at the far end of the window: a validator whose latest block is the OLDEST header the window
			// still holds (exactly win blocks below the new height) offers a header that claims less than that block's height
			if h > uint32(win) {
				for g, lh := range lastGen {
					if lh == h-uint32(win) && lh > h0 && lh >= 1 {
						ph := n.Header(bftx.Hdr{H: h, Gen: uint32(g), Mhg: lh - 1, Mhp: mhp, AcH: cur.Cert})
						pc, perr := n.Contradicting(ph)
						if perr != nil {
							fail("IsHeaderContradictingChain: " + perr.Error())
						}
						w.Emit(map[string]interface{}{"ev": "Contra", "h": h, "gen": g, "mhg": lh - 1, "mhp": mhp, "res": tj.B(pc)})
						meta["contra_boundary_probes"]++
						if pc {
							meta["contra_true"]++
						}
					}
				}
			}
			hd := bftx.Hdr{H: h, Gen: uint32(gen), Mhg: mhg, Mhp: mhp, AcH: cur.Cert}
			if !rr && r.Intn(6) == 0 && cur.Mhpc > cur.Cert {
				hd.AcNonEmpty = true
				hd.AcH = cur.Cert + 1 + uint32(r.Intn(int(cur.Mhpc-cur.Cert)))
			}
			hdr := n.Header(hd)
			contra, err := n.Contradicting(hdr)
			if err != nil {
				fail("IsHeaderContradictingChain: " + err.Error())
			}
			w.Emit(map[string]interface{}{"ev": "Contra", "h": h, "gen": gen, "mhg": mhg, "mhp": mhp, "res": tj.B(contra)})
			if contra {
				meta["contra_true"]++
				if r.Intn(3) != 0 {
					// the engine would reject this header; try another one most of the time
					continue
				}
			}
			err = n.Apply(hdr)
			n2.PrevID = hdr.PreviousBlockID
			n2.Apply(n2.Header(hd)) //nolint
			implies := false
			if err == nil {
				implies, _ = n.Mod.API().ImpliesMaximalPrevotes(n.Store, hdr.Readonly())
			}
			n.Flush()
			if err == nil {
				tip = h
				if h > lastGen[gen] {
					lastGen[gen] = h
				}
			}
			o, oerr := observe(n, r, tip)
			if oerr != nil {
				fail(oerr.Error())
			}
			w.Emit(map[string]interface{}{"ev": "Header", "h": h, "gen": gen, "mhg": mhg, "mhp": mhp, "acH": hd.AcH,
				"acNonEmpty": tj.B(hd.AcNonEmpty), "err": tj.B(err != nil), "implies": tj.B(implies), "obs": o})
			meta["headers"]++
			if o.Mhpc > h0 {
				meta["headers_with_finality"]++
			}
			if err != nil {
				meta["header_errors"]++
				break
			}
			if !rr && r.Intn(7) == 0 {
				nw := randWeights(r, batch)
				if r.Intn(3) == 0 { // small change of the current set
					nw = append([]uint64{}, wts...)
					nw[r.Intn(NVal)] = uint64(r.Intn(3))
				}
				if r.Intn(8) == 0 {
					nw = append([]uint64{}, wts...) // unchanged set (no-op expected)
				}
				if total(nw) == 0 {
					nw[0] = 1
				}
				npc, nce := randThreshold(r, nw), randThreshold(r, nw)
				if r.Intn(8) == 0 {
					npc, nce = pcT, certT
				}
				setParams(npc, nce, nw, tip)
				// remember what is in force for later "unchanged" probes
				wts, pcT, certT = nw, npc, nce
			}
		}
		n.Flush()
		n2.Flush()
		if d1, d2 := bftx.DumpDB(n.DB), bftx.DumpDB(n2.DB); d1 != d2 {
			w.Emit(map[string]interface{}{"ev": "Nondeterministic", "chain": c})
			meta["nondeterministic"]++
		}
		n2.Close()
		meta["chains"]++
		if rr {
			meta["rr_chains"]++
		}
		n.Close()
	}
	w.Close()
	meta["events"] = w.N
	tj.WriteJSON(os.Args[2], meta)
}
