package main

// Entry points: every function of the engine that receives bytes (or byte-string arguments) a peer controls.

import (
	"context"
	"crypto/ed25519"
	"encoding/json"
	"fmt"
	"os"
	"sync/atomic"
	"time"

	lcrypto "github.com/libp2p/go-libp2p/core/crypto"
	"github.com/libp2p/go-libp2p/core/peer"
	ma "github.com/multiformats/go-multiaddr"

	"github.com/LiskHQ/lisk-engine/pkg/blockchain"
	lsync "github.com/LiskHQ/lisk-engine/pkg/consensus/sync"
	"github.com/LiskHQ/lisk-engine/pkg/crypto"
	"github.com/LiskHQ/lisk-engine/pkg/p2p"
	"github.com/LiskHQ/lisk-engine/pkg/trie/rmt"
	"github.com/LiskHQ/lisk-engine/pkg/trie/smt"
	"github.com/LiskHQ/lisk-engine/pkg/txpool"
)

var netTypes = map[string]bool{
	"blockchain.Block": true, "blockchain.RawBlock": true, "blockchain.BlockHeader": true, "blockchain.Transaction": true,
	"blockchain.BlockAsset": true, "blockchain.AggregateCommit": true, "consensus.EventPostBlock": true,
	"consensus.EventPostSingleCommits": true, "certificate.SingleCommit": true, "sync.GetBlocksFromIDRequest": true,
	"sync.GetBlocksFromIDResponse": true, "sync.GetHighestCommonBlockRequest": true, "sync.GetHighestCommonBlockResponse": true,
	"sync.NodeInfo": true, "p2p.Message": true, "p2p.Request": true, "rmt.Proof": true, "smt.Proof": true, "smt.QueryProof": true,
	"txpool.GetTransactionsResponse": true,
}

func verdict(err error) string {
	if err != nil {
		return "reject"
	}
	return "ok"
}

func vres(r p2p.ValidationResult) string {
	switch r {
	case p2p.ValidationAccept:
		return "ok"
	case p2p.ValidationReject:
		return "reject"
	}
	return "ignore"
}

func vbool(b bool) string {
	if b {
		return "ok"
	}
	return "reject"
}

// Args is the argument tuple of the verifier entry points (JSON; []byte fields are base64 in the file, the
// replay record stores the JSON text as hex).
type Args struct {
	Keys      [][]byte `json:"keys,omitempty"`
	Bits      []byte   `json:"bits,omitempty"`
	Sig       []byte   `json:"sig,omitempty"`
	Msg       []byte   `json:"msg,omitempty"`
	Key       []byte   `json:"key,omitempty"`
	Weights   []uint64 `json:"weights,omitempty"`
	Threshold uint64   `json:"threshold,omitempty"`
	Height    uint32   `json:"height,omitempty"`
	Root      []byte   `json:"root,omitempty"`
	Size      uint64   `json:"size,omitempty"`
	Idxs      []uint64 `json:"idxs,omitempty"`
	Sibs      [][]byte `json:"sibs,omitempty"`
	Queries   [][]byte `json:"queries,omitempty"` // rmt: query hashes / update data; smt: query keys
	PKeys     [][]byte `json:"pkeys,omitempty"`   // smt proof query keys
	PVals     [][]byte `json:"pvals,omitempty"`
	PBitmaps  [][]byte `json:"pbitmaps,omitempty"`
	KeyLen    int      `json:"keyLen,omitempty"`
	Index     uint64   `json:"index,omitempty"`
	Path      [][]byte `json:"path,omitempty"`
}

func (a *Args) bytes() []byte {
	b, err := json.Marshal(a)
	if err != nil {
		panic(err)
	}
	return b
}

func withArgs(f func(a *Args) string) func([]byte) string {
	return func(in []byte) string {
		a := &Args{}
		if err := json.Unmarshal(in, a); err != nil {
			return "badargs"
		}
		return f(a)
	}
}

type nullWriter struct {
	data []byte
	err  error
}

func (w *nullWriter) Write(d []byte) { w.data = d }
func (w *nullWriter) Error(e error)  { w.err = e }

var fakePeers []p2p.PeerID
var fakeAddr ma.Multiaddr
var peerRR int64

func init() {
	for i := 0; i < 64; i++ {
		seed := crypto.Hash([]byte(fmt.Sprintf("verif-fuzz-peer-%d", i)))
		pub := ed25519.NewKeyFromSeed(seed).Public().(ed25519.PublicKey)
		pk, err := lcrypto.UnmarshalEd25519PublicKey(pub)
		if err != nil {
			panic(err)
		}
		id, err := peer.IDFromPublicKey(pk)
		if err != nil {
			panic(err)
		}
		fakePeers = append(fakePeers, id)
	}
	fakeAddr, _ = ma.NewMultiaddr("/ip4/10.9.8.7/tcp/4002")
}

func nextPeer() p2p.PeerID {
	return fakePeers[int(atomic.AddInt64(&peerRR, 1))%len(fakePeers)]
}

func buildEntries(w *World) []*Entry {
	es := []*Entry{}
	add := func(e *Entry) { es = append(es, e) }
	// ---- generated codecs of every registry type
	for _, re := range registry {
		re := re
		add(&Entry{Name: "decode:" + re.name, Pure: true, Net: netTypes[re.name], Tags: []string{re.name},
			Fn: func(in []byte) string { return verdict(re.mk().Decode(in)) }})
		add(&Entry{Name: "strict:" + re.name, Pure: true, Net: netTypes[re.name], Tags: []string{re.name},
			Fn: func(in []byte) string { return verdict(re.mk().DecodeStrict(in)) }})
	}
	// ---- constructors
	add(&Entry{Name: "blockchain.NewBlock", Pure: true, Net: true, Tags: []string{"blockchain.Block", "blockchain.RawBlock"},
		Fn: func(in []byte) string { _, err := blockchain.NewBlock(in); return verdict(err) }})
	add(&Entry{Name: "blockchain.NewBlockHeader", Pure: true, Net: true, Tags: []string{"blockchain.BlockHeader"},
		Fn: func(in []byte) string { _, err := blockchain.NewBlockHeader(in); return verdict(err) }})
	add(&Entry{Name: "blockchain.NewTransaction", Pure: true, Net: true, Tags: []string{"blockchain.Transaction"},
		Fn: func(in []byte) string { _, err := blockchain.NewTransaction(in); return verdict(err) }})
	add(&Entry{Name: "blockchain.NewBlockAsset", Pure: true, Net: true, Tags: []string{"blockchain.BlockAsset"},
		Fn: func(in []byte) string { _, err := blockchain.NewBlockAsset(in); return verdict(err) }})
	add(&Entry{Name: "p2p.decodeResponse", Pure: true, Net: true, Tags: []string{"p2p.responseMsg"},
		Fn: func(in []byte) string {
			e1 := p2p.VerifDecodeResponse(in, false)
			p2p.VerifDecodeResponse(in, true) //nolint
			return verdict(e1)
		}})
	add(&Entry{Name: "sync.resp.lastBlock", Pure: true, Net: true, Tags: []string{"blockchain.Block"},
		Fn: func(in []byte) string { _, err := lsync.VerifDecodeLastBlockResponse(in); return verdict(err) }})
	add(&Entry{Name: "sync.resp.highestCommonBlock", Pure: true, Net: true, Tags: []string{"sync.GetHighestCommonBlockResponse"},
		Fn: func(in []byte) string { _, err := lsync.VerifDecodeHighestCommonBlockResponse(in); return verdict(err) }})
	add(&Entry{Name: "sync.resp.blocksFromId", Pure: true, Net: true, Tags: []string{"sync.GetBlocksFromIDResponse"},
		Fn: func(in []byte) string { _, err := lsync.VerifDecodeBlocksFromIDResponse(in); return verdict(err) }})
	add(&Entry{Name: "sync.decodeRequests", Pure: true, Net: true, Tags: []string{"sync.GetHighestCommonBlockRequest", "sync.GetBlocksFromIDRequest"},
		Fn: func(in []byte) string {
			e1, e2 := lsync.VerifDecodeRequests(in)
			if e1 == nil || e2 == nil {
				return "ok"
			}
			return "reject"
		}})

	// ---- gossip validators and handlers
	n := w.N
	add(&Entry{Name: "consensus.blockValidator", Pure: true, Net: true, Tags: []string{"blockchain.Block", "blockchain.RawBlock"},
		Fn: func(in []byte) string { return vres(n.Ex.VerifBlockValidator(in)) }})
	add(&Entry{Name: "consensus.singleCommitValidator", Net: true, Tags: []string{"consensus.EventPostSingleCommits"}, AllocConst: 512 << 10,
		Fn: func(in []byte) string {
			r := vres(n.Ex.VerifSingleCommitValidator(in))
			if n.Ex.VerifPool().Size() > 0 {
				n.Ex.VerifPool().Cleanup(func(uint32) bool { return false })
				return "admitted"
			}
			return r
		}})
	poolValidator := w.PoolConn.validator[txpool.RPCEventPostTransactionAnnouncement]
	poolHandler := w.PoolConn.handler[txpool.RPCEventPostTransactionAnnouncement]
	add(&Entry{Name: "txpool.transactionValidator", Pure: true, Net: true, Tags: []string{"blockchain.Transaction"},
		Fn: func(in []byte) string { return vres(poolValidator(context.Background(), p2p.NewMessage(in))) }})
	add(&Entry{Name: "txpool.onTransactionAnnouncement", Net: true, Tags: []string{"blockchain.Transaction"}, AllocConst: 512 << 10,
		Fn: func(in []byte) string {
			// the handler only ever sees what the validator accepted
			if poolValidator(context.Background(), p2p.NewMessage(in)) != p2p.ValidationAccept {
				return "reject"
			}
			poolHandler(p2p.NewEvent(nextPeer(), txpool.RPCEventPostTransactionAnnouncement, in))
			for _, tx := range w.Pool.GetAll() {
				w.Pool.Remove(tx.ID)
			}
			return "ok"
		}})
	gossip := func(name, topic string, tags []string, wrap bool) {
		add(&Entry{Name: name, Net: true, Tags: tags, AllocConst: 512 << 10, Fn: func(in []byte) string {
			data := in
			if wrap {
				data = (&p2p.Message{Data: in}).Encode()
			}
			r, handled := n.Conn.VerifGossip(context.Background(), topic, nextPeer(), data)
			if n.Ex.VerifPool().Size() > 0 {
				n.Ex.VerifPool().Cleanup(func(uint32) bool { return false })
			}
			if handled {
				return "handled"
			}
			return vres(r)
		}})
	}
	gossip("gossip.postBlock", "postBlock", []string{"blockchain.Block", "blockchain.RawBlock"}, true)
	gossip("gossip.postSingleCommits", "postSingleCommits", []string{"consensus.EventPostSingleCommits"}, true)
	gossip("gossip.raw.postBlock", "postBlock", []string{"p2p.Message"}, false)
	gossip("gossip.raw.postSingleCommits", "postSingleCommits", []string{"p2p.Message"}, false)

	// ---- consensus: aggregate commit verification and full block processing
	add(&Entry{Name: "consensus.verifyAggregateCommit", Net: true, Tags: []string{"blockchain.AggregateCommit"}, AllocConst: 512 << 10,
		Fn: func(in []byte) string {
			ac := &blockchain.AggregateCommit{}
			if err := ac.Decode(in); err != nil {
				return "undecodable"
			}
			return verdict(n.Ex.VerifVerifyAggregateCommit(ac))
		}})
	add(&Entry{Name: "consensus.process", Net: true, Tags: []string{"blockchain.Block"}, Box: 10 * time.Second, AllocConst: 8 << 20,
		Fn: func(in []byte) string {
			// what the consensus loop does with a gossiped block: validator first, then process()
			if n.Ex.VerifBlockValidator(in) != p2p.ValidationAccept {
				return "reject"
			}
			b, err := blockchain.NewBlock(in)
			if err != nil {
				return "reject"
			}
			tip := n.Tip().Header.ID
			err = n.Ex.VerifProcess(b, nextPeer())
			if string(n.Tip().Header.ID) != string(tip) {
				// an accepted block must not change the state the following cases see
				if e2 := n.Ex.VerifDeleteBlock(n.Tip(), false); e2 != nil {
					panic("harness: cannot restore the tip: " + e2.Error())
				}
				return "applied"
			}
			return verdict(err)
		}})

	// ---- sequences of blocks: a first block with an unusual (but accepted) maxHeightGenerated by the generator of the
	// next height, honest blocks of the other validators, then the same generator's next block with a claimed
	// maxHeightGenerated around the first one's height.  Input: two bytes selecting the two claimed values.
	add(&Entry{Name: "consensus.process-sequence", Net: true, Tags: []string{"args.blockseq"}, Box: 30 * time.Second, AllocConst: 1 << 30,
		Fn: func(in []byte) string {
			if len(in) != 2 {
				return "reject"
			}
			base := n.Tip().Header.Height
			defer func() {
				for n.Tip().Header.Height > base {
					if e2 := n.Ex.VerifDeleteBlock(n.Tip(), false); e2 != nil {
						panic("harness: cannot restore the tip: " + e2.Error())
					}
				}
			}()
			ht := base + 1
			h2 := ht + nVal
			pick := func(sel byte, opts []uint32) uint32 { return opts[int(sel)%len(opts)] }
			m1 := pick(in[0], []uint32{ht, ht - 1, ht - nVal, 0, ht + 1, ht - 2})
			m2 := pick(in[1], []uint32{ht, ht - 1, ht + 1, h2, h2 - 1, 0, m1})
			put := func(h uint32, mhg *uint32) bool {
				o, err := n.Observe()
				if err != nil {
					panic(err)
				}
				c := w.cand(h, o.Cert, "empty", 0)
				if mhg != nil {
					c.Mhg = *mhg
				}
				b := n.Build(c)
				n.Ex.VerifProcess(b, nextPeer()) //nolint:errcheck // the tip tells
				return string(n.Tip().Header.ID) == string(b.Header.ID)
			}
			if !put(ht, &m1) {
				return "first-rejected"
			}
			for h := ht + 1; h < h2; h++ {
				if !put(h, nil) {
					return "middle-rejected"
				}
			}
			if !put(h2, &m2) {
				return "second-rejected"
			}
			return "applied"
		}})

	// ---- RPC: handlers on payloads, and the request / response stream handlers on raw stream bytes
	rpc := func(name string, h p2p.RPCHandler, tags []string, procedure string) {
		add(&Entry{Name: name, Net: true, Tags: tags, AllocConst: 4 << 20, Fn: func(in []byte) string {
			wr := &nullWriter{}
			h(wr, &p2p.Request{ID: "verif", Procedure: procedure, Data: in, PeerID: nextPeer()})
			if wr.err != nil {
				return "error"
			}
			if wr.data != nil {
				return "ok"
			}
			return "reject"
		}})
	}
	rpc("sync.rpc.getHighestCommonBlock", w.Syncer.HandleRPCEndpointGetHighestCommonBlock(), []string{"sync.GetHighestCommonBlockRequest"}, lsync.RPCEndpointGetHighestCommonBlock)
	rpc("sync.rpc.getBlocksFromId", w.Syncer.HandleRPCEndpointGetBlocksFromID(), []string{"sync.GetBlocksFromIDRequest"}, lsync.RPCEndpointGetBlocksFromID)
	rpc("sync.rpc.getLastBlock", w.Syncer.HandleRPCEndpointGetLastBlock(), []string{"sync.GetBlocksFromIDRequest"}, lsync.RPCEndpointGetLastBlock)
	rpc("txpool.rpc.getTransactions", w.PoolConn.rpc[txpool.RPCEndpointGetTransactions], []string{"sync.GetBlocksFromIDRequest"}, txpool.RPCEndpointGetTransactions)
	// the request stream handler runs on the probe connection (real handlers behind a counter, one fresh remote address per
	// call): the entry reports what became of the request - "handled" (the registered handler ran), "banned" (the sender's
	// address is banned), "dropped" (neither).  Which of the three a malformed request gets is not judged.
	var reqCtr uint32
	onRequest := func(data []byte) string {
		if w.Probe == nil {
			return "no-network" // (worlds built for the entry list only)
		}
		reqSeq := atomic.AddUint32(&reqCtr, 1)
		ip := fmt.Sprintf("10.%d.%d.%d", 1+reqSeq>>16&0x7f, reqSeq>>8&0xff, reqSeq&0xff)
		addr, err := ma.NewMultiaddr("/ip4/" + ip + "/tcp/4002")
		if err != nil {
			panic(err)
		}
		before := atomic.LoadInt64(&w.ProbeHandled)
		w.Probe.VerifOnRequest(context.Background(), nextPeer(), addr, data)
		if atomic.LoadInt64(&w.ProbeHandled) > before {
			return "handled"
		}
		if _, banned, _ := w.Probe.VerifGater().Score(ip); banned {
			return "banned"
		}
		return "dropped"
	}
	add(&Entry{Name: "p2p.onRequest", Net: true, Tags: []string{"p2p.Request"}, AllocConst: 4 << 20, Box: 5 * time.Second,
		Fn: func(in []byte) string { return onRequest(in) }})
	add(&Entry{Name: "p2p.onResponse", Net: true, Tags: []string{"p2p.responseMsg"}, AllocConst: 1 << 20,
		Fn: func(in []byte) string {
			n.Conn.VerifOnResponse(nextPeer(), fakeAddr, in)
			return "returned"
		}})
	for _, proc := range []string{lsync.RPCEndpointGetHighestCommonBlock, lsync.RPCEndpointGetBlocksFromID} {
		proc := proc
		tag := map[string]string{lsync.RPCEndpointGetHighestCommonBlock: "sync.GetHighestCommonBlockRequest", lsync.RPCEndpointGetBlocksFromID: "sync.GetBlocksFromIDRequest"}[proc]
		add(&Entry{Name: "p2p.onRequest:" + proc, Net: true, Tags: []string{tag}, AllocConst: 4 << 20, Box: 5 * time.Second,
			Fn: func(in []byte) string {
				req := &p2p.Request{ID: "0f0e0d0c-verif", Procedure: proc, Data: in}
				return onRequest(req.Encode())
			}})
	}

	// ---- proofs arriving as bytes
	add(&Entry{Name: "smt.Verify(bytes)", Pure: true, Net: true, Tags: []string{"smt.Proof"}, Fn: func(in []byte) string {
		p := &smt.Proof{}
		if err := p.Decode(in); err != nil {
			return "undecodable"
		}
		ok, err := smt.Verify(w.SmtKeys, p, w.SmtRoot, smtKeyLen)
		if err != nil {
			return "reject"
		}
		return vbool(ok)
	}})
	add(&Entry{Name: "rmt.VerifyProof(bytes)", Pure: true, Net: true, Tags: []string{"rmt.Proof"}, Fn: func(in []byte) string {
		p := &rmt.Proof{}
		if err := p.Decode(in); err != nil {
			return "undecodable"
		}
		return vbool(rmt.VerifyProof(w.RmtQueries, p, w.RmtRoot))
	}})
	// the same two with query lists that FIT the (mutated) proof: the count checks at the top of the verifiers pass and the
	// code behind them sees the mutant (query keys = the keys of the proof's own queries; as many query hashes as indexes)
	add(&Entry{Name: "smt.Verify(bytes,keys-of-proof)", Pure: true, Net: true, Tags: []string{"smt.Proof"}, Fn: func(in []byte) string {
		p := &smt.Proof{}
		if err := p.Decode(in); err != nil {
			return "undecodable"
		}
		keys := make([][]byte, len(p.Queries))
		for i, q := range p.Queries {
			if q != nil {
				keys[i] = append([]byte{}, q.Key...)
			}
		}
		ok, err := smt.Verify(keys, p, w.SmtRoot, smtKeyLen)
		if err != nil {
			return "reject"
		}
		return vbool(ok)
	}})
	add(&Entry{Name: "rmt.VerifyProof(bytes,queries-by-count)", Pure: true, Net: true, Tags: []string{"rmt.Proof"}, Fn: func(in []byte) string {
		p := &rmt.Proof{}
		if err := p.Decode(in); err != nil {
			return "undecodable"
		}
		n := len(p.Idxs)
		if n > 4096 {
			n = 4096
		}
		qs := make([][]byte, n)
		for i := range qs {
			qs[i] = w.RmtQueries[i%len(w.RmtQueries)]
		}
		return vbool(rmt.VerifyProof(qs, p, w.RmtRoot))
	}})
	add(&Entry{Name: "rmt.CalculateRootFromUpdateData(bytes)", Pure: true, Net: true, Tags: []string{"rmt.Proof"}, Fn: func(in []byte) string {
		p := &rmt.Proof{}
		if err := p.Decode(in); err != nil {
			return "undecodable"
		}
		_, err := rmt.CalculateRootFromUpdateData(w.RmtQueries, p)
		return verdict(err)
	}})

	// ---- verifiers on argument tuples
	add(&Entry{Name: "consensus.verifyAggregateCommit(struct)", Net: true, Tags: []string{"args.ac"}, AllocConst: 512 << 10,
		Fn: withArgs(func(a *Args) string {
			return verdict(n.Ex.VerifVerifyAggregateCommit(&blockchain.AggregateCommit{Height: a.Height, AggregationBits: a.Bits, CertificateSignature: a.Sig}))
		})})
	add(&Entry{Name: "crypto.BLSVerify", Pure: true, Net: true, Tags: []string{"args.bls1"}, Fn: withArgs(func(a *Args) string {
		return vbool(crypto.BLSVerify(a.Msg, a.Sig, a.Key))
	})})
	add(&Entry{Name: "crypto.BLSPopVerify", Pure: true, Net: true, Tags: []string{"args.bls1"}, Fn: withArgs(func(a *Args) string {
		return vbool(crypto.BLSPopVerify(a.Key, a.Sig))
	})})
	add(&Entry{Name: "crypto.BLSVerifyAggSig", Pure: true, Net: true, Tags: []string{"args.blsagg"}, Fn: withArgs(func(a *Args) string {
		return vbool(crypto.BLSVerifyAggSig(a.Keys, a.Bits, a.Sig, a.Msg))
	})})
	add(&Entry{Name: "crypto.BLSVerifyWeightedAggSig", Pure: true, Net: true, Tags: []string{"args.blsagg"}, Fn: withArgs(func(a *Args) string {
		return vbool(crypto.BLSVerifyWeightedAggSig(a.Keys, a.Bits, a.Sig, a.Weights, a.Threshold, a.Msg))
	})})
	add(&Entry{Name: "crypto.VerifySignature", Pure: true, Net: true, Tags: []string{"args.ed"}, Fn: withArgs(func(a *Args) string {
		return verdict(crypto.VerifySignature(a.Key, a.Sig, a.Msg))
	})})
	add(&Entry{Name: "blockchain.ValidateBlockSignature", Pure: true, Net: true, Tags: []string{"args.ed"}, Fn: withArgs(func(a *Args) string {
		return vbool(blockchain.ValidateBlockSignature(a.Key, a.Sig, n.ChainID, a.Msg))
	})})
	smtProof := func(a *Args) *smt.Proof {
		p := &smt.Proof{}
		for _, s := range a.Sibs {
			p.SiblingHashes = append(p.SiblingHashes, s)
		}
		for i := range a.PKeys {
			q := &smt.QueryProof{Key: a.PKeys[i]}
			if i < len(a.PVals) {
				q.Value = a.PVals[i]
			}
			if i < len(a.PBitmaps) {
				q.Bitmap = a.PBitmaps[i]
			}
			p.Queries = append(p.Queries, q)
		}
		return p
	}
	add(&Entry{Name: "smt.Verify", Pure: true, Net: true, Tags: []string{"args.smt"}, Fn: withArgs(func(a *Args) string {
		ok, err := smt.Verify(a.Queries, smtProof(a), a.Root, a.KeyLen)
		if err != nil {
			return "reject"
		}
		return vbool(ok)
	})})
	rmtProof := func(a *Args) *rmt.Proof { return &rmt.Proof{Size: a.Size, Idxs: a.Idxs, SiblingHashes: a.Sibs} }
	add(&Entry{Name: "rmt.VerifyProof", Pure: true, Net: true, Tags: []string{"args.rmt"}, Fn: withArgs(func(a *Args) string {
		return vbool(rmt.VerifyProof(a.Queries, rmtProof(a), a.Root))
	})})
	add(&Entry{Name: "rmt.CalculateRootFromUpdateData", Pure: true, Net: true, Tags: []string{"args.rmt"}, Fn: withArgs(func(a *Args) string {
		_, err := rmt.CalculateRootFromUpdateData(a.Queries, rmtProof(a))
		return verdict(err)
	})})
	add(&Entry{Name: "rmt.VerifyRightWitness", Pure: true, Net: true, Tags: []string{"args.rmtrw"}, Fn: withArgs(func(a *Args) string {
		return vbool(rmt.VerifyRightWitness(a.Index, a.Path, a.Sibs, a.Root))
	})})
	if os.Getenv("C09_SELFTEST") == "crash" {
		// self-test of the crash isolation: unbounded recursion is a fatal error that recover() cannot catch
		var rec func(n int) int
		rec = func(n int) int { return rec(n+1) + 1 }
		add(&Entry{Name: "selftest.crash", Pure: true, Net: true, Tags: []string{"selftest"}, Fn: func(in []byte) string {
			if len(in) == 2 && in[0] == 0xde && in[1] == 0xad {
				rec(0)
			}
			return "ok"
		}})
	}
	if os.Getenv("C09_SELFTEST") == "hang" {
		// self-test of the sweep's hang monitor and of the allocation ceiling
		var sink [][]byte
		add(&Entry{Name: "selftest.hang", Pure: true, Net: true, Tags: []string{"sync.GetBlocksFromIDRequest"}, Fn: func(in []byte) string {
			if len(in) == 2 && in[0] == 0xbe && in[1] == 0xef {
				for {
					sink = nil
				}
			}
			if len(in) == 34 && in[5] == 0xff {
				sink = append(sink[:0], make([]byte, 10<<20))
			}
			return "ok"
		}})
	}
	// ---- the surface of an RPC client: router, HTTP handler, websocket server (spec/RpcFuzz.tla)
	rw, err := w.setupRPC()
	if err != nil {
		panic("harness: rpc set-up: " + err.Error())
	}
	w.rpc = rw
	buildRPCEntries(w, rw, add)
	// ---- scenario entries (run by the scenario child only: `c09 scen`)
	addSyncEntries(add)
	addStatefulEntries(w, add)
	addBurstEntries(w, &es, add)
	addRPCScenEntries(add)

	return es
}
