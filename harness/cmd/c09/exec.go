package main

// Guarded execution of entry points: recover(), per-call deadline, allocation ceiling; bookkeeping of
// evaluations, distinct non-trivial (entry, input) pairs and violations.

import (
	"encoding/hex"
	"fmt"
	"hash/maphash"
	"runtime"
	"runtime/debug"
	"runtime/metrics"
	"sort"
	"strings"
	"sync"
	"sync/atomic"
	"time"
)

type Entry struct {
	Name       string
	Fn         func(in []byte) string // verdict token ("ok", "reject", ...); must not retain in
	Tags       []string               // schemas whose messages are meant for this entry
	Pure       bool                   // stateless and safe to call concurrently (eligible for the parallel exhaustive sweep)
	Box        time.Duration          // per-call deadline (default 2 s)
	AllocConst uint64                 // allocation ceiling constant (default 64 KiB); the ceiling is AllocConst + 256 * len(input)
	Net        bool                   // network-facing (the exhaustive prefix is longest here)
	// Suffix (optional): a specific tail for the keys of this entry's violations (hang:<entry>:<suffix>), derived from the input
	Suffix func(in []byte) string
	// Judge (optional): scenario entries decide more than panic / deadline / allocation themselves (a goroutine or heap leak,
	// a loop that is proven not to end by counting the requests it sends, a growth ratio): the verdict token is mapped to
	// (kind, explanation); kind "" = no violation, "inconclusive" = the measurement did not settle (exit 2, never a violation).
	Judge func(in []byte, verdict string) (kind, what string)
	idx   int
}

type Violation struct {
	Key    string                 `json:"key"`
	What   string                 `json:"what"`
	Replay map[string]interface{} `json:"replay"`
}

type sample struct {
	Entry   string `json:"entry"`
	Input   string `json:"input_hex"`
	Origin  string `json:"origin"`
	Verdict string `json:"verdict"`
}

type Runner struct {
	mu         sync.Mutex
	genesisTS  uint32
	evals      int64
	perEntry   map[string]*int64
	verdicts   map[string]map[string]int64 // entry -> verdict -> count (measured path only)
	perOrigin  map[string]int64
	seen       map[uint64]struct{}
	seed       maphash.Seed
	exhaustive int64 // distinct pairs counted arithmetically by the exhaustive sweep
	exhLen     map[string]int
	alphaLen   map[string]int
	viol       []Violation
	perKey     map[string]int
	shortest   map[string]int
	disabled   map[string]string
	hangs      map[string]int
	samples    []sample
	sampleBy   map[string]int
	slots      *slots
	worker     *callWorker
	allocRetry int64
	lateReturns int64 // calls that came back after their box (repeated; see Call)
	seconds    map[string]float64
	unsettled  []string // measurements that did not settle (reported as harness errors: inconclusive)
}

func newRunner(entries []*Entry, genesisTS uint32) *Runner {
	r := &Runner{genesisTS: genesisTS, perEntry: map[string]*int64{}, verdicts: map[string]map[string]int64{}, perOrigin: map[string]int64{},
		seen: map[uint64]struct{}{}, seed: maphash.MakeSeed(), exhLen: map[string]int{}, alphaLen: map[string]int{}, perKey: map[string]int{}, shortest: map[string]int{},
		disabled: map[string]string{}, hangs: map[string]int{}, sampleBy: map[string]int{}, seconds: map[string]float64{}}
	for i, e := range entries {
		e.idx = i
		r.perEntry[e.Name] = new(int64)
		r.verdicts[e.Name] = map[string]int64{}
	}
	return r
}

// ---------------------------------------------------------------------------------------- panic sites

// siteOf returns (top non-runtime frame function below the panic, first lisk-engine frame with file:line) for the
// panic being recovered; it must be called from the deferred function. Resolved stacks are cached by their PCs.
type pcKey [14]uintptr

var siteCache sync.Map // pcKey -> [2]string

func siteOf() (top, lisk string) {
	var pcs [40]uintptr
	n := runtime.Callers(2, pcs[:])
	var k pcKey
	copy(k[:], pcs[:n])
	if v, ok := siteCache.Load(k); ok {
		s := v.([2]string)
		return s[0], s[1]
	}
	frames := runtime.CallersFrames(pcs[:n])
	type fr struct {
		fn, file string
		line     int
	}
	fs := []fr{}
	for {
		f, more := frames.Next()
		fs = append(fs, fr{f.Function, f.File, f.Line})
		if !more {
			break
		}
	}
	start := 0
	for i, f := range fs {
		if f.fn == "runtime.gopanic" {
			start = i + 1
		}
	}
	trim := func(s string) string { return strings.TrimPrefix(s, "github.com/LiskHQ/lisk-engine/") }
	for _, f := range fs[start:] {
		if strings.HasPrefix(f.fn, "runtime.") || strings.HasPrefix(f.fn, "runtime/") {
			continue
		}
		if top == "" {
			top = trim(f.fn)
		}
		if strings.HasPrefix(f.fn, "github.com/LiskHQ/lisk-engine/") {
			loc := f.file
			if j := strings.Index(loc, "/pkg/"); j >= 0 {
				loc = loc[j+1:]
			}
			lisk = fmt.Sprintf("%s (%s:%d)", trim(f.fn), loc, f.line)
			break
		}
	}
	if top == "" {
		top = "unknown"
	}
	siteCache.Store(k, [2]string{top, lisk})
	return top, lisk
}

// ---------------------------------------------------------------------------------------- bookkeeping

func (r *Runner) violation(key, what string, e *Entry, in []byte) { r.violationX(key, what, e, in, nil) }

// violationX: extra = further members of the replay record (scenario entries that are not a single call: "scenario": "leak" | "amp" ...)
func (r *Runner) violationX(key, what string, e *Entry, in []byte, extra map[string]interface{}) {
	r.mu.Lock()
	defer r.mu.Unlock()
	r.perKey[key]++
	rep := map[string]interface{}{"entry": e.Name, "input_hex": hex.EncodeToString(in), "genesis_ts": r.genesisTS}
	for k, v := range extra {
		rep[k] = v
	}
	if n, ok := r.shortest[key]; ok {
		// keep the shortest input per key
		if len(in) < n {
			for i := range r.viol {
				if r.viol[i].Key == key {
					r.viol[i].What, r.viol[i].Replay = what, rep
				}
			}
			r.shortest[key] = len(in)
		}
		return
	}
	r.shortest[key] = len(in)
	r.viol = append(r.viol, Violation{key, what, rep})
}

func (r *Runner) note(e *Entry, in []byte, origin, verdict string) {
	if origin == "valid" || len(in) < 4 || len(in) > 200 || len(r.samples) >= 3000 {
		return
	}
	kind := origin
	if i := strings.IndexByte(origin, ':'); i > 0 {
		kind = origin[:i]
	}
	k := e.Name + "|" + kind
	if r.sampleBy[k] >= 1 {
		return
	}
	r.sampleBy[k]++
	r.samples = append(r.samples, sample{e.Name, hex.EncodeToString(in), origin, verdict})
}

// sweptByAlphabet: the pair is (or will be) counted by the alphabet sweep
func (r *Runner) sweptByAlphabet(e *Entry, in []byte) bool {
	if len(in) > r.alphaLen[e.Name] {
		return false
	}
	for _, c := range in {
		if !inAlphabet[c] {
			return false
		}
	}
	return true
}

func (r *Runner) hash(e *Entry, in []byte) uint64 {
	var h maphash.Hash
	h.SetSeed(r.seed)
	h.WriteString(e.Name)
	h.WriteByte(0)
	h.Write(in)
	return h.Sum64()
}

// ---------------------------------------------------------------------------------------- measured calls

type callRes struct {
	verdict  string
	panicked bool
	pv       string
	top      string
	lisk     string
}

type callJob struct {
	e    *Entry
	in   []byte
	done chan callRes
}

// callWorker: one goroutine executes the calls of the measured path; a call that misses its deadline leaves
// the goroutine behind (it cannot be killed) and a fresh worker takes over.
type callWorker struct{ jobs chan callJob }

func newCallWorker() *callWorker {
	w := &callWorker{jobs: make(chan callJob)}
	go func() {
		for j := range w.jobs {
			j.done <- protect(j.e, j.in)
		}
	}()
	return w
}

func protect(e *Entry, in []byte) (res callRes) {
	defer func() {
		if p := recover(); p != nil {
			res.panicked = true
			res.pv = fmt.Sprint(p)
			res.top, res.lisk = siteOf()
		}
	}()
	res.verdict = e.Fn(in)
	return res
}

var timer = time.NewTimer(time.Hour)

// allocated bytes so far. cheap: runtime/metrics (no stop-the-world; may lag by the unflushed part of the per-P
// span caches, at most one span per size class); exact: runtime.ReadMemStats.
var allocSample = []metrics.Sample{{Name: "/gc/heap/allocs:bytes"}}

func allocCheap() uint64 {
	metrics.Read(allocSample)
	return allocSample[0].Value.Uint64()
}

func allocExact() uint64 {
	var m runtime.MemStats
	runtime.ReadMemStats(&m)
	return m.TotalAlloc
}

const suspicious = 16 << 10 // cheap reading above this: the call is repeated under the exact measurement

// gross: a reading this far above the ceiling is not background noise of other goroutines.  The garbage of the call is
// collected before it is measured again (two or three live copies of a multi-gigabyte slice would end the process with
// "out of memory" before the verdict is written) and one confirmation is enough.
const gross = 256 << 20

// default allocation ceiling: allocConstDefault + allocPerByte * len(input).  The property asks for "memory bounded by the
// input size": a constant of a few hundred KiB (buffers, caches, error values) plus a linear term.
const (
	allocConstDefault = 512 << 10
	allocPerByte      = 1024
)

func (e *Entry) suffix(in []byte) string {
	if e.Suffix == nil {
		return ""
	}
	if s := e.Suffix(in); s != "" {
		return ":" + s
	}
	return ""
}

// Call runs one measured call. origin names the generator; trivial marks the unmodified valid message.
func (r *Runner) Call(e *Entry, in []byte, origin string, trivial bool) string {
	if _, off := r.disabled[e.Name]; off {
		return "disabled"
	}
	if e.Suffix != nil {
		if _, off := r.disabled[e.Name+"|"+e.Suffix(in)]; off {
			return "disabled"
		}
	}
	atomic.AddInt64(&r.evals, 1)
	atomic.AddInt64(r.perEntry[e.Name], 1)
	r.perOrigin[origin]++
	if !trivial && len(in) > r.exhLen[e.Name] && !r.sweptByAlphabet(e, in) {
		r.seen[r.hash(e, in)] = struct{}{}
	}
	box := e.Box
	if box == 0 {
		box = 2 * time.Second
	}
	ceiling := e.AllocConst
	if ceiling == 0 {
		ceiling = allocConstDefault
	}
	ceiling += allocPerByte * uint64(len(in))
	var res callRes
	exact := false
	grossSeen := false
	late := 0
	t0 := time.Now()
	for attempt := 0; ; attempt++ {
		if r.slots != nil {
			r.slots.set(0, e.idx, in)
		}
		if r.worker == nil {
			r.worker = newCallWorker()
		}
		var a0 uint64
		if exact {
			a0 = allocExact()
		} else {
			a0 = allocCheap()
		}
		done := make(chan callRes, 1)
		r.worker.jobs <- callJob{e, in, done}
		if !timer.Stop() {
			select {
			case <-timer.C:
			default:
			}
		}
		timer.Reset(box)
		hung := false
		select {
		case res = <-done:
		case <-timer.C:
			// the box expired.  A call that never returns is a hang; one that returns late may be the machine (this check
			// shares the processors with TLC and other jobs): it is given a grace period and, if it comes back, repeated - only
			// three late returns in a row count as a miss of the deadline.
			grace := 4 * box
			if grace < 30*time.Second {
				grace = 30 * time.Second
			}
			select {
			case res = <-done:
				r.lateReturns++
				if late++; late < 3 && !res.panicked {
					if r.slots != nil {
						r.slots.clear(0)
					}
					attempt-- // (not one of the allocation measurements)
					continue
				}
				hung = !res.panicked
			case <-time.After(grace):
				hung = true
				r.worker = nil // abandoned with its goroutine
			}
		}
		if r.slots != nil {
			r.slots.clear(0)
		}
		if hung {
			r.hangs[e.Name]++
			r.violation("hang:"+e.Name+e.suffix(in), fmt.Sprintf("%s did not return within %v on a %d-byte input", e.Name, box, len(in)), e, in)
			if r.hangs[e.Name] >= 3 {
				r.disabled[e.Name] = "3 calls missed the deadline"
			}
			r.seconds[e.Name] += time.Since(t0).Seconds()
			return "hang"
		}
		var delta uint64
		if exact {
			delta = allocExact() - a0
		} else {
			delta = allocCheap() - a0
		}
		if res.panicked {
			break
		}
		if !exact {
			if delta <= ceiling && (delta <= suspicious || e.AllocConst >= 64<<20) {
				break // (a scenario entry with a ceiling of tens of megabytes is not repeated for a reading of kilobytes)
			}
			if delta > 4*ceiling+gross {
				grossSeen = true
				runtime.GC()
				debug.FreeOSMemory()
			}
			exact = true // repeat under the exact measurement
			r.allocRetry++
			continue
		}
		if delta <= ceiling {
			break
		}
		if delta > gross {
			runtime.GC()
			debug.FreeOSMemory()
		}
		if attempt >= 3 || (grossSeen && delta > 4*ceiling+gross) {
			// three exact measurements in a row above the ceiling (or two far above it): not background noise
			r.violation("alloc:"+e.Name+e.suffix(in), fmt.Sprintf("%s allocated %d bytes on a %d-byte input (ceiling %d)", e.Name, delta, len(in), ceiling), e, in)
			break
		}
	}
	r.seconds[e.Name] += time.Since(t0).Seconds()
	if res.panicked {
		key := "panic:" + e.Name + ":" + res.top
		r.violation(key, fmt.Sprintf("%s panicked on a %d-byte input: %s [at %s]", e.Name, len(in), res.pv, res.lisk), e, in)
		res.verdict = "panic"
	} else if e.Judge != nil {
		switch kind, what := e.Judge(in, res.verdict); kind {
		case "":
		case "inconclusive":
			r.mu.Lock()
			r.unsettled = append(r.unsettled, e.Name+e.suffix(in)+": "+what)
			r.mu.Unlock()
		default:
			if strings.HasPrefix(kind, "panic@") {
				// a panic the scenario recovered on a goroutine of its own: same key format as a panic under protect()
				r.violation("panic:"+e.Name+":"+kind[6:], what, e, in)
				res.verdict = "panic"
			} else {
				r.violation(kind+":"+e.Name+e.suffix(in), what, e, in)
			}
		}
	}
	r.verdicts[e.Name][res.verdict]++
	r.note(e, in, origin, res.verdict)
	return res.verdict
}

// Account books a scenario case that was executed outside Call (several independent cases at the same time, each with a
// deadline of its own): counters, verdict, the entry's Judge.
func (r *Runner) Account(e *Entry, in []byte, origin, verdict string) {
	atomic.AddInt64(&r.evals, 1)
	atomic.AddInt64(r.perEntry[e.Name], 1)
	r.perOrigin[origin]++
	r.seen[r.hash(e, in)] = struct{}{}
	if e.Judge != nil {
		switch kind, what := e.Judge(in, verdict); {
		case kind == "":
		case kind == "inconclusive":
			r.unsettled = append(r.unsettled, e.Name+e.suffix(in)+": "+what)
		case strings.HasPrefix(kind, "panic@"):
			r.violation("panic:"+e.Name+":"+kind[6:], what, e, in)
			verdict = "panic"
		default:
			r.violation(kind+":"+e.Name+e.suffix(in), what, e, in)
		}
	}
	r.verdicts[e.Name][verdict]++
	r.note(e, in, origin, verdict)
}

// ---------------------------------------------------------------------------------------- exhaustive sweep

// Exhaustive enumerates ALL byte strings of length 0..lenOf(entry) for pure entries with parallel workers.
// Panics are recovered per call; a monitor reports a call that runs longer than 2 s (the worker is left behind,
// the rest of its task is re-queued). Allocation is checked for the sweep as a whole by the caller.
type task struct {
	e      *Entry
	length int
	first  int    // first byte (length >= 1): index into alpha, or the byte itself when alpha is nil
	from   int    // start offset within the task (re-queued tasks)
	alpha  []byte // nil = all 256 byte values
}

type sweepWorker struct {
	_    [128]byte // the workers write pos on every call: keep each worker on its own cache lines
	id   int
	seq  int64 // task sequence number, 0 = idle
	pos  int64
	dead int32
	cur  atomic.Value // task
	_    [128]byte
}

func taskSize(t task) int {
	base := 256
	if t.alpha != nil {
		base = len(t.alpha)
	}
	n := 1
	for i := 1; i < t.length; i++ {
		n *= base
	}
	return n
}

func taskInput(t task, pos int, in []byte) {
	if t.length < 1 {
		return
	}
	if t.alpha == nil {
		in[0] = byte(t.first)
		x := pos
		for k := t.length - 1; k >= 1; k-- {
			in[k] = byte(x)
			x >>= 8
		}
		return
	}
	b := len(t.alpha)
	in[0] = t.alpha[t.first]
	x := pos
	for k := t.length - 1; k >= 1; k-- {
		in[k] = t.alpha[x%b]
		x /= b
	}
}

// Alphabet of the longer sweep: every key byte of fields 1..15 in wire types 0 and 2, small lengths / values and the
// varint boundary bytes.
var sweepAlphabet = func() []byte {
	a := []byte{0, 1, 2, 3, 0x7f, 0x80, 0x81, 0xff}
	for f := 1; f <= 15; f++ {
		a = append(a, byte(f<<3), byte(f<<3|2))
	}
	return a
}()
var inAlphabet = func() (m [256]bool) {
	for _, c := range sweepAlphabet {
		m[c] = true
	}
	return
}()

// lenOf gives the length up to which ALL byte strings are enumerated, alphaLenOf (>= lenOf) the length up to which all
// strings over sweepAlphabet are enumerated in addition.
func (r *Runner) Exhaustive(entries []*Entry, lenOf, alphaLenOf func(*Entry) int, workers int) (calls int64, wall time.Duration) {
	t0 := time.Now()
	list := []task{}
	for _, e := range entries {
		if _, off := r.disabled[e.Name]; off || !e.Pure {
			continue
		}
		L := lenOf(e)
		if L < 0 {
			continue
		}
		r.exhLen[e.Name] = L
		list = append(list, task{e, 0, 0, 0, nil})
		for l := 1; l <= L; l++ {
			for f := 0; f < 256; f++ {
				list = append(list, task{e, l, f, 0, nil})
			}
		}
		AL := alphaLenOf(e)
		r.alphaLen[e.Name] = AL
		for l := L + 1; l <= AL; l++ {
			for f := range sweepAlphabet {
				list = append(list, task{e, l, f, 0, sweepAlphabet})
			}
		}
	}
	// longest tasks first
	sort.SliceStable(list, func(i, j int) bool { return taskSize(list[i]) > taskSize(list[j]) })
	tasks := make(chan task, len(list)+4096)
	pending := int64(len(list))
	for _, t := range list {
		tasks <- t
	}
	var total, seq int64
	ws := []*sweepWorker{}
	var wmu sync.Mutex
	var wg sync.WaitGroup
	run := func(w *sweepWorker) {
		defer wg.Done()
		buf := make([]byte, 8)
		for t := range tasks {
			w.cur.Store(t)
			atomic.StoreInt64(&w.pos, int64(t.from))
			atomic.StoreInt64(&w.seq, atomic.AddInt64(&seq, 1))
			n := taskSize(t)
			in := buf[:t.length]
			cnt := 0
			for i := t.from; i < n; i++ {
				taskInput(t, i, in)
				atomic.StoreInt64(&w.pos, int64(i))
				if r.slots != nil {
					r.slots.set(w.id, t.e.idx, in)
				}
				sweepCall(r, t.e, in)
				cnt++
				if atomic.LoadInt32(&w.dead) == 1 {
					// the monitor gave up on this worker during the call and re-queued the rest of the task
					atomic.AddInt64(&total, int64(cnt))
					atomic.AddInt64(t.e.counter(r), int64(cnt))
					return
				}
			}
			atomic.StoreInt64(&w.seq, 0)
			if r.slots != nil {
				r.slots.clear(w.id)
			}
			atomic.AddInt64(&total, int64(cnt))
			atomic.AddInt64(t.e.counter(r), int64(cnt))
			atomic.AddInt64(&pending, -1)
		}
	}
	spawn := func() {
		wmu.Lock()
		w := &sweepWorker{id: len(ws) + 1}
		ws = append(ws, w)
		wmu.Unlock()
		wg.Add(1)
		go run(w)
	}
	for i := 0; i < workers; i++ {
		spawn()
	}
	type watch struct {
		seq, pos int64
		since    time.Time
	}
	last := map[*sweepWorker]*watch{}
	for {
		time.Sleep(25 * time.Millisecond)
		if atomic.LoadInt64(&pending) <= 0 {
			close(tasks)
			break
		}
		wmu.Lock()
		cur := append([]*sweepWorker{}, ws...)
		wmu.Unlock()
		for _, w := range cur {
			if atomic.LoadInt32(&w.dead) == 1 {
				continue
			}
			s, p := atomic.LoadInt64(&w.seq), atomic.LoadInt64(&w.pos)
			l := last[w]
			if l == nil || l.seq != s || l.pos != p || s == 0 {
				last[w] = &watch{s, p, time.Now()}
				continue
			}
			// (a worker that does not advance for 2 s on a three-byte input may simply not have been scheduled: the machine is
			// shared.  Only a call that has not returned after sweepStuck is treated as one that never returns.)
			if time.Since(l.since) < sweepStuck {
				continue
			}
			t := w.cur.Load().(task)
			in := make([]byte, t.length)
			taskInput(t, int(p), in)
			atomic.StoreInt32(&w.dead, 1)
			r.violation("hang:"+t.e.Name, fmt.Sprintf("%s did not return within 2s on input %x", t.e.Name, in), t.e, in)
			r.mu.Lock()
			r.hangs[t.e.Name]++
			r.mu.Unlock()
			if int(p)+1 < taskSize(t) {
				tasks <- task{t.e, t.length, t.first, int(p) + 1, t.alpha}
			} else {
				atomic.AddInt64(&pending, -1)
			}
			spawn()
		}
	}
	doneCh := make(chan struct{})
	go func() { wg.Wait(); close(doneCh) }()
	select {
	case <-doneCh:
	case <-time.After(3 * time.Second): // workers stuck in a hung call never finish
	}
	atomic.AddInt64(&r.evals, total)
	r.exhaustive += total
	r.perOrigin["exhaustive"] += total
	return total, time.Since(t0)
}

const sweepStuck = 40 * time.Second

func (e *Entry) counter(r *Runner) *int64 { return r.perEntry[e.Name] }

func sweepCall(r *Runner, e *Entry, in []byte) {
	defer func() {
		if p := recover(); p != nil {
			top, lisk := siteOf()
			cp := append([]byte{}, in...)
			r.violation("panic:"+e.Name+":"+top, fmt.Sprintf("%s panicked on a %d-byte input: %v [at %s]", e.Name, len(in), p, lisk), e, cp)
		}
	}()
	e.Fn(in)
}

// ---------------------------------------------------------------------------------------- report

type Report struct {
	Evaluations        int64                       `json:"evaluations"`
	DistinctNontrivial int64                       `json:"distinct_nontrivial"`
	DistinctHashed     int64                       `json:"distinct_hashed"`
	DistinctExhaustive int64                       `json:"distinct_exhaustive"`
	PerEntry           map[string]int64            `json:"per_entry"`
	PerOrigin          map[string]int64            `json:"per_origin"`
	Verdicts           map[string]map[string]int64 `json:"verdicts"`
	ExhaustiveLen      map[string]int              `json:"exhaustive_len"`
	AlphabetLen        map[string]int              `json:"alphabet_len"`
	Violations         []Violation                 `json:"violations"`
	ViolationCounts    map[string]int              `json:"violation_counts"`
	Disabled           map[string]string           `json:"disabled"`
	Samples            []sample                    `json:"samples"`
	Errors             []string                    `json:"harness_errors"`
	Info               map[string]interface{}      `json:"info"`
	AllocRetries       int64                       `json:"alloc_retries"`
	LateReturns        int64                       `json:"late_returns"`
	Incomplete         bool                        `json:"incomplete,omitempty"`
	Seconds            map[string]float64          `json:"entry_seconds"`
}

func (r *Runner) report() *Report {
	rep := &Report{Evaluations: r.evals, DistinctHashed: int64(len(r.seen)), DistinctExhaustive: r.exhaustive,
		DistinctNontrivial: int64(len(r.seen)) + r.exhaustive, PerEntry: map[string]int64{}, PerOrigin: r.perOrigin, Verdicts: map[string]map[string]int64{},
		ExhaustiveLen: r.exhLen, AlphabetLen: r.alphaLen, Violations: r.viol, ViolationCounts: r.perKey, Disabled: r.disabled, Samples: r.samples, Info: map[string]interface{}{},
		AllocRetries: r.allocRetry, LateReturns: r.lateReturns, Seconds: map[string]float64{}, Errors: append([]string{}, r.unsettled...)}
	for k, v := range r.seconds {
		if v >= 0.5 {
			rep.Seconds[k] = float64(int(v*10)) / 10
		}
	}
	for k, v := range r.perEntry {
		rep.PerEntry[k] = *v
	}
	for k, v := range r.verdicts {
		if len(v) > 0 {
			rep.Verdicts[k] = v
		}
	}
	sort.Slice(rep.Violations, func(i, j int) bool { return rep.Violations[i].Key < rep.Violations[j].Key })
	return rep
}
