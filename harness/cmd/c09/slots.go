package main

// Crash isolation. recover() does not catch fatal runtime errors (stack exhaustion by unbounded recursion,
// out-of-memory, a fault inside cgo). The fuzzing therefore runs in a child process; every running call
// is noted in a shared memory-mapped file (slot = entry index + input), which survives the death of the child.
// The parent then re-executes each noted call alone in a fresh process to find the one that kills it, records
// "crash:<entry>:<reason>" and restarts the run with that entry disabled.

import (
	"encoding/binary"
	"os"
	"syscall"
)

const (
	slotSize  = 1 << 16
	slotCount = 80
)

type slots struct {
	mem []byte
}

func openSlots(path string, create bool) (*slots, error) {
	flags := os.O_RDWR
	if create {
		flags |= os.O_CREATE | os.O_TRUNC
	}
	f, err := os.OpenFile(path, flags, 0o600)
	if err != nil {
		return nil, err
	}
	defer f.Close()
	if create {
		if err := f.Truncate(slotSize * slotCount); err != nil {
			return nil, err
		}
	}
	mem, err := syscall.Mmap(int(f.Fd()), 0, slotSize*slotCount, syscall.PROT_READ|syscall.PROT_WRITE, syscall.MAP_SHARED)
	if err != nil {
		return nil, err
	}
	return &slots{mem}, nil
}

// set notes that call (entry idx, in) is running in slot i. Layout: [0:4] busy flag, [4:8] entry, [8:12] length, input.
func (s *slots) set(i, idx int, in []byte) {
	if i >= slotCount {
		return
	}
	b := s.mem[i*slotSize : (i+1)*slotSize]
	n := len(in)
	if n > slotSize-12 {
		n = slotSize - 12
	}
	binary.LittleEndian.PutUint32(b[0:4], 0)
	binary.LittleEndian.PutUint32(b[4:8], uint32(idx))
	binary.LittleEndian.PutUint32(b[8:12], uint32(len(in)))
	copy(b[12:], in[:n])
	binary.LittleEndian.PutUint32(b[0:4], 1)
}

func (s *slots) clear(i int) {
	if i >= slotCount {
		return
	}
	binary.LittleEndian.PutUint32(s.mem[i*slotSize:], 0)
}

type pendingCall struct {
	Entry int
	In    []byte
	Whole bool // false when the input was longer than the slot
}

func (s *slots) pending() []pendingCall {
	res := []pendingCall{}
	for i := 0; i < slotCount; i++ {
		b := s.mem[i*slotSize : (i+1)*slotSize]
		if binary.LittleEndian.Uint32(b[0:4]) != 1 {
			continue
		}
		n := int(binary.LittleEndian.Uint32(b[8:12]))
		whole := n <= slotSize-12
		if !whole {
			n = slotSize - 12
		}
		res = append(res, pendingCall{int(binary.LittleEndian.Uint32(b[4:8])), append([]byte{}, b[12:12+n]...), whole})
	}
	return res
}
