package main

// The scenario run (`c09 scen`): everything that keeps state between untrusted inputs, needs a second node, a client
// that misbehaves over time, several goroutines, or a measurement over a batch of calls.  It is a second supervised child
// next to the fuzzing run (its own process: the allocation and goroutine measurements of the two do not disturb each
// other, and the wall time of the check is the longer of the two, not the sum).
//
// Cases come from TLC: spec/WireFuzz.tla with ScenOn (tag SC: families syncc, commits, txpool, burst, amp, smtq) and
// spec/RpcFuzz.tla (tag RQ: key types x KDF / cipher shapes, two-step sequences, server push).

import (
	"bufio"
	"encoding/json"
	"fmt"
	"os"
	"sort"
	"strings"
	"time"

	"verifharness/internal/tj"
)

type scenCase struct {
	T string `json:"t"` // SC
	S string `json:"s"` // family
	P []int  `json:"p"`
	B string `json:"b"` // amp: base name
	K int    `json:"k"` // amp: exponent
}

func experimental() bool { return os.Getenv("VERIF_EXPERIMENTAL") == "1" }

func scenChild(casesPath, outPath, slotPath, disabledJSON string) {
	limitMemory()
	t0 := time.Now()
	w, err := newWorld(envU32("C09_GENESIS_TS"), true)
	if err != nil {
		die(3, "world: %v", err)
	}
	es := buildEntries(w)
	r := newRunner(es, w.GenesisTS)
	if slotPath != "-" {
		if r.slots, err = openSlots(slotPath, false); err != nil {
			die(3, "slots: %v", err)
		}
	}
	dis := map[string]string{}
	json.Unmarshal([]byte(disabledJSON), &dis) //nolint
	for k, v := range dis {
		r.disabled[k] = v
	}
	byName := map[string]*Entry{}
	for _, e := range es {
		byName[e.Name] = e
	}
	info := map[string]interface{}{}
	phase := map[string]float64{}
	mark := func(name string, t time.Time) { phase[name] = time.Since(t).Seconds() }
	only := os.Getenv("C09_PHASES")
	on := func(ph string) bool { return only == "" || strings.Contains(only, ph) }
	errs := []string{}

	cases := map[string][]scenCase{}
	f, err := os.Open(casesPath)
	if err != nil {
		die(3, "cases: %v", err)
	}
	sc := bufio.NewScanner(f)
	sc.Buffer(make([]byte, 1<<20), 1<<26)
	nSC := 0
	for sc.Scan() {
		c := scenCase{}
		if json.Unmarshal(sc.Bytes(), &c) != nil || c.T != "SC" {
			continue
		}
		nSC++
		cases[c.S] = append(cases[c.S], c)
	}
	f.Close()
	info["tlc_scenario_cases"] = nSC

	// ---- the synchronisation client against a scripted peer
	t := time.Now()
	gated := []string{}
	syncOut := map[string]int{}
	if e := byName["sync.client"]; e != nil && on("sync") {
		inputs := [][]byte{}
		for _, c := range cases["syncc"] {
			in := toBytes(c.P)
			if _, off := r.disabled[e.Name+"|"+syncSuffix(in)]; off {
				continue
			}
			if syncGated(in) && !experimental() {
				gated = append(gated, syncSuffix(in))
				continue
			}
			inputs = append(inputs, in)
		}
		syncOut = syncParallel(r, e, inputs, 4)
	}
	if e := byName["sync.client"]; e != nil && on("sync") && experimental() {
		syncOut["request-helper-leak:"+syncLeak(r, e)]++
	}
	syncStats.Lock()
	info["sync_client"] = map[string]interface{}{"outcomes": syncOut, "reached": syncStats.reached, "answers_served": syncStats.served, "gated_behind_VERIF_EXPERIMENTAL": gated}
	syncStats.Unlock()
	mark("sync", t)

	// ---- stateful scenarios: what peers left in the certificate pool / the transaction pool meets its consumers
	t = time.Now()
	if e := byName["scen.commits"]; e != nil && on("commits") {
		for _, c := range cases["commits"] {
			r.Call(e, toBytes(c.P), "scen:commits", false)
		}
		commitStats.Lock()
		info["commit_scenarios"] = map[string]interface{}{"commits_fed": commitStats.fed, "admitted_to_the_pool": commitStats.admitted,
			"aggregates_built_from_the_pool": commitStats.aggregates, "next_block_with_that_aggregate_applied": commitStats.applied, "outcomes": commitStats.outcomes}
		commitStats.Unlock()
	}
	mark("commits", t)
	t = time.Now()
	if e := byName["scen.txpool"]; e != nil && on("txpool") {
		for _, c := range cases["txpool"] {
			r.Call(e, toBytes(c.P), "scen:txpool", false)
		}
		txpoolStats.Lock()
		info["txpool_scenarios"] = map[string]interface{}{"announcements_fed": txpoolStats.fed, "in_the_pool_after_feeding": txpoolStats.admitted,
			"processable_after_reorg": txpoolStats.processable, "removed_by_reorg": txpoolStats.removedByReorg}
		txpoolStats.Unlock()
	}
	mark("txpool", t)

	// ---- bursts of concurrent deliveries
	t = time.Now()
	if e := byName["burst.net"]; e != nil && on("burst") {
		for _, c := range cases["burst"] {
			r.Call(e, toBytes(c.P), "scen:burst", false)
		}
		burstStats.Lock()
		info["burst_calls"] = burstStats.calls
		burstStats.Unlock()
	}
	mark("burst", t)

	// ---- RPC clients over time: two-step sequences and server push (tag RQ of spec/RpcFuzz.tla)
	t = time.Now()
	if path := os.Getenv("C09_RPC_SEQ_CASES"); path != "" && on("rpcseq") {
		rf, err := os.Open(path)
		if err != nil {
			die(3, "rpc sequence cases: %v", err)
		}
		rq := []*rqCase{}
		rs := bufio.NewScanner(rf)
		rs.Buffer(make([]byte, 1<<20), 1<<26)
		for rs.Scan() {
			c := &rqCase{}
			if json.Unmarshal(rs.Bytes(), c) == nil && c.Q != "" {
				rq = append(rq, c)
			}
		}
		rf.Close()
		// the sequences with valid values first: their duration is the baseline of the deadlines
		sort.SliceStable(rq, func(i, j int) bool { return len(rq[i].suffix()) < len(rq[j].suffix()) })
		gatedRQ := []string{}
		for _, c := range rq {
			name := "rpc.seq"
			if c.Q == "push" {
				name = "rpc.push"
			}
			if why := rqGated(c); why != "" && !experimental() {
				gatedRQ = append(gatedRQ, c.Tr+":"+c.suffix())
				continue
			}
			in, _ := json.Marshal(c)
			r.Call(byName[name], in, "scen:"+c.Q, false)
		}
		rqStats.Lock()
		info["rpc_sequences"] = map[string]interface{}{"cases": len(rq), "outcomes": rqStats.outcomes, "posted_blocks_applied_by_the_consensus_loop": rqStats.blocksApplied,
			"pushes_received_by_live_clients": rqStats.pushesReceived, "kdf_runs_on_stored_parameters": rqStats.kdfRuns, "late_answers": rqStats.late, "gated_behind_VERIF_EXPERIMENTAL": gatedRQ}
		rqStats.Unlock()
	}
	mark("rpcseq", t)
	// ---- goroutines and live heap over batches of calls
	t = time.Now()
	bases := w.bases()
	if on("leak") {
		info["leak_batches"] = leakPhase(w, r, es, bases)
	}
	mark("leak", t)
	// ---- growth of time and memory with the number of elements of a repeated field
	t = time.Now()
	if on("amp") {
		info["amplification"] = ampPhase(w, r, es, bases, cases["amp"])
	}
	mark("amp", t)

	rep := r.report()
	rep.Errors = append(rep.Errors, errs...)
	rep.Info = info
	info["scen_phase_seconds"] = phase
	info["scen_wall_s"] = time.Since(t0).Seconds()
	tj.WriteJSON(outPath, rep)
	os.Exit(0)
}

// leakEligible: stateful entry points that take messages (the scenario entries measure themselves)
func leakEligible(e *Entry) bool {
	if e.Pure || !e.Net {
		return false
	}
	t := e.Tags[0]
	return !strings.HasPrefix(t, "args.") || t == "args.ac" || t == "args.rpc.invoke" || t == "args.rpc.http" || t == "args.rpc.ws"
}

func (w *World) leakInputsOf(e *Entry, bases []*Base) [][]byte {
	switch e.Tags[0] {
	case "args.ac":
		out := [][]byte{}
		for _, s := range w.shape("agg", []int{9, 2, 0, 0, 0}) {
			if s.tag == "args.ac" {
				out = append(out, s.a.bytes())
			}
		}
		return out
	case "args.rpc.invoke":
		return [][]byte{[]byte(`{"m":"chain_getLastBlock","p":{}}`), []byte(`{"m":"system_getNodeInfo","p":{}}`), []byte(`{"m":"chain_getBlockByHeight","p":{"height":"x"}}`), []byte(`{"m":"nothing_here"}`)}
	case "args.rpc.http", "args.rpc.ws":
		return [][]byte{[]byte(`{"jsonrpc":"2.0","id":"1","method":"chain_getLastBlock","params":{}}`), []byte(`{"jsonrpc":"2.0","id":"1","method":"system_getNodeInfo","params":{}}`),
			[]byte(`{"jsonrpc":"2.0","id":"1","method":"chain_getBlockByHeight","params":{"height":"x"}}`), []byte(`{"jsonrpc":"2.0", "id": }`)}
	}
	return leakInputs(e, bases)
}

func leakPhase(w *World, r *Runner, es []*Entry, bases []*Base) map[string]interface{} {
	n, budget := 1000, 2500*time.Millisecond
	if thoroughTier {
		n, budget = 3000, 8*time.Second
	}
	readings := map[string]interface{}{}
	batches := 0
	for _, e := range es {
		if !leakEligible(e) {
			continue
		}
		if _, off := r.disabled[e.Name]; off {
			continue
		}
		inputs := w.leakInputsOf(e, bases)
		if len(inputs) == 0 {
			continue
		}
		nn := n
		if e.Tags[0] == "args.rpc.ws" {
			nn = n / 5 // one connection per call
		}
		kind, what, a, b := leakCheck(r, e, inputs, nn, budget, 8*time.Second)
		batches++
		readings[e.Name] = []int64{int64(a.calls), int64(a.goroutines), a.heap}
		switch kind {
		case "leak":
			r.violationX("leak:"+e.Name, what, e, inputs[0], map[string]interface{}{"scenario": "leak"})
			_ = b
		case "inconclusive":
			r.mu.Lock()
			r.unsettled = append(r.unsettled, "leak:"+e.Name+": "+what)
			r.mu.Unlock()
		}
	}
	// every pure entry point (decoders, constructors, verifiers) as one group: they start no goroutines; live heap only
	g0, h0 := settle(0, 300*time.Millisecond), liveHeap()
	calls := 0
	for _, e := range es {
		if !e.Pure || strings.HasPrefix(e.Tags[0], "args.") {
			continue
		}
		in := leakInputs(e, bases)
		for i := 0; i < 40 && len(in) > 0; i++ {
			r.Call(e, in[i%len(in)], "leak", false)
			calls++
		}
	}
	g1, h1 := settle(g0+20, 5*time.Second), liveHeap()
	readings["(all pure entry points)"] = []int64{int64(calls), int64(g1 - g0), int64(h1) - int64(h0)}
	if g1-g0 >= 50 || int64(h1)-int64(h0) > 256<<20 {
		r.mu.Lock()
		r.unsettled = append(r.unsettled, fmt.Sprintf("leak:(pure entry points): %d calls left %d goroutines / %d bytes behind; per-entry batches are needed to attribute it", calls, g1-g0, int64(h1)-int64(h0)))
		r.mu.Unlock()
	}
	return map[string]interface{}{"entries_measured": batches, "calls_goroutines_heap_of_first_batch": readings}
}

func pow10(k int) int {
	n := 1
	for i := 0; i < k; i++ {
		n *= 10
	}
	return n
}

func ampPhase(w *World, r *Runner, es []*Entry, bases []*Base, cs []scenCase) map[string]interface{} {
	tags := byTag(es)
	baseBy := map[string]*Base{}
	for _, b := range bases {
		baseBy[b.Name] = b
	}
	type grp struct {
		b  *Base
		p  []int
		ks []int
	}
	groups := map[string]*grp{}
	order := []string{}
	for _, c := range cs {
		b := baseBy[c.B]
		if b == nil || b.Schema == nil {
			continue
		}
		key := fmt.Sprintf("%s.%v", c.B, c.P)
		if groups[key] == nil {
			groups[key] = &grp{b: b, p: c.P}
			order = append(order, key)
		}
		groups[key].ks = append(groups[key].ks, c.K)
	}
	calls, judged, largest := 0, 0, 0
	ratios := map[string]float64{}
	run := func(name string, typ string, inputs map[int][]byte, ks []int) {
		sort.Ints(ks)
		for _, e := range tags[typ] {
			if strings.HasPrefix(e.Tags[0], "args.") {
				continue
			}
			if _, off := r.disabled[e.Name]; off {
				continue
			}
			for _, k := range ks {
				if (!e.Pure && k > 2) || inputs[k] == nil {
					continue
				}
				r.Call(e, inputs[k], "amp", false)
				calls++
				if len(inputs[k]) > largest {
					largest = len(inputs[k])
				}
			}
			if !e.Pure {
				continue
			}
			for i := 1; i < len(ks); i++ {
				lo, hi := inputs[ks[i-1]], inputs[ks[i]]
				if lo == nil || hi == nil {
					continue
				}
				worst := 0.0
				all := true
				for round := 0; round < 3; round++ {
					chi, p1 := cpuOf(e, hi)
					if p1 || chi < growthMinCPU {
						all = false
						break
					}
					clo, p2 := cpuOf(e, lo)
					if p2 {
						all = false
						break
					}
					if clo < 10*time.Microsecond {
						all = false // (not measurable: the smaller input costs less than the accounting resolves)
						break
					}
					ratio := float64(chi) / float64(clo) / (float64(len(hi)) / float64(len(lo)) / 10)
					if round == 0 {
						judged++
					}
					if ratio <= growthLimit {
						all = false
						if ratio > worst {
							worst = ratio
						}
						break
					}
					if worst == 0 || ratio < worst {
						worst = ratio
					}
				}
				if worst > ratios[e.Name] {
					ratios[e.Name] = worst
				}
				if all {
					r.violationX("growth:"+e.Name+":"+name, fmt.Sprintf("%s: 10 times more elements in %s (%d -> %d bytes) cost %.0f times the CPU time in three rounds of measurement (a linear algorithm shows 10, the limit is %.0f): the cost of a message is not bounded by its size",
						e.Name, name, len(lo), len(hi), worst, growthLimit), e, nil, map[string]interface{}{"scenario": "amp", "amp": name, "k": ks[i]})
					break
				}
			}
		}
	}
	for _, key := range order {
		g := groups[key]
		inputs := map[int][]byte{}
		for _, k := range g.ks {
			if in, ok := amplify(g.b.raw, g.b.Schema, g.p, pow10(k)); ok {
				inputs[k] = in
			}
		}
		run(key, g.b.Type, inputs, g.ks)
	}
	// assets with distinct, ascending module names (what the asset rules accept)
	ks := []int{2, 3, 4}
	if thoroughTier {
		ks = append(ks, 5)
	}
	inputs := map[int][]byte{}
	for _, k := range ks {
		inputs[k] = w.manyAssets(pow10(k))
	}
	run("block.assets-distinct", "blockchain.Block", inputs, ks)
	top := map[string]float64{}
	for k, v := range ratios {
		if v >= 5 {
			top[k] = float64(int(v*10)) / 10
		}
	}
	return map[string]interface{}{"fields": len(order) + 1, "calls": calls, "growth_ratios_judged": judged, "largest_input_bytes": largest, "normalised_ratio_at_least_5": top}
}

// replayScenario re-executes a stored violation that is not a single call.
func replayScenario(w *World, r *Runner, es []*Entry, e *Entry, scenario, amp string, k int) string {
	bases := w.bases()
	switch scenario {
	case "leak":
		inputs := w.leakInputsOf(e, bases)
		if e.Name == "sync.client" {
			return syncLeak(r, e)
		}
		if len(inputs) == 0 {
			return "no-inputs"
		}
		kind, what, _, _ := leakCheck(r, e, inputs, 1000, 2500*time.Millisecond, 8*time.Second)
		if kind == "leak" {
			r.violationX("leak:"+e.Name, what, e, inputs[0], map[string]interface{}{"scenario": "leak"})
		}
		return kind
	case "amp":
		// the stored case: base.path and the larger exponent
		cs := []scenCase{}
		i := strings.LastIndex(amp, ".")
		if i < 0 {
			return "bad-amp"
		}
		path := []int{}
		json.Unmarshal([]byte(strings.ReplaceAll(amp[i+1:], " ", ",")), &path) //nolint
		for kk := 2; kk <= k; kk++ {
			cs = append(cs, scenCase{T: "SC", S: "amp", P: path, B: amp[:i], K: kk})
		}
		only := []*Entry{}
		for _, x := range es {
			if x == e {
				only = append(only, x)
			}
		}
		ampPhase(w, r, only, bases, cs)
		return "measured"
	}
	return "unknown-scenario"
}

// syncLeak: the request helpers of the synchronisation client against a peer that never answers (defect candidate of the
// unchanged tree: every request that times out leaves the goroutine that was to deliver the response blocked on an unbuffered
// channel).  Four time-outs, then the goroutines still inside pkg/consensus/sync.request* are counted.
func syncLeak(r *Runner, e *Entry) string {
	count := func() int {
		n := 0
		for k, v := range goroutineTops() {
			if strings.Contains(k, "pkg/consensus/sync.request") {
				n += v
			}
		}
		return n
	}
	before := count()
	const calls = 4
	for i := 0; i < calls; i++ {
		r.Call(e, []byte{0, 0, 7, 0}, "leak", false)
	}
	time.Sleep(5 * time.Second) // (the request time-out is 3 s: whatever ends by itself has ended)
	left := count() - before
	if left >= calls-1 {
		r.violationX("leak:sync.client:fast:common=never", fmt.Sprintf("%d requests to a peer that never answers left %d goroutines blocked for ever inside the request helpers of pkg/consensus/sync (sending the late response to a channel nobody reads): a peer costs the node a goroutine per request", calls, left),
			e, []byte{0, 0, 7, 0}, map[string]interface{}{"scenario": "leak"})
		return "leak"
	}
	return "ok"
}
