package main

// Valid base messages: one (or more) per network-facing schema taken from the real node state, and one per
// remaining registry type filled by reflection. The network-facing ones are exported for TLC
// (spec/WireFuzz.tla) with their schema and abstract value.

import (
	"reflect"
	"strings"

	"github.com/LiskHQ/lisk-engine/pkg/blockchain"
	lsync "github.com/LiskHQ/lisk-engine/pkg/consensus/sync"
	"github.com/LiskHQ/lisk-engine/pkg/p2p"
	"github.com/LiskHQ/lisk-engine/pkg/txpool"
)

type Base struct {
	Name   string        `json:"name"`   // unique name
	Type   string        `json:"type"`   // schema (registry type name) = tag of the entry points that take it
	Schema []interface{} `json:"schema"` // Wire.tla schema
	Value  []interface{} `json:"value"`  // abstract value
	Bytes  []int         `json:"bytes"`  // real encoding
	raw    []byte
	net    bool
}

func registryEntry(name string) *entry {
	for i := range registry {
		if registry[i].name == name {
			return &registry[i]
		}
	}
	return nil
}

func baseOf(name, typ string, m msg) *Base {
	b := &Base{Name: name, Type: typ, raw: m.Encode(), net: true}
	t := reflect.TypeOf(m).Elem()
	fs, ok := schemaOf(t, 0)
	if !ok {
		panic("no schema for " + typ)
	}
	b.Schema = schemaJSON(fs)
	b.Value = abstract(reflect.ValueOf(m).Elem(), fs)
	b.Bytes = byteSeq(b.raw)
	return b
}

// fill sets deterministic non-zero values in every field (2 elements per repeated field).
func fill(v reflect.Value, fs []field, depth int) {
	for _, f := range fs {
		fv := fld(v, f.idx)
		k := f.kind
		rep := strings.HasPrefix(k, "r")
		if rep {
			k = k[1:]
		}
		one := func(dst reflect.Value, i int) {
			switch k {
			case "bool":
				dst.SetBool(true)
			case "uint32":
				dst.SetUint(uint64(7 + i))
			case "uint":
				dst.SetUint(uint64(300 + i))
			case "sint":
				dst.SetInt(int64(-3 - i))
			case "string":
				dst.SetString("ab")
			case "bytes":
				dst.SetBytes([]byte{1, 2, byte(3 + i)})
			case "nested":
				p := reflect.New(dst.Type().Elem())
				if depth < 5 {
					fill(p.Elem(), f.sub, depth+1)
				}
				dst.Set(p)
			}
		}
		if rep {
			s := reflect.MakeSlice(fv.Type(), 2, 2)
			for i := 0; i < 2; i++ {
				one(s.Index(i), i)
			}
			fv.Set(s)
		} else {
			one(fv, 0)
		}
	}
}

func (w *World) bases() []*Base {
	bs := []*Base{}
	c := w.Cand
	bs = append(bs, baseOf("block", "blockchain.Block", c))
	raw := &blockchain.RawBlock{}
	if err := raw.Decode(c.Encode()); err != nil {
		panic(err)
	}
	bs = append(bs, baseOf("rawblock", "blockchain.RawBlock", raw))
	bs = append(bs, baseOf("header", "blockchain.BlockHeader", c.Header))
	bs = append(bs, baseOf("tx", "blockchain.Transaction", c.Transactions[0]))
	bs = append(bs, baseOf("asset", "blockchain.BlockAsset", c.Assets[0]))
	bs = append(bs, baseOf("ac", "blockchain.AggregateCommit", w.AC))
	bs = append(bs, baseOf("singles", "consensus.EventPostSingleCommits", w.Singles))
	bs = append(bs, baseOf("single", "certificate.SingleCommit", w.Singles.SingleCommits[0]))
	bfi := &lsync.GetBlocksFromIDRequest{ID: w.Stored.Header.PreviousBlockID}
	bs = append(bs, baseOf("req.blocksFromId", "sync.GetBlocksFromIDRequest", bfi))
	ids := [][]byte{w.Stored.Header.ID, w.N.Tip().Header.ID, make([]byte, 32)}
	hcb := &lsync.GetHighestCommonBlockRequest{IDs: ids}
	bs = append(bs, baseOf("req.highestCommonBlock", "sync.GetHighestCommonBlockRequest", hcb))
	bs = append(bs, baseOf("resp.highestCommonBlock", "sync.GetHighestCommonBlockResponse", &lsync.GetHighestCommonBlockResponse{ID: w.Stored.Header.ID}))
	bs = append(bs, baseOf("resp.blocksFromId", "sync.GetBlocksFromIDResponse", &lsync.GetBlocksFromIDResponse{Blocks: []*blockchain.Block{w.Stored}}))
	bs = append(bs, baseOf("request", "p2p.Request", &p2p.Request{ID: "6f1c2d3e-0000-4000-8000-000000000001", Procedure: lsync.RPCEndpointGetBlocksFromID, Data: bfi.Encode()}))
	bs = append(bs, baseOf("request2", "p2p.Request", &p2p.Request{ID: "6f1c2d3e-0000-4000-8000-000000000002", Procedure: lsync.RPCEndpointGetHighestCommonBlock, Data: hcb.Encode()}))
	bs = append(bs, baseOf("message", "p2p.Message", &p2p.Message{Data: w.Singles.Encode()}))
	bs = append(bs, baseOf("smtproof", "smt.Proof", w.SmtProof))
	bs = append(bs, baseOf("smtquery", "smt.QueryProof", w.SmtProof.Queries[0]))
	bs = append(bs, baseOf("rmtproof", "rmt.Proof", w.RmtProof))
	bs = append(bs, baseOf("txresp", "txpool.GetTransactionsResponse", &txpool.GetTransactionsResponse{Transactions: c.Transactions}))
	// the response envelope is an unexported type: same first three fields as Request plus an error string
	req := &p2p.Request{ID: "6f1c2d3e-0000-4000-8000-000000000001", Procedure: lsync.RPCEndpointGetHighestCommonBlock, Data: (&lsync.GetHighestCommonBlockResponse{ID: w.Stored.Header.ID}).Encode()}
	rb := baseOf("response", "p2p.responseMsg", req)
	rb.Schema = append(rb.Schema, []interface{}{4, "string", []interface{}{}})
	rb.Value = append(rb.Value, byteSeq([]byte("no")))
	rb.raw = append(rb.raw, 0x22, 2, 'n', 'o')
	rb.Bytes = byteSeq(rb.raw)
	bs = append(bs, rb)
	// every other registry type: a value filled by reflection
	have := map[string]bool{}
	for _, b := range bs {
		have[b.Type] = true
	}
	for _, re := range registry {
		if have[re.name] {
			continue
		}
		m := re.mk()
		fs, ok := schemaOf(reflect.TypeOf(m).Elem(), 0)
		if !ok {
			continue
		}
		fill(reflect.ValueOf(m).Elem(), fs, 0)
		b := &Base{Name: "fill:" + re.name, Type: re.name, raw: m.Encode(), net: netTypes[re.name]}
		if b.net {
			b.Schema, b.Value, b.Bytes = schemaJSON(fs), abstract(reflect.ValueOf(m).Elem(), fs), byteSeq(b.raw)
		}
		bs = append(bs, b)
	}
	return bs
}
