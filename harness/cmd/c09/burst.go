package main

// Bursts (family "burst" of spec/WireFuzz.tla): production runs the stream handlers, the pubsub validators, process() and
// the RPC servers in parallel; the fuzzing entries call them one at a time.  A burst releases 16 goroutines at the same
// instant, each with a few hundred valid and malformed inputs for the stateful network entry points of ONE node, while (group
// 4) the consensus path applies and reverts blocks.  Specified outcome: every call returns.  A panic is recovered per
// goroutine and keyed by its site; a fatal error of the runtime (concurrent map writes) ends the child and the supervisor
// attributes it to the noted burst.

import (
	"context"
	"fmt"
	"sync"
	"sync/atomic"
	"time"

	"github.com/LiskHQ/lisk-engine/pkg/p2p"
)

const burstWorkers = 16

type burstTarget struct {
	name string
	fn   func(in []byte)
	good [][]byte
	bad  [][]byte
}

var burstStats = struct {
	sync.Mutex
	calls map[string]int64
}{calls: map[string]int64{}}

func (w *World) burstTargets(byName map[string]*Entry) map[int][]*burstTarget {
	n := w.N
	trunc := func(b []byte) [][]byte {
		return [][]byte{b[:len(b)/2], b[:1], append(append([]byte{}, b...), 0xff), {}, {0xff, 0xff, 0xff, 0xff, 0x0f}}
	}
	var bases = map[string][]byte{}
	for _, b := range w.bases() {
		bases[b.Name] = b.raw
	}
	req := &burstTarget{name: "p2p.onRequest", fn: func(in []byte) { byName["p2p.onRequest"].Fn(in) }, good: [][]byte{bases["request"], bases["request2"]}}
	req.bad = append(trunc(bases["request"]), trunc(bases["request2"])...)
	resp := &burstTarget{name: "p2p.onResponse", fn: func(in []byte) { n.Conn.VerifOnResponse(nextPeer(), fakeAddr, in) }, good: [][]byte{bases["response"]}, bad: trunc(bases["response"])}
	blockMsg := (&p2p.Message{Data: w.Cand.Encode()}).Encode()
	commitsMsg := (&p2p.Message{Data: w.Singles.Encode()}).Encode()
	gossipBlock := &burstTarget{name: "gossip.postBlock", fn: func(in []byte) { n.Conn.VerifGossip(context.Background(), "postBlock", nextPeer(), in) },
		good: [][]byte{blockMsg}, bad: trunc(blockMsg)}
	gossipCommits := &burstTarget{name: "gossip.postSingleCommits", fn: func(in []byte) { n.Conn.VerifGossip(context.Background(), "postSingleCommits", nextPeer(), in) },
		good: [][]byte{commitsMsg}, bad: trunc(commitsMsg)}
	validator := &burstTarget{name: "consensus.singleCommitValidator", fn: func(in []byte) { n.Ex.VerifSingleCommitValidator(in) },
		good: [][]byte{w.Singles.Encode(), w.Singles.SingleCommits[0].Encode()}, bad: trunc(w.Singles.Encode())}
	return map[int][]*burstTarget{0: {req}, 1: {resp}, 2: {gossipBlock, gossipCommits}, 3: {validator}, 4: {req, resp, gossipBlock, gossipCommits, validator}}
}

func burstCase(w *World, byName map[string]*Entry, in []byte) (verdict, what string) {
	if len(in) != 2 || in[0] > 4 || in[1] > 2 {
		return "reject", ""
	}
	group, mix := int(in[0]), int(in[1])
	targets := w.burstTargets(byName)[group]
	rounds := 400
	if tierThorough() {
		rounds = 2000
	}
	var wg sync.WaitGroup
	start := make(chan struct{})
	var panics int64
	var first atomic.Value
	worker := func(id int) {
		defer wg.Done()
		<-start
		for i := 0; i < rounds; i++ {
			t := targets[(id+i)%len(targets)]
			var inp []byte
			switch {
			case mix == 0 || (mix == 2 && (id+i)%3 != 0):
				inp = t.good[(id+i)%len(t.good)]
			default:
				inp = t.bad[(id+i)%len(t.bad)]
			}
			func() {
				defer func() {
					if p := recover(); p != nil {
						top, lisk := siteOf()
						atomic.AddInt64(&panics, 1)
						first.CompareAndSwap(nil, [3]string{top, lisk, fmt.Sprint(p)})
					}
				}()
				t.fn(inp)
			}()
			burstStats.Lock()
			burstStats.calls[t.name]++
			burstStats.Unlock()
		}
	}
	for i := 0; i < burstWorkers; i++ {
		wg.Add(1)
		go worker(i)
	}
	seqDone := make(chan string, 1)
	if group == 4 {
		go func() {
			defer func() {
				if p := recover(); p != nil {
					top, lisk := siteOf()
					atomic.AddInt64(&panics, 1)
					first.CompareAndSwap(nil, [3]string{top, lisk, fmt.Sprint(p)})
					seqDone <- "panic"
				}
			}()
			<-start
			seqDone <- byName["consensus.process-sequence"].Fn([]byte{0, 0})
		}()
	} else {
		seqDone <- "-"
	}
	close(start)
	done := make(chan struct{})
	go func() { wg.Wait(); close(done) }()
	box := 180 * time.Second // (a deadlock never ends; everything else does, also on a busy machine)
	select {
	case <-done:
	case <-time.After(box):
		return "hang", fmt.Sprintf("a burst of %d goroutines x %d calls into %d stateful network entry points did not finish within %v (deadlock between concurrent deliveries)", burstWorkers, rounds, len(targets), box)
	}
	select {
	case <-seqDone:
	case <-time.After(box):
		return "hang", "the block sequence running beside the burst did not finish"
	}
	w.N.Ex.VerifPool().Cleanup(func(uint32) bool { return false })
	if atomic.LoadInt64(&panics) > 0 {
		f := first.Load().([3]string)
		return "panic@" + f[0], fmt.Sprintf("%d calls of a burst (group %d, inputs %d) panicked, first: %s [at %s]", panics, group, mix, f[2], f[1])
	}
	return "ok", ""
}

func tierThorough() bool { return thoroughTier }

func addBurstEntries(w *World, es *[]*Entry, add func(e *Entry)) {
	var last string
	add(&Entry{Name: "burst.net", Net: true, Tags: []string{"args.scen.burst"}, Box: 600 * time.Second, AllocConst: 4 << 30,
		Suffix: func(in []byte) string {
			if len(in) != 2 {
				return ""
			}
			return fmt.Sprintf("group=%d", in[0])
		},
		Fn: func(in []byte) string {
			byName := map[string]*Entry{}
			for _, e := range *es {
				byName[e.Name] = e
			}
			v, what := burstCase(w, byName, in)
			last = what
			return v
		},
		Judge: func(in []byte, verdict string) (string, string) {
			if verdict == "hang" || (len(verdict) > 6 && verdict[:6] == "panic@") {
				return verdict, last
			}
			return "", ""
		}})
}
