package main

// Scenarios that KEEP what untrusted input left behind (families "commits" and "txpool" of spec/WireFuzz.tla).
//
// commits: single commits received from peers stay in the certificate pool (the fuzzing entries empty the pool after every
// call); then the consumers run on that content: GetAggregateCommit (block generation), broadcastCertificate (the
// certificate timer), verifyAggregateCommit of the node's own aggregate, a next block that carries it, the validator again.
// Three worlds: one parameter set; a validator that JOINS inside the commit window; one that LEAVES inside it - so that
// "active at the commit's height" and "active at the tip" differ.
//
// txpool: transactions announced by peers stay in a small pool whose application answers Ok / Invalid / Pending / error,
// at admission or only later (at the promotion step); then reorg, GetProcessable, the getTransactions handler, the same
// announcements again.
//
// Specified outcome: every call returns; nothing panics (also not on the goroutines reorg starts: that ends the process
// and the supervisor attributes it to the noted case).

import (
	"bytes"
	"context"
	"fmt"
	"sync"
	"time"

	"github.com/LiskHQ/lisk-engine/pkg/blockchain"
	"github.com/LiskHQ/lisk-engine/pkg/codec"
	"github.com/LiskHQ/lisk-engine/pkg/consensus"
	"github.com/LiskHQ/lisk-engine/pkg/consensus/certificate"
	"github.com/LiskHQ/lisk-engine/pkg/crypto"
	"github.com/LiskHQ/lisk-engine/pkg/labi"
	"github.com/LiskHQ/lisk-engine/pkg/p2p"
	"github.com/LiskHQ/lisk-engine/pkg/txpool"

	"verifharness/internal/node"
)

// ---------------------------------------------------------------------------------------- commits

type commitWorld struct {
	n       *node.Node
	change  uint32 // height of the block that carries the validator-set change (0 = none)
	mover   int    // the validator that joins / leaves (5)
	mhpc    uint32
	cert    uint32
	first   uint32 // the height GetAggregateCommit looks at first
	baseTip uint32
}

var commitWorlds = map[int]*commitWorld{}
var commitStats = struct {
	sync.Mutex
	admitted, fed, aggregates, applied int
	outcomes                          map[string]int
}{outcomes: map[string]int{}}

func ones(n int) []uint64 {
	w := make([]uint64, n)
	for i := range w {
		w[i] = 1
	}
	return w
}

func newCommitWorld(kind int) (*commitWorld, error) {
	four := node.ParamSet{PcT: 3, CertT: 3, W: []uint64{1, 1, 1, 1, 0}, Gens: []int{1, 2, 3, 4}}
	five := node.ParamSet{PcT: 4, CertT: 4, W: []uint64{1, 1, 1, 1, 1}, Gens: []int{1, 2, 3, 4, 5}}
	cfg := &node.Config{NVal: 5, Batch: 5, Init: four, Choices: []node.ParamSet{five}, Now: 60}
	if kind == 2 {
		cfg.Init, cfg.Choices = five, []node.ParamSet{four}
	}
	n, err := node.New(cfg, nil, 0)
	if err != nil {
		return nil, err
	}
	cw := &commitWorld{n: n, mover: 5}
	slot := 1
	ext := func(chg int) error {
		c, err := n.AutoCand(slot, slot%2)
		if err != nil {
			return err
		}
		c.Chg = chg
		b := n.Build(c)
		if err := n.Ex.VerifProcess(b, "12D3KooWverifpeer"); err != nil || !bytes.Equal(n.Tip().Header.ID, b.Header.ID) {
			return fmt.Errorf("commit world %d: block %d not accepted: %v", kind, c.H, err)
		}
		slot++
		return nil
	}
	for i := 0; i < 10; i++ {
		if err := ext(0); err != nil {
			return nil, err
		}
	}
	if kind != 0 {
		if err := ext(1); err != nil {
			return nil, err
		}
		cw.change = n.Tip().Header.Height
	}
	for i := 0; i < 12; i++ {
		if err := ext(0); err != nil {
			return nil, err
		}
	}
	o, err := n.Observe()
	if err != nil {
		return nil, err
	}
	cw.mhpc, cw.cert, cw.baseTip = o.Mhpc, o.Cert, o.TipH
	cw.first = cw.mhpc
	if cw.change != 0 && cw.change < cw.first {
		cw.first = cw.change // GetAggregateCommit stops below the next change of parameters
	}
	if cw.mhpc < 6 || (cw.change != 0 && cw.mhpc <= cw.change+1) {
		return nil, fmt.Errorf("commit world %d: precommitted height %d does not pass the change at %d", kind, cw.mhpc, cw.change)
	}
	return cw, nil
}

func (cw *commitWorld) single(h uint32, val int, defect int) (*certificate.SingleCommit, error) {
	hdr, err := cw.n.Chain.DataAccess().GetBlockHeaderByHeight(h)
	if err != nil {
		return nil, err
	}
	v := node.Validator(val)
	chainID := cw.n.ChainID
	switch defect {
	case 1:
		chainID = []byte{9, 9, 9, 9}
	case 2:
		h2 := *hdr
		h2.ID = crypto.Hash(append([]byte("another block"), hdr.ID...))
		hdr = &h2
	}
	return certificate.NewSingleCommit(hdr, v.Address, chainID, v.BLS.PrivateKey), nil
}

func commitCase(in []byte) string {
	if len(in) != 4 || in[0] > 2 || in[1] > 4 || in[2] > 5 || in[3] > 4 {
		return "reject"
	}
	kind, sg, hc, defect := int(in[0]), int(in[1]), int(in[2]), int(in[3])
	cw := commitWorlds[kind]
	if cw == nil {
		var err error
		if cw, err = newCommitWorld(kind); err != nil {
			panic("harness: " + err.Error())
		}
		commitWorlds[kind] = cw
	}
	n := cw.n
	pool := n.Ex.VerifPool()
	defer func() {
		pool.Cleanup(func(uint32) bool { return false })
		for n.Tip().Header.Height > cw.baseTip {
			if err := n.Ex.VerifDeleteBlock(n.Tip(), false); err != nil {
				panic("harness: cannot restore the tip: " + err.Error())
			}
		}
	}()
	signers := [][]int{{1, 2, 3}, {1, 2}, {cw.mover}, {1, 2, 3, cw.mover}, {1, 2, 3, 4, cw.mover}}[sg]
	heights := []uint32{}
	after := cw.change + 1
	if cw.change == 0 {
		after = cw.mhpc - 1
	}
	switch hc {
	case 0:
		heights = []uint32{cw.first}
	case 1:
		heights = []uint32{cw.mhpc}
	case 2:
		heights = []uint32{after}
	case 3:
		heights = []uint32{1}
	case 4:
		heights = []uint32{cw.mhpc + 1}
	case 5:
		for h := cw.cert + 1; h <= cw.mhpc; h++ {
			heights = append(heights, h)
		}
	}
	msgs := [][]byte{}
	fed := 0
	for _, h := range heights {
		scs := []*certificate.SingleCommit{}
		for i, s := range signers {
			d := 0
			if i == len(signers)-1 && (defect == 1 || defect == 2) {
				d = defect
			}
			sc, err := cw.single(h, s, d)
			if err != nil {
				continue
			}
			scs = append(scs, sc)
			if defect == 3 {
				scs = append(scs, sc)
			}
		}
		fed += len(scs)
		msgs = append(msgs, (&consensus.EventPostSingleCommits{SingleCommits: scs}).Encode())
	}
	if defect == 4 {
		msgs = append(msgs, msgs...)
	}
	for _, m := range msgs {
		n.Ex.VerifSingleCommitValidator(m)
	}
	admitted := pool.Size()
	// ---- the consumers of the pool
	ac, err := n.Ex.GetAggregateCommit()
	outcome := "no-aggregate"
	applied := false
	if err == nil && ac != nil && len(ac.AggregationBits) > 0 {
		outcome = "aggregate"
		if verr := n.Ex.VerifVerifyAggregateCommit(ac); verr != nil {
			outcome = "aggregate-not-verifying" // (C06 judges soundness; here it only has to return)
		}
		// the next block carries it
		if c, cerr := n.AutoCand(int(cw.baseTip)+1, 0); cerr == nil {
			b := n.Build(c)
			b = resignAny(b, n.ChainID, 5, func(h *blockchain.BlockHeader) { h.AggregateCommit = ac })
			n.Ex.VerifProcess(b, "12D3KooWverifpeer") //nolint:errcheck // the tip tells
			applied = bytes.Equal(n.Tip().Header.ID, b.Header.ID)
		}
	} else if err != nil {
		outcome = "aggregate-error"
	}
	n.Ex.VerifBroadcastCertificate() //nolint:errcheck // publishing without peers may fail; it must return
	for _, m := range msgs {
		n.Ex.VerifSingleCommitValidator(m)
	}
	n.Ex.GetAggregateCommit() //nolint:errcheck // second look at the pool after the tip moved
	commitStats.Lock()
	commitStats.fed += fed
	commitStats.admitted += admitted
	if outcome == "aggregate" {
		commitStats.aggregates++
	}
	if applied {
		commitStats.applied++
	}
	commitStats.outcomes[outcome]++
	commitStats.Unlock()
	if applied {
		return "applied"
	}
	return outcome
}

func resignAny(b *blockchain.Block, chainID []byte, nval int, f func(h *blockchain.BlockHeader)) *blockchain.Block {
	h := *b.Header
	f(&h)
	for id := 1; id <= nval; id++ {
		if bytes.Equal(node.Validator(id).Address, h.GeneratorAddress) {
			h.Sign(chainID, node.Validator(id).PrivKey)
		}
	}
	return &blockchain.Block{Header: &h, Transactions: b.Transactions, Assets: b.Assets}
}

// ---------------------------------------------------------------------------------------- txpool

const (
	scenPoolMax        = 6
	scenPoolPerAccount = 4
)

// scriptedABI answers VerifyTransaction from a script: by transaction id -> answers for the 1st, 2nd, ... verification
// (the last one repeats).  0 Ok, 1 Invalid, 2 Pending, 3 error.
type scriptedABI struct {
	mu     sync.Mutex
	script map[string][]int
	calls  map[string]int
	dflt   int
}

func (a *scriptedABI) VerifyTransaction(req *labi.VerifyTransactionRequest) (*labi.VerifyTransactionResponse, error) {
	a.mu.Lock()
	id := string(req.Transaction.ID)
	k := a.calls[id]
	a.calls[id]++
	ans := a.dflt
	if s, ok := a.script[id]; ok {
		if k >= len(s) {
			k = len(s) - 1
		}
		ans = s[k]
	}
	a.mu.Unlock()
	switch ans {
	case 1:
		return &labi.VerifyTransactionResponse{Result: labi.TxVerifyResultInvalid}, nil
	case 2:
		return &labi.VerifyTransactionResponse{Result: labi.TxVerifyResultPending}, nil
	case 3:
		return nil, fmt.Errorf("scripted application error")
	}
	return &labi.VerifyTransactionResponse{Result: labi.TxVerifyResultOk}, nil
}

func scenTx(sender byte, nonce, fee uint64) *blockchain.Transaction {
	pk := crypto.Hash([]byte{sender, 's', 'c', 'e', 'n'})
	tx := &blockchain.Transaction{Module: "toy", Command: "ok", Nonce: nonce, Fee: fee, SenderPublicKey: pk,
		Params: []byte{sender, byte(nonce)}, Signatures: []codec.Hex{bytes.Repeat([]byte{9}, 64)}}
	tx.Init()
	return tx
}

var txpoolStats = struct {
	sync.Mutex
	fed, admitted, processable, removedByReorg int
}{}

func txpoolCase(w *World, in []byte) string {
	if len(in) != 2 || in[0] > 7 || in[1] > 7 {
		return "reject"
	}
	ladder, app := int(in[0]), int(in[1])
	txs := []*blockchain.Transaction{}
	add := func(sender byte, nonce, fee uint64) { txs = append(txs, scenTx(sender, nonce, fee)) }
	switch ladder {
	case 0:
		for i := uint64(0); i < 6; i++ {
			add(1, i, 1000+i)
		}
	case 1:
		for i := uint64(6); i > 0; i-- {
			add(1, i-1, 1000+i)
		}
	case 2:
		for _, i := range []uint64{0, 1, 3, 4, 6} {
			add(1, i, 2000)
		}
	case 3:
		for _, i := range []uint64{1<<64 - 3, 1<<64 - 2, 1<<64 - 1, 0, 1} {
			add(1, i, 3000)
		}
	case 4:
		for _, f := range []uint64{1000, 5000, 2000, 5000, 5001, 1<<64 - 1} {
			add(1, 0, f)
		}
		add(1, 1, 1000)
	case 5:
		for sdr := byte(1); sdr <= scenPoolMax+3; sdr++ {
			add(sdr, 0, 1000+uint64(sdr)*10)
		}
	case 6:
		for i := uint64(0); i < scenPoolPerAccount+3; i++ {
			add(1, i, 1000+i*7)
		}
	case 7:
		for i := uint64(0); i < 4; i++ {
			add(1, i, 1000)
			add(2, 3-i, 1200)
			add(1, i, 1000)
		}
	}
	abi := &scriptedABI{script: map[string][]int{}, calls: map[string]int{}}
	first, middle, last := string(txs[0].ID), string(txs[len(txs)/2].ID), string(txs[len(txs)-1].ID)
	switch app {
	case 1:
		abi.script[middle] = []int{1}
	case 2:
		abi.dflt = 2
	case 3:
		abi.script[middle] = []int{3}
	case 4:
		abi.script[first] = []int{0, 0, 1} // the announcement handler and Add verify once each: Ok twice, then Invalid
	case 5:
		abi.script[middle] = []int{0, 0, 1}
	case 6:
		abi.script[last] = []int{0, 0, 1}
	case 7:
		abi.script[middle] = []int{0, 0, 3}
	}
	conn := &fakePoolConn{rpc: map[string]p2p.RPCHandler{}, handler: map[string]p2p.EventHandler{}, validator: map[string]p2p.Validator{}}
	pool := txpool.NewTransactionPool(&txpool.TransactionPoolConfig{MaxTransactions: scenPoolMax, MaxTransactionsPerAccount: scenPoolPerAccount})
	if err := pool.Init(context.Background(), w.logger, w.N.DB, w.N.Chain, conn, abi); err != nil {
		panic("harness: " + err.Error())
	}
	validator, handler := conn.validator[txpool.RPCEventPostTransactionAnnouncement], conn.handler[txpool.RPCEventPostTransactionAnnouncement]
	feed := func() int {
		n := 0
		for _, tx := range txs {
			raw := tx.Encode()
			if validator(context.Background(), p2p.NewMessage(raw)) != p2p.ValidationAccept {
				continue
			}
			handler(p2p.NewEvent(nextPeer(), txpool.RPCEventPostTransactionAnnouncement, raw))
			n++
		}
		return n
	}
	// reorg starts one goroutine per sender: give a stuck promotion step a deadline of its own
	reorg := func() bool {
		done := make(chan struct{})
		go func() { pool.VerifReorgOnce(); close(done) }()
		select {
		case <-done:
			return true
		case <-time.After(120 * time.Second):
			return false
		}
	}
	fed := feed()
	admitted := len(pool.GetAll())
	if !reorg() || !reorg() {
		return "reorg-stuck"
	}
	afterReorg := len(pool.GetAll())
	processable := len(pool.GetProcessable())
	wr := &nullWriter{}
	conn.rpc[txpool.RPCEndpointGetTransactions](wr, &p2p.Request{ID: "verif", Procedure: txpool.RPCEndpointGetTransactions, PeerID: nextPeer()})
	feed()
	if !reorg() {
		return "reorg-stuck"
	}
	pool.GetProcessable()
	for _, tx := range pool.GetAll() {
		pool.Remove(tx.ID)
	}
	if !reorg() {
		return "reorg-stuck"
	}
	txpoolStats.Lock()
	txpoolStats.fed += fed
	txpoolStats.admitted += admitted
	txpoolStats.processable += processable
	if afterReorg < admitted {
		txpoolStats.removedByReorg += admitted - afterReorg
	}
	txpoolStats.Unlock()
	if admitted == 0 {
		return "none-admitted"
	}
	return "ok"
}

func addStatefulEntries(w *World, add func(e *Entry)) {
	add(&Entry{Name: "scen.commits", Net: true, Tags: []string{"args.scen.commits"}, Box: 5 * time.Minute, AllocConst: 1 << 30,
		Suffix: func(in []byte) string {
			if len(in) != 4 {
				return ""
			}
			return fmt.Sprintf("world=%d", in[0])
		},
		Fn: commitCase})
	add(&Entry{Name: "scen.txpool", Net: true, Tags: []string{"args.scen.txpool"}, Box: 20 * time.Minute, AllocConst: 1 << 30,
		Fn: func(in []byte) string { return txpoolCase(w, in) },
		Judge: func(in []byte, verdict string) (string, string) {
			if verdict == "reorg-stuck" {
				return "hang", fmt.Sprintf("the promotion step of the transaction pool did not return within 120 s (ladder %d, application script %d)", in[0], in[1])
			}
			return "", ""
		}})
}
