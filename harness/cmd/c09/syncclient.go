package main

// The synchronisation CLIENT on adversarial answers (family "syncc" of spec/WireFuzz.tla).
//
// process() of the real Executer routes a block of a different chain into syncer.Sync: fast sync (offered block within two
// rounds, generator known) or block sync (the node is more than three rounds behind real time).  Both then ask the
// offering peer - here a second in-process p2p node on loopback whose three handlers answer from a SCRIPT - for its last
// block, the highest common block and the blocks after an id, and consume ids, heights and block lists the peer chose.
// The production statements of request.go / fast_sync.go / block_sync.go / download.go run, not copies.
//
// A case is <<mode, last, common, blocks>> (input = these four bytes):
//   mode    0 fast sync, 1 block sync
//   last    answer to getLastBlock         0 honest 1 empty 2 garbage 3 height 2^32-1 (re-signed) 4 never 5 genesis (no priority) 6 error
//   common  answer to getHighestCommonBlock 0 honest 1 empty (none) 2 unknown 32-byte id 3 5-byte id 4 33-byte id
//                                          5 genesis id (below the finalized height) 6 the node's own tip 7 never 8 garbage 9 error
//   blocks  answer to getBlocksFromId      0 honest 1 validly encoded EMPTY list 2 empty list in a non-empty encoding (unknown field)
//                                          3 the same block for ever 4 descending, one block per answer 5 gapped heights 6 never
//                                          7 garbage 8 error 9 all but the last block, then empty lists
// Specified outcome of every case: process() RETURNS (the node is on its own or on the peer's chain) - in bounded time
// with a bounded number of requests.  A loop is reported as a hang only when the peer COUNTED the requests of a loop that
// does not end (>= loopProof answers to one procedure); a box that expires with fewer requests is a slow machine: inconclusive.

import (
	"bytes"
	"context"
	"fmt"
	"os"
	"strings"
	"sync"
	"sync/atomic"
	"time"

	"github.com/LiskHQ/lisk-engine/pkg/blockchain"
	lsync "github.com/LiskHQ/lisk-engine/pkg/consensus/sync"
	"github.com/LiskHQ/lisk-engine/pkg/crypto"
	"github.com/LiskHQ/lisk-engine/pkg/log"
	"github.com/LiskHQ/lisk-engine/pkg/p2p"

	"verifharness/internal/node"
	"verifharness/internal/tj"
)

const (
	syncNVal  = 4
	loopProof = 80 // answers to ONE procedure within one process() call that prove a loop without progress (honest cases need < 10)
)

var (
	lastNames   = []string{"honest", "empty", "garbage", "height-max", "never", "no-priority", "error"}
	commonNames = []string{"honest", "none", "unknown-id", "short-id", "long-id", "below-finalized", "own-tip", "never", "garbage", "error"}
	blocksNames = []string{"honest", "empty", "empty-unknown-field", "same-forever", "descending", "gapped", "never", "garbage", "error", "truncated"}
)

func syncSuffix(in []byte) string {
	if len(in) != 4 || int(in[1]) >= len(lastNames) || int(in[2]) >= len(commonNames) || int(in[3]) >= len(blocksNames) {
		return "malformed-case"
	}
	s := ""
	if in[1] != 0 {
		s += "last=" + lastNames[in[1]]
	}
	if in[2] != 0 {
		if s != "" {
			s += ","
		}
		s += "common=" + commonNames[in[2]]
	}
	if in[3] != 0 {
		if s != "" {
			s += ","
		}
		s += "blocks=" + blocksNames[in[3]]
	}
	if s == "" {
		s = "honest"
	}
	if in[0] == 1 {
		return "block:" + s
	}
	return "fast:" + s
}

// syncGated: scripts that end in a loop on the UNCHANGED tree (defect candidate: Downloader.Start only ends on an error, a
// cancelled context or the announced last id; a peer that keeps answering without ever delivering that id keeps the
// consensus goroutine in Sync for ever).  They run with VERIF_EXPERIMENTAL=1 only, each under its own key.
func syncGated(in []byte) bool {
	if len(in) != 4 {
		return false
	}
	mode, last, common, blocks := in[0], in[1], in[2], in[3]
	if common != 0 && common != 6 {
		return false // the download is never reached
	}
	if mode == 1 && last != 0 && last != 3 {
		return false // block sync gives up before the download
	}
	switch blocks {
	case 1, 2, 9:
		return true // empty lists: no progress, no error
	case 3, 4, 5:
		return mode == 0 // fast sync collects without looking at heights; block sync processes each block and fails on the second
	case 0:
		return mode == 1 && last == 3 // the announced last block (height 2^32-1) is never delivered: empty lists after the real tip
	}
	return false
}

func syncConfig() *node.Config {
	w := make([]uint64, syncNVal)
	g := make([]int, syncNVal)
	for i := range w {
		w[i] = 1
		g[i] = i + 1
	}
	return &node.Config{NVal: syncNVal, Batch: syncNVal, Init: node.ParamSet{PcT: 3, CertT: 3, W: w, Gens: g}, Now: 60, Network: true}
}

type scriptedPeer struct {
	conn     *p2p.Connection
	mu       sync.Mutex
	blocks   []*blockchain.Block // the peer's chain, blocks[0] = genesis
	victim   *node.Node
	script   [3]byte
	served   [3]int64 // answers per procedure
	cursor   int      // script "descending"
	release  chan struct{}
	chainID  []byte
	common   int
	stopOnce sync.Once
}

func (sp *scriptedPeer) stop() {
	sp.stopOnce.Do(func() {
		close(sp.release)
		sp.conn.Stop() //nolint:errcheck // best effort
	})
}

func (sp *scriptedPeer) find(id []byte) int {
	for i, b := range sp.blocks {
		if bytes.Equal(b.Header.ID, id) {
			return i
		}
	}
	return -1
}

func resign(b *blockchain.Block, chainID []byte, f func(h *blockchain.BlockHeader)) *blockchain.Block {
	h := *b.Header
	f(&h)
	for id := 1; id <= syncNVal; id++ {
		if bytes.Equal(node.Validator(id).Address, h.GeneratorAddress) {
			h.Sign(chainID, node.Validator(id).PrivKey)
		}
	}
	return &blockchain.Block{Header: &h, Transactions: b.Transactions, Assets: b.Assets}
}

func newScriptedPeer(blocks []*blockchain.Block, victim *node.Node, common int, script [3]byte) (*scriptedPeer, error) {
	logger, _ := log.NewSilentLogger()
	c := p2p.NewConnection(logger, &p2p.Config{ChainID: victim.ChainID, Addresses: []string{"/ip4/127.0.0.1/tcp/0"}})
	sp := &scriptedPeer{conn: c, blocks: blocks, victim: victim, script: script, release: make(chan struct{}), chainID: victim.ChainID, common: common}
	never := func() { <-sp.release }
	garbage := bytes.Repeat([]byte{0xff, 0x07, 0x80}, 20)
	tip := func() *blockchain.Block { return sp.blocks[len(sp.blocks)-1] }
	c.RegisterRPCHandler(lsync.RPCEndpointGetLastBlock, func(w p2p.ResponseWriter, r *p2p.Request) { //nolint:errcheck // registered before Start
		atomic.AddInt64(&sp.served[0], 1)
		switch sp.script[0] {
		case 1:
			w.Write([]byte{})
		case 2:
			w.Write(garbage)
		case 3:
			w.Write(resign(tip(), sp.chainID, func(h *blockchain.BlockHeader) { h.Height = 1<<32 - 1 }).Encode())
		case 4:
			never()
		case 5:
			w.Write(sp.blocks[0].Encode())
		case 6:
			w.Error(fmt.Errorf("scripted error"))
		default:
			w.Write(tip().Encode())
		}
	})
	c.RegisterRPCHandler(lsync.RPCEndpointGetHighestCommonBlock, func(w p2p.ResponseWriter, r *p2p.Request) { //nolint:errcheck // registered before Start
		atomic.AddInt64(&sp.served[1], 1)
		id := func(b []byte) { w.Write((&lsync.GetHighestCommonBlockResponse{ID: b}).Encode()) }
		switch sp.script[1] {
		case 1:
			w.Write(nil)
		case 2:
			id(crypto.Hash([]byte("a block nobody has")))
		case 3:
			id([]byte{1, 2, 3, 4, 5})
		case 4:
			id(append(append([]byte{}, sp.blocks[sp.common].Header.ID...), 0))
		case 5:
			id(sp.blocks[0].Header.ID)
		case 6:
			id(sp.victim.Tip().Header.ID)
		case 7:
			never()
		case 8:
			w.Write(garbage)
		case 9:
			w.Error(fmt.Errorf("scripted error"))
		default:
			req := &lsync.GetHighestCommonBlockRequest{}
			best := -1
			if req.Decode(r.Data) == nil {
				for _, x := range req.IDs {
					if i := sp.find(x); i > best {
						best = i
					}
				}
			}
			if best < 0 {
				w.Write(nil)
				return
			}
			id(sp.blocks[best].Header.ID)
		}
	})
	c.RegisterRPCHandler(lsync.RPCEndpointGetBlocksFromID, func(w p2p.ResponseWriter, r *p2p.Request) { //nolint:errcheck // registered before Start
		atomic.AddInt64(&sp.served[2], 1)
		sp.mu.Lock()
		defer sp.mu.Unlock()
		req := &lsync.GetBlocksFromIDRequest{}
		from := -1
		if req.Decode(r.Data) == nil {
			from = sp.find(req.ID)
		}
		if from < 0 {
			// an id of the node's own chain (scripts that name another common block): serve from the fork point
			from = sp.common
		}
		list := func(bs []*blockchain.Block) { w.Write((&lsync.GetBlocksFromIDResponse{Blocks: bs}).Encode()) }
		rest := sp.blocks[from+1:]
		switch sp.script[2] {
		case 1:
			w.Write([]byte{})
		case 2:
			w.Write([]byte{0x10, 0x01}) // field 2, varint 1: no block, decodes (the decoder is not strict)
		case 3:
			list(sp.blocks[sp.common+1 : sp.common+2])
		case 4:
			// one block per answer, walking DOWN from the peer's tip (never the announced one twice in a row)
			k := len(sp.blocks) - 2 - sp.cursor%(len(sp.blocks)-2)
			sp.cursor++
			list(sp.blocks[k : k+1])
		case 5:
			g := []*blockchain.Block{}
			for i := 1; i < len(rest); i += 2 {
				g = append(g, rest[i])
			}
			if len(g) > 0 && len(rest)%2 == 0 {
				g = g[:len(g)-1] // never the announced last block
			}
			list(g)
		case 6:
			sp.mu.Unlock()
			never()
			sp.mu.Lock()
		case 7:
			w.Write(garbage)
		case 8:
			w.Error(fmt.Errorf("scripted error"))
		case 9:
			if len(rest) > 0 {
				rest = rest[:len(rest)-1]
			}
			list(rest)
		default:
			list(rest)
		}
	})
	if err := c.Start(crypto.RandomBytes(32)); err != nil {
		return nil, err
	}
	return sp, nil
}

type syncOutcome struct {
	verdict string
	what    string
}

var syncStats = struct {
	sync.Mutex
	reached map[string]int // mode -> cases in which the peer was asked at least once
	served  [3]int64
}{reached: map[string]int{}}

// syncCase runs one case on a fresh victim and a fresh scripted peer.
func syncCase(in []byte, box time.Duration) (res syncOutcome) {
	if len(in) != 4 || in[0] > 1 || int(in[1]) >= len(lastNames) || int(in[2]) >= len(commonNames) || int(in[3]) >= len(blocksNames) {
		return syncOutcome{"reject", ""}
	}
	mode := in[0]
	fail := func(err error) syncOutcome { return syncOutcome{"harness", err.Error()} }
	cfg := syncConfig()
	ts := uint32(time.Now().Unix()) - uint32(cfg.Now)*node.BlockTime - node.BlockTime/2
	a, err := node.New(cfg, nil, ts)
	if err != nil {
		return fail(err)
	}
	defer a.Close()
	b, err := node.New(syncConfig(), nil, ts)
	if err != nil {
		return fail(err)
	}
	defer b.Close()
	// common prefix, then the node's own fork (2 blocks) and the peer's fork (fast: 4 blocks, block sync: 14 > two rounds)
	const P = 7
	slot := 1
	for i := 0; i < P; i++ {
		if _, err := a.Extend(slot, i%2); err != nil {
			return fail(err)
		}
		if _, err := b.Extend(slot, i%2); err != nil {
			return fail(err)
		}
		slot++
	}
	if !bytes.Equal(a.Tip().Header.ID, b.Tip().Header.ID) {
		return fail(fmt.Errorf("the two nodes do not share the prefix"))
	}
	sa, sb := slot, slot+1
	for i := 0; i < 2; i++ {
		if _, err := a.Extend(sa, 0); err != nil {
			return fail(err)
		}
		sa += 4 // the same validator's slots: no prevotes on the node's own fork
	}
	fb := 4
	if mode == 1 {
		fb = 14
	}
	for i := 0; i < fb; i++ {
		if _, err := b.Extend(sb, i%2); err != nil {
			return fail(err)
		}
		sb++
	}
	peerBlocks := []*blockchain.Block{}
	for h := uint32(0); h <= b.Tip().Header.Height; h++ {
		blk, err := b.Chain.DataAccess().GetBlockByHeight(h)
		if err != nil {
			return fail(err)
		}
		peerBlocks = append(peerBlocks, blk)
	}
	sp, err := newScriptedPeer(peerBlocks, a, P, [3]byte{in[1], in[2], in[3]})
	if err != nil {
		return fail(err)
	}
	defer sp.stop()
	addrs, err := sp.conn.MultiAddress()
	if err != nil || len(addrs) == 0 {
		return fail(fmt.Errorf("scripted peer has no address"))
	}
	ai, _ := p2p.AddrInfoFromMultiAddr(addrs[0])
	if err := a.Conn.Connect(context.Background(), *ai); err != nil {
		return fail(err)
	}
	for i := 0; i < 100 && len(a.Conn.ConnectedPeers()) == 0; i++ {
		time.Sleep(10 * time.Millisecond)
	}
	offered := peerBlocks[len(peerBlocks)-1]
	ownTip := a.Tip().Header.ID
	type pr struct {
		err      error
		panicked bool
		pv       string
		top      string
		lisk     string
	}
	done := make(chan pr, 1)
	t0 := time.Now()
	go func() {
		var r pr
		defer func() {
			if p := recover(); p != nil {
				r.panicked, r.pv = true, fmt.Sprint(p)
				r.top, r.lisk = siteOf()
			}
			done <- r
		}()
		r.err = a.Ex.VerifProcess(offered, sp.conn.ID())
	}()
	var r pr
	timedOut := false
	expiry := time.After(box)
wait:
	for {
		select {
		case r = <-done:
			break wait
		case <-expiry:
			timedOut = true
			break wait
		case <-time.After(250 * time.Millisecond):
			// a loop is proven by the number of requests, not by the clock: no need to sit out the box
			for i := range sp.served {
				if atomic.LoadInt64(&sp.served[i]) >= 2*loopProof {
					timedOut = true
					break wait
				}
			}
		}
	}
	served := [3]int64{atomic.LoadInt64(&sp.served[0]), atomic.LoadInt64(&sp.served[1]), atomic.LoadInt64(&sp.served[2])}
	syncStats.Lock()
	if served[0]+served[1]+served[2] > 0 {
		syncStats.reached[[]string{"fast", "block"}[mode]]++
	}
	for i := range served {
		syncStats.served[i] += served[i]
	}
	syncStats.Unlock()
	if os.Getenv("C09_DEBUG") != "" {
		fmt.Fprintf(os.Stderr, "sync case %v %s: timedOut=%v served=%v err=%v panic=%v %.1fs\n", in, syncSuffix(in), timedOut, served, r.err, r.pv, time.Since(t0).Seconds())
	}
	if timedOut {
		// end the loop so that the node can be closed: the peer goes away
		sp.stop()
		select {
		case <-done:
		case <-time.After(20 * time.Second):
		}
		for i, n := range served {
			if n >= loopProof {
				v := "hang"
				if i == 2 {
					v = "hang-download"
				}
				return syncOutcome{v, fmt.Sprintf("process() of a block offered by a scripted peer (%s) does not return: after %.0f s the node had sent %d %s requests for a chain of %d blocks and was still asking (a loop that the peer keeps alive; the consensus goroutine is blocked for ever)",
					syncSuffix(in), time.Since(t0).Seconds(), n, []string{lsync.RPCEndpointGetLastBlock, lsync.RPCEndpointGetHighestCommonBlock, lsync.RPCEndpointGetBlocksFromID}[i], len(peerBlocks))}
			}
		}
		return syncOutcome{"slow", fmt.Sprintf("process() did not return within %v but only %v requests were answered: slow machine, no verdict", box, served)}
	}
	if r.panicked {
		return syncOutcome{"panic@" + r.top, fmt.Sprintf("process() of a block offered by a scripted peer (%s) panicked: %s [at %s]", syncSuffix(in), r.pv, r.lisk)}
	}
	switch {
	case bytes.Equal(a.Tip().Header.ID, offered.Header.ID):
		return syncOutcome{"ok", ""}
	case bytes.Equal(a.Tip().Header.ID, ownTip):
		return syncOutcome{"own", ""}
	}
	return syncOutcome{"partial", ""}
}

func syncBox() time.Duration {
	box := 30 * time.Second
	if thoroughTier {
		box = 60 * time.Second
	}
	if v := tj.EnvInt("C09_SYNC_BOX", 0); v > 0 {
		box = time.Duration(v) * time.Second // development aid
	}
	return box
}

func syncJudge(in []byte, o syncOutcome) (string, string) {
	if strings.HasPrefix(o.verdict, "panic@") {
		return o.verdict, o.what
	}
	switch o.verdict {
	case "hang-download":
		// the loop of Downloader.Start (defect candidate of the unchanged tree, see syncGated): reported with VERIF_EXPERIMENTAL=1
		if !experimental() {
			return "", ""
		}
		return "hang", o.what
	case "hang":
		return "hang", o.what
	case "slow":
		return "inconclusive", o.what
	case "harness":
		return "inconclusive", "set-up of the two nodes failed: " + o.what
	}
	return "", ""
}

// syncParallel runs independent cases (each has its own two nodes) on a few goroutines: most of their time is waiting for
// request time-outs.  The case in flight is noted in the slot file like a call of the measured path.
func syncParallel(r *Runner, e *Entry, inputs [][]byte, workers int) map[string]int {
	type done struct {
		in []byte
		o  syncOutcome
	}
	jobs := make(chan []byte, len(inputs))
	res := make(chan done, len(inputs))
	for _, in := range inputs {
		jobs <- in
	}
	close(jobs)
	box := syncBox()
	var wg sync.WaitGroup
	for k := 0; k < workers; k++ {
		wg.Add(1)
		go func(k int) {
			defer wg.Done()
			for in := range jobs {
				if r.slots != nil {
					r.slots.set(40+k, e.idx, in)
				}
				o := syncCase(in, box)
				if r.slots != nil {
					r.slots.clear(40 + k)
				}
				res <- done{in, o}
			}
		}(k)
	}
	wg.Wait()
	close(res)
	out := map[string]int{}
	var last syncOutcome
	saved := e.Judge
	e.Judge = func(in []byte, verdict string) (string, string) { return syncJudge(in, last) }
	for d := range res {
		last = d.o
		r.Account(e, d.in, "scen:syncc", d.o.verdict)
		v := d.o.verdict
		if strings.HasPrefix(v, "panic@") {
			v = "panic"
		}
		out[v]++
	}
	e.Judge = saved
	return out
}

func addSyncEntries(add func(e *Entry)) {
	box := syncBox()
	var last syncOutcome
	add(&Entry{Name: "sync.client", Net: true, Tags: []string{"args.syncc"}, Box: box + 60*time.Second, AllocConst: 1 << 30, Suffix: syncSuffix,
		Fn: func(in []byte) string {
			last = syncCase(in, box)
			return last.verdict
		},
		Judge: func(in []byte, verdict string) (string, string) { return syncJudge(in, last) }})
}
