package main

// The real node state from which valid messages are taken: a consensus.Executer + Chain on in-memory
// pebble (internal/node, toy application) with 9 validators (so that an aggregation bitmap needs two
// bytes), a chain of 130 blocks (single commits are only admitted for heights above precommitted-100) with transactions, one aggregate commit already certified on chain and a
// window of precommitted, not yet certified heights for which sound single and aggregate commits exist.

import (
	"bytes"
	"context"
	"fmt"
	"sort"
	"sync/atomic"

	"github.com/LiskHQ/lisk-engine/pkg/blockchain"
	"github.com/LiskHQ/lisk-engine/pkg/consensus"
	"github.com/LiskHQ/lisk-engine/pkg/consensus/certificate"
	lsync "github.com/LiskHQ/lisk-engine/pkg/consensus/sync"
	"github.com/LiskHQ/lisk-engine/pkg/crypto"
	"github.com/LiskHQ/lisk-engine/pkg/db"
	"github.com/LiskHQ/lisk-engine/pkg/labi"
	"github.com/LiskHQ/lisk-engine/pkg/log"
	"github.com/LiskHQ/lisk-engine/pkg/p2p"
	"github.com/LiskHQ/lisk-engine/pkg/trie/rmt"
	"github.com/LiskHQ/lisk-engine/pkg/trie/smt"
	"github.com/LiskHQ/lisk-engine/pkg/txpool"

	"verifharness/internal/node"
)

const (
	nVal     = 9
	chainLen = 130
)

type World struct {
	N         *node.Node
	GenesisTS uint32
	Cand      *blockchain.Block // valid successor of the tip (never applied): 2 transactions, non-empty aggregate commit
	Stored    *blockchain.Block // a block of the chain that carries the on-chain aggregate commit
	AC        *blockchain.AggregateCommit
	ACHeight  uint32
	Singles   *consensus.EventPostSingleCommits
	Keys      [][]byte // BLS keys ascending (the order verifyAggregateCommit uses)
	Syncer    *lsync.Syncer
	Pool      *txpool.TransactionPool
	PoolConn  *fakePoolConn
	Obs       *node.Obs
	logger    log.Logger
	rpc       *rpcWorld
	// Probe: a second started connection of the harness' own making that carries the REAL handlers of the node (sync, pool)
	// behind a counter: what the request stream handler did with a request (handler ran / peer banned / neither) is observable
	Probe        *p2p.Connection
	ProbeHandled int64
	Notes        []string // sanity checks of the set-up that did not hold (reported as harness errors)

	SmtKeys    [][]byte
	SmtRoot    []byte
	SmtProof   *smt.Proof
	Rmt        map[int]*rmtCase
	RmtQueries [][]byte
	RmtRoot    []byte
	RmtProof   *rmt.Proof
}

// fakePoolConn captures what the transaction pool registers on its p2p connection.
type fakePoolConn struct {
	rpc       map[string]p2p.RPCHandler
	handler   map[string]p2p.EventHandler
	validator map[string]p2p.Validator
}

func (f *fakePoolConn) Broadcast(ctx context.Context, event string, data []byte) error { return nil }
func (f *fakePoolConn) RegisterRPCHandler(endpoint string, handler p2p.RPCHandler, opts ...p2p.RPCHandlerOption) error {
	f.rpc[endpoint] = handler
	return nil
}
func (f *fakePoolConn) RegisterEventHandler(name string, handler p2p.EventHandler, validator p2p.Validator) error {
	f.handler[name] = handler
	f.validator[name] = validator
	return nil
}
func (f *fakePoolConn) ApplyPenalty(pid p2p.PeerID, score int) {}
func (f *fakePoolConn) RequestFrom(ctx context.Context, peerID p2p.PeerID, procedure string, data []byte) p2p.Response {
	return *p2p.NewResponse(0, peerID, nil, fmt.Errorf("no network"))
}
func (f *fakePoolConn) Publish(ctx context.Context, topicName string, data []byte) error { return nil }

func genOf(slot int) int { return slot%nVal + 1 }

func nodeConfig(network bool) *node.Config {
	w := make([]uint64, nVal)
	g := make([]int, nVal)
	for i := range w {
		w[i] = 1
		g[i] = i + 1
	}
	return &node.Config{NVal: nVal, Batch: nVal, Init: node.ParamSet{PcT: 7, CertT: 7, W: w, Gens: g}, Now: chainLen + 12, Network: network}
}

func signers(k int) []int {
	s := []int{}
	for i := 1; i <= k; i++ {
		s = append(s, i)
	}
	return s
}

func (w *World) cand(h uint32, acH uint32, acKind string, ntx int) *node.Cand {
	o, err := w.N.Observe()
	if err != nil {
		panic(err)
	}
	c := &node.Cand{Version: 2, H: h, Prev: "tip", Slot: int(h), Gen: genOf(int(h)), Signer: genOf(int(h)), Sig: "ok", Mhp: o.Mhpv, Ntx: ntx}
	if h > nVal {
		c.Mhg = h - nVal
	}
	c.Ac.H, c.Ac.Kind, c.Ac.Signers = acH, acKind, signers(7)
	return c
}

func newWorld(genesisTS uint32, network bool) (*World, error) {
	n, err := node.New(nodeConfig(network), nil, genesisTS)
	if err != nil {
		return nil, err
	}
	w := &World{N: n, GenesisTS: n.GenesisTS}
	w.logger, _ = log.NewSilentLogger()
	cert := uint32(0)
	for h := uint32(1); h <= chainLen; h++ {
		c := w.cand(h, cert, "empty", int(h%3))
		if h == chainLen-2 {
			o, _ := n.Observe()
			if o.Mhpc < 4 {
				return nil, fmt.Errorf("chain of %d blocks has precommitted height %d only", h, o.Mhpc)
			}
			c = w.cand(h, 3, "valid", 2)
			cert = 3
		}
		b := n.Build(c)
		if err := n.Ex.VerifProcess(b, "12D3KooWverifpeer"); err != nil || !bytes.Equal(n.Tip().Header.ID, b.Header.ID) {
			return nil, fmt.Errorf("chain block %d not accepted: %v", h, err)
		}
		if h == chainLen-2 {
			w.Stored = b
		}
	}
	o, err := n.Observe()
	if err != nil {
		return nil, err
	}
	w.Obs = o
	if o.Cert != 3 || o.Mhpc <= o.Cert+2 {
		return nil, fmt.Errorf("unexpected BFT heights %+v", o)
	}
	w.ACHeight = o.Mhpc - 1
	w.AC = n.AggregateCommit(w.ACHeight, "valid", signers(7))
	if err := n.Ex.VerifVerifyAggregateCommit(w.AC); err != nil {
		return nil, fmt.Errorf("the sound aggregate commit is rejected: %v", err)
	}
	w.Cand = n.Build(w.cand(chainLen+1, w.ACHeight, "valid", 2))
	w.Cand.Assets = blockchain.BlockAssets{{Module: "toy", Data: []byte{0}}}
	// (assets are part of the header's asset root: rebuild the candidate with the asset in place)
	w.Cand = w.rebuildWithAsset()
	if r := n.Ex.VerifBlockValidator(w.Cand.Encode()); r != p2p.ValidationAccept {
		return nil, fmt.Errorf("the valid candidate block is not accepted by blockValidator")
	}
	if err := n.Ex.VerifVerifyBlock(w.Cand); err != nil {
		return nil, fmt.Errorf("the valid candidate block does not verify: %v", err)
	}
	// single commits of two validators for two uncertified heights
	scs := []*certificate.SingleCommit{}
	for i, h := range []uint32{o.Mhpc, o.Mhpc - 1} {
		hdr, err := n.Chain.DataAccess().GetBlockHeaderByHeight(h)
		if err != nil {
			return nil, err
		}
		v := node.Validator(i + 2)
		scs = append(scs, certificate.NewSingleCommit(hdr, v.Address, n.ChainID, v.BLS.PrivateKey))
	}
	w.Singles = &consensus.EventPostSingleCommits{SingleCommits: scs}
	n.Ex.VerifSingleCommitValidator(w.Singles.Encode())
	if n.Ex.VerifPool().Size() != 2 {
		return nil, fmt.Errorf("valid single commits did not enter the pool (%d)", n.Ex.VerifPool().Size())
	}
	n.Ex.VerifPool().Cleanup(func(uint32) bool { return false })
	for i := 1; i <= nVal; i++ {
		w.Keys = append(w.Keys, node.Validator(i).BLS.PublicKey)
	}
	sort.Slice(w.Keys, func(i, j int) bool { return bytes.Compare(w.Keys[i], w.Keys[j]) < 0 })
	w.Syncer = lsync.NewSyncer(n.Chain, n.Slot, n.Conn, w.logger, nil, nil)
	// transaction pool on a recording connection: gives access to its validator, event and RPC handlers
	w.PoolConn = &fakePoolConn{rpc: map[string]p2p.RPCHandler{}, handler: map[string]p2p.EventHandler{}, validator: map[string]p2p.Validator{}}
	w.Pool = txpool.NewTransactionPool(&txpool.TransactionPoolConfig{MaxTransactions: 64})
	if err := w.Pool.Init(context.Background(), w.logger, n.DB, n.Chain, w.PoolConn, poolABI{}); err != nil {
		return nil, err
	}
	if err := w.buildProofs(); err != nil {
		return nil, err
	}
	if network {
		if err := w.startProbe(); err != nil {
			return nil, err
		}
	}
	return w, nil
}

func (w *World) startProbe() error {
	n := w.N
	pc := p2p.NewConnection(w.logger, &p2p.Config{ChainID: n.ChainID, Addresses: []string{"/ip4/127.0.0.1/tcp/0"}})
	sy := lsync.NewSyncer(n.Chain, n.Slot, pc, w.logger, nil, nil)
	counted := func(name string, h p2p.RPCHandler) error {
		return pc.RegisterRPCHandler(name, func(wr p2p.ResponseWriter, r *p2p.Request) {
			atomic.AddInt64(&w.ProbeHandled, 1)
			h(wr, r)
		})
	}
	for name, h := range map[string]p2p.RPCHandler{
		lsync.RPCEndpointGetLastBlock:          sy.HandleRPCEndpointGetLastBlock(),
		lsync.RPCEndpointGetHighestCommonBlock: sy.HandleRPCEndpointGetHighestCommonBlock(),
		lsync.RPCEndpointGetBlocksFromID:       sy.HandleRPCEndpointGetBlocksFromID(),
		txpool.RPCEndpointGetTransactions:      w.PoolConn.rpc[txpool.RPCEndpointGetTransactions],
	} {
		if err := counted(name, h); err != nil {
			return err
		}
	}
	if err := pc.Start(crypto.RandomBytes(32)); err != nil {
		return err
	}
	w.Probe = pc
	return nil
}

type poolABI struct{}

func (poolABI) VerifyTransaction(req *labi.VerifyTransactionRequest) (*labi.VerifyTransactionResponse, error) {
	return &labi.VerifyTransactionResponse{Result: labi.TxVerifyResultOk}, nil
}

// rebuildWithAsset: the candidate with one block asset, asset root recomputed and the header re-signed.
func (w *World) rebuildWithAsset() *blockchain.Block {
	b := w.Cand
	assets := blockchain.BlockAssets(b.Assets)
	b.Header.AssetRoot = assets.GetRoot()
	b.Header.StateRoot = node.NextRoot(w.N.Tip().Header.StateRoot, b.Header.Height, b.Transactions, b.Assets)
	b.Header.Sign(w.N.ChainID, node.Validator(genOf(int(b.Header.Height))).PrivKey)
	return b
}

// ---------------------------------------------------------------------------------------------- proofs

const smtKeyLen = 4

func (w *World) buildProofs() error {
	d, err := db.NewInMemoryDB()
	if err != nil {
		return err
	}
	// sparse Merkle trie with 6 keys; proof for two present keys and one absent key
	trie := smt.NewTrie(nil, smtKeyLen)
	keys, vals := [][]byte{}, [][]byte{}
	for i := 0; i < 6; i++ {
		h := crypto.Hash([]byte{byte(i), 'k'})
		keys = append(keys, h[:smtKeyLen])
		vals = append(vals, crypto.Hash([]byte{byte(i), 'v'}))
	}
	root, err := trie.Update(d, keys, vals)
	if err != nil {
		return err
	}
	absent := crypto.Hash([]byte("absent"))[:smtKeyLen]
	w.SmtKeys = [][]byte{keys[0], keys[3], absent}
	w.SmtRoot = root
	if w.SmtProof, err = smt.NewTrie(root, smtKeyLen).Prove(d, w.SmtKeys); err != nil {
		return err
	}
	// (not fatal: a verifier that rejects - or panics on - the honest proof is seen again, under recover(), by the entry
	// points; the note makes the run inconclusive only if nothing was found)
	if note := honest(func() (bool, error) { return smt.Verify(w.SmtKeys, w.SmtProof.Copy(), root, smtKeyLen) }); note != "" {
		w.Notes = append(w.Notes, "the honest SMT proof does not verify: "+note)
	}
	// regular Merkle trees of several sizes with a proof for two leaves each
	w.Rmt = map[int]*rmtCase{}
	for _, size := range []int{1, 2, 3, 5, 8, 13} {
		st, err := db.NewInMemoryDB()
		if err != nil {
			return err
		}
		tree := rmt.NewRegularMerkleTree(st)
		leaves := [][]byte{}
		for i := 0; i < size; i++ {
			v := crypto.Hash([]byte{byte(i), 'l'})
			leaves = append(leaves, v)
			if err := tree.Append(v); err != nil {
				return err
			}
		}
		q := [][]byte{rmtLeafHash(leaves[0])}
		if size > 2 {
			q = append(q, rmtLeafHash(leaves[size-2]))
		}
		p, err := tree.GenerateProof(q)
		if err != nil {
			return err
		}
		c := &rmtCase{Size: size, Queries: q, Proof: p, Root: tree.Root(), AppendPath: tree.AppendPath()}
		if !rmt.VerifyProof(q, &rmt.Proof{Size: p.Size, Idxs: append([]uint64{}, p.Idxs...), SiblingHashes: append([][]byte{}, p.SiblingHashes...)}, c.Root) {
			return fmt.Errorf("the honest RMT proof of size %d does not verify", size)
		}
		w.Rmt[size] = c
	}
	w.RmtQueries, w.RmtRoot, w.RmtProof = w.Rmt[8].Queries, w.Rmt[8].Root, w.Rmt[8].Proof
	return nil
}

// honest runs a sanity check of the set-up under recover(): "" = holds.
func honest(f func() (bool, error)) (note string) {
	defer func() {
		if p := recover(); p != nil {
			note = fmt.Sprintf("panic: %v", p)
		}
	}()
	ok, err := f()
	if err != nil {
		return err.Error()
	}
	if !ok {
		return "rejected"
	}
	return ""
}

type rmtCase struct {
	Size       int
	Queries    [][]byte
	Proof      *rmt.Proof
	Root       []byte
	AppendPath [][]byte
}

func rmtLeafHash(v []byte) []byte { return crypto.Hash(append([]byte{0}, v...)) }
