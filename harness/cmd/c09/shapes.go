package main

// Concretisation of the argument-shape cases of spec/WireFuzz.tla (families agg, bls1, ed, rmt, smt, rmtrw)
// and struct-level "decodable but odd" blocks.

import (
	"bytes"

	"github.com/LiskHQ/lisk-engine/pkg/blockchain"
	"github.com/LiskHQ/lisk-engine/pkg/codec"
	"github.com/LiskHQ/lisk-engine/pkg/consensus/certificate"
	"github.com/LiskHQ/lisk-engine/pkg/crypto"
	"github.com/LiskHQ/lisk-engine/pkg/db"
	"github.com/LiskHQ/lisk-engine/pkg/trie/rmt"
	"github.com/LiskHQ/lisk-engine/pkg/trie/smt"

	"verifharness/internal/node"
)

type shaped struct {
	tag string
	a   *Args
}

func rep(n int, c byte) []byte { return bytes.Repeat([]byte{c}, n) }

func resize(b []byte, n int) []byte {
	out := make([]byte, n)
	copy(out, b)
	return out
}

// offCurveKey: the valid compressed key with bytes changed until it no longer decompresses.
func offCurve(valid []byte, isKey bool) []byte {
	for i := len(valid) - 1; i > 0; i-- {
		c := append([]byte{}, valid...)
		c[i] ^= 0x5a
		if isKey {
			if new(crypto.BLSPublicKey).Uncompress(c) == nil {
				return c
			}
		} else if new(crypto.BLSSignature).Uncompress(c) == nil {
			return c
		}
	}
	return rep(len(valid), 0xaa)
}

// keyShape codes (WireFuzz.tla KeyShapes): 0 valid, 1 empty, 2 one byte, 3 47 bytes, 4 49 bytes, 5 96 bytes,
// 6 48 zero bytes, 7 point at infinity, 8 not on the curve, 9 compression flag cleared.
func keyShape(valid []byte, s int) []byte {
	switch s {
	case 1:
		return []byte{}
	case 2:
		return valid[:1]
	case 3:
		return valid[:47]
	case 4:
		return resize(valid, 49)
	case 5:
		return resize(valid, 96)
	case 6:
		return make([]byte, 48)
	case 7:
		return append([]byte{0xc0}, make([]byte, 47)...)
	case 8:
		return offCurve(valid, true)
	case 9:
		c := append([]byte{}, valid...)
		c[0] &^= 0x80
		return c
	}
	return valid
}

// sigShape codes (SigShapes): 0 valid, 1 empty, 2 one byte, 3 95 bytes, 4 97 bytes, 5 48 bytes, 6 96 zero bytes,
// 7 point at infinity, 8 not on the curve.
func sigShape(valid []byte, s int) []byte {
	switch s {
	case 1:
		return []byte{}
	case 2:
		return valid[:1]
	case 3:
		return valid[:95]
	case 4:
		return resize(valid, 97)
	case 5:
		return valid[:48]
	case 6:
		return make([]byte, 96)
	case 7:
		return append([]byte{0xc0}, make([]byte, 95)...)
	case 8:
		return offCurve(valid, false)
	}
	return valid
}

var u64Codes = []uint64{0, 1, 2, 3, 5, 8, 13, 1 << 32, 1 << 63, 1<<64 - 1}
var msgLens = []int{32, 0, 1, 1000}

func (w *World) certMessage() []byte {
	hdr, err := w.N.Chain.DataAccess().GetBlockHeaderByHeight(w.ACHeight)
	if err != nil {
		panic(err)
	}
	sb := certificate.NewCertificateFromBlock(hdr).SigningBytes()
	return crypto.Hash(bytes.Join([][]byte{[]byte("LSK_CE_"), w.N.ChainID, sb}, nil))
}

func (w *World) shape(fam string, p []int) []shaped {
	switch fam {
	case "agg":
		nk, bl, ks, ss, fill := p[0], p[1], p[2], p[3], p[4]
		keys := [][]byte{}
		for _, k := range w.Keys[:nk] {
			keys = append(keys, k)
		}
		real := []byte(w.AC.AggregationBits)
		need := (nk + 7) / 8
		n := map[int]int{0: 0, 1: need - 1, 2: need, 3: need + 1, 4: 64}[bl]
		if n < 0 {
			n = 0
		}
		bits := resize(real, n)
		switch fill {
		case 1:
			bits = rep(n, 0xff)
		case 2:
			bits = rep(n, 0)
		}
		// the shaped key is the first one the real bitmap selects
		sel := 0
		for i := 0; i < nk; i++ {
			if real[i/8]>>(uint(i)%8)&1 == 1 {
				sel = i
				break
			}
		}
		if nk > 0 {
			keys[sel] = keyShape(keys[sel], ks)
		}
		sig := sigShape(w.AC.CertificateSignature, ss)
		weights := make([]uint64, nk)
		for i := range weights {
			weights[i] = 1
		}
		out := []shaped{{"args.blsagg", &Args{Keys: keys, Bits: bits, Sig: sig, Msg: w.certMessage(), Weights: weights, Threshold: 7}}}
		if nk == nVal && ks == 0 {
			out = append(out, shaped{"args.ac", &Args{Height: w.ACHeight, Bits: bits, Sig: sig}})
		}
		return out
	case "bls1":
		v := node.Validator(2)
		m := rep(msgLens[p[2]], 0x42)
		sig := crypto.BLSSign(m, v.BLS.PrivateKey)
		return []shaped{{"args.bls1", &Args{Key: keyShape(v.BLS.PublicKey, p[0]), Sig: sigShape(sig, p[1]), Msg: m}}}
	case "ed":
		v := node.Validator(1)
		m := rep(msgLens[p[2]], 0x17)
		sig := crypto.Sign(v.PrivKey, m)
		pl := []int{32, 0, 1, 31, 33, 64}[p[0]]
		sl := []int{64, 0, 1, 63, 65, 128}[p[1]]
		return []shaped{{"args.ed", &Args{Key: resize(v.PubKey, pl), Sig: resize(sig, sl), Msg: m}}}
	case "rmt":
		sz, ix, sb, hl, nq := p[0], p[1], p[2], p[3], p[4]
		size := u64Codes[sz]
		c := w.Rmt[8]
		if r, ok := w.Rmt[int(size)]; ok && size < 100 {
			c = r
		}
		idxs := append([]uint64{}, c.Proof.Idxs...)
		switch ix {
		case 1:
			for i := range idxs {
				idxs[i] = 0
			}
		case 2:
			for i := range idxs {
				idxs[i] = 1
			}
		case 3:
			idxs[0] = 1<<20 + 1
		case 4:
			idxs[0] = 1<<64 - 1
		case 5:
			idxs = append(idxs, idxs[0])
		case 6:
			idxs = append(idxs, idxs[0]+1)
		case 7:
			idxs = []uint64{}
		case 8:
			idxs[0] |= 1 << 32
		}
		sibs := [][]byte{}
		for _, s := range c.Proof.SiblingHashes {
			sibs = append(sibs, s)
		}
		switch sb {
		case 1:
			sibs = [][]byte{}
		case 2:
			if len(sibs) > 0 {
				sibs = sibs[:len(sibs)-1]
			}
		case 3:
			sibs = append(sibs, rep(32, 7))
		case 4:
			for i := 0; i < 5; i++ {
				sibs = append(sibs, rep(32, byte(i)))
			}
		}
		hlen := []int{32, 0, 31, 33}[hl]
		if hlen != 32 {
			for i := range sibs {
				sibs[i] = resize(sibs[i], hlen)
			}
		}
		q := append([][]byte{}, c.Queries...)
		switch nq {
		case 1:
			q = [][]byte{}
		case 2:
			q = append(q, rep(32, 9))
		}
		if ix == 5 && nq == 0 {
			q = append(q, q[0]) // keep the counts equal so that the duplicate index is reached
		}
		return []shaped{{"args.rmt", &Args{Size: size, Idxs: idxs, Sibs: sibs, Queries: q, Root: c.Root}}}
	case "smt":
		qk, pk, bm, sb, qc, vl, kl := p[0], p[1], p[2], p[3], p[4], p[5], p[6]
		lenOf := func(b []byte, code int) []byte {
			switch code {
			case 1:
				return b[:len(b)-1]
			case 2:
				return resize(b, len(b)+1)
			case 3:
				return []byte{}
			}
			return b
		}
		keys := [][]byte{}
		for _, k := range w.SmtKeys {
			keys = append(keys, append([]byte{}, k...))
		}
		a := &Args{Root: w.SmtRoot, KeyLen: []int{smtKeyLen, 0, 32}[kl]}
		for _, s := range w.SmtProof.SiblingHashes {
			a.Sibs = append(a.Sibs, s)
		}
		for _, q := range w.SmtProof.Queries {
			a.PKeys = append(a.PKeys, append([]byte{}, q.Key...))
			a.PVals = append(a.PVals, append([]byte{}, q.Value...))
			a.PBitmaps = append(a.PBitmaps, append([]byte{}, q.Bitmap...))
		}
		keys[0] = lenOf(keys[0], qk)
		a.PKeys[0] = lenOf(a.PKeys[0], pk)
		switch bm {
		case 1:
			a.PBitmaps[0] = []byte{}
		case 2:
			a.PBitmaps[0] = append([]byte{0}, a.PBitmaps[0]...)
		case 3:
			a.PBitmaps[0] = rep(smtKeyLen+1, 0xff)
		case 4:
			a.PBitmaps[0] = rep(1000, 0xff)
		case 5:
			a.PBitmaps[0] = rep(smtKeyLen, 0xff)
		}
		switch sb {
		case 1:
			a.Sibs = [][]byte{}
		case 2:
			if len(a.Sibs) > 0 {
				a.Sibs = a.Sibs[:len(a.Sibs)-1]
			}
		case 3:
			a.Sibs = append(a.Sibs, rep(32, 5))
		}
		switch qc {
		case 1:
			keys = append(keys, rep(smtKeyLen, 1))
		case 2:
			a.PKeys, a.PVals, a.PBitmaps = append(a.PKeys, rep(smtKeyLen, 1)), append(a.PVals, []byte{}), append(a.PBitmaps, []byte{0x80})
		case 3:
			keys, a.PKeys, a.PVals, a.PBitmaps = [][]byte{}, nil, nil, nil
		}
		if vl == 1 && len(a.PVals) > 0 {
			a.PVals[0] = []byte{}
		}
		a.Queries = keys
		return []shaped{{"args.smt", a}}
	case "smtq":
		return w.smtqShape(p)
	case "rmtrw":
		idx := []uint64{0, 1, 2, 5, 1 << 32, 1<<64 - 1}[p[0]]
		ln := []int{0, 1, 2, 3, 40}
		mk := func(n int, c byte) [][]byte {
			out := [][]byte{}
			for i := 0; i < n; i++ {
				out = append(out, rep(32, c+byte(i)))
			}
			return out
		}
		return []shaped{{"args.rmtrw", &Args{Index: idx, Path: mk(ln[p[1]], 1), Sibs: mk(ln[p[2]], 100), Root: rep(32, 3)}}}
	}
	return nil
}

// smtq: proof-query shapes (duplicates, two queries naming one node, reordered queries) in two geometries.
type smtGeometry struct {
	keyLen int
	keys   [][]byte
	root   []byte
	proof  *smt.Proof
}

var smtGeo = map[int]*smtGeometry{}

func (w *World) smtGeometry(g int) *smtGeometry {
	if x, ok := smtGeo[g]; ok {
		return x
	}
	if g == 0 {
		smtGeo[0] = &smtGeometry{smtKeyLen, w.SmtKeys, w.SmtRoot, w.SmtProof}
		return smtGeo[0]
	}
	// 32-byte keys, 2 000 leaves; queried: four present keys, two absent keys, and for two of the present keys the key
	// that differs from it in its last bit only (absent: proven by the very leaf of its twin - two queries, one node)
	d, err := db.NewInMemoryDB()
	if err != nil {
		panic(err)
	}
	keys, vals := [][]byte{}, [][]byte{}
	for i := 0; i < 2000; i++ {
		keys = append(keys, crypto.Hash([]byte{byte(i), byte(i >> 8), 'K'}))
		vals = append(vals, crypto.Hash([]byte{byte(i), byte(i >> 8), 'V'}))
	}
	root, err := smt.NewTrie(nil, 32).Update(d, keys, vals)
	if err != nil {
		panic(err)
	}
	twin := func(k []byte) []byte { c := append([]byte{}, k...); c[31] ^= 1; return c }
	q := [][]byte{keys[0], keys[777], keys[1500], keys[1999], crypto.Hash([]byte("absent-1")), crypto.Hash([]byte("absent-2")), twin(keys[0]), twin(keys[1500])}
	proof, err := smt.NewTrie(root, 32).Prove(d, q)
	if err != nil {
		panic(err)
	}
	if note := honest(func() (bool, error) { return smt.Verify(q, proof.Copy(), root, 32) }); note != "" {
		w.Notes = append(w.Notes, "the honest 32-byte-key SMT proof does not verify: "+note)
	}
	smtGeo[1] = &smtGeometry{32, q, root, proof}
	return smtGeo[1]
}

func (w *World) smtqShape(p []int) []shaped {
	g := w.smtGeometry(p[0])
	q, ps, kd := p[1], p[2], p[3]
	a := &Args{Root: g.root, KeyLen: g.keyLen}
	for _, s := range g.proof.SiblingHashes {
		a.Sibs = append(a.Sibs, s)
	}
	keys := [][]byte{}
	for _, k := range g.keys {
		keys = append(keys, append([]byte{}, k...))
	}
	for _, x := range g.proof.Queries {
		a.PKeys = append(a.PKeys, append([]byte{}, x.Key...))
		a.PVals = append(a.PVals, append([]byte{}, x.Value...))
		a.PBitmaps = append(a.PBitmaps, append([]byte{}, x.Bitmap...))
	}
	n := len(a.PKeys)
	i := []int{0, n - 1, n / 2}[ps]
	dup := func(bm, val []byte) {
		a.PKeys, a.PVals, a.PBitmaps = append(a.PKeys, append([]byte{}, a.PKeys[i]...)), append(a.PVals, val), append(a.PBitmaps, bm)
		keys = append(keys, append([]byte{}, keys[i]...))
	}
	cp := func(b []byte) []byte { return append([]byte{}, b...) }
	switch q {
	case 1:
		dup(cp(a.PBitmaps[i]), cp(a.PVals[i]))
	case 2:
		bm := cp(a.PBitmaps[i])
		if len(bm) == 0 {
			bm = []byte{0x80}
		} else {
			bm[len(bm)-1] ^= 1
		}
		dup(bm, cp(a.PVals[i]))
	case 3:
		dup(cp(a.PBitmaps[i]), crypto.Hash(a.PVals[i]))
	case 4:
		// a second query key next to key i (last bit flipped) whose proof query is a copy of query i: both name the node of i
		tw := cp(keys[i])
		tw[len(tw)-1] ^= 1
		keys = append(keys, tw)
		a.PKeys, a.PVals, a.PBitmaps = append(a.PKeys, cp(a.PKeys[i])), append(a.PVals, cp(a.PVals[i])), append(a.PBitmaps, cp(a.PBitmaps[i]))
	case 5:
		keys = append(keys, cp(keys[i]))
	case 6:
		for j := range a.PKeys {
			a.PKeys[j], a.PVals[j], a.PBitmaps[j], keys[j] = cp(a.PKeys[i]), cp(a.PVals[i]), cp(a.PBitmaps[i]), cp(keys[i])
		}
	case 7:
		for l, r := 0, n-1; l < r; l, r = l+1, r-1 {
			a.PKeys[l], a.PKeys[r] = a.PKeys[r], a.PKeys[l]
			a.PVals[l], a.PVals[r] = a.PVals[r], a.PVals[l]
			a.PBitmaps[l], a.PBitmaps[r] = a.PBitmaps[r], a.PBitmaps[l]
			keys[l], keys[r] = keys[r], keys[l]
		}
	}
	if kd == 1 {
		keys = [][]byte{}
		for _, k := range a.PKeys {
			keys = append(keys, cp(k))
		}
	}
	a.Queries = keys
	return []shaped{{"args.smt", a}}
}

// ---------------------------------------------------------------------------------------- odd blocks

// oddBlocks: struct-level edits of the valid candidate that keep it decodable: each edit as it is (the header
// signature no longer matches) and re-signed by the slot's generator (reaches everything behind the
// signature check; an attacker who is a validator can do that).
func (w *World) oddBlocks() []mutant {
	out := []mutant{}
	gen := node.Validator(genOf(int(w.Cand.Header.Height)))
	base := w.Cand.Encode()
	edit := func(name string, f func(b *blockchain.Block) bool) {
		for _, resign := range []bool{false, true} {
			b, err := blockchain.NewBlock(base)
			if err != nil {
				panic(err)
			}
			payload := f(b)
			if resign {
				if payload {
					ids := [][]byte{}
					for _, tx := range b.Transactions {
						tx.Init()
						ids = append(ids, tx.ID)
					}
					b.Header.TransactionRoot = rmt.CalculateRoot(ids)
					b.Header.AssetRoot = blockchain.BlockAssets(b.Assets).GetRoot()
				}
				b.Header.Sign(w.N.ChainID, gen.PrivKey)
			}
			n := "odd:" + name
			if resign {
				n += "+signed"
			}
			out = append(out, mutant{n, b.Encode()})
		}
	}
	h := func(f func(h *blockchain.BlockHeader)) func(b *blockchain.Block) bool {
		return func(b *blockchain.Block) bool { f(b.Header); return false }
	}
	for _, v := range []uint32{0, 1, 3, 1<<32 - 1} {
		v := v
		edit("version", h(func(h *blockchain.BlockHeader) { h.Version = v }))
	}
	ts := w.Cand.Header.Timestamp
	for _, v := range []uint32{0, 1, ts - node.BlockTime, ts + node.BlockTime, ts + 40*node.BlockTime, 1<<32 - 1} {
		v := v
		edit("timestamp", h(func(h *blockchain.BlockHeader) { h.Timestamp = v }))
	}
	ht := w.Cand.Header.Height
	for _, v := range []uint32{0, 1, ht - 1, ht + 1, ht + 1000, 1<<31 - 1, 1 << 31, 1<<32 - 1} {
		v := v
		edit("height", h(func(h *blockchain.BlockHeader) { h.Height = v }))
		edit("mhp", h(func(h *blockchain.BlockHeader) { h.MaxHeightPrevoted = v }))
		edit("mhg", h(func(h *blockchain.BlockHeader) { h.MaxHeightGenerated = v }))
		edit("ac.height", h(func(h *blockchain.BlockHeader) { h.AggregateCommit.Height = v }))
		edit("height+prev", h(func(h *blockchain.BlockHeader) { h.Height = v; h.PreviousBlockID = crypto.Hash([]byte("other")) }))
	}
	byteVariants := func(orig []byte) [][]byte {
		return [][]byte{{}, orig[:1], orig[:len(orig)-1], resize(orig, len(orig)+1), make([]byte, len(orig)), rep(len(orig), 0xff), crypto.Hash(orig)[:min(32, len(orig))]}
	}
	for i, v := range byteVariants(w.Cand.Header.PreviousBlockID) {
		v, i := v, i
		edit("prev", h(func(h *blockchain.BlockHeader) { h.PreviousBlockID = v }))
		edit("txroot", h(func(h *blockchain.BlockHeader) { h.TransactionRoot = v }))
		edit("assetroot", h(func(h *blockchain.BlockHeader) { h.AssetRoot = v }))
		edit("eventroot", h(func(h *blockchain.BlockHeader) { h.EventRoot = v }))
		edit("stateroot", h(func(h *blockchain.BlockHeader) { h.StateRoot = v }))
		edit("vhash", h(func(h *blockchain.BlockHeader) { h.ValidatorsHash = v }))
		_ = i
	}
	for _, v := range byteVariants(w.Cand.Header.GeneratorAddress) {
		v := v
		edit("generator", h(func(h *blockchain.BlockHeader) { h.GeneratorAddress = v }))
	}
	edit("generator-other", h(func(h *blockchain.BlockHeader) { h.GeneratorAddress = node.Validator(genOf(int(ht) + 1)).Address }))
	edit("implies", h(func(h *blockchain.BlockHeader) { h.ImpliesMaxPrevotes = !h.ImpliesMaxPrevotes }))
	for _, v := range [][]byte{{}, {0}, {1}, {0xff}, {0x6f}, {0x6f, 0x01, 0x00}, {0xff, 0xff}, {0xff, 0x01}, rep(64, 0xff), rep(2, 0)} {
		v := v
		edit("ac.bits", h(func(h *blockchain.BlockHeader) { h.AggregateCommit.AggregationBits = v }))
	}
	for s := 1; s <= 8; s++ {
		s := s
		edit("ac.sig", h(func(h *blockchain.BlockHeader) {
			h.AggregateCommit.CertificateSignature = sigShape(h.AggregateCommit.CertificateSignature, s)
		}))
	}
	edit("ac.empty", h(func(h *blockchain.BlockHeader) {
		h.AggregateCommit.AggregationBits, h.AggregateCommit.CertificateSignature = []byte{}, []byte{}
	}))
	edit("ac.empty+h0", h(func(h *blockchain.BlockHeader) {
		h.AggregateCommit = &blockchain.AggregateCommit{AggregationBits: []byte{}, CertificateSignature: []byte{}}
	}))
	for _, v := range [][]byte{{}, {1}, rep(63, 1), rep(65, 1), rep(64, 0), rep(64, 0xff)} {
		v := v
		edit("signature", func(b *blockchain.Block) bool { b.Header.Signature = v; return false })
	}
	// payload
	edit("tx.none", func(b *blockchain.Block) bool { b.Transactions = []*blockchain.Transaction{}; return true })
	edit("tx.dup", func(b *blockchain.Block) bool {
		b.Transactions = append(b.Transactions, b.Transactions[0])
		return true
	})
	edit("tx.many", func(b *blockchain.Block) bool {
		for i := 0; i < 200; i++ {
			b.Transactions = append(b.Transactions, b.Transactions[i%2])
		}
		return true
	})
	txEdit := func(name string, f func(tx *blockchain.Transaction)) {
		edit("tx."+name, func(b *blockchain.Block) bool { f(b.Transactions[0]); return true })
	}
	txEdit("module-empty", func(tx *blockchain.Transaction) { tx.Module = "" })
	txEdit("module-long", func(tx *blockchain.Transaction) { tx.Module = string(rep(300, 'a')) })
	txEdit("command-bad", func(tx *blockchain.Transaction) { tx.Command = "a b" })
	txEdit("nonce-max", func(tx *blockchain.Transaction) { tx.Nonce = 1<<64 - 1 })
	txEdit("fee-max", func(tx *blockchain.Transaction) { tx.Fee = 1<<64 - 1 })
	txEdit("sender-empty", func(tx *blockchain.Transaction) { tx.SenderPublicKey = []byte{} })
	txEdit("sender-31", func(tx *blockchain.Transaction) { tx.SenderPublicKey = tx.SenderPublicKey[:31] })
	txEdit("sender-33", func(tx *blockchain.Transaction) { tx.SenderPublicKey = resize(tx.SenderPublicKey, 33) })
	txEdit("params-big", func(tx *blockchain.Transaction) { tx.Params = rep(20000, 1) })
	txEdit("sigs-none", func(tx *blockchain.Transaction) { tx.Signatures = []codec.Hex{} })
	txEdit("sigs-short", func(tx *blockchain.Transaction) { tx.Signatures = []codec.Hex{rep(63, 1)} })
	txEdit("sigs-many", func(tx *blockchain.Transaction) {
		for i := 0; i < 70; i++ {
			tx.Signatures = append(tx.Signatures, rep(64, byte(i)))
		}
	})
	edit("assets.none", func(b *blockchain.Block) bool { b.Assets = []*blockchain.BlockAsset{}; return true })
	edit("assets.dup", func(b *blockchain.Block) bool { b.Assets = append(b.Assets, b.Assets[0]); return true })
	edit("assets.unsorted", func(b *blockchain.Block) bool {
		b.Assets = []*blockchain.BlockAsset{{Module: "zz", Data: []byte{1}}, {Module: "aa", Data: []byte{2}}}
		return true
	})
	edit("assets.badname", func(b *blockchain.Block) bool {
		b.Assets = []*blockchain.BlockAsset{{Module: "", Data: []byte{}}}
		return true
	})
	edit("assets.big", func(b *blockchain.Block) bool {
		b.Assets = []*blockchain.BlockAsset{{Module: "toy", Data: rep(20000, 3)}}
		return true
	})
	return out
}

func min(a, b int) int {
	if a < b {
		return a
	}
	return b
}
