package main

// Case generators of the harness itself: structure-aware mutations of valid messages.

import (
	"math/rand"
)

type mutant struct {
	origin string
	b      []byte
}

// ---------------------------------------------------------------------------------------- TLV walk

type tlvPos struct {
	keyOff, keyLen int
	wt             int
	lenOff, lenLen int // wire type 2: the length prefix
	valOff, valLen int // payload (wt 2) or varint (wt 0)
	depth          int
	isMsg          bool // payload parsed as a nested message
	fieldNo        int
}

func readVarint(b []byte, off int) (uint64, int, bool) {
	var x uint64
	for i := 0; i < 10; i++ {
		if off+i >= len(b) {
			return 0, 0, false
		}
		c := b[off+i]
		x |= uint64(c&0x7f) << (7 * uint(i))
		if c&0x80 == 0 {
			return x, i + 1, true
		}
	}
	return 0, 0, false
}

// walk parses b[from:to] as a protobuf-style message; ok only if it is consumed exactly.
func walk(b []byte, from, to, depth int, out *[]tlvPos) bool {
	off := from
	local := []tlvPos{}
	for off < to {
		key, kl, ok := readVarint(b, off)
		if !ok || off+kl > to {
			return false
		}
		fn, wt := int(key>>3), int(key&7)
		if fn < 1 || fn > 64 {
			return false
		}
		p := tlvPos{keyOff: off, keyLen: kl, wt: wt, depth: depth, fieldNo: fn}
		switch wt {
		case 0:
			_, vl, ok := readVarint(b, off+kl)
			if !ok || off+kl+vl > to {
				return false
			}
			p.valOff, p.valLen = off+kl, vl
			off += kl + vl
		case 2:
			l, ll, ok := readVarint(b, off+kl)
			if !ok || l > uint64(to-(off+kl+ll)) {
				return false
			}
			p.lenOff, p.lenLen = off+kl, ll
			p.valOff, p.valLen = off+kl+ll, int(l)
			off += kl + ll + int(l)
		default:
			return false
		}
		local = append(local, p)
	}
	if off != to {
		return false
	}
	for _, p := range local {
		if p.wt == 2 && p.valLen >= 2 && depth < 5 {
			sub := []tlvPos{}
			if walk(b, p.valOff, p.valOff+p.valLen, depth+1, &sub) {
				p.isMsg = true
				*out = append(*out, p)
				*out = append(*out, sub...)
				continue
			}
		}
		*out = append(*out, p)
	}
	return true
}

func uvarint(x uint64) []byte {
	out := []byte{}
	for x >= 0x80 {
		out = append(out, byte(x)|0x80)
		x >>= 7
	}
	return append(out, byte(x))
}

func splice(b []byte, off, n int, repl []byte) []byte {
	out := make([]byte, 0, len(b)-n+len(repl))
	out = append(out, b[:off]...)
	out = append(out, repl...)
	return append(out, b[off+n:]...)
}

var lengthEdits = [][]byte{{0}, {1}, {0x7f}, {0x80, 0x01}, {0xff, 0x01}, {0xff, 0xff, 0x03}, {0xff, 0xff, 0xff, 0xff, 0x07}, {0x80, 0x80, 0x80, 0x80, 0x08},
	{0x80, 0x80, 0x80, 0x80, 0x10}, {0xff, 0xff, 0xff, 0xff, 0xff, 0xff, 0xff, 0xff, 0x7f}, {0x80, 0x80, 0x80, 0x80, 0x80, 0x80, 0x80, 0x80, 0x80, 0x01},
	{0xff, 0xff, 0xff, 0xff, 0xff, 0xff, 0xff, 0xff, 0xff, 0x01}, {0x80}, {0x80, 0x80}, {0x80, 0x00}}

// nestedTruncs: for every length-delimited field of msg (recursively, while the payload itself parses as a message)
// the payload truncated at every offset WITH the length prefixes of the field and of all enclosing fields recomputed:
// a message that is well-formed at the outside and ends early at the inside.
func nestedTruncs(msg []byte, depth int, emit func([]byte)) {
	pos := []tlvPos{}
	if depth > 4 || !walk(msg, 0, len(msg), 0, &pos) {
		return
	}
	for _, p := range pos {
		if p.depth != 0 || p.wt != 2 || p.valLen == 0 {
			continue
		}
		payload := msg[p.valOff : p.valOff+p.valLen]
		wrap := func(inner []byte) {
			out := append([]byte{}, msg[:p.lenOff]...)
			out = append(out, uvarint(uint64(len(inner)))...)
			out = append(out, inner...)
			emit(append(out, msg[p.valOff+p.valLen:]...))
		}
		for k := 0; k < len(payload); k++ {
			wrap(payload[:k])
		}
		if p.isMsg {
			nestedTruncs(payload, depth+1, wrap)
		}
	}
}

// mutations: all structure-aware mutants of one valid message b. others are valid messages to splice with.
func mutations(b []byte, others [][]byte, rng *rand.Rand, thorough bool, emit func(mutant)) {
	n := len(b)
	// 1. truncation at every offset
	for k := 0; k < n; k++ {
		emit(mutant{"trunc", b[:k]})
	}
	nestedTruncs(b, 0, func(m []byte) { emit(mutant{"nestedtrunc", m}) })
	// 2. bit flips: every bit (messages up to 1 KiB; above that the first 256 bytes and a seeded sample)
	flip := func(i, bit int) {
		c := append([]byte{}, b...)
		c[i] ^= 1 << uint(bit)
		emit(mutant{"bitflip", c})
	}
	if n <= 1024 || thorough {
		for i := 0; i < n; i++ {
			for bit := 0; bit < 8; bit++ {
				flip(i, bit)
			}
		}
	} else {
		for i := 0; i < 256; i++ {
			for bit := 0; bit < 8; bit++ {
				flip(i, bit)
			}
		}
		for j := 0; j < 2048; j++ {
			flip(rng.Intn(n), rng.Intn(8))
		}
	}
	// 3. byte replacement
	vals := []byte{0x00, 0xff, 0x80, 0x7f}
	step := 1
	if n > 1024 && !thorough {
		step = 4
	}
	for i := 0; i < n; i += step {
		for _, v := range vals {
			if b[i] == v {
				continue
			}
			c := append([]byte{}, b...)
			c[i] = v
			emit(mutant{"byteset", c})
		}
	}
	// 4. edits of keys, length prefixes and varints found by walking the message
	pos := []tlvPos{}
	if walk(b, 0, n, 0, &pos) {
		for _, p := range pos {
			if p.wt == 2 {
				for _, le := range lengthEdits {
					emit(mutant{"lenedit", splice(b, p.lenOff, p.lenLen, le)})
				}
				for _, d := range []int{-1, 1, 2} {
					if p.valLen+d >= 0 {
						emit(mutant{"lenedit", splice(b, p.lenOff, p.lenLen, uvarint(uint64(p.valLen+d)))})
					}
				}
				// the prefix announces far more than is present (a decoder that sizes its result from the prefix - packed arrays,
				// byte strings - allocates what the peer asks for): 64 KiB / 1 MiB / 16 MiB more, 2^62, 2^63 + 5
				for _, x := range []uint64{uint64(p.valLen) + 1<<16, uint64(p.valLen) + 1<<20, uint64(p.valLen) + 1<<24, 1 << 62, 1<<63 + 5} {
					emit(mutant{"lenedit", splice(b, p.lenOff, p.lenLen, uvarint(x))})
				}
				// length that reaches exactly / one past the end of the whole message
				rest := n - p.valOff
				emit(mutant{"lenedit", splice(b, p.lenOff, p.lenLen, uvarint(uint64(rest)))})
				emit(mutant{"lenedit", splice(b, p.lenOff, p.lenLen, uvarint(uint64(rest+1)))})
				// payload dropped / emptied with the length kept
				emit(mutant{"payload", splice(b, p.valOff, p.valLen, nil)})
				emit(mutant{"payload", b[:p.valOff]})
				// the field repeated / removed
				whole := b[p.keyOff : p.valOff+p.valLen]
				emit(mutant{"fielddup", splice(b, p.keyOff, 0, whole)})
				emit(mutant{"fielddrop", splice(b, p.keyOff, len(whole), nil)})
			} else {
				for _, le := range lengthEdits {
					emit(mutant{"varedit", splice(b, p.valOff, p.valLen, le)})
				}
				emit(mutant{"payload", b[:p.valOff]})
				whole := b[p.keyOff : p.valOff+p.valLen]
				emit(mutant{"fielddup", splice(b, p.keyOff, 0, whole)})
				emit(mutant{"fielddrop", splice(b, p.keyOff, len(whole), nil)})
			}
			for _, wt := range []int{0, 1, 2, 3, 5, 7} {
				if wt != p.wt {
					emit(mutant{"keyedit", splice(b, p.keyOff, p.keyLen, uvarint(uint64(p.fieldNo<<3|wt)))})
				}
			}
			for _, fn := range []int{0, p.fieldNo - 1, p.fieldNo + 1, p.fieldNo + 16, 1 << 20} {
				if fn >= 0 && fn != p.fieldNo {
					emit(mutant{"keyedit", splice(b, p.keyOff, p.keyLen, uvarint(uint64(fn<<3|p.wt)))})
				}
			}
			emit(mutant{"keyedit", splice(b, p.keyOff, p.keyLen, []byte{b[p.keyOff] | 0x80, 0x00})})                                   // padded key
			emit(mutant{"keyedit", splice(b, p.keyOff, p.keyLen, []byte{0xff, 0xff, 0xff, 0xff, 0xff, 0xff, 0xff, 0xff, 0xff, 0x7f})}) // key beyond 2^64
		}
		// adjacent fields swapped (top level and nested)
		for i := 0; i+1 < len(pos); i++ {
			p, q := pos[i], pos[i+1]
			if q.depth != p.depth || q.keyOff != p.valOff+p.valLen {
				continue
			}
			a, c := b[p.keyOff:p.valOff+p.valLen], b[q.keyOff:q.valOff+q.valLen]
			sw := append(append([]byte{}, b[:p.keyOff]...), c...)
			sw = append(sw, a...)
			sw = append(sw, b[q.valOff+q.valLen:]...)
			emit(mutant{"swap", sw})
		}
	}
	// 5. splices of two valid messages and chunk edits (seeded)
	ns := 64
	if thorough {
		ns = 400
	}
	for _, o := range others {
		if len(o) == 0 {
			continue
		}
		for j := 0; j < ns/8+2; j++ {
			i, k := rng.Intn(n+1), rng.Intn(len(o)+1)
			emit(mutant{"splice", append(append([]byte{}, b[:i]...), o[k:]...)})
			emit(mutant{"splice", append(append([]byte{}, o[:k]...), b[i:]...)})
		}
		emit(mutant{"splice", append(append([]byte{}, b...), o...)})
	}
	for j := 0; j < ns; j++ {
		i := rng.Intn(n + 1)
		l := rng.Intn(n - i + 1)
		switch rng.Intn(4) {
		case 0: // delete a chunk
			emit(mutant{"chunk", splice(b, i, l, nil)})
		case 1: // repeat a chunk
			emit(mutant{"chunk", splice(b, i, 0, b[i:i+l])})
		case 2: // overwrite with random bytes
			r := make([]byte, l)
			rng.Read(r)
			emit(mutant{"chunk", splice(b, i, l, r)})
		case 3: // insert random bytes
			r := make([]byte, 1+rng.Intn(12))
			rng.Read(r)
			emit(mutant{"chunk", splice(b, i, 0, r)})
		}
	}
	// 6. trailing data, leading data, doubled message
	emit(mutant{"trail", append(append([]byte{}, b...), 0)})
	emit(mutant{"trail", append(append([]byte{}, b...), 0x08, 0x00)})
	emit(mutant{"trail", append([]byte{0}, b...)})
	emit(mutant{"trail", append(append([]byte{}, b...), b...)})
}
