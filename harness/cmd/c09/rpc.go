package main

// The surface an RPC client reaches (spec/RpcFuzz.tla): the engine's endpoints behind the real router, the real
// HTTP JSON-RPC handler and the real websocket server.  Handlers run in goroutines of the engine (router.Invoke
// starts one per call, the websocket server one per connection): a panic there cannot be recovered by the caller and
// kills the process - the supervisor of this harness attributes the death to the noted call.

import (
	"bytes"
	"context"
	"encoding/json"
	"fmt"
	"net"
	"net/http"
	"net/http/httptest"
	"os"
	"sort"
	"strings"
	"time"

	"github.com/gorilla/websocket"

	"github.com/LiskHQ/lisk-engine/pkg/codec"
	"github.com/LiskHQ/lisk-engine/pkg/crypto"
	"github.com/LiskHQ/lisk-engine/pkg/db"
	"github.com/LiskHQ/lisk-engine/pkg/engine/config"
	"github.com/LiskHQ/lisk-engine/pkg/engine/endpoint"
	"github.com/LiskHQ/lisk-engine/pkg/generator"
	"github.com/LiskHQ/lisk-engine/pkg/labi"
	"github.com/LiskHQ/lisk-engine/pkg/router"
	"github.com/LiskHQ/lisk-engine/pkg/rpc"

	"verifharness/internal/node"
)

type rpcCase struct {
	T string `json:"tr"` // transport: invoke / http / ws
	E string `json:"e"` // envelope shape, or the websocket control method
	M string `json:"m"`
	S string `json:"s"`
	F string `json:"f"`
	K string `json:"k"`
}

type rpcWorld struct {
	router *router.Router
	http   interface {
		HandleRequest(w http.ResponseWriter, r *http.Request)
	}
	wsURL   string
	valid   map[string]map[string]interface{}
	wsConn  *websocket.Conn
	methods []string // namespace_method of every endpoint registered on the router, as registered (run time, not a list)
	ws      wsServer
}

// wsServer: what the engine uses of the websocket server (rpc.NewWSJSONRPCServer returns an unexported type)
type wsServer interface {
	Publish(method string, data []byte)
	ListenAndServe() error
	Close() error
}

func (w *World) setupRPC() (*rpcWorld, error) {
	n := w.N
	gdb, err := db.NewInMemoryDB()
	if err != nil {
		return nil, err
	}
	gcfg := &config.Config{System: &config.SystemConfig{}, Generator: &config.GeneratorConfig{Keys: &config.KeysConfig{}}, RPC: &config.RPCConfig{},
		Genesis: &config.GenesisConfig{ChainID: n.ChainID, BlockTime: node.BlockTime, MaxTransactionsSize: 15 * 1024, BFTBatchSize: nVal}}
	g := generator.NewGenerator(&generator.GeneratorParams{Consensus: n.Ex, ABI: n.Toy, Pool: w.Pool, Chain: n.Chain})
	if err := g.Init(&generator.GeneratorInitParams{CTX: context.Background(), Cfg: gcfg, Logger: w.logger, BlockchainDB: n.DB, GeneratorDB: gdb}); err != nil {
		return nil, err
	}
	rt := router.NewRouter()
	if err := rt.Init(n.DB, w.logger, n.Chain); err != nil {
		return nil, err
	}
	registered := []string{}
	reg := func(ns string, hs router.EndpointHandlers) error {
		for m, h := range hs {
			if err := rt.RegisterEndpoint(ns, m, h); err != nil {
				return err
			}
			registered = append(registered, ns+"_"+m)
		}
		return nil
	}
	// what Engine.Start registers
	if err := reg("chain", endpoint.NewChainEndpoint(n.Chain, n.Ex, n.Conn, w.Pool, n.Toy).Endpoint()); err != nil {
		return nil, err
	}
	if err := reg("system", endpoint.NewSystemEndpoint(gcfg, n.Chain, n.Ex, n.Conn, w.Pool, n.Toy).Endpoint()); err != nil {
		return nil, err
	}
	if err := reg("network", endpoint.NewNetworkEndpoint(gcfg, n.Chain, n.Ex, n.Conn, w.Pool, n.Toy).Endpoint()); err != nil {
		return nil, err
	}
	if err := reg("generator", endpoint.NewGeneratorEndpoint(gcfg, n.Chain, n.Ex, g, n.DB, gdb, n.Toy).Endpoint()); err != nil {
		return nil, err
	}
	rt.RegisterNotFoundHandler(func(namespace, method string, wr router.EndpointResponseWriter, r *router.EndpointRequest) {
		resp, err := n.Toy.Query(&labi.QueryRequest{Method: method, Params: r.Params(), Header: n.Chain.LastBlock().Header})
		if err != nil {
			wr.Error(err)
			return
		}
		wr.Write(resp)
	})
	sort.Strings(registered)
	rw := &rpcWorld{router: rt, http: rpc.NewHTTPJSONServer(w.logger, 0, "", rt), methods: registered}
	// websocket server on a free loopback port
	l, err := net.Listen("tcp", "127.0.0.1:0")
	if err != nil {
		return nil, err
	}
	port := l.Addr().(*net.TCPAddr).Port
	l.Close()
	ws := rpc.NewWSJSONRPCServer(w.logger, port, "127.0.0.1", rt)
	rw.ws = ws
	go ws.ListenAndServe() //nolint:errcheck // stays up for the whole run
	rw.wsURL = fmt.Sprintf("ws://127.0.0.1:%d/rpc-ws", port)
	for i := 0; i < 100; i++ {
		c, _, err := websocket.DefaultDialer.Dial(rw.wsURL, nil)
		if err == nil {
			c.Close()
			break
		}
		time.Sleep(20 * time.Millisecond)
	}
	// a valid params object per method, from real values
	val := node.Validator(1)
	addr := codec.Lisk32(val.Address).String()
	tip := n.Tip()
	var txID codec.Hex
	if len(w.Stored.Transactions) > 0 {
		txID = w.Stored.Transactions[0].ID
	}
	plain := &generator.PlainKeys{GeneratorKey: val.PubKey, GeneratorPrivateKey: val.PrivKey, BLSKey: val.BLS.PublicKey, BLSPrivateKey: val.BLS.PrivateKey}
	var blockObj, keysObj interface{}
	bj, _ := json.Marshal(w.Cand)
	json.Unmarshal(bj, &blockObj) //nolint:errcheck // own encoding
	kj, _ := json.Marshal(plain)
	json.Unmarshal(kj, &keysObj) //nolint:errcheck // own encoding
	rw.valid = map[string]map[string]interface{}{
		"chain_getGetBlockByID":        {"id": codec.Hex(tip.Header.ID).String()},
		"chain_getBlockByHeight":       {"height": 3},
		"chain_getTransactionByID":     {"id": txID.String()},
		"chain_postBlock":              {"block": blockObj},
		"generator_hasKeys":            {"address": addr},
		"generator_setKeys":            {"address": addr, "type": "plain", "data": keysObj},
		"generator_setStatus":          {"address": addr, "height": 0, "maxHeightPreviouslyForged": 0, "maxHeightPrevoted": 0},
		"generator_updateStatus":       {"generatorAddress": addr, "password": "pw", "enable": false, "height": 0, "maxHeightGenerated": 0, "maxHeightPrevoted": 0},
		"generator_estimateSafeStatus": {"timeShutdown": 0},
		"token_getBalance":             {"address": addr},
	}
	_ = crypto.Hash
	return rw, nil
}

// params builds the raw params value of a case (nil = the member is left out)
func (rw *rpcWorld) params(c *rpcCase) []byte {
	obj := map[string]interface{}{}
	for k, v := range rw.valid[c.M] {
		obj[k] = v
	}
	enc := func(v interface{}) []byte { b, _ := json.Marshal(v); return b }
	if c.F != "" {
		if _, ok := obj[c.F]; !ok {
			obj[c.F] = nil
		}
		switch c.S {
		case "missing":
			delete(obj, c.F)
		case "null":
			obj[c.F] = nil
		case "wrong-type":
			switch c.K {
			case "num":
				obj[c.F] = "12"
			case "bool":
				obj[c.F] = "yes"
			default:
				obj[c.F] = 12345
			}
		case "empty":
			switch c.K {
			case "num":
				obj[c.F] = 0
			case "bool":
				obj[c.F] = false
			case "obj":
				obj[c.F] = map[string]interface{}{}
			default:
				obj[c.F] = ""
			}
		case "huge":
			switch c.K {
			case "num":
				return bytes.Replace(enc(obj), []byte(`"`+c.F+`":`), []byte(`"`+c.F+`":184467440737095516159999,"x":`), 1)
			case "obj":
				obj[c.F] = map[string]interface{}{"header": map[string]interface{}{"height": 1e30}, "transactions": strings.Repeat("ab", 1<<16)}
			default:
				obj[c.F] = strings.Repeat("ab", 1<<18)
			}
		case "negative":
			obj[c.F] = -1
		case "object-for-scalar":
			obj[c.F] = map[string]interface{}{"a": map[string]interface{}{"b": 1}}
			if c.K == "obj" {
				obj[c.F] = map[string]interface{}{"header": nil, "transactions": nil, "assets": nil}
			}
		case "array-for-scalar":
			obj[c.F] = []interface{}{1, "a", nil}
		}
		return enc(obj)
	}
	switch c.S {
	case "valid":
		return enc(obj)
	case "absent":
		return nil
	case "null":
		return []byte("null")
	case "empty-object":
		return []byte("{}")
	case "array":
		return []byte(`[1,"a",null,{}]`)
	case "string":
		return []byte(`"params"`)
	case "number":
		return []byte("42")
	case "bool":
		return []byte("true")
	case "extra-field":
		obj["unexpected"] = map[string]interface{}{"x": []int{1, 2, 3}}
		return enc(obj)
	case "nested-deep":
		return []byte(strings.Repeat("[", 20000) + strings.Repeat("]", 20000))
	case "not-json":
		return []byte(`{"id": 0x12, }`)
	case "truncated":
		b := enc(obj)
		if len(b) > 2 {
			return b[:len(b)/2]
		}
		return []byte("{")
	}
	return enc(obj)
}

// envelope builds the JSON-RPC message of a case for the http / ws transports
func (rw *rpcWorld) envelope(c *rpcCase, params []byte) []byte {
	p := ""
	if params != nil {
		p = `,"params":` + string(params)
	}
	m, _ := json.Marshal(c.M)
	switch c.E {
	case "no-method":
		return []byte(`{"jsonrpc":"2.0","id":"1"` + p + `}`)
	case "method-number":
		return []byte(`{"jsonrpc":"2.0","id":"1","method":7` + p + `}`)
	case "method-null":
		return []byte(`{"jsonrpc":"2.0","id":"1","method":null` + p + `}`)
	case "no-jsonrpc":
		return []byte(`{"id":"1","method":` + string(m) + p + `}`)
	case "jsonrpc-1":
		return []byte(`{"jsonrpc":"1.0","id":"1","method":` + string(m) + p + `}`)
	case "id-string":
		return []byte(`{"jsonrpc":"2.0","id":"abc","method":` + string(m) + p + `}`)
	case "id-number":
		return []byte(`{"jsonrpc":"2.0","id":1,"method":` + string(m) + p + `}`)
	case "id-missing":
		return []byte(`{"jsonrpc":"2.0","method":` + string(m) + p + `}`)
	case "id-negative":
		return []byte(`{"jsonrpc":"2.0","id":"-5","method":` + string(m) + p + `}`)
	case "id-huge":
		return []byte(`{"jsonrpc":"2.0","id":"99999999999999999999999","method":` + string(m) + p + `}`)
	case "not-json":
		return []byte(`{"jsonrpc":"2.0", "id": }`)
	case "empty":
		return []byte{}
	case "array-batch":
		return []byte(`[{"jsonrpc":"2.0","id":"1","method":` + string(m) + p + `}]`)
	case "params-string":
		return []byte(`{"jsonrpc":"2.0","id":"1","method":` + string(m) + `,"params":"{}"}`)
	}
	return []byte(`{"jsonrpc":"2.0","id":"1","method":` + string(m) + p + `}`)
}

func topics(shape string) string {
	switch shape {
	case "valid":
		return `{"topics":["chain_newBlock"]}`
	case "unknown-topic":
		return `{"topics":["nothing_here"]}`
	case "missing":
		return `{}`
	case "null":
		return `{"topics":null}`
	case "number":
		return `{"topics":5}`
	case "empty-list":
		return `{"topics":[]}`
	case "list-of-numbers":
		return `{"topics":[1,2]}`
	case "repeated":
		return `{"topics":["chain_newBlock","chain_newBlock","chain"]}`
	}
	return `{}`
}

// wsExchange sends the messages on one fresh connection and reads (or times out on) an answer after each.
func (rw *rpcWorld) wsExchange(msgs [][]byte) string {
	c, _, err := websocket.DefaultDialer.Dial(rw.wsURL, nil)
	if err != nil {
		return "no-connection:" + err.Error()
	}
	defer c.Close()
	res := "ok"
	for _, m := range msgs {
		if err := c.WriteMessage(websocket.TextMessage, m); err != nil {
			return "closed"
		}
		c.SetReadDeadline(time.Now().Add(1500 * time.Millisecond)) //nolint:errcheck // best effort
		if _, _, err := c.ReadMessage(); err != nil {
			res = "no-answer" // the server closes the connection on an invalid envelope: an answer in the sense of the model
		}
	}
	return res
}

func buildRPCEntries(w *World, rw *rpcWorld, add func(e *Entry)) {
	type wire struct {
		M string          `json:"m"`
		P json.RawMessage `json:"p,omitempty"`
	}
	add(&Entry{Name: "rpc.router.Invoke", Net: true, Tags: []string{"args.rpc.invoke"}, Box: 8 * time.Second, AllocConst: 64 << 20,
		Fn: func(in []byte) string {
			x := &wire{}
			if err := json.Unmarshal(in, x); err != nil {
				return "reject"
			}
			ctx, cancel := context.WithTimeout(context.Background(), 5*time.Second)
			defer cancel()
			res := rw.router.Invoke(ctx, x.M, x.P)
			if res.Err() != nil {
				return "reject"
			}
			return "ok"
		}})
	add(&Entry{Name: "rpc.http.HandleRequest", Net: true, Tags: []string{"args.rpc.http"}, Box: 8 * time.Second, AllocConst: 64 << 20,
		Fn: func(in []byte) string {
			rec := httptest.NewRecorder()
			req := httptest.NewRequest(http.MethodPost, "/rpc", bytes.NewReader(in))
			rw.http.HandleRequest(rec, req)
			if os.Getenv("C09_DEBUG") != "" {
				fmt.Fprintln(os.Stderr, "http:", rec.Code, rec.Body.String())
			}
			if rec.Code != http.StatusOK {
				return "reject"
			}
			return "ok"
		}})
	add(&Entry{Name: "rpc.ws", Net: true, Tags: []string{"args.rpc.ws"}, Box: 12 * time.Second, AllocConst: 64 << 20,
		Fn: func(in []byte) string {
			// several messages of one connection are separated by a record separator byte
			msgs := bytes.Split(in, []byte{0x1e})
			return rw.wsExchange(msgs)
		}})
	add(&Entry{Name: "rpc.ws.connect-burst", Net: true, Tags: []string{"args.rpc.burst"}, Box: 30 * time.Second, AllocConst: 1 << 30,
		Fn: func(in []byte) string {
			if len(in) != 1 {
				return "reject"
			}
			return rw.connectBurst(8 * (1 + int(in[0])%16))
		}})
}

// connectBurst: many clients connect (and leave) at the same moment
func (rw *rpcWorld) connectBurst(n int) string {
	done := make(chan bool, n)
	var start = make(chan struct{})
	for i := 0; i < n; i++ {
		go func() {
			<-start
			c, _, err := websocket.DefaultDialer.Dial(rw.wsURL, nil)
			if err == nil {
				c.WriteMessage(websocket.TextMessage, []byte(`{"jsonrpc":"2.0","id":"1","method":"system_getNodeInfo","params":{}}`)) //nolint:errcheck // best effort
				c.SetReadDeadline(time.Now().Add(2 * time.Second))                                                                    //nolint:errcheck // best effort
				c.ReadMessage()                                                                                                     //nolint:errcheck // best effort
				c.Close()
			}
			done <- err == nil
		}()
	}
	close(start)
	ok := 0
	for i := 0; i < n; i++ {
		if <-done {
			ok++
		}
	}
	if ok == 0 {
		return "no-connection"
	}
	return "ok"
}

// rpcInputs concretises one TLC case: entry name + input bytes
func (rw *rpcWorld) rpcInputs(c *rpcCase) (string, []byte) {
	if c.T == "ws" && (c.E == "subscribe" || c.E == "unsubscribe" || c.E == "subscribe-then-unsubscribe") {
		mk := func(m string) []byte {
			return []byte(`{"jsonrpc":"2.0","id":"2","method":"` + m + `","params":` + topics(c.S) + `}`)
		}
		if c.E == "subscribe-then-unsubscribe" {
			return "rpc.ws", bytes.Join([][]byte{[]byte(`{"jsonrpc":"2.0","id":"1","method":"subscribe","params":{"topics":["chain_newBlock"]}}`), mk("unsubscribe")}, []byte{0x1e})
		}
		return "rpc.ws", mk(c.E)
	}
	p := rw.params(c)
	switch c.T {
	case "invoke":
		m, _ := json.Marshal(c.M)
		if p == nil {
			return "rpc.router.Invoke", []byte(`{"m":` + string(m) + `}`)
		}
		if !json.Valid(p) {
			// the router receives the raw params of an envelope that parsed: not reachable with invalid JSON
			return "", nil
		}
		return "rpc.router.Invoke", []byte(`{"m":` + string(m) + `,"p":` + string(p) + `}`)
	case "http":
		return "rpc.http.HandleRequest", rw.envelope(c, p)
	}
	return "rpc.ws", rw.envelope(c, p)
}

// methodModel: the methods TLC enumerates (spec/RpcFuzz.tla reads them from the bases file): every endpoint registered on
// the router at run time, with the fields of its params object when the harness has a valid params value for it
// (kind by the JSON type of that value and the field name), plus the application namespace.
func (rw *rpcWorld) methodModel() []map[string]interface{} {
	out := []map[string]interface{}{}
	names := append([]string{}, rw.methods...)
	names = append(names, "token_getBalance")
	for _, m := range names {
		fs := [][]string{}
		keys := []string{}
		for k := range rw.valid[m] {
			keys = append(keys, k)
		}
		sort.Strings(keys)
		for _, k := range keys {
			kind := "str"
			switch rw.valid[m][k].(type) {
			case int, float64, uint32, uint64:
				kind = "num"
			case bool:
				kind = "bool"
			case map[string]interface{}:
				kind = "obj"
			case string:
				switch {
				case strings.Contains(strings.ToLower(k), "address"):
					kind = "addr"
				case k == "id":
					kind = "hex"
				}
			}
			fs = append(fs, []string{k, kind})
		}
		out = append(out, map[string]interface{}{"m": m, "f": fs})
	}
	return out
}
