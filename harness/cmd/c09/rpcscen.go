package main

// RPC clients over TIME (tag RQ of spec/RpcFuzz.tla): what a first request leaves in the node meets a second one, and the
// node pushes events to clients that are alive, gone, or no longer reading.
//
//   keys       generator_setKeys with key type plain | encrypted x shapes of the KDF / cipher parameters, then the request that
//              reads the stored keys (updateStatus with a password runs the KDF with the STORED parameters, getAllKeys, ...)
//   postblock  chain_postBlock hands a JSON block to the consensus loop - here a REAL running loop (Executer.Start) on a node of
//              its own; the handler answers before the loop looks at the block, so what a malformed block does is seen only
//              afterwards (and on a goroutine no recover() of the router covers); then chain_getGetBlockByID
//   status     generator_setStatus, then getStatus / updateStatus
//   push       subscribe on a websocket, then the node publishes: a live client, one that closed, one that stopped reading
//
// Specified outcome: every step is answered (result or error) within its deadline, the node is alive afterwards (a further
// request is answered), Publish returns, what a client held is given back when it leaves, the server can be closed.
// Deadlines are multiples of the measured time of the same sequence with valid values (never below 10 s).

import (
	"bytes"
	"context"
	"encoding/hex"
	"encoding/json"
	"fmt"
	"net"
	"net/http"
	"net/http/httptest"
	"runtime"
	"strings"
	"sync"
	"time"

	"github.com/gorilla/websocket"

	"github.com/LiskHQ/lisk-engine/pkg/blockchain"
	"github.com/LiskHQ/lisk-engine/pkg/codec"
	"github.com/LiskHQ/lisk-engine/pkg/crypto"
	"github.com/LiskHQ/lisk-engine/pkg/generator"
	"github.com/LiskHQ/lisk-engine/pkg/log"
	"github.com/LiskHQ/lisk-engine/pkg/p2p"
	"github.com/LiskHQ/lisk-engine/pkg/rpc"
	"github.com/LiskHQ/lisk-engine/pkg/txpool"

	"verifharness/internal/node"
)

type rqCase struct {
	Tr string `json:"tr"`
	Q  string `json:"q"`
	A  string `json:"a"`
	B  string `json:"b"`
	C  string `json:"c"`
	D  string `json:"d"`
}

func (c *rqCase) suffix() string {
	if c.Q == "push" {
		return c.A // (the client; the topics of the subscription are in the input)
	}
	parts := []string{c.Q}
	for _, x := range []string{c.A, c.B, c.C, c.D} {
		if x != "" && x != "valid" {
			parts = append(parts, x)
		}
	}
	return strings.Join(parts, ":")
}

// rqGated: sequences that end the node or keep a processor busy for ever on the UNCHANGED tree (defect candidates, each
// with its own key); they run with VERIF_EXPERIMENTAL=1 only.
func rqGated(c *rqCase) string {
	switch c.Q {
	case "keys":
		if c.A == "encrypted" && strings.HasPrefix(c.D, "updateStatus") && (c.B == "memory-max" || c.B == "iterations-max") {
			return "KDF parameters of stored encrypted keys are not bounded (argon2 with 4 TiB / 2^32-1 passes)"
		}
	case "postblock":
		if c.A == "no-aggregateCommit" || c.A == "aggregateCommit-null" {
			return "chain_postBlock: a header without aggregateCommit reaches verifyAggregateCommit on the consensus goroutine"
		}
		if c.A == "assets-null-element" {
			return "chain_postBlock: a null element of assets reaches BlockAssets.Valid on the consensus goroutine"
		}
	}
	return ""
}

type rpcScen struct {
	n      *node.Node
	w2     *World
	rw     *rpcWorld
	slot   int
	mu     sync.Mutex
	base   map[string]time.Duration // measured duration of the valid sequence per kind
	logger log.Logger
}

var theRPCScen *rpcScen
var rqStats = struct {
	sync.Mutex
	outcomes       map[string]int
	blocksApplied  int
	pushesReceived int
	kdfRuns        int
	late           int
}{outcomes: map[string]int{}}

func getRPCScen() *rpcScen {
	if theRPCScen != nil {
		return theRPCScen
	}
	cfg := syncConfig()
	cfg.Now = 400
	n, err := node.New(cfg, nil, 0)
	if err != nil {
		panic("harness: rpc scenario node: " + err.Error())
	}
	s := &rpcScen{n: n, slot: 1, base: map[string]time.Duration{}}
	s.logger, _ = log.NewSilentLogger()
	for i := 0; i < 6; i++ {
		if _, err := n.Extend(s.slot, 1); err != nil {
			panic("harness: rpc scenario chain: " + err.Error())
		}
		s.slot++
	}
	stored, _ := n.Chain.DataAccess().GetBlockByHeight(3)
	conn := &fakePoolConn{rpc: map[string]p2p.RPCHandler{}, handler: map[string]p2p.EventHandler{}, validator: map[string]p2p.Validator{}}
	pool := txpool.NewTransactionPool(&txpool.TransactionPoolConfig{MaxTransactions: 64})
	if err := pool.Init(context.Background(), s.logger, n.DB, n.Chain, conn, poolABI{}); err != nil {
		panic("harness: " + err.Error())
	}
	s.w2 = &World{N: n, GenesisTS: n.GenesisTS, logger: s.logger, Pool: pool, PoolConn: conn, Stored: stored, Cand: s.nextBlock(false)}
	rw, err := s.w2.setupRPC()
	if err != nil {
		panic("harness: rpc scenario set-up: " + err.Error())
	}
	s.rw = rw
	// the consensus loop of this node RUNS: blocks queued by chain_postBlock are processed by the goroutine production uses
	go n.Ex.Start() //nolint:errcheck // ends with the process
	theRPCScen = s
	return s
}

// nextBlock: a valid successor of the current tip (stale = of the tip's parent instead)
func (s *rpcScen) nextBlock(stale bool) *blockchain.Block {
	c, err := s.n.AutoCand(s.slot, 1)
	if err != nil {
		panic("harness: " + err.Error())
	}
	s.slot++
	if stale {
		c.Prev = "parent"
		c.H--
	}
	return s.n.Build(c)
}

func jsonObj(v interface{}) map[string]interface{} {
	b, err := json.Marshal(v)
	if err != nil {
		panic(err)
	}
	m := map[string]interface{}{}
	if err := json.Unmarshal(b, &m); err != nil {
		panic(err)
	}
	return m
}

// request sends one JSON-RPC request over the transport and returns (answered, had a result) within the deadline.
type rpcClient struct {
	s  *rpcScen
	tr string
	ws *websocket.Conn
}

func (c *rpcClient) close() {
	if c.ws != nil {
		c.ws.Close()
	}
}

func (c *rpcClient) request(method string, params interface{}, deadline time.Duration) (answered, ok bool) {
	p, err := json.Marshal(params)
	if err != nil {
		panic(err)
	}
	type res struct{ answered, ok bool }
	ch := make(chan res, 1)
	go func() {
		switch c.tr {
		case "invoke":
			ctx, cancel := context.WithTimeout(context.Background(), deadline)
			defer cancel()
			r := c.s.rw.router.Invoke(ctx, method, p)
			ch <- res{ctx.Err() == nil, r.Err() == nil}
		case "http":
			rec := httptest.NewRecorder()
			body := `{"jsonrpc":"2.0","id":"1","method":"` + method + `","params":` + string(p) + `}`
			c.s.rw.http.HandleRequest(rec, httptest.NewRequest(http.MethodPost, "/rpc", strings.NewReader(body)))
			ch <- res{true, rec.Code == http.StatusOK}
		default:
			if c.ws == nil {
				conn, _, err := websocket.DefaultDialer.Dial(c.s.rw.wsURL, nil)
				if err != nil {
					ch <- res{false, false}
					return
				}
				c.ws = conn
			}
			body := `{"jsonrpc":"2.0","id":"1","method":"` + method + `","params":` + string(p) + `}`
			if err := c.ws.WriteMessage(websocket.TextMessage, []byte(body)); err != nil {
				ch <- res{false, false}
				return
			}
			c.ws.SetReadDeadline(time.Now().Add(deadline)) //nolint:errcheck // best effort
			_, msg, err := c.ws.ReadMessage()
			ch <- res{err == nil, err == nil && !bytes.Contains(msg, []byte(`"error"`))}
		}
	}()
	select {
	case r := <-ch:
		return r.answered, r.ok
	case <-time.After(deadline + 2*time.Second):
		return false, false
	}
}

// deadline of one step: a handler that is stuck never answers, so the verdict "not answered" is only given after a time no
// answering handler needs on any machine (2 minutes, or 50 x the measured valid sequence if that is longer); answers that
// come later than 10 s are counted (late_answers), not judged.
func (s *rpcScen) deadline(kind string) time.Duration {
	d := 120 * time.Second
	if b := s.base[kind]; 50*b > d {
		d = 50 * b
	}
	return d
}

// ---------------------------------------------------------------------------------------- keys

// every sequence works on a validator address of its own: what an earlier sequence stored does not take part
var seqValidator = 20

func (s *rpcScen) keysParams(c *rqCase) map[string]interface{} {
	seqValidator++
	val := node.Validator(seqValidator)
	addr := codec.Lisk32(val.Address).String()
	plain := &generator.PlainKeys{GeneratorKey: val.PubKey, GeneratorPrivateKey: val.PrivKey, BLSKey: val.BLS.PublicKey, BLSPrivateKey: val.BLS.PrivateKey}
	if c.A == "plain" {
		return map[string]interface{}{"address": addr, "type": "plain", "data": jsonObj(plain)}
	}
	enc, err := crypto.EncryptMessageWithPassword(plain.Encode(), "pw", nil)
	if err != nil {
		panic(err)
	}
	m := jsonObj(enc)
	kdf, _ := m["kdfparams"].(map[string]interface{})
	cp, _ := m["cipherparams"].(map[string]interface{})
	iv, _ := cp["iv"].(string)
	tag, _ := cp["tag"].(string)
	switch c.B {
	case "parallelism-0":
		kdf["parallelism"] = 0
	case "iterations-0":
		kdf["iterations"] = 0
	case "memory-0":
		kdf["memorySize"] = 0
	case "memory-max":
		kdf["memorySize"] = uint32(1<<32 - 1)
	case "iterations-max":
		kdf["iterations"] = uint32(1<<32 - 1)
	case "salt-empty":
		kdf["salt"] = ""
	case "salt-long":
		kdf["salt"] = strings.Repeat("ab", 1<<19)
	case "kdfparams-null":
		m["kdfparams"] = nil
	case "kdf-unknown":
		m["kdf"] = "scrypt"
	case "numbers-as-strings":
		kdf["parallelism"], kdf["iterations"], kdf["memorySize"] = "4", "1", "2024"
	}
	switch c.C {
	case "iv-empty":
		cp["iv"] = ""
	case "iv-1":
		cp["iv"] = iv[:2]
	case "iv-11":
		cp["iv"] = iv[:22]
	case "iv-13":
		cp["iv"] = iv + "00"
	case "iv-16":
		cp["iv"] = iv + "00000000"
	case "tag-empty":
		cp["tag"] = ""
	case "tag-15":
		cp["tag"] = tag[:30]
	case "tag-17":
		cp["tag"] = tag + "00"
	case "text-empty":
		m["cipherText"] = ""
	case "cipherparams-null":
		m["cipherparams"] = nil
	case "cipher-unknown":
		m["cipher"] = "aes-128-cbc"
	case "mac-empty":
		m["mac"] = ""
	case "version-2":
		m["version"] = "2"
	}
	return map[string]interface{}{"address": addr, "type": "encrypted", "data": m}
}

func followUp(name string) (string, map[string]interface{}) {
	addr := codec.Lisk32(node.Validator(seqValidator).Address).String()
	us := func(pw string, enable bool) map[string]interface{} {
		return map[string]interface{}{"generatorAddress": addr, "password": pw, "enable": enable, "height": 0, "maxHeightGenerated": 0, "maxHeightPrevoted": 0}
	}
	switch name {
	case "updateStatus-password":
		return "generator_updateStatus", us("pw", false)
	case "updateStatus-wrong-password":
		return "generator_updateStatus", us("not the password", false)
	case "updateStatus-enable":
		return "generator_updateStatus", us("pw", true)
	case "getAllKeys":
		return "generator_getAllKeys", map[string]interface{}{}
	case "hasKeys":
		return "generator_hasKeys", map[string]interface{}{"address": addr}
	}
	return "generator_getStatus", map[string]interface{}{}
}

// ---------------------------------------------------------------------------------------- post block

func (s *rpcScen) blockParams(shape string) (map[string]interface{}, *blockchain.Block) {
	b := s.nextBlock(shape == "stale-parent")
	m := jsonObj(b)
	h, _ := m["header"].(map[string]interface{})
	switch shape {
	case "no-aggregateCommit":
		delete(h, "aggregateCommit")
	case "aggregateCommit-null":
		h["aggregateCommit"] = nil
	case "aggregateCommit-empty":
		h["aggregateCommit"] = map[string]interface{}{}
	case "no-signature":
		delete(h, "signature")
	case "no-previousBlockID":
		delete(h, "previousBlockID")
	case "no-generatorAddress":
		delete(h, "generatorAddress")
	case "empty-header":
		m["header"] = map[string]interface{}{}
	case "header-null":
		m["header"] = nil
	case "transactions-null":
		m["transactions"] = nil
	case "transactions-null-element":
		m["transactions"] = []interface{}{nil}
	case "assets-null":
		m["assets"] = nil
	case "assets-null-element":
		m["assets"] = []interface{}{nil}
	case "height-max":
		h["height"] = uint32(1<<32 - 1)
	case "version-0":
		h["version"] = 0
	}
	return map[string]interface{}{"block": m}, b
}

// ---------------------------------------------------------------------------------------- sequences

func (s *rpcScen) seq(c *rqCase) (verdict, what string) {
	s.mu.Lock()
	defer s.mu.Unlock()
	cl := &rpcClient{s: s, tr: c.Tr}
	defer cl.close()
	t0 := time.Now()
	d := s.deadline(c.Q)
	step := func(n int, method string, params interface{}) (bool, string) {
		ts := time.Now()
		answered, ok := cl.request(method, params, d)
		if answered && time.Since(ts) > 10*time.Second {
			rqStats.Lock()
			rqStats.late++
			rqStats.Unlock()
		}
		if !answered {
			return false, fmt.Sprintf("step %d (%s over %s) of the sequence %s was not answered within %v", n, method, c.Tr, c.suffix(), d)
		}
		if ok {
			return true, "ok"
		}
		return true, "error"
	}
	outcome := ""
	switch c.Q {
	case "keys":
		a1, r1 := step(1, "generator_setKeys", s.keysParams(c))
		if !a1 {
			return "hang", r1
		}
		m, p := followUp(c.D)
		a2, r2 := step(2, m, p)
		if !a2 {
			return "hang", r2
		}
		if r1 == "ok" && strings.HasPrefix(c.D, "updateStatus") && c.A == "encrypted" {
			rqStats.Lock()
			rqStats.kdfRuns++
			rqStats.Unlock()
		}
		outcome = r1 + ">" + r2
	case "status":
		seqValidator++
		addr := codec.Lisk32(node.Validator(seqValidator).Address).String()
		p := map[string]interface{}{"address": addr, "height": 0, "maxHeightPreviouslyForged": 0, "maxHeightPrevoted": 0}
		switch c.A {
		case "height-max":
			p["height"], p["maxHeightPreviouslyForged"], p["maxHeightPrevoted"] = uint32(1<<32-1), uint32(1<<32-1), uint32(1<<32-1)
		case "address-empty":
			p["address"] = ""
		case "address-long":
			p["address"] = "lsk" + strings.Repeat("z", 200)
		}
		a1, r1 := step(1, "generator_setStatus", p)
		if !a1 {
			return "hang", r1
		}
		m, fp := followUp(c.B)
		a2, r2 := step(2, m, fp)
		if !a2 {
			return "hang", r2
		}
		outcome = r1 + ">" + r2
	case "postblock":
		params, blk := s.blockParams(c.A)
		tipBefore := s.n.Tip().Header.ID
		a1, r1 := step(1, "chain_postBlock", params)
		if !a1 {
			return "hang", r1
		}
		// the consensus loop takes the block from its queue: wait for the tip to move (valid shapes) or a short while
		wait := 150 * time.Millisecond
		if c.A == "valid" {
			wait = 5 * time.Second
		}
		for t := time.Now(); time.Since(t) < wait; time.Sleep(5 * time.Millisecond) {
			if !bytes.Equal(s.n.Tip().Header.ID, tipBefore) {
				break
			}
		}
		applied := bytes.Equal(s.n.Tip().Header.ID, blk.Header.ID)
		a2, r2 := step(2, "chain_getGetBlockByID", map[string]interface{}{"id": hex.EncodeToString(blk.Header.ID)})
		if !a2 {
			return "hang", r2
		}
		outcome = r1 + ">" + r2
		if applied {
			outcome += "+applied"
			rqStats.Lock()
			rqStats.blocksApplied++
			rqStats.Unlock()
		}
	default:
		return "reject", ""
	}
	// the node is alive: one more request is answered
	if a, _ := step(3, "system_getNodeInfo", map[string]interface{}{}); !a {
		return "hang", fmt.Sprintf("after the sequence %s the node no longer answers system_getNodeInfo", c.suffix())
	}
	if c.A != "encrypted" || (c.B == "valid" && c.C == "valid") {
		if c.A == "valid" || c.A == "plain" || c.A == "encrypted" {
			if el := time.Since(t0); el > s.base[c.Q] {
				s.base[c.Q] = el
			}
		}
	}
	rqStats.Lock()
	rqStats.outcomes[c.Q+":"+outcome]++
	rqStats.Unlock()
	return outcome, ""
}

// ---------------------------------------------------------------------------------------- push

var pushBaseline time.Duration

func (s *rpcScen) push(c *rqCase) (verdict, what string) {
	s.mu.Lock()
	defer s.mu.Unlock()
	l, err := net.Listen("tcp", "127.0.0.1:0")
	if err != nil {
		return "harness", err.Error()
	}
	port := l.Addr().(*net.TCPAddr).Port
	l.Close()
	srv := rpc.NewWSJSONRPCServer(s.logger, port, "127.0.0.1", s.rw.router)
	go srv.ListenAndServe() //nolint:errcheck // closed at the end of the case
	url := fmt.Sprintf("ws://127.0.0.1:%d/rpc-ws", port)
	var conn *websocket.Conn
	for i := 0; i < 1500; i++ {
		if conn, _, err = websocket.DefaultDialer.Dial(url, nil); err == nil {
			break
		}
		time.Sleep(20 * time.Millisecond)
	}
	if err != nil {
		return "harness", "no connection to the fresh websocket server: " + err.Error()
	}
	topicsJSON := `["chain_newBlock"]`
	switch c.B {
	case "repeated":
		topicsJSON = `["chain_newBlock","chain_newBlock","chain"]`
	case "many":
		ts := []string{}
		for i := 0; i < 1000; i++ {
			ts = append(ts, fmt.Sprintf(`"topic_%d"`, i))
		}
		topicsJSON = "[" + strings.Join(append(ts, `"chain_newBlock"`), ",") + "]"
	case "prefix-of-everything":
		topicsJSON = `[""]`
	}
	sub := []byte(`{"jsonrpc":"2.0","id":"1","method":"subscribe","params":{"topics":` + topicsJSON + `}}`)
	if err := conn.WriteMessage(websocket.TextMessage, sub); err != nil {
		return "harness", err.Error()
	}
	if c.A != "closed-before-answer" {
		conn.SetReadDeadline(time.Now().Add(60 * time.Second)) //nolint:errcheck // best effort
		if _, _, err := conn.ReadMessage(); err != nil {
			conn.Close()
			srv.Close() //nolint:errcheck // best effort
			return "no-subscription", ""
		}
	}
	received := 0
	var rmu sync.Mutex
	payload := []byte(`{"blockHeader":"00"}`)
	publishes := 50
	switch c.A {
	case "live":
		go func() {
			for {
				conn.SetReadDeadline(time.Now().Add(20 * time.Second)) //nolint:errcheck // best effort
				if _, _, err := conn.ReadMessage(); err != nil {
					return
				}
				rmu.Lock()
				received++
				rmu.Unlock()
			}
		}()
	case "closed", "closed-before-answer":
		conn.Close()
		time.Sleep(150 * time.Millisecond) // the server's reader notices
		publishes = 200
	case "non-reading":
		// the client stays connected and never reads again: payloads that fill the socket buffers
		payload = []byte(`{"blockHeader":"` + strings.Repeat("ab", 32<<10) + `"}`)
		publishes = 400
	}
	g0 := settle(0, 300*time.Millisecond)
	// (Publish only hands the event to the sockets: a Publish that a client holds back never returns - 60 s tell)
	limit := 60 * time.Second
	if 100*pushBaseline > limit {
		limit = 100 * pushBaseline
	}
	var worst time.Duration
	for i := 0; i < publishes; i++ {
		done := make(chan struct{})
		t0 := time.Now()
		go func() { srv.Publish("chain_newBlock", payload); close(done) }()
		select {
		case <-done:
			if d := time.Since(t0); d > worst {
				worst = d
			}
		case <-time.After(limit):
			return "hang", fmt.Sprintf("Publish to a websocket server with one %s subscriber did not return within %v (publish %d): the node's event loop is held by a client", c.A, limit, i+1)
		}
	}
	if c.A == "live" && worst > pushBaseline {
		pushBaseline = worst
	}
	// a new client is served while the old one is in whatever state it is in
	fresh := make(chan bool, 1)
	var c2 *websocket.Conn
	defer func() {
		if c2 != nil {
			c2.Close() // (after the server was closed: a client that leaves earlier is the subject of the closed cases)
		}
	}()
	go func() {
		cx, _, err := websocket.DefaultDialer.Dial(url, nil)
		if err != nil {
			fresh <- false
			return
		}
		c2 = cx
		c2.WriteMessage(websocket.TextMessage, []byte(`{"jsonrpc":"2.0","id":"1","method":"system_getNodeInfo","params":{}}`)) //nolint:errcheck // best effort
		c2.SetReadDeadline(time.Now().Add(limit))                                                                            //nolint:errcheck // best effort
		_, _, err = c2.ReadMessage()
		fresh <- err == nil
	}()
	select {
	case ok := <-fresh:
		if !ok {
			return "hang", fmt.Sprintf("after %d publishes with one %s subscriber a new websocket client gets no answer within %v", publishes, c.A, limit)
		}
	case <-time.After(limit + 5*time.Second):
		return "hang", fmt.Sprintf("after %d publishes with one %s subscriber a new websocket client cannot connect", publishes, c.A)
	}
	if c.A == "live" {
		time.Sleep(200 * time.Millisecond)
	}
	settleMax := 6 * time.Second
	if c.A != "live" && !experimental() {
		settleMax = time.Second // (what a client that went away leaves behind is judged with VERIF_EXPERIMENTAL=1 only: no need to wait for it)
	}
	left := settle(g0+publishes/10, settleMax) - g0
	rmu.Lock()
	got := received
	rmu.Unlock()
	rqStats.Lock()
	rqStats.pushesReceived += got
	rqStats.outcomes[fmt.Sprintf("push:%s:left-goroutines>=half:%v", c.A, left >= publishes/2)]++
	rqStats.Unlock()
	verdict = "ok"
	if left >= publishes/2 {
		// one goroutine per publish stays for ever
		where := ""
		for k, v := range goroutineTops() {
			if v >= publishes/2 {
				where += fmt.Sprintf(" %d x %s;", v, k)
			}
		}
		verdict, what = "leak", fmt.Sprintf("%d publishes to a websocket server whose only subscriber is %s left %d goroutines behind that do not end (blocked in:%s): every event of the node costs a goroutine for ever", publishes, c.A, left, where)
	}
	// the server can be closed
	var closePanic interface{}
	func() {
		defer func() { closePanic = recover() }()
		if c.A == "non-reading" {
			conn.Close()
			time.Sleep(100 * time.Millisecond)
		}
		srv.Close() //nolint:errcheck // best effort (a live client is still connected)
	}()
	if closePanic != nil {
		if verdict == "leak" {
			return "leak+close-panic", what + fmt.Sprintf("; and Close() of the server panics: %v", closePanic)
		}
		return "close-panic", fmt.Sprintf("Close() of the websocket server panics after its %s subscriber went away: %v", c.A, closePanic)
	}
	if c.A == "live" && got == 0 {
		return "no-push-received", ""
	}
	return verdict, what
}

func addRPCScenEntries(add func(e *Entry)) {
	parse := func(in []byte) *rqCase {
		c := &rqCase{}
		if json.Unmarshal(in, c) != nil {
			return nil
		}
		return c
	}
	suffix := func(in []byte) string {
		if c := parse(in); c != nil {
			return c.suffix()
		}
		return ""
	}
	var last string
	add(&Entry{Name: "rpc.seq", Net: true, Tags: []string{"args.scen.rpcseq"}, Box: 15 * time.Minute, AllocConst: 8 << 30, Suffix: suffix,
		Fn: func(in []byte) string {
			c := parse(in)
			if c == nil {
				return "reject"
			}
			v, what := getRPCScen().seq(c)
			last = what
			return v
		},
		Judge: func(in []byte, verdict string) (string, string) {
			if verdict == "hang" {
				return "hang", last
			}
			return "", ""
		}})
	add(&Entry{Name: "rpc.push", Net: true, Tags: []string{"args.scen.rpcpush"}, Box: 15 * time.Minute, AllocConst: 8 << 30, Suffix: suffix,
		Fn: func(in []byte) string {
			c := parse(in)
			if c == nil {
				return "reject"
			}
			v, what := getRPCScen().push(c)
			last = what
			return v
		},
		Judge: func(in []byte, verdict string) (string, string) {
			switch verdict {
			case "hang":
				return "hang", last
			case "harness":
				return "inconclusive", last
			case "leak", "close-panic", "leak+close-panic":
				// defect candidate of the unchanged tree: the server never removes a socket whose client went away or no longer
				// reads (one goroutine per event for ever; closeChan closed twice by Close()).  A live client is always judged.
				if c := parse(in); c != nil && c.A != "live" && !experimental() {
					return "", ""
				}
				if verdict == "close-panic" {
					return "panic-on-close", last
				}
				return "leak", last
			}
			return "", ""
		}})
	_ = runtime.NumGoroutine
}
