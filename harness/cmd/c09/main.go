// c09: untrusted input never crashes or hangs the node (property C09).
//
//	c09 bases <out.json>
//	    builds the real node state (internal/node: Executer + Chain on in-memory pebble, 9 validators, 130 blocks)
//	    and writes the valid base messages of every network-facing schema with schema and abstract value
//	    (input of spec/WireFuzz.tla) and the genesis timestamp that reproduces the state.
//	c09 run <cases.ndjson> <out.json>
//	    cases printed by TLC (tags FZ = wire deviant, SH = argument shape) are concretised and given to every entry
//	    point that accepts the schema; then the harness' own generators: structure-aware mutations of every valid
//	    message, decodable-but-odd blocks, all byte strings up to length 3 for every decoder. Every call runs under
//	    recover(), a deadline and an allocation ceiling; the run itself is a child process watched by this one so
//	    that a fatal runtime error (which recover() cannot catch) is reported and the run continues.
//	c09 replay <replay.json> <out.json>
//	    re-executes one stored (entry, input) pair.
//
// environment: VERIF_SEED, VERIF_TIER (quick | thorough), C09_GENESIS_TS.
package main

import (
	"bufio"
	"bytes"
	"encoding/hex"
	"encoding/json"
	"fmt"
	"math/rand"
	"os"
	"os/exec"
	"runtime"
	"runtime/debug"
	"sort"
	"strconv"
	"strings"
	"syscall"
	"time"

	"verifharness/internal/tj"
)

type tlcCase struct {
	T  string `json:"t"`
	S  string `json:"s"` // base name (FZ) or family (SH)
	P  []int  `json:"p"`
	C  string `json:"c"`
	K  int    `json:"k"`
	B  []int  `json:"b"`
	Ok int    `json:"ok"`
}

func toBytes(xs []int) []byte {
	out := make([]byte, len(xs))
	for i, x := range xs {
		out[i] = byte(x)
	}
	return out
}

var thoroughTier = os.Getenv("VERIF_TIER") == "thorough"

func envU32(name string) uint32 {
	v, _ := strconv.ParseUint(os.Getenv(name), 10, 32)
	return uint32(v)
}

func die(code int, f string, a ...interface{}) {
	fmt.Fprintf(os.Stderr, f+"\n", a...)
	os.Exit(code)
}

func main() {
	if len(os.Args) < 3 {
		die(2, "usage: c09 bases|run|replay ...")
	}
	switch os.Args[1] {
	case "bases":
		w, err := newWorld(envU32("C09_GENESIS_TS"), false)
		if err != nil {
			die(2, "world: %v", err)
		}
		net := []*Base{}
		for _, b := range w.bases() {
			if b.net {
				net = append(net, b)
			}
		}
		rw, err := w.setupRPC()
		if err != nil {
			die(2, "rpc set-up: %v", err)
		}
		tj.WriteJSON(os.Args[2], map[string]interface{}{"bases": net, "genesis_ts": w.GenesisTS, "methods": rw.methodModel()})
	case "run":
		supervise("child", os.Args[2], os.Args[3])
	case "child":
		child(os.Args[2], os.Args[3], os.Args[4], os.Args[5])
	case "scen":
		supervise("scenchild", os.Args[2], os.Args[3])
	case "scenchild":
		scenChild(os.Args[2], os.Args[3], os.Args[4], os.Args[5])
	case "one":
		out := ""
		if len(os.Args) > 4 {
			out = os.Args[4]
		}
		one(os.Args[2], os.Args[3], out)
	case "replay":
		replay(os.Args[2], os.Args[3])
	default:
		die(2, "unknown mode %s", os.Args[1])
	}
}

func limitMemory() {
	lim := &syscall.Rlimit{Cur: 24 << 30, Max: 24 << 30}
	syscall.Setrlimit(syscall.RLIMIT_AS, lim) //nolint
	// the engine's "silent" logger still writes every error (with a stack trace) to stdout: discard it
	if f, err := os.OpenFile(os.DevNull, os.O_WRONLY, 0); err == nil {
		syscall.Dup3(int(f.Fd()), 1, 0) //nolint
	}
}

// ---------------------------------------------------------------------------------------- the run

// frontLine: entry points that get raw bytes straight from a peer; their exhaustive prefix is 3 bytes in the quick
// tier too (every pure entry point gets 3 bytes in the thorough tier, 2 in the quick one).
var frontLine = map[string]bool{"blockchain.NewBlock": true, "blockchain.NewBlockHeader": true, "blockchain.NewTransaction": true,
	"blockchain.NewBlockAsset": true, "p2p.decodeResponse": true, "sync.resp.lastBlock": true, "sync.resp.highestCommonBlock": true,
	"sync.resp.blocksFromId": true, "sync.decodeRequests": true, "consensus.blockValidator": true, "txpool.transactionValidator": true,
	"smt.Verify(bytes)": true, "rmt.VerifyProof(bytes)": true, "smt.Verify(bytes,keys-of-proof)": true, "rmt.VerifyProof(bytes,queries-by-count)": true, "rmt.CalculateRootFromUpdateData(bytes)": true, "decode:p2p.Message": true,
	"decode:p2p.Request": true, "strict:consensus.EventPostSingleCommits": true, "decode:sync.GetHighestCommonBlockRequest": true,
	"decode:sync.GetBlocksFromIDRequest": true, "decode:blockchain.AggregateCommit": true}

func byTag(es []*Entry) map[string][]*Entry {
	m := map[string][]*Entry{}
	for _, e := range es {
		for _, t := range e.Tags {
			m[t] = append(m[t], e)
		}
	}
	return m
}

func child(casesPath, outPath, slotPath, disabledJSON string) {
	limitMemory()
	thorough := os.Getenv("VERIF_TIER") == "thorough"
	seed := int64(tj.EnvInt("VERIF_SEED", 1))
	t0 := time.Now()
	w, err := newWorld(envU32("C09_GENESIS_TS"), true)
	if err != nil {
		die(3, "world: %v", err)
	}
	es := buildEntries(w)
	r := newRunner(es, w.GenesisTS)
	if slotPath != "-" {
		if r.slots, err = openSlots(slotPath, false); err != nil {
			die(3, "slots: %v", err)
		}
	}
	dis := map[string]string{}
	json.Unmarshal([]byte(disabledJSON), &dis) //nolint
	for k, v := range dis {
		r.disabled[k] = v
	}
	// ---- lengths of the exhaustive sweeps (known up front: pairs they cover are not counted a second time)
	lenOf := func(e *Entry) int {
		if strings.HasPrefix(e.Tags[0], "args.") {
			return -1
		}
		if thorough || frontLine[e.Name] {
			return 3
		}
		return 2
	}
	// in addition all strings over a 38-byte alphabet (keys, small numbers, varint boundaries): quick 4 bytes for the
	// front line; thorough 5 bytes for the front line, 4 for the rest
	alphaLenOf := func(e *Entry) int {
		switch {
		case strings.HasPrefix(e.Tags[0], "args."):
			return -1
		case thorough && frontLine[e.Name]:
			return 5
		case thorough || frontLine[e.Name]:
			return 4
		}
		return lenOf(e)
	}
	for _, e := range es {
		if e.Pure && lenOf(e) >= 0 {
			r.exhLen[e.Name], r.alphaLen[e.Name] = lenOf(e), alphaLenOf(e)
		}
	}
	tags := byTag(es)
	bases := w.bases()
	info := map[string]interface{}{}
	info["sweep_alphabet"] = hex.EncodeToString(sweepAlphabet)
	baseBy := map[string]*Base{}
	errs := []string{}
	phase := map[string]float64{}
	mark := func(name string, t time.Time) { phase[name] = time.Since(t).Seconds() }
	only := os.Getenv("C09_PHASES") // development aid: comma separated subset of tlc,mut,cross,exh
	on := func(ph string) bool { return only == "" || strings.Contains(only, ph) }

	// ---- 1. the valid messages themselves (trivial cases; they must be accepted by their decoders)
	t := time.Now()
	for _, b := range bases {
		baseBy[b.Name] = b
		for _, e := range tags[b.Type] {
			v := r.Call(e, b.raw, "valid", true)
			if (strings.HasPrefix(e.Name, "decode:") || strings.HasPrefix(e.Name, "strict:")) && v != "ok" && v != "disabled" {
				errs = append(errs, fmt.Sprintf("valid base %s is not accepted by %s (%s)", b.Name, e.Name, v))
			}
		}
	}
	mark("valid", t)

	// ---- 2. cases from TLC
	t = time.Now()
	nFZ, nSH, agree, disagree := 0, 0, 0, 0
	shapeNominalOK, shapeNominal := 0, 0
	shapeAccepts := map[string]int{}
	f, err := os.Open(casesPath)
	if err != nil {
		die(3, "cases: %v", err)
	}
	sc := bufio.NewScanner(f)
	sc.Buffer(make([]byte, 1<<20), 1<<27)
	parents := map[string][]byte{}
	var cuts, late []tlcCase
	runFZ := func(c *tlcCase, in []byte) {
		b := baseBy[c.S]
		if b == nil {
			errs = append(errs, "TLC case for unknown base "+c.S)
			return
		}
		nFZ++
		trivial := bytes.Equal(in, b.raw)
		for _, e := range tags[b.Type] {
			v := r.Call(e, in, "tlc:"+c.C, trivial)
			if e.Name == "strict:"+b.Type {
				if (v == "ok") == (c.Ok == 1) {
					agree++
				} else {
					disagree++
				}
			}
		}
	}
	for on("tlc") && sc.Scan() {
		c := &tlcCase{}
		if json.Unmarshal(sc.Bytes(), c) != nil {
			continue
		}
		switch c.T {
		case "FZ":
			key := fmt.Sprintf("%s|%v|%s", c.S, c.P, c.C)
			if c.K <= 0 {
				in := toBytes(c.B)
				if c.K == 0 {
					parents[key] = in
				}
				runFZ(c, in)
			} else {
				cuts = append(cuts, *c)
			}
		case "SH":
			nSH++
			if c.S == "rmtrw" {
				// a call that never returns cannot be killed and keeps a processor busy: this family (known to hang) runs last
				late = append(late, *c)
				continue
			}
			for _, s := range w.shape(c.S, c.P) {
				in := s.a.bytes()
				for _, e := range tags[s.tag] {
					v := r.Call(e, in, "shape:"+c.S, false)
					nominalEntry := map[string]bool{"crypto.BLSVerifyAggSig": true, "crypto.BLSVerifyWeightedAggSig": true, "consensus.verifyAggregateCommit(struct)": true,
						"crypto.BLSVerify": true, "crypto.VerifySignature": true, "rmt.VerifyProof": true, "smt.Verify": true}[e.Name]
					if c.Ok == 1 && nominalEntry {
						shapeNominal++
						if v == "ok" {
							shapeNominalOK++
						} else {
							errs = append(errs, fmt.Sprintf("nominal shape %s %v is not accepted by %s (%s)", c.S, c.P, e.Name, v))
						}
					}
					if c.Ok == 0 && v == "ok" {
						shapeAccepts[e.Name]++
					}
				}
			}
		}
	}
	f.Close()
	for i := range cuts {
		c := &cuts[i]
		p, ok := parents[fmt.Sprintf("%s|%v|%s", c.S, c.P, c.C)]
		if !ok || c.K > len(p) {
			errs = append(errs, fmt.Sprintf("TLC truncation without parent: %s %v %s %d", c.S, c.P, c.C, c.K))
			continue
		}
		runFZ(c, p[:c.K])
	}
	mark("tlc", t)
	info["tlc_wire_cases"], info["tlc_shape_cases"] = nFZ, nSH
	info["spec_vs_strict_decoder_agree"], info["spec_vs_strict_decoder_disagree"] = agree, disagree
	info["nominal_shapes_accepted"], info["nominal_shape_calls"] = shapeNominalOK, shapeNominal
	info["malformed_shapes_accepted_by"] = shapeAccepts

	// ---- 3. structure-aware mutations of every valid message
	t = time.Now()
	netRaw := [][]byte{}
	for _, b := range bases {
		if b.net && len(b.raw) < 2048 {
			netRaw = append(netRaw, b.raw)
		}
	}
	nMut := 0
	for bi, b := range bases {
		if !on("mut") {
			break
		}
		rng := rand.New(rand.NewSource(seed*1000003 + int64(bi)))
		others := [][]byte{}
		if b.net {
			// two other valid messages to splice with (seeded choice)
			for j := 0; j < 2; j++ {
				others = append(others, netRaw[rng.Intn(len(netRaw))])
			}
		}
		targets := tags[b.Type]
		// quick tier: the stateful entry points (signature checks, database) see every second bit flip / byte replacement
		slowEvery := 1
		if !thorough {
			slowEvery = 2
		}
		// (the phase of the thinning follows the seed: different seeds give the stateful entries the other half)
		i := int(seed % 2)
		if i < 0 {
			i = -i
		}
		mutations(b.raw, others, rng, thorough, func(m mutant) {
			nMut++
			i++
			for _, e := range targets {
				if !e.Pure && (m.origin == "bitflip" || m.origin == "byteset") && i%slowEvery != 0 {
					continue
				}
				r.Call(e, m.b, "mut:"+m.origin, bytes.Equal(m.b, b.raw))
			}
		})
	}
	mark("mutations", t)
	info["mutants"] = nMut

	// ---- 4. every valid message to every pure entry point (wrong schema), and odd blocks
	t = time.Now()
	for _, b := range bases {
		if !on("cross") {
			break
		}
		for _, e := range es {
			if e.Pure && !strings.HasPrefix(e.Tags[0], "args.") {
				r.Call(e, b.raw, "cross", false)
			}
		}
	}
	odd := w.oddBlocks()
	for _, m := range odd {
		if !on("cross") {
			break
		}
		for _, e := range tags["blockchain.Block"] {
			r.Call(e, m.b, m.origin[:strings.IndexAny(m.origin+"+", "+")], false)
		}
	}
	mark("cross+odd", t)
	info["odd_blocks"] = len(odd)

	// ---- 5. all byte strings up to length L for every pure decoder / validator
	t = time.Now()
	var m0, m1 runtime.MemStats
	runtime.ReadMemStats(&m0)
	workers := runtime.NumCPU()
	if workers > 24 {
		workers = 24
	}
	// billions of tiny allocations: collect by heap size (4 GiB), not by growth ratio of a few-MB heap
	oldGC := debug.SetGCPercent(-1)
	oldLimit := debug.SetMemoryLimit(4 << 30)
	if !on("exh") {
		lenOf = func(e *Entry) int { return -1 }
		alphaLenOf = lenOf
	}
	_ = only
	calls, wall := r.Exhaustive(es, lenOf, alphaLenOf, workers)
	debug.SetGCPercent(oldGC)
	debug.SetMemoryLimit(oldLimit)
	runtime.ReadMemStats(&m1)
	per := float64(m1.TotalAlloc-m0.TotalAlloc) / float64(calls+1)
	info["exhaustive_calls"], info["exhaustive_wall_s"], info["exhaustive_alloc_per_call"] = calls, wall.Seconds(), per
	if per > 65536 && calls > 100000 {
		r.violation("alloc:exhaustive-sweep", fmt.Sprintf("the sweep over all strings of length <= 3 allocated %.0f bytes per call on average", per), es[0], nil)
	}
	// stateful network-facing entries: all strings up to length 2, measured one by one
	buf := make([]byte, 2)
	for _, e := range es {
		if e.Pure || strings.HasPrefix(e.Tags[0], "args.") || e.Name == "consensus.process" || !on("exh") {
			continue
		}
		r.exhLen[e.Name] = 0
		L := 1
		if thorough {
			L = 2
		}
		r.Call(e, buf[:0], "exhaustive", false)
		for a := 0; a < 256; a++ {
			buf[0] = byte(a)
			r.Call(e, buf[:1], "exhaustive", false)
			if L == 2 {
				for c := 0; c < 256; c++ {
					buf[1] = byte(c)
					r.Call(e, buf[:2], "exhaustive", false)
				}
			}
		}
	}
	mark("exhaustive", t)

	// ---- 6. every failing input to the other entry points that take the same kind of message
	t = time.Now()
	byName := map[string]*Entry{}
	for _, e := range es {
		byName[e.Name] = e
	}
	snapshot := append([]Violation{}, r.viol...)
	for _, v := range snapshot {
		src := byName[v.Replay["entry"].(string)]
		in, err := hex.DecodeString(v.Replay["input_hex"].(string))
		if src == nil || err != nil || strings.HasPrefix(v.Key, "hang:") {
			continue
		}
		for _, tag := range src.Tags {
			for _, e := range tags[tag] {
				if e != src {
					r.Call(e, in, "propagate", false)
				}
			}
		}
	}
	// ... and inside the envelopes it travels in: a failing block as an element of a getBlocksFromId response, as the payload
	// of a gossip message, a failing header / transaction as part of a block, a failing RPC payload inside a request stream
	ld := func(field int, b []byte) []byte {
		return append(append([]byte{byte(field<<3 | 2)}, uvarint(uint64(len(b)))...), b...)
	}
	type env struct {
		tag   string
		entry string
		wrap  func([]byte) []byte
	}
	envs := []env{
		{"blockchain.Block", "sync.resp.blocksFromId", func(b []byte) []byte { return ld(1, b) }},
		{"blockchain.Block", "gossip.raw.postBlock", func(b []byte) []byte { return ld(1, b) }},
		{"consensus.EventPostSingleCommits", "gossip.raw.postSingleCommits", func(b []byte) []byte { return ld(1, b) }},
		{"blockchain.BlockHeader", "blockchain.NewBlock", func(b []byte) []byte { return ld(1, b) }},
		{"blockchain.BlockHeader", "consensus.blockValidator", func(b []byte) []byte { return ld(1, b) }},
		{"blockchain.Transaction", "blockchain.NewBlock", func(b []byte) []byte { return append(ld(1, w.Cand.Header.Encode()), ld(2, b)...) }},
		{"blockchain.AggregateCommit", "blockchain.NewBlockHeader", func(b []byte) []byte { return ld(14, b) }},
	}
	for _, v := range append([]Violation{}, r.viol...) {
		src := byName[v.Replay["entry"].(string)]
		in, err := hex.DecodeString(v.Replay["input_hex"].(string))
		if src == nil || err != nil || strings.HasPrefix(v.Key, "hang:") {
			continue
		}
		for _, en := range envs {
			for _, tag := range src.Tags {
				if tag == en.tag && byName[en.entry] != nil {
					r.Call(byName[en.entry], en.wrap(in), "envelope", false)
				}
			}
		}
	}
	// ---- 7. the shape family that is known to contain calls that never return
	for i := range late {
		c := &late[i]
		for _, s := range w.shape(c.S, c.P) {
			for _, e := range tags[s.tag] {
				r.Call(e, s.a.bytes(), "shape:"+c.S, false)
			}
		}
	}
	mark("propagate+late", t)
	// ---- 8. sequences of blocks (last: a call that never returns leaves the node unusable)
	t = time.Now()
	seqOutcomes := map[string]int{}
	if e := byName["consensus.process-sequence"]; e != nil && on("cross") {
	seq:
		for a := 0; a < 6; a++ {
			for c := 0; c < 7; c++ {
				res := r.Call(e, []byte{byte(a), byte(c)}, "block-sequence", false)
				seqOutcomes[res]++
				if strings.HasPrefix(res, "hang") || strings.HasPrefix(res, "panic") {
					break seq
				}
			}
		}
	}
	info["block_sequences"] = seqOutcomes
	mark("sequences", t)
	// ---- 9. the cases of spec/RpcFuzz.tla on the router, the HTTP handler and the websocket server
	t = time.Now()
	rpcRun, rpcOut := 0, map[string]int{}
	if path := os.Getenv("C09_RPC_CASES"); path != "" && on("rpc") {
		rf, err := os.Open(path)
		if err != nil {
			die(3, "rpc cases: %v", err)
		}
		rs := bufio.NewScanner(rf)
		rs.Buffer(make([]byte, 1<<20), 1<<26)
		for rs.Scan() {
			c := &rpcCase{}
			if json.Unmarshal(rs.Bytes(), c) != nil {
				continue
			}
			name, in := w.rpc.rpcInputs(c)
			if name == "" || byName[name] == nil {
				continue
			}
			res := r.Call(byName[name], in, "rpc:"+c.T, false)
			rpcRun++
			rpcOut[name+":"+res]++
		}
		rf.Close()
	}
	if e := byName["rpc.ws.connect-burst"]; e != nil && on("rpc") && rpcRun > 0 {
		for i := 0; i < 12; i++ {
			rpcOut["rpc.ws.connect-burst:"+r.Call(e, []byte{byte(15 - i%4)}, "rpc:burst", false)]++
		}
	}
	info["rpc_cases_run"], info["rpc_outcomes"] = rpcRun, rpcOut
	mark("rpc", t)

	rep := r.report()
	rep.Errors = append(rep.Errors, errs...)
	rep.Errors = append(rep.Errors, w.Notes...)
	rep.Info = info
	info["phase_seconds"] = phase
	info["wall_s"] = time.Since(t0).Seconds()
	info["entries"] = len(es)
	info["bases"] = len(bases)
	tj.WriteJSON(outPath, rep)
	os.Exit(0) // goroutines left behind by hung calls must not keep the process alive
}

// ---------------------------------------------------------------------------------------- supervisor

func entryList() []*Entry {
	// the entry list does not depend on the world's content, only on the registry: build it on a small world
	w, err := newWorld(envU32("C09_GENESIS_TS"), false)
	if err != nil {
		die(3, "world: %v", err)
	}
	return buildEntries(w)
}

// disableKey: a scenario entry (one with a Suffix) is switched off per case (all inputs with the same suffix), every
// other entry as a whole
func disableKey(e *Entry, in []byte) string {
	if e.Suffix != nil {
		return e.Name + "|" + e.Suffix(in)
	}
	return e.Name
}

func crashReason(stderr string) string {
	for _, l := range strings.Split(stderr, "\n") {
		if strings.Contains(l, "out of memory") || strings.Contains(l, "cannot allocate memory") {
			return "out-of-memory"
		}
		if strings.HasPrefix(l, "fatal error: ") {
			return strings.ReplaceAll(strings.TrimPrefix(l, "fatal error: "), " ", "-")
		}
		if strings.HasPrefix(l, "runtime: goroutine stack exceeds") {
			return "stack-overflow"
		}
		if strings.Contains(l, "SIGSEGV") || strings.Contains(l, "SIGBUS") || strings.Contains(l, "SIGABRT") {
			return "signal"
		}
		if strings.HasPrefix(l, "panic: ") {
			// a panic on a goroutine the code under test started (recover() of the caller does not see it)
			return "panic-in-goroutine"
		}
	}
	return "killed"
}

// panicSite: top lisk-engine frame of the goroutine that ended the process (for the key of a crash by panic).
func panicSite(stderr string) string {
	i := strings.Index(stderr, "[running]:")
	if i < 0 {
		return ""
	}
	for _, l := range strings.Split(stderr[i:], "\n") {
		if strings.HasPrefix(l, "github.com/LiskHQ/lisk-engine/") && !strings.HasPrefix(l, "\t") {
			l = strings.TrimPrefix(l, "github.com/LiskHQ/lisk-engine/")
			if j := strings.LastIndex(l, "("); j > 0 {
				l = l[:j]
			}
			return l
		}
	}
	return ""
}

const oneCap = 8 << 30 // address-space cap of the pinning run of a call suspected of exhausting the memory

// runOne executes one noted call alone in a fresh process; cap > 0 lowers the address-space limit of that process.
// Returns (the process survived, its stderr, the violations it reported itself).
func runOne(self, name string, in []byte, cap uint64) (bool, string, []Violation) {
	dir, err := os.MkdirTemp("", "c09one")
	if err != nil {
		return true, "", nil
	}
	defer os.RemoveAll(dir)
	out := dir + "/one.json"
	inf := dir + "/in.hex"
	os.WriteFile(inf, []byte(hex.EncodeToString(in)), 0o600) //nolint
	one := exec.Command(self, "one", name, "@"+inf, out)
	one.Env = append(os.Environ(), fmt.Sprintf("C09_ONE_CAP=%d", cap))
	var ob bytes.Buffer
	one.Stderr = &tailWriter{buf: &ob, max: 1 << 16}
	e1 := one.Run()
	rep := &Report{}
	if b, err := os.ReadFile(out); err == nil {
		json.Unmarshal(b, rep) //nolint
	}
	return e1 == nil, ob.String(), rep.Violations
}

// supervise runs the child (mode "child" = the fuzzing run, "scenchild" = the scenario run) until it completes.
// A child that dies (fatal runtime error, out of memory, a panic on a goroutine of the code under test) has noted the
// calls in flight in the slot file: each is re-executed alone in a fresh process to find the one that ends it.
func supervise(mode, casesPath, outPath string) {
	self, _ := os.Executable()
	dir, err := os.MkdirTemp("", "c09slots")
	if err != nil {
		die(3, "%v", err)
	}
	defer os.RemoveAll(dir)
	slotPath := dir + "/slots"
	disabled := map[string]string{}
	crashes := []Violation{}
	var names []*Entry
	gts := envU32("C09_GENESIS_TS")
	completed := false
	lastErr := ""
	for attempt := 0; attempt < 10 && !completed; attempt++ {
		s, err := openSlots(slotPath, true)
		if err != nil {
			die(3, "slots: %v", err)
		}
		dj, _ := json.Marshal(disabled)
		cmd := exec.Command(self, mode, casesPath, outPath, slotPath, string(dj))
		var eb bytes.Buffer
		cmd.Stderr = &tailWriter{buf: &eb, max: 1 << 16}
		cmd.Stdout = os.Stdout
		os.Remove(outPath)
		err = cmd.Run()
		if err == nil {
			if _, e2 := os.Stat(outPath); e2 == nil {
				completed = true
				break
			}
		}
		if ee, ok := err.(*exec.ExitError); ok && ee.ExitCode() == 3 {
			die(3, "child: %s", eb.String())
		}
		reason := crashReason(eb.String())
		site := panicSite(eb.String())
		if names == nil {
			names = entryList()
		}
		found := false
		add := func(v Violation, dk, why string) {
			crashes = append(crashes, v)
			disabled[dk] = why
			found = true
		}
		rp := func(name string, in []byte) map[string]interface{} {
			return map[string]interface{}{"entry": name, "input_hex": hex.EncodeToString(in), "genesis_ts": gts}
		}
		for _, pc := range s.pending() {
			if pc.Entry >= len(names) || !pc.Whole {
				continue
			}
			ent := names[pc.Entry]
			name, dk := ent.Name, disableKey(ent, pc.In)
			full := name + ent.suffix(pc.In) // (entry and, for scenario entries, the case)
			if _, off := disabled[dk]; off {
				continue
			}
			alive, oerr, own := runOne(self, name, pc.In, 0)
			switch {
			case !alive:
				rs := crashReason(oerr)
				if rs == "out-of-memory" {
					add(Violation{"alloc:" + full, fmt.Sprintf("%s exhausts the memory of the process (fatal error: out of memory; recover() does not help) on a %d-byte input", full, len(pc.In)), rp(name, pc.In)},
						dk, "exhausts the memory")
				} else {
					key := "crash:" + full + ":" + rs
					if st := panicSite(oerr); rs == "panic-in-goroutine" && st != "" {
						key += ":" + st
					}
					add(Violation{key, fmt.Sprintf("%s kills the process (%s; recover() does not help) on a %d-byte input", full, rs, len(pc.In)), rp(name, pc.In)},
						dk, "kills the process: "+rs)
				}
			case len(own) > 0:
				// alone it survives, but it is the call that breaks a bound (e.g. two live copies of a huge allocation ended the run)
				for _, v := range own {
					add(v, dk, "ended the run: "+v.Key)
				}
			case reason == "out-of-memory":
				// pin it: the same call under a lower address-space cap, after a control (the empty input under the same cap)
				if okc, _, _ := runOne(self, name, []byte{}, oneCap); okc {
					if ok2, e2, _ := runOne(self, name, pc.In, oneCap); !ok2 && crashReason(e2) == "out-of-memory" {
						add(Violation{"alloc:" + full, fmt.Sprintf("%s exhausts an address space of %d GiB on a %d-byte input (the run died of out-of-memory with this call in flight)", full, oneCap>>30, len(pc.In)), rp(name, pc.In)},
							dk, "exhausts the memory")
					}
				}
			}
		}
		if !found {
			if len(crashes) > 0 {
				lastErr = fmt.Sprintf("the run died again (%s%s) and no single noted call reproduces it", reason, site)
				break
			}
			die(3, "the fuzzing process died (%s %s) and no single noted call reproduces it:\n%s", reason, site, tail(eb.String(), 1500))
		}
	}
	rep := &Report{}
	if completed {
		b, err := os.ReadFile(outPath)
		if err != nil {
			die(3, "no result: %v", err)
		}
		if err := json.Unmarshal(b, rep); err != nil {
			die(3, "result: %v", err)
		}
	} else {
		// the run never completed, but what ended it was observed on the real code: report that (the coverage of the run is void)
		if len(crashes) == 0 {
			die(3, "no result after repeated crashes: %v %s", disabled, lastErr)
		}
		rep = &Report{PerEntry: map[string]int64{}, PerOrigin: map[string]int64{}, ViolationCounts: map[string]int{}, Disabled: disabled,
			Info: map[string]interface{}{"incomplete": "the run did not complete: " + lastErr}, Incomplete: true}
	}
	if rep.ViolationCounts == nil {
		rep.ViolationCounts = map[string]int{}
	}
	seen := map[string]bool{}
	for _, v := range rep.Violations {
		seen[v.Key] = true
	}
	for _, v := range crashes {
		if !seen[v.Key] {
			seen[v.Key] = true
			rep.Violations = append(rep.Violations, v)
		}
		rep.ViolationCounts[v.Key]++
	}
	sort.Slice(rep.Violations, func(i, j int) bool { return rep.Violations[i].Key < rep.Violations[j].Key })
	tj.WriteJSON(outPath, rep)
}

type tailWriter struct {
	buf *bytes.Buffer
	max int
}

func (t *tailWriter) Write(p []byte) (int, error) {
	t.buf.Write(p)
	if t.buf.Len() > 2*t.max {
		b := t.buf.Bytes()
		keep := append([]byte{}, b[len(b)-t.max:]...)
		// keep the head too: the fatal error line comes first
		head := append([]byte{}, b[:min(4096, len(b))]...)
		t.buf.Reset()
		t.buf.Write(head)
		t.buf.Write(keep)
	}
	return len(p), nil
}

func tail(s string, n int) string {
	if len(s) > n {
		return s[len(s)-n:]
	}
	return s
}

// one: a single call in a fresh process (no supervisor): exit status tells whether the process survives; the violations
// the call reports itself (allocation, deadline, panic) go to the result file.
func one(name, inHex, outPath string) {
	limitMemory()
	if c, _ := strconv.ParseUint(os.Getenv("C09_ONE_CAP"), 10, 64); c > 0 {
		syscall.Setrlimit(syscall.RLIMIT_AS, &syscall.Rlimit{Cur: c, Max: c}) //nolint
	}
	if strings.HasPrefix(inHex, "@") {
		b, err := os.ReadFile(inHex[1:])
		if err != nil {
			die(3, "input: %v", err)
		}
		inHex = strings.TrimSpace(string(b))
	}
	in, err := hex.DecodeString(inHex)
	if err != nil {
		die(3, "hex: %v", err)
	}
	w, err := newWorld(envU32("C09_GENESIS_TS"), true)
	if err != nil {
		die(3, "world: %v", err)
	}
	es := buildEntries(w)
	r := newRunner(es, w.GenesisTS)
	for _, e := range es {
		if e.Name == name {
			fmt.Fprintln(os.Stderr, "verdict:", r.Call(e, in, "one", false))
			if outPath != "" {
				tj.WriteJSON(outPath, r.report())
			}
			os.Exit(0)
		}
	}
	die(3, "no entry %s", name)
}

// replay re-executes the stored pair; the result file has the same format as a run.
func replay(path, outPath string) {
	limitMemory()
	b, err := os.ReadFile(path)
	if err != nil {
		die(3, "%v", err)
	}
	var rec struct {
		Replay struct {
			Entry     string `json:"entry"`
			InputHex  string `json:"input_hex"`
			GenesisTS uint32 `json:"genesis_ts"`
			Scenario  string `json:"scenario"` // "" one call; "leak" two batches of calls; "amp" growth with the size of a repeated field
			Amp       string `json:"amp"`
			K         int    `json:"k"`
		} `json:"replay"`
	}
	if err := json.Unmarshal(b, &rec); err != nil || rec.Replay.Entry == "" {
		die(3, "replay file: %v", err)
	}
	in, err := hex.DecodeString(rec.Replay.InputHex)
	if err != nil {
		die(3, "hex: %v", err)
	}
	w, err := newWorld(rec.Replay.GenesisTS, true)
	if err != nil {
		die(3, "world: %v", err)
	}
	es := buildEntries(w)
	r := newRunner(es, w.GenesisTS)
	var v string
	found := false
	for _, e := range es {
		if e.Name == rec.Replay.Entry && rec.Replay.Scenario != "" {
			found = true
			v = replayScenario(w, r, es, e, rec.Replay.Scenario, rec.Replay.Amp, rec.Replay.K)
			continue
		}
		if e.Name == rec.Replay.Entry {
			v = r.Call(e, in, "replay", false)
			if len(in) > 0 {
				r.Call(e, []byte{}, "replay-control", false) // the empty input as a control
			}
			found = true
		}
	}
	if !found {
		die(3, "no entry %s", rec.Replay.Entry)
	}
	rep := r.report()
	rep.DistinctNontrivial = rep.Evaluations // the stored input and the control
	rep.Info["verdict"] = v
	tj.WriteJSON(outPath, rep)
	os.Exit(0)
}
