package main

// Schema and abstract value of a generated-codec type by reflection (same conventions as cmd/c08:
// the vocabulary of spec/Wire.tla).

import (
	"reflect"
	"sort"
	"strconv"
	"strings"
	"unsafe"

	"golang.org/x/text/unicode/norm"
)

type msg interface {
	Encode() []byte
	Decode([]byte) error
	DecodeStrict([]byte) error
}

type entry struct {
	name string
	mk   func() msg
}

// addExported: lib/props/c08.py (the generator of types.go, shared with C08) emits one call per package of the tree that offers
// constructors of its UNEXPORTED generated-codec types (`VerifCodecTypes()`, build tag verif).  C09 reaches those types
// through the entry points that use them (sync.decodeRequests, sync.resp.*, p2p.decodeResponse, ...); they are not added to
// its registry (the set of entry points of this check does not depend on which optional exports a tree carries).
func addExported(pkg string, m map[string]func() interface{}) {}

type field struct {
	num  int
	kind string
	sub  []field
	idx  int
}

func kindOf(t reflect.Type) (string, reflect.Type) {
	switch t.Kind() {
	case reflect.Bool:
		return "bool", nil
	case reflect.Uint32:
		return "uint32", nil
	case reflect.Uint64:
		return "uint", nil
	case reflect.Int32, reflect.Int64:
		return "sint", nil
	case reflect.String:
		return "string", nil
	case reflect.Ptr:
		if t.Elem().Kind() == reflect.Struct {
			return "nested", t.Elem()
		}
	case reflect.Slice:
		e := t.Elem()
		if e.Kind() == reflect.Uint8 {
			return "bytes", nil
		}
		k, st := kindOf(e)
		switch k {
		case "bool", "uint32", "uint", "sint", "string", "bytes", "nested":
			return "r" + k, st
		}
	}
	return "", nil
}

func fld(v reflect.Value, i int) reflect.Value {
	f := v.Field(i)
	if f.CanSet() {
		return f
	}
	return reflect.NewAt(f.Type(), unsafe.Pointer(f.UnsafeAddr())).Elem()
}

func schemaOf(t reflect.Type, depth int) ([]field, bool) {
	if depth > 6 {
		return nil, false
	}
	var fs []field
	for i := 0; i < t.NumField(); i++ {
		sf := t.Field(i)
		tag, has := sf.Tag.Lookup("fieldNumber")
		if !has {
			continue
		}
		n, err := strconv.Atoi(tag)
		if err != nil {
			continue
		}
		k, st := kindOf(sf.Type)
		if k == "" {
			return nil, false
		}
		f := field{num: n, kind: k, idx: i}
		if st != nil {
			sub, ok := schemaOf(st, depth+1)
			if !ok {
				return nil, false
			}
			f.sub = sub
		}
		fs = append(fs, f)
	}
	sort.Slice(fs, func(i, j int) bool { return fs[i].num < fs[j].num })
	return fs, len(fs) > 0
}

func schemaJSON(fs []field) []interface{} {
	out := make([]interface{}, 0, len(fs))
	for _, f := range fs {
		out = append(out, []interface{}{f.num, f.kind, schemaJSON(f.sub)})
	}
	return out
}

func digits(x uint64) []int {
	d := []int{}
	for x > 0 {
		d = append(d, int(x&127))
		x >>= 7
	}
	return d
}

func signed(x int64) []interface{} {
	if x >= 0 {
		return []interface{}{0, digits(uint64(x))}
	}
	return []interface{}{1, digits(uint64(^x))}
}

func byteSeq(b []byte) []int {
	out := make([]int, len(b))
	for i, c := range b {
		out[i] = int(c)
	}
	return out
}

func b2i(b bool) int {
	if b {
		return 1
	}
	return 0
}

func absItem(k string, v reflect.Value, sub []field) interface{} {
	switch k {
	case "bool":
		return b2i(v.Bool())
	case "uint32", "uint":
		return digits(v.Uint())
	case "sint":
		return signed(v.Int())
	case "string":
		return byteSeq([]byte(norm.NFC.String(v.String())))
	case "bytes":
		return byteSeq(v.Bytes())
	case "nested":
		if v.IsNil() {
			return nil
		}
		return abstract(v.Elem(), sub)
	}
	panic("kind " + k)
}

func abstract(v reflect.Value, fs []field) []interface{} {
	out := make([]interface{}, 0, len(fs))
	for _, f := range fs {
		fv := fld(v, f.idx)
		if strings.HasPrefix(f.kind, "r") {
			items := []interface{}{}
			for i := 0; i < fv.Len(); i++ {
				items = append(items, absItem(f.kind[1:], fv.Index(i), f.sub))
			}
			out = append(out, items)
		} else {
			out = append(out, absItem(f.kind, fv, f.sub))
		}
	}
	return out
}
