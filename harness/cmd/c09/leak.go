package main

// Resources over MANY calls and over LARGE inputs (the per-call oracle of exec.go sees neither).
//
// leak:   per stateful entry point a batch of calls with its valid message and a few malformed ones; goroutines and live heap
//         (after a collection) are read before and after, after waiting for what ends by itself.  Growth that is
//         proportional to the number of calls in TWO consecutive batches is "leak:<entry>"; a reading that does not settle
//         is inconclusive, never a violation.
// growth: family "amp" of spec/WireFuzz.tla - a repeated field of a valid message repeated 10^k times (elements made distinct
//         by a counter in their last bytes).  Every call runs under the allocation ceiling and the deadline of exec.go; in
//         addition the CPU time of the calling thread (getrusage(RUSAGE_THREAD): not disturbed by other processes) for 10^k
//         and 10^(k-1) elements must not grow by more than growthLimit (a linear decoder shows 10, a quadratic one 100);
//         judged only when three independent rounds agree.

import (
	"bytes"
	"encoding/binary"
	"fmt"
	"runtime"
	"sort"
	"strings"
	"syscall"
	"time"

	"github.com/LiskHQ/lisk-engine/pkg/blockchain"
)

// ---------------------------------------------------------------------------------------- goroutines / heap

func goroutineTops() map[string]int {
	buf := make([]byte, 1<<20)
	for {
		n := runtime.Stack(buf, true)
		if n < len(buf) {
			buf = buf[:n]
			break
		}
		buf = make([]byte, 2*len(buf))
	}
	tops := map[string]int{}
	for _, g := range strings.Split(string(buf), "\n\n") {
		lines := strings.Split(g, "\n")
		top := ""
		for _, l := range lines[1:] {
			if strings.HasPrefix(l, "\t") || strings.HasPrefix(l, "created by") {
				continue
			}
			if i := strings.LastIndex(l, "("); i > 0 {
				l = l[:i]
			}
			if strings.HasPrefix(l, "runtime.") || strings.HasPrefix(l, "sync.") || strings.HasPrefix(l, "internal/") || strings.HasPrefix(l, "time.") {
				continue
			}
			top = strings.TrimPrefix(l, "github.com/LiskHQ/lisk-engine/")
			break
		}
		if top != "" {
			tops[top]++
		}
	}
	return tops
}

// settle waits until the number of goroutines has stopped falling (two equal readings 200 ms apart) or max has passed.
func settle(target int, max time.Duration) int {
	deadline := time.Now().Add(max)
	last := runtime.NumGoroutine()
	for time.Now().Before(deadline) {
		if last <= target {
			return last
		}
		time.Sleep(200 * time.Millisecond)
		cur := runtime.NumGoroutine()
		if cur >= last && time.Until(deadline) < max/2 {
			return cur
		}
		last = cur
	}
	return runtime.NumGoroutine()
}

func liveHeap() uint64 {
	runtime.GC()
	runtime.GC()
	var m runtime.MemStats
	runtime.ReadMemStats(&m)
	return m.HeapAlloc
}

type leakReading struct {
	calls      int
	goroutines int
	heap       int64
}

// leakBatch: n calls (at most for `budget` of wall time, at least minCalls) and the growth they leave behind.
func leakBatch(r *Runner, e *Entry, inputs [][]byte, n int, budget time.Duration, settleMax time.Duration) leakReading {
	g0 := settle(0, 300*time.Millisecond)
	h0 := liveHeap()
	t0 := time.Now()
	calls := 0
	for i := 0; i < n; i++ {
		if r.Call(e, inputs[i%len(inputs)], "leak", false) == "disabled" {
			break
		}
		calls++
		if calls >= 100 && time.Since(t0) > budget {
			break
		}
	}
	g1 := settle(g0+calls/20, settleMax)
	h1 := liveHeap()
	return leakReading{calls, g1 - g0, int64(h1) - int64(h0)}
}

const (
	leakPerCallGoroutines = 0.25      // goroutines left per call that count as growth (a leak of one per call shows 1.0)
	leakPerCallHeap       = 16 << 10  // live bytes left per call that count as growth ...
	leakHeapFloor         = 32 << 20  // ... if they also exceed this in total
)

func (x leakReading) grows() (bool, string) {
	if x.calls == 0 {
		return false, ""
	}
	if float64(x.goroutines) >= leakPerCallGoroutines*float64(x.calls) && x.goroutines >= 20 {
		return true, "goroutines"
	}
	if x.heap >= int64(leakPerCallHeap)*int64(x.calls) && x.heap >= leakHeapFloor {
		return true, "heap"
	}
	return false, ""
}

// leakCheck runs two batches; only growth in both (of the same kind) is reported.
func leakCheck(r *Runner, e *Entry, inputs [][]byte, n int, budget, settleMax time.Duration) (kind, what string, a, b leakReading) {
	before := goroutineTops()
	a = leakBatch(r, e, inputs, n, budget, settleMax)
	ga, ka := a.grows()
	if !ga {
		return "", "", a, b
	}
	b = leakBatch(r, e, inputs, n, budget, settleMax)
	gb, kb := b.grows()
	if !gb || ka != kb {
		return "", "", a, b
	}
	// give what ends by itself a last, longer chance (dial back-off, request time-outs, a machine that is busy with other
	// jobs): as long as the number of goroutines keeps falling nothing is concluded; growth that disappears is no leak
	if ka == "goroutines" {
		start := runtime.NumGoroutine()
		low, lowAt := start, time.Now()
		for t0 := time.Now(); time.Since(t0) < 90*time.Second && time.Since(lowAt) < 6*time.Second; time.Sleep(500 * time.Millisecond) {
			if g := runtime.NumGoroutine(); g < low {
				low, lowAt = g, time.Now()
			}
		}
		gone := start - low
		if float64(gone) > 0.5*float64(a.goroutines+b.goroutines) {
			return "", "", a, b // they ended
		}
		if gone > (a.goroutines+b.goroutines)/10 {
			return "inconclusive", fmt.Sprintf("goroutines left by %d calls of %s were still ending after 90 s", a.calls+b.calls, e.Name), a, b
		}
	}
	after := goroutineTops()
	type kv struct {
		k string
		v int
	}
	diff := []kv{}
	for k, v := range after {
		if v-before[k] > 0 {
			diff = append(diff, kv{k, v - before[k]})
		}
	}
	sort.Slice(diff, func(i, j int) bool { return diff[i].v > diff[j].v })
	where := ""
	for i, d := range diff {
		if i >= 3 {
			break
		}
		where += fmt.Sprintf(" %d x %s;", d.v, d.k)
	}
	if ka == "goroutines" {
		return "leak", fmt.Sprintf("%d + %d calls of %s left %d + %d goroutines behind that do not end (blocked in:%s)", a.calls, b.calls, e.Name, a.goroutines, b.goroutines, where), a, b
	}
	return "leak", fmt.Sprintf("%d + %d calls of %s left %d + %d bytes of live heap behind", a.calls, b.calls, e.Name, a.heap, b.heap), a, b
}

// leakInputs: the valid message(s) of the entry's schemas and a few malformed ones.
func leakInputs(e *Entry, bases []*Base) [][]byte {
	in := [][]byte{}
	for _, b := range bases {
		for _, t := range e.Tags {
			if b.Type == t && len(b.raw) > 0 {
				in = append(in, b.raw, b.raw[:len(b.raw)/2], append(append([]byte{}, b.raw...), 0x08))
			}
		}
	}
	return in
}

// ---------------------------------------------------------------------------------------- growth with the input size

func threadCPU() time.Duration {
	var ru syscall.Rusage
	const rusageThread = 1
	if err := syscall.Getrusage(rusageThread, &ru); err != nil {
		return 0
	}
	return time.Duration(ru.Utime.Nano() + ru.Stime.Nano())
}

// cpuOf: CPU time per call on a locked thread.  The kernel may account CPU time in scheduler ticks (4 ms): the call is
// repeated until at least cpuSample of CPU time (>= 12 ticks) has been used, and the total is divided by the number of calls.
const cpuSample = 50 * time.Millisecond

func cpuOf(e *Entry, in []byte) (per time.Duration, panicked bool) {
	done := make(chan struct{})
	go func() {
		defer close(done)
		runtime.LockOSThread()
		defer runtime.UnlockOSThread()
		t0, w0 := threadCPU(), time.Now()
		n := 0
		for {
			func() {
				defer func() {
					if recover() != nil {
						panicked = true
					}
				}()
				e.Fn(in)
			}()
			n++
			used := threadCPU() - t0
			if panicked || used >= cpuSample || (n >= 3 && time.Since(w0) > 3*time.Second) || n >= 100000 {
				per = used / time.Duration(n)
				return
			}
		}
	}()
	<-done
	return per, panicked
}

type tlv struct {
	num, wt              int
	start, valOff, end   int
	payOff, payLen       int
}

func topLevel(b []byte) ([]tlv, bool) {
	out := []tlv{}
	off := 0
	for off < len(b) {
		key, kl, ok := readVarint(b, off)
		if !ok {
			return nil, false
		}
		t := tlv{num: int(key >> 3), wt: int(key & 7), start: off, valOff: off + kl}
		switch t.wt {
		case 0:
			_, vl, ok := readVarint(b, off+kl)
			if !ok {
				return nil, false
			}
			t.end = off + kl + vl
		case 2:
			l, ll, ok := readVarint(b, off+kl)
			if !ok || l > uint64(len(b)-(off+kl+ll)) {
				return nil, false
			}
			t.payOff, t.payLen = off+kl+ll, int(l)
			t.end = t.payOff + t.payLen
		default:
			return nil, false
		}
		out = append(out, t)
		off = t.end
	}
	return out, true
}

func ldField(num int, payload []byte) []byte {
	out := append(uvarint(uint64(num<<3|2)), uvarint(uint64(len(payload)))...)
	return append(out, payload...)
}

// amplify: the field at `path` (1-based indexes into the schema, descending into nested messages / the last element of
// repeated nested ones) with its last element repeated `count` times; elements are made distinct by a counter in their
// last four bytes.  Enclosing length prefixes are recomputed.
func amplify(raw []byte, schema []interface{}, path []int, count int) ([]byte, bool) {
	if len(path) == 0 || path[0] < 1 || path[0] > len(schema) {
		return nil, false
	}
	f, ok := schema[path[0]-1].([]interface{})
	if !ok || len(f) < 3 {
		return nil, false
	}
	num, _ := f[0].(int)
	kind, _ := f[1].(string)
	sub, _ := f[2].([]interface{})
	ts, ok := topLevel(raw)
	if !ok {
		return nil, false
	}
	last := -1
	for i, t := range ts {
		if t.num == num && t.wt == 2 {
			last = i
		}
	}
	if last < 0 {
		return nil, false
	}
	t := ts[last]
	payload := raw[t.payOff : t.payOff+t.payLen]
	rebuild := func(repl []byte) []byte {
		out := append([]byte{}, raw[:t.start]...)
		out = append(out, repl...)
		return append(out, raw[t.end:]...)
	}
	if len(path) > 1 {
		inner, ok := amplify(payload, sub, path[1:], count)
		if !ok {
			return nil, false
		}
		return rebuild(ldField(num, inner)), true
	}
	switch kind {
	case "ruint", "ruint32", "rsint", "rbool":
		items := 0
		for _, c := range payload {
			if c&0x80 == 0 {
				items++
			}
		}
		if items == 0 {
			return nil, false
		}
		return rebuild(ldField(num, bytes.Repeat(payload, (count+items-1)/items))), true
	case "rbytes", "rstring", "rnested":
		var out bytes.Buffer
		out.Write(raw[t.start:t.end])
		el := append([]byte{}, payload...)
		for i := 1; i < count; i++ {
			if len(el) >= 4 && kind != "rstring" {
				binary.BigEndian.PutUint32(el[len(el)-4:], binary.BigEndian.Uint32(payload[len(payload)-4:])^uint32(i))
			}
			out.Write(ldField(num, el))
		}
		return rebuild(out.Bytes()), true
	}
	return nil, false
}

// manyAssets: a block whose header is the valid candidate's and which carries n assets with distinct ascending module names
// (the element-wise generator cannot produce names the asset rules accept).
func (w *World) manyAssets(n int) []byte {
	b, err := blockchain.NewBlock(w.Cand.Encode())
	if err != nil {
		panic(err)
	}
	b.Assets = make([]*blockchain.BlockAsset, n)
	for i := range b.Assets {
		b.Assets[i] = &blockchain.BlockAsset{Module: fmt.Sprintf("a%07d", i), Data: []byte{byte(i)}}
	}
	b.Header.AssetRoot = blockchain.BlockAssets(b.Assets).GetRoot()
	return b.Encode()
}

const (
	growthLimit  = 40.0
	growthMinCPU = 5 * time.Millisecond
)
