package main

// probes.go: the probe section of a replayed script (C03). At the state the script ends in, every candidate of
// Node.tla's Probes / TieProbes / DoubleForgeProbe (a valid successor or a tie-break competitor with exactly one
// validity rule broken) is offered to the real Executer
//   - as a block received from a peer                     process(block, peerID)
//   - as a block handed over by the node's own generator  process(block, "")      keys *-own:*
//   - as a synchronisation hands over a downloaded block  processValidated(block) keys *-via-sync:*
// and must be rejected leaving chain, consensus state, finalized height and published events as they were.

import (
	"bytes"
	"crypto/sha256"
	"encoding/binary"
	"fmt"
	"sort"
	"strings"

	"github.com/LiskHQ/lisk-engine/pkg/blockchain"
	"github.com/LiskHQ/lisk-engine/pkg/db/diffdb"
	"github.com/LiskHQ/lisk-engine/pkg/p2p"

	"verifharness/internal/node"
)

// ProbeStats: counters of the probe section (non-vacuity guards of lib/props/c03.py)
type ProbeStats struct {
	Peer     int `json:"offered_as_peer_block"`
	Own      int `json:"offered_as_own_block"`
	Sync     int `json:"offered_to_processValidated"`
	StaticNo int `json:"statically_invalid"`
	ZeroEv   int `json:"on_blocks_without_events"`
}

func processAs(n *node.Node, b *blockchain.Block, peer p2p.PeerID) (err error, panicked interface{}) {
	defer func() {
		if e := recover(); e != nil {
			panicked = e
		}
	}()
	return n.Ex.VerifProcess(b, peer), nil
}

// statePrefixes: the key spaces of the node database the statement of C03 talks about: blocks, height index,
// transactions, temporary blocks, assets, stored events (chain and events), the consensus / BFT state, the finalized
// height, the state diffs the consensus state is restored from.  Records under any OTHER prefix (bookkeeping the statement is
// silent about, e.g. a persisted peer or ban record) are not compared.
var statePrefixes = map[string]bool{"03": true, "04": true, "05": true, "06": true, "07": true, "08": true, "09": true, "0a": true, "1b": true, "33": true}

var statePrefixByte = func() (res [256]bool) {
	for p := range statePrefixes {
		var b byte
		fmt.Sscanf(p, "%02x", &b)
		res[b] = true
	}
	return
}()

// rejectDump: the part of the database a rejected block must leave exactly as it was, as one string.
func rejectDump(n *node.Node) string {
	var sb strings.Builder
	for _, l := range n.Dump() {
		if len(l) >= 2 && statePrefixes[l[:2]] {
			sb.WriteString(l)
			sb.WriteByte('\n')
		}
	}
	return sb.String()
}

// rejectDigest: SHA-256 over the same records as rejectDump (what is compared after every probe; the text form is only
// produced for the message of a violation).  A state diff is hashed as the sorted set of its entries, as Dump prints it.
func rejectDigest(n *node.Node) [32]byte {
	h := sha256.New()
	var lb [8]byte
	put := func(b []byte) {
		binary.BigEndian.PutUint64(lb[:], uint64(len(b)))
		h.Write(lb[:])
		h.Write(b)
	}
	for _, kv := range n.DB.Iterate([]byte{}, -1, false) {
		k := kv.Key()
		if len(k) == 0 || !statePrefixByte[k[0]] {
			continue
		}
		v := kv.Value()
		if k[0] == 51 {
			d := &diffdb.Diff{}
			if err := d.Decode(v); err == nil {
				parts := []string{}
				for _, a := range d.Added {
					parts = append(parts, fmt.Sprintf("A:%x", a))
				}
				for _, u := range d.Updated {
					parts = append(parts, fmt.Sprintf("U:%x:%x", u.Key, u.Value))
				}
				for _, u := range d.Deleted {
					parts = append(parts, fmt.Sprintf("D:%x:%x", u.Key, u.Value))
				}
				sort.Strings(parts)
				v = []byte(strings.Join(parts, ","))
			}
		}
		put(k)
		put(v)
	}
	var res [32]byte
	copy(res[:], h.Sum(nil))
	return res
}

func diffOf(before, after string) string {
	return firstDiff(strings.Split(before, "\n"), strings.Split(after, "\n"))
}

func runProbes(cfg *node.Config, n *node.Node, d *Dump) {
	if len(d.Probes) == 0 {
		return
	}
	before, beforeD := rejectDump(n), rejectDigest(n)
	ob, err := n.Observe()
	if err != nil {
		return
	}
	st := ProbeStats{}
	defer func() {
		mu.Lock()
		if out.ProbeStats == nil {
			out.ProbeStats = &ProbeStats{}
		}
		out.ProbeStats.Peer += st.Peer
		out.ProbeStats.Own += st.Own
		out.ProbeStats.Sync += st.Sync
		out.ProbeStats.StaticNo += st.StaticNo
		out.ProbeStats.ZeroEv += st.ZeroEv
		mu.Unlock()
	}()
	entries := []struct {
		peer p2p.PeerID
		tag  string // suffix of the violation key
		what string
	}{
		{"12D3KooWverifpeer", "", "received from a peer"},
		{"", "-own", "handed over by the node's own generator (peerID \"\")"},
	}
probes:
	for pi := range d.Probes {
		p := &d.Probes[pi]
		b := n.Build(&p.Cand)
		mu.Lock()
		out.Probes++
		out.ProbeKinds[p.Mut]++
		mu.Unlock()
		static := b.Validate() != nil
		if static {
			st.StaticNo++
		}
		if cfg.NoBeforeEvent && !cfg.AfterEvent && len(b.Transactions) == 0 {
			st.ZeroEv++
		}
		r := map[string]interface{}{"script": d.Script, "probe": p, "hcfg": cfg} // hcfg: bin/check --replay merges it into the default configuration
		for _, e := range entries {
			if e.tag == "" {
				st.Peer++
			} else {
				st.Own++
			}
			_, pv := processAs(n, b, e.peer)
			if pv != nil {
				viol("panic:process"+e.tag+":"+p.Mut, fmt.Sprintf("process() panicked on an invalid block (%s) %s: %v", p.Mut, e.what, pv), r)
				return
			}
			if bytes.Equal(n.Tip().Header.ID, b.Header.ID) {
				viol("accepts-invalid"+e.tag+":"+p.Mut, fmt.Sprintf("a block violating one validity rule (%s), %s, is appended to the chain", p.Mut, e.what), r)
				// put the node back on the chain the script knows, then go on with the other probes (a competitor that
				// replaced the tip cannot be undone: the remaining probes of this script would be offered on another chain)
				if p.Prev == "parent" {
					return
				}
				if err := n.Ex.VerifDeleteBlock(n.Tip(), false); err != nil {
					return
				}
				n.Drain()
				before, beforeD = rejectDump(n), rejectDigest(n)
				if ob, err = n.Observe(); err != nil {
					return
				}
				continue probes
			}
			oa, _ := n.Observe()
			evs := n.Drain()
			if oa != nil && n.Toy.Height() != int(oa.TipH) { // both abstract heights (0 = genesis)
				viol("reject-changes-state"+e.tag+":"+p.Mut+":application", fmt.Sprintf("a rejected block (%s), %s, left the application state committed at height %d while the tip is at height %d", p.Mut, e.what, n.Toy.Height(), oa.TipH), r)
				return
			}
			if oa == nil || *oaKey(oa) != *oaKey(ob) || rejectDigest(n) != beforeD {
				viol("reject-changes-state"+e.tag+":"+p.Mut, fmt.Sprintf("a rejected block (%s), %s, changed the node state: before %+v after %+v; %s", p.Mut, e.what, *ob, oa, diffOf(before, rejectDump(n))), r)
				return
			}
			if len(evs) > 0 {
				viol("reject-emits-events"+e.tag+":"+p.Mut, fmt.Sprintf("a rejected block (%s), %s, caused events [%s]", p.Mut, e.what, evString(evs)), r)
			}
		}
		// the same block as a synchronisation hands it over: blocks downloaded from a peer skip the fork choice of
		// process() - they are validated statically and given to processValidated one after the other
		if strings.HasPrefix(p.Mut, "tiebreak") || p.Mut == "double-forging" || static {
			continue
		}
		var serr error
		func() {
			defer func() {
				if e := recover(); e != nil {
					serr = fmt.Errorf("panic: %v", e)
				}
			}()
			n.Toy.Lenient = true
			defer func() { n.Toy.Lenient = false }()
			serr = n.Ex.VerifProcessValidated(b, false, false)
		}()
		st.Sync++
		mu.Lock()
		out.SyncProbes++
		mu.Unlock()
		oa2, _ := n.Observe()
		evs2 := n.Drain()
		if serr == nil {
			viol("accepts-invalid-via-sync:"+p.Mut, fmt.Sprintf("a block violating one validity rule (%s) is accepted by processValidated, the entry point of downloaded blocks (tip now at height %d)", p.Mut, oa2.TipH), r)
			return
		}
		if oa2 == nil || *oaKey(oa2) != *oaKey(ob) || rejectDigest(n) != beforeD {
			viol("reject-changes-state-via-sync:"+p.Mut, fmt.Sprintf("a block (%s) rejected by processValidated changed the node state (%v): before %+v after %+v; %s", p.Mut, serr, *ob, oa2, diffOf(before, rejectDump(n))), r)
			return
		}
		if len(evs2) > 0 {
			viol("reject-emits-events-via-sync:"+p.Mut, fmt.Sprintf("a block (%s) rejected by processValidated caused events [%s]", p.Mut, evString(evs2)), r)
		}
	}
}
