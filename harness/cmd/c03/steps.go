// steps.go: the step loop of the script replay (C03 / C04 / C05): every step of a Node.tla script is executed on the real
// Executer and the projected node state, the finalized blocks, the published events and - for deletes, refused tie
// breaks and rejected blocks - the full database dump are compared with what the specification says.
package main

import (
	"bytes"
	"encoding/binary"
	"errors"
	"fmt"
	"os"
	"sort"
	"strings"
	"time"

	"github.com/LiskHQ/lisk-engine/pkg/blockchain"
	"github.com/LiskHQ/lisk-engine/pkg/db/diffdb"

	"verifharness/internal/node"
)

// StepStats: counters of the step loop (non-vacuity guards of the driver read them)
type StepStats struct {
	Mutants          int            `json:"mutant_steps"`
	MutantKinds      map[string]int `json:"mutant_step_kinds"`
	BlocksAfterMut   int            `json:"blocks_accepted_after_a_rejected_step"`
	RaisesAfterMut   int            `json:"finality_raises_after_a_rejected_step"`
	FinalizeEvents   int            `json:"finalize_events_compared"`
	FinIDsRead       int            `json:"finalized_ids_read"`
	FinIDsBelowCache int            `json:"finalized_ids_read_below_the_cache_window"`
	PrunedDeletes    int            `json:"deletes_whose_diff_restores_deleted_keys"`
	RestartsAfterDel int            `json:"restarts_after_a_delete"`
	RestartTwice     int            `json:"scripts_with_two_restarts"`
	ManyDeletes      int            `json:"scripts_with_four_or_more_deletes"`
	SameHeightThrice int            `json:"scripts_applying_three_blocks_at_one_height"`
	RefusedTieDumps  int            `json:"refused_tiebreak_dumps_compared"`
	AssetBlocks      int            `json:"blocks_with_plain_asset"`
	AssetNoTxDeleted int            `json:"deleted_blocks_with_asset_and_no_transaction"`
	TieWithPayload   int            `json:"tiebreaks_with_transactions_or_validator_change"`
	RebuildFails     int            `json:"reorg_rebuild_fails"`
}

func (s *StepStats) add(f func(*StepStats)) {
	mu.Lock()
	defer mu.Unlock()
	if out.StepStats == nil {
		out.StepStats = &StepStats{MutantKinds: map[string]int{}}
	}
	f(out.StepStats)
}

var stats = &StepStats{}

// abstract heights of the events (0 = genesis)
func absEvents(evs []node.Event, g uint32) []node.Event {
	if g == 0 {
		return evs
	}
	res := make([]node.Event, len(evs))
	for i, e := range evs {
		switch e.Kind {
		case "new", "delete":
			e.A -= g
		case "finalize":
			e.A, e.B = e.A-g, e.B-g
		}
		res[i] = e
	}
	return res
}

func splitFinalize(evs []node.Event) (fin, rest []node.Event) {
	fin, rest = []node.Event{}, []node.Event{}
	for _, e := range evs {
		if e.Kind == "finalize" {
			fin = append(fin, e)
		} else {
			rest = append(rest, e)
		}
	}
	return
}

// finalizeChainOK: "a finalization event is emitted exactly for those raises" - no raise, no event; a raise from a to b is
// announced by one event (a, b) or by several that lead from a to b without gap or overlap (one per height, say).
func finalizeChainOK(evs []node.Event, raised bool, from, to uint32) bool {
	if !raised {
		return len(evs) == 0
	}
	if len(evs) == 0 {
		return false
	}
	cur := from
	for _, e := range evs {
		if e.A != cur || e.B <= e.A {
			return false
		}
		cur = e.B
	}
	return cur == to
}

// drainWait: the events of a step; when fewer arrived than the specification expects, wait a moment for a publisher that
// hands them over asynchronously (the statement does not say they are published before process() returns)
func drainWait(n *node.Node, want int) []node.Event {
	evs := n.Drain()
	for i := 0; len(evs) < want && i < 75; i++ {
		time.Sleep(20 * time.Millisecond)
		evs = append(evs, n.Drain()...)
	}
	return evs
}

func diffHasDeleted(n *node.Node, realHeight uint32) bool {
	key := make([]byte, 5)
	key[0] = 51
	binary.BigEndian.PutUint32(key[1:], realHeight)
	v, ok := n.DB.Get(key)
	if !ok {
		return false
	}
	d := &diffdb.Diff{}
	if err := d.Decode(v); err != nil {
		return false
	}
	return len(d.Deleted) > 0
}

func deleteBlock(n *node.Node, b *blockchain.Block, saveTemp bool) (err error, panicked interface{}) {
	defer func() {
		if e := recover(); e != nil {
			panicked = e
		}
	}()
	return n.Ex.VerifDeleteBlock(b, saveTemp), nil
}

// hcfgOf: the settings of the harness configuration a replay has to repeat (bin/check --replay merges them into the default)
func hcfgOf(cfg *node.Config) map[string]interface{} {
	return map[string]interface{}{"now": cfg.Now, "cacheSize": cfg.CacheSize, "genesisHeight": cfg.GenesisHeight}
}

func opSuffix(op string) string {
	if op == "delete" || op == "tiebreak" {
		return ":after-" + op
	}
	return ""
}

func herr(s string) {
	mu.Lock()
	defer mu.Unlock()
	if len(out.Errors) < 20 {
		out.Errors = append(out.Errors, s)
	}
}

// runSteps replays the steps of one script.  It returns the node the script ended on (the caller closes it) and whether
// the script was replayed to its end without a violation.
func runSteps(cfg *node.Config, d *Dump, idx int) (*node.Node, bool) {
	n, err := node.New(cfg, nil, 0)
	if err != nil {
		if cfg.GenesisHeight > 0 && !errors.Is(err, node.ErrNetwork) {
			viol("genesis-height:node-does-not-start", fmt.Sprintf("a node whose genesis block has height %d (block cache %d) does not initialise on an empty database: %v",
				cfg.GenesisHeight, cfg.CacheSize, err), map[string]interface{}{"script": d.Script[:1], "genesisHeight": cfg.GenesisHeight})
			return nil, false
		}
		herr(err.Error())
		return nil, false
	}
	g := cfg.GenesisHeight
	n.Drain()
	type frame struct {
		dump  []string
		fin   uint32
		asset bool
		ntx   int
	}
	stack := []frame{}
	rep := func(i int) interface{} { return map[string]interface{}{"script": d.Script[:i+1], "hcfg": hcfgOf(cfg)} }
	finSeen := map[uint32][]byte{} // abstract height -> id of the block reported at a finalized height
	maxFinSeen, lastFin := uint32(0), uint32(0)
	sawReject, sawDelete := false, false
	nRestart, nDelete := 0, 0
	appliedAt := map[uint32]int{}
	eventsOff := false
	for i := range d.Script {
		s := &d.Script[i]
		mu.Lock()
		out.Steps++
		mu.Unlock()
		var before []string
		tipBefore := n.Tip()
		switch s.Op {
		case "block":
			before = n.Dump()
			ob, _ := n.Observe()
			b := n.Build(&s.Cand)
			err, pv := process(n, b)
			if pv != nil {
				viol("panic:process", fmt.Sprintf("process() panicked on a valid block: %v", pv), rep(i))
				return n, false
			}
			accepted := bytes.Equal(n.Tip().Header.ID, b.Header.ID)
			if !accepted {
				viol("rejects-valid", fmt.Sprintf("a fully valid successor (h=%d slot=%d gen=%d mhg=%d ac=%s@%d chg=%d ntx=%d asset=%v) is rejected: %v", s.H, s.Slot, s.Gen, s.Mhg, s.Ac.Kind, s.Ac.H, s.Chg, s.Ntx, s.Asset, err), rep(i))
				return n, false
			}
			fin := uint32(0)
			if ob != nil {
				fin = ob.Fin
			}
			stack = append(stack, frame{before, fin, s.Asset, s.Ntx})
			appliedAt[s.H]++
			mu.Lock()
			out.Blocks++
			mu.Unlock()
			stats.add(func(st *StepStats) {
				if sawReject {
					st.BlocksAfterMut++
				}
				if s.Asset {
					st.AssetBlocks++
				}
			})
		case "mutant":
			// an invalid successor in the middle of a behaviour: rejected, nothing changes, and what is applied later is
			// applied and published as usual
			before = n.Dump()
			b := n.Build(&s.Cand)
			_, pv := process(n, b)
			if pv != nil {
				viol("panic:process:"+s.Mut, fmt.Sprintf("process() panicked on an invalid block (%s): %v", s.Mut, pv), rep(i))
				return n, false
			}
			if bytes.Equal(n.Tip().Header.ID, b.Header.ID) {
				viol("accepts-invalid:"+s.Mut, fmt.Sprintf("a block violating one validity rule (%s) is appended to the chain", s.Mut), rep(i))
				return n, false
			}
			sawReject = true
			stats.add(func(st *StepStats) { st.Mutants++; st.MutantKinds[s.Mut]++ })
		case "tiebreak":
			before = n.Dump()
			b := n.Build(&s.Cand)
			err, pv := process(n, b)
			if pv != nil {
				viol("panic:process:step-tiebreak", fmt.Sprintf("process() panicked on a tie-break block: %v", pv), rep(i))
				return n, false
			}
			accepted := bytes.Equal(n.Tip().Header.ID, b.Header.ID)
			if accepted != s.Accepted {
				switch {
				case accepted && s.Mut != "" && s.Mut != "none":
					viol("accepts-invalid:"+s.Mut, fmt.Sprintf("an invalid block (%s) that satisfies the tie-break conditions replaced the tip", s.Mut), rep(i))
				case accepted:
					viol("tiebreak-replaces-finalized-tip", "a tie-break block replaced a tip that is final (at or below the finalized height) or was obtained before a restart", rep(i))
				case bytes.Equal(n.Tip().Header.ID, tipBefore.Header.ID) && strings.Join(before, "\n") == strings.Join(n.Dump(), "\n"):
					viol("tiebreak-refused", fmt.Sprintf("a valid LIP-0014 tie-break block (slot %d, generator %d) did not replace the tip: %v", s.Slot, s.Gen, err), rep(i))
				default:
					viol("tiebreak-not-restoring", fmt.Sprintf("a valid LIP-0014 tie-break block (slot %d, generator %d) was not applied (%v) and the node is not back in the state before the attempt: tip height %d (was %d); %s",
						s.Slot, s.Gen, err, n.Tip().Header.Height-g, tipBefore.Header.Height-g, firstDiff(before, n.Dump())), rep(i))
				}
				return n, false
			}
			if accepted {
				if len(stack) > 0 {
					stack[len(stack)-1].asset, stack[len(stack)-1].ntx = s.Asset, s.Ntx
				}
				appliedAt[s.H]++
				stats.add(func(st *StepStats) {
					if s.Ntx > 0 || s.Chg > 0 {
						st.TieWithPayload++
					}
				})
			} else if s.Mut != "" && s.Mut != "none" {
				sawReject = true
			}
			mu.Lock()
			out.TieBreaks++
			mu.Unlock()
		case "delete":
			tip := n.Tip()
			pruned := diffHasDeleted(n, tip.Header.Height)
			err, pv := deleteBlock(n, tip, s.SaveTemp)
			if pv != nil {
				viol("panic:delete", fmt.Sprintf("deleteBlock panicked on the tip at height %d: %v", tip.Header.Height-g, pv), rep(i))
				return n, false
			}
			if (err == nil) != s.Ok {
				if err == nil {
					viol("delete-finalized", fmt.Sprintf("deleteBlock removed the block at height %d although the finalized height is %d", tip.Header.Height-g, s.Obs.Fin), rep(i))
				} else {
					viol("delete-refused", fmt.Sprintf("deleteBlock of the tip above the finalized height failed: %v", err), rep(i))
				}
				return n, false
			}
			if err == nil {
				sawDelete = true
				nDelete++
				mu.Lock()
				out.Deletes++
				mu.Unlock()
				fr := stack[len(stack)-1]
				stack = stack[:len(stack)-1]
				stats.add(func(st *StepStats) {
					if pruned {
						st.PrunedDeletes++
					}
					if fr.asset && fr.ntx == 0 {
						st.AssetNoTxDeleted++
					}
				})
				o, _ := n.Observe()
				if o != nil {
					// C05: the database equals the one before the block was applied (modulo the carve-out)
					want := filterDump(fr.dump, o.Fin+g)
					got := roundTripDump(n, o.Fin+g)
					mu.Lock()
					out.RoundTrips++
					mu.Unlock()
					if strings.Join(want, "\n") != strings.Join(got, "\n") {
						viol("delete-not-restoring", fmt.Sprintf("database after apply+delete of the block at height %d differs from the database before: %s", tip.Header.Height-g, firstDiff(want, got)), rep(i))
						return n, false
					}
				}
				if s.SaveTemp {
					tb, err := n.Chain.DataAccess().GetTempBlocks()
					found := false
					if err == nil {
						for _, x := range tb {
							if bytes.Equal(x.Header.ID, tip.Header.ID) {
								found = true
							}
						}
					}
					if !found {
						viol("temp-missing", "a block removed with saveTemp is not retrievable as temporary block", rep(i))
						return n, false
					}
				}
			}
		case "restart":
			n.StopExecuter()
			n2, err := node.New(cfg, n.DB, n.GenesisTS)
			if err != nil {
				if errors.Is(err, node.ErrNetwork) {
					herr("restart: " + err.Error())
					return n, false
				}
				key := "restart-fails"
				if s.Obs.Fin > 0 {
					key = "restart-fails:finalized" // blocks at finalized heights are no longer served
				}
				viol(key, fmt.Sprintf("node (tip %d, finalized height %d) does not restart on its own database: %v", s.Obs.TipH, s.Obs.Fin, err), rep(i))
				return n, false
			}
			n = n2
			nRestart++
			mu.Lock()
			out.Restarts++
			mu.Unlock()
			stats.add(func(st *StepStats) {
				if sawDelete {
					st.RestartsAfterDel++
				}
			})
		default:
			herr("unknown step " + s.Op)
			return n, false
		}
		// ---- C04: the stored finalized height and the blocks at finalized heights, read before anything else is judged
		if _, err := n.Chain.DataAccess().GetFinalizedHeight(); err != nil {
			viol("observe:finalized-height", fmt.Sprintf("after step %d (%s) the finalized height cannot be read: %v", i, s.Op, err), rep(i))
			return n, false
		}
		o, err := n.Observe()
		if err != nil {
			viol("observe", err.Error(), rep(i))
			return n, false
		}
		bad := false
		if o.Fin < lastFin {
			viol("finalized-height-decreased", fmt.Sprintf("step %d (%s) lowered the stored finalized height from %d to %d", i, s.Op, lastFin, o.Fin), rep(i))
			bad = true
		}
		lastFin = o.Fin
		if o.Fin > maxFinSeen {
			maxFinSeen = o.Fin
		}
		for h := uint32(1); h <= maxFinSeen; h++ {
			hd, err := n.Chain.DataAccess().GetBlockHeaderByHeight(h + g)
			stats.add(func(st *StepStats) {
				st.FinIDsRead++
				if cfg.CacheSize > 0 && int(o.TipH)-int(h) >= cfg.CacheSize {
					st.FinIDsBelowCache++
				}
			})
			if err != nil {
				viol("finalized-block-missing", fmt.Sprintf("after step %d (%s) the block at finalized height %d is no longer served (tip %d, stored finalized height %d): %v", i, s.Op, h, o.TipH, o.Fin, err), rep(i))
				bad = true
				break
			}
			if prev, ok := finSeen[h]; ok && !bytes.Equal(prev, hd.ID) {
				viol("finalized-block-replaced", fmt.Sprintf("after step %d (%s) another block is served at finalized height %d (tip %d, stored finalized height %d)", i, s.Op, h, o.TipH, o.Fin), rep(i))
				bad = true
				break
			}
			finSeen[h] = hd.ID
		}
		// ---- the application follows the engine
		if n.Toy.Height() != int(o.TipH) {
			key := "state-mismatch:application" + opSuffix(s.Op)
			if s.Op == "mutant" || (s.Op == "tiebreak" && !s.Accepted && s.Mut != "" && s.Mut != "none") {
				key = "reject-changes-state:" + s.Mut + ":application"
			}
			viol(key, fmt.Sprintf("after step %d (%s) the application is at height %d but the tip at height %d", i, s.Op, n.Toy.Height(), o.TipH), rep(i))
			bad = true
		}
		// ---- projected state (every differing component is reported under its own key)
		for _, f := range obsDiffs(o, s.Obs) {
			key := "state-mismatch:" + f
			if f == "tip" {
				key += opSuffix(s.Op)
			}
			viol(key, fmt.Sprintf("after step %d (%s) the node state %+v differs from the specification %+v", i, s.Op, *o, s.Obs), rep(i))
			bad = true
		}
		if bad {
			return n, false
		}
		// ---- a step the specification says changes nothing: byte-identical database
		rejected := s.Op == "mutant" || (s.Op == "tiebreak" && !s.Accepted)
		if rejected && before != nil {
			after := n.Dump()
			stats.add(func(st *StepStats) { st.RefusedTieDumps++ })
			if strings.Join(before, "\n") != strings.Join(after, "\n") {
				key := "tiebreak-not-restoring"
				what := "a tie-break attempt that must leave the tip in place"
				if s.Mut != "" && s.Mut != "none" {
					key = "reject-changes-state:" + s.Mut
					what = "a rejected block (" + s.Mut + ")"
				}
				viol(key, fmt.Sprintf("step %d: %s changed the database: %s", i, what, firstDiff(before, after)), rep(i))
				return n, false
			}
		}
		// ---- events
		if s.Op != "restart" {
			want := len(s.Events)
			if eventsOff {
				want = 0 // events already went missing in this script: no more waiting for late ones
			}
			evs := absEvents(drainWait(n, want), g)
			gotFin, gotRest := splitFinalize(evs)
			raised, from, to := false, uint32(0), uint32(0)
			specRest := [][]interface{}{}
			for _, e := range s.Events {
				if e[0].(string) == "finalize" {
					raised, from, to = true, uint32(e[1].(float64)), uint32(e[2].(float64))
				} else {
					specRest = append(specRest, e)
				}
			}
			stats.add(func(st *StepStats) {
				st.FinalizeEvents += len(gotFin)
				if raised && sawReject {
					st.RaisesAfterMut++
				}
			})
			if !finalizeChainOK(gotFin, raised, from, to) {
				exp := "none"
				if raised {
					exp = fmt.Sprintf("a raise from %d to %d", from, to)
				}
				viol("events-mismatch:finalize", fmt.Sprintf("after step %d (%s) finalize events [%s] were published, the specification has %s", i, s.Op, evString(gotFin), exp), rep(i))
				return n, false
			}
			if evString(gotRest) != specEvString(specRest) {
				key := "events-mismatch"
				if rejected && s.Mut != "" && s.Mut != "none" {
					key = "reject-emits-events:" + s.Mut
				}
				viol(key, fmt.Sprintf("after step %d (%s) published events [%s], specification expects [%s]", i, s.Op, evString(gotRest), specEvString(specRest)), rep(i))
				// the script goes on (the node state is as specified, events are compared step by step): what is wrong with
				// the finalize events of a LATER raise belongs to C04 and must not be hidden by this one
				eventsOff = true
			}
		} else {
			n.Drain()
		}
		if o.Fin > 0 && i == len(d.Script)-1 {
			mu.Lock()
			out.Finality++
			mu.Unlock()
		}
	}
	stats.add(func(st *StepStats) {
		if nRestart >= 2 {
			st.RestartTwice++
		}
		if nDelete >= 4 {
			st.ManyDeletes++
		}
		for _, c := range appliedAt {
			if c >= 3 {
				st.SameHeightThrice++
				break
			}
		}
	})
	return n, !eventsOff
}

func obsDiffs(o *node.Obs, s SpecObs) []string {
	res := []string{}
	if o.TipH != s.TipH {
		res = append(res, "tip")
	}
	if o.Fin != s.Fin {
		res = append(res, "finalized")
	}
	if o.Mhpv != s.Mhpv || o.Mhpc != s.Mhpc || o.Cert != s.Cert {
		res = append(res, "bftheights")
	}
	if fmt.Sprint(o.Temp) != fmt.Sprint(append([]uint32{}, s.Temp...)) {
		res = append(res, "temp")
	}
	sort.Strings(res)
	return res
}

// checkReorg (C05): a chain reached through apply/delete detours equals the chain built directly (same database contents
// apart from the finalized-height marker, temporary blocks and data pruned below the finalized height)
func checkReorg(cfg *node.Config, d *Dump, n *node.Node) {
	hadDelete := false
	for i := range d.Script {
		if (d.Script[i].Op == "delete" && d.Script[i].Ok) || (d.Script[i].Op == "tiebreak" && d.Script[i].Accepted) {
			hadDelete = true
		}
	}
	if !hadDelete {
		return
	}
	net := []*Step{}
	for i := range d.Script {
		s := &d.Script[i]
		if s.Op == "block" {
			net = append(net, s)
		} else if s.Op == "tiebreak" && s.Accepted {
			c := *s
			c.Prev = "tip"
			net[len(net)-1] = &c
		} else if s.Op == "delete" && s.Ok {
			net = net[:len(net)-1]
		}
	}
	r := map[string]interface{}{"script": d.Script, "hcfg": hcfgOf(cfg)}
	n2, err := node.New(cfg, nil, n.GenesisTS)
	if err != nil {
		herr("reorg rebuild: " + err.Error())
		return
	}
	defer n2.Close()
	for k, s := range net {
		b := n2.Build(&s.Cand)
		err, pv := process(n2, b)
		if pv != nil || !bytes.Equal(n2.Tip().Header.ID, b.Header.ID) {
			// the block was accepted by the node of the script (on the same parent chain): a fresh node that is given the
			// net chain directly must accept it too
			stats.add(func(st *StepStats) { st.RebuildFails++ })
			viol("reorg-rebuild-fails", fmt.Sprintf("block %d of the chain the script ends on (height %d, accepted after apply/delete detours) is rejected by a fresh node that is given the same chain directly: %v %v",
				k, s.H, err, pv), r)
			return
		}
	}
	o1, e1 := n.Observe()
	o2, e2 := n2.Observe()
	if e1 != nil || e2 != nil {
		return
	}
	fin := o1.Fin
	if o2.Fin > fin {
		fin = o2.Fin
	}
	fin += cfg.GenesisHeight
	a, b := filterDump(n.Dump(), fin), filterDump(n2.Dump(), fin)
	mu.Lock()
	out.Reorgs++
	mu.Unlock()
	if strings.Join(a, "\n") != strings.Join(b, "\n") {
		viol("reorg-not-equivalent", "a chain reached through apply/delete steps differs from the same chain built directly: "+firstDiff(b, a), r)
	}
}

var experimental = os.Getenv("VERIF_EXPERIMENTAL") == "1"
