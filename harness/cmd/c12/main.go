// c12: seeded driver + recorder for the real diffdb.Database over the real db.DB (in-memory pebble).
// Every public call is logged with arguments and result; spec/trace/StagedStoreTrace.tla replays the
// log on the model and compares every read.
//
// usage: c12 <out.ndjson> <meta.json> <sequences>
package main

import (
	"fmt"
	"math/rand"
	"os"
	"sort"
	"strconv"

	"github.com/LiskHQ/lisk-engine/pkg/db"
	"github.com/LiskHQ/lisk-engine/pkg/db/diffdb"

	"verifharness/internal/tj"
)

var alphabet = []byte{0, 1, 2, 255}
var rootPrefix = []byte{7}
var views = [][]byte{{}, {1}, {1, 0}, {2}, {1, 255}, {255}}

func ints(b []byte) []int {
	r := make([]int, len(b))
	for i, x := range b {
		r[i] = int(x)
	}
	return r
}

func key(r *rand.Rand, maxLen int) []byte {
	n := r.Intn(maxLen + 1)
	k := make([]byte, n)
	for i := range k {
		k[i] = alphabet[r.Intn(len(alphabet))]
	}
	return k
}

func kvs(list []db.KeyValue) [][]interface{} {
	res := [][]interface{}{}
	for _, kv := range list {
		res = append(res, []interface{}{ints(kv.Key()), venc(kv.Value())})
	}
	return res
}

// guard runs a read on the real store; a panic is logged as the impossible result [[[-1], -99]]
func guard(f func() []db.KeyValue) (res [][]interface{}) {
	defer func() {
		if e := recover(); e != nil {
			res = [][]interface{}{{[]int{-1}, -99}}
		}
	}()
	return kvs(f())
}

// values: 0 = empty byte string, 1..9 = that single byte
func venc(v []byte) int {
	if len(v) == 0 {
		return 0
	}
	if len(v) == 1 {
		return int(v[0])
	}
	return 1000 + len(v)
}

func vdec(v int) []byte {
	if v == 0 {
		return []byte{}
	}
	return []byte{byte(v)}
}

func randVal(r *rand.Rand) int {
	if r.Intn(6) == 0 {
		return 0
	}
	return 1 + r.Intn(9)
}

func dump(d *db.DB) [][]interface{} {
	return kvs(d.Iterate([]byte{}, -1, false))
}

func join(a, b []byte) []byte {
	r := append([]byte{}, a...)
	return append(r, b...)
}

func main() {
	if len(os.Args) < 4 {
		fmt.Fprintln(os.Stderr, "usage: c12 out.ndjson meta.json sequences")
		os.Exit(2)
	}
	nseq, _ := strconv.Atoi(os.Args[3])
	r := rand.New(rand.NewSource(int64(tj.EnvInt("VERIF_SEED", 1))))
	w, err := tj.NewWriter(os.Args[1])
	if err != nil {
		panic(err)
	}
	meta := map[string]int{}
	for s := 0; s < nseq; s++ {
		d, err := db.NewInMemoryDB()
		if err != nil {
			panic(err)
		}
		// initial contents: keys under the root prefix and under neighbouring prefixes
		nInit := r.Intn(10)
		for i := 0; i < nInit; i++ {
			p := rootPrefix
			switch r.Intn(8) {
			case 0:
				p = []byte{6}
			case 1:
				p = []byte{8}
			case 2:
				p = []byte{7, 1}
			}
			k := join(p, key(r, 3))
			d.Set(k, vdec(randVal(r)))
		}
		w.Emit(map[string]interface{}{"op": "reset", "db": dump(d)})
		store := diffdb.New(d, rootPrefix)
		var lastDiff *diffdb.Diff
		// a view object that is kept across operations (and possibly across a RestoreSnapshot on the root)
		var held *diffdb.Database
		var heldMid *diffdb.Database // the one-byte view the held two-byte view was derived from: later siblings come from it too
		var heldPrefix []byte
		stale := 0
		snapIDs := []int{}
		nops := 10 + r.Intn(50)
		for i := 0; i < nops; i++ {
			vp := views[r.Intn(len(views))]
			if r.Intn(3) == 0 {
				vp = []byte{}
			}
			full := join(rootPrefix, vp)
			view := store
			if len(vp) > 0 {
				if len(vp) == 2 && heldMid != nil && vp[0] == heldPrefix[0] && r.Intn(2) == 0 {
					view = heldMid.WithPrefix(vp[1:]) // a sibling of the held view, derived from the same parent view
				} else if len(vp) == 2 && r.Intn(2) == 0 {
					view = store.WithPrefix(vp[:1]).WithPrefix(vp[1:]) // nested views
				} else {
					view = store.WithPrefix(vp)
				}
			}
			useHeld := 0
			if held == nil && r.Intn(6) == 0 {
				heldPrefix = views[1+r.Intn(len(views)-1)]
				held, heldMid = store.WithPrefix(heldPrefix), nil
				if len(heldPrefix) == 2 && r.Intn(2) == 0 {
					heldMid = store.WithPrefix(heldPrefix[:1])
					held = heldMid.WithPrefix(heldPrefix[1:])
				}
				stale = 0
			}
			op := r.Intn(20)
			if held != nil && r.Intn(4) == 0 && (stale == 0 || op >= 8) {
				view, vp, full, useHeld = held, heldPrefix, join(rootPrefix, heldPrefix), 1
			}
			_ = vp
			limit := -1
			if r.Intn(2) == 0 {
				limit = 1 + r.Intn(3)
			}
			rev := r.Intn(2)
			switch {
			case op < 5:
				k := key(r, 3-len(vp)+1)
				v := randVal(r)
				view.Set(k, vdec(v))
				w.Emit(map[string]interface{}{"op": "set", "view": ints(full), "k": ints(k), "v": v})
			case op < 8:
				k := key(r, 3-len(vp)+1)
				view.Del(k)
				w.Emit(map[string]interface{}{"op": "del", "view": ints(full), "k": ints(k)})
			case op < 10:
				k := key(r, 3-len(vp)+1)
				val, ok := view.Get(k)
				res := -1
				if ok {
					res = venc(val)
				}
				w.Emit(map[string]interface{}{"op": "get", "view": ints(full), "k": ints(k), "res": res, "held": useHeld, "stale": stale * useHeld})
			case op < 11:
				k := key(r, 3-len(vp)+1)
				w.Emit(map[string]interface{}{"op": "has", "view": ints(full), "k": ints(k), "res": tj.B(view.Has(k)), "held": useHeld, "stale": stale * useHeld})
			case op < 14:
				a, b := key(r, 2), key(r, 3)
				if r.Intn(3) == 0 {
					a = []byte{}
				}
				if r.Intn(3) == 0 {
					b = []byte{255, 255, 255, 255}
				}
				res := guard(func() []db.KeyValue { return view.Range(a, b, limit, rev == 1) })
				w.Emit(map[string]interface{}{"op": "range", "view": ints(full), "s": ints(a), "e": ints(b), "limit": limit, "rev": rev, "res": res, "held": useHeld, "stale": stale * useHeld})
				meta["range"]++
			case op < 16:
				q := key(r, 2)
				res := guard(func() []db.KeyValue { return view.Iterate(q, limit, rev == 1) })
				w.Emit(map[string]interface{}{"op": "iter", "view": ints(full), "q": ints(q), "limit": limit, "rev": rev, "res": res, "held": useHeld, "stale": stale * useHeld})
				meta["iter"]++
			case op < 17:
				// raw database scans (on the committed contents), through DB or a snapshot Reader
				a, b := join([]byte{byte(6 + r.Intn(3))}, key(r, 2)), join([]byte{byte(6 + r.Intn(3))}, key(r, 3))
				if r.Intn(2) == 0 {
					b = join(a, key(r, 2))
				}
				var res []db.KeyValue
				if r.Intn(2) == 0 {
					res = d.IterateRange(a, b, limit, rev == 1)
				} else {
					rd := d.NewReader()
					res = rd.IterateRange(a, b, limit, rev == 1)
					rd.Close()
				}
				w.Emit(map[string]interface{}{"op": "dbrange", "s": ints(a), "e": ints(b), "limit": limit, "rev": rev, "res": kvs(res)})
				q := join([]byte{byte(6 + r.Intn(3))}, key(r, 2))
				res = d.Iterate(q, limit, rev == 1)
				w.Emit(map[string]interface{}{"op": "dbiter", "q": ints(q), "limit": limit, "rev": rev, "res": kvs(res)})
				meta["dbscan"]++
			case op < 18:
				// snapshots are taken and restored on the root store, views are re-derived afterwards
				// (this is how pkg/statemachine uses them)
				switch r.Intn(3) {
				case 0:
					id := store.Snapshot()
					snapIDs = append(snapIDs, id)
					w.Emit(map[string]interface{}{"op": "snap", "id": id})
				case 1:
					id := r.Intn(4)
					if len(snapIDs) > 0 && r.Intn(4) != 0 {
						id = snapIDs[r.Intn(len(snapIDs))]
					}
					err := store.RestoreSnapshot(id)
					w.Emit(map[string]interface{}{"op": "restore", "id": id, "err": tj.B(err != nil)})
					if err == nil {
						stale = 1
					}
					meta["restore"]++
					if err == nil && r.Intn(2) == 0 {
						// a new snapshot right after an out-of-order restore (later snapshots are still held): it must not take
						// over the id of one of them
						nid := store.Snapshot()
						snapIDs = append(snapIDs, nid)
						w.Emit(map[string]interface{}{"op": "snap", "id": nid})
					}
				default:
					if len(snapIDs) > 0 {
						id := snapIDs[r.Intn(len(snapIDs))]
						store.DeleteSnapshot(id)
						w.Emit(map[string]interface{}{"op": "delsnap", "id": id})
					}
				}
			case op < 19:
				batch := d.NewBatch()
				diff := store.Commit(batch)
				d.Write(batch)
				// the diff must survive its own codec
				enc := diff.Encode()
				dec := &diffdb.Diff{}
				if err := dec.Decode(enc); err != nil {
					panic(err)
				}
				added := [][]int{}
				for _, a := range dec.Added {
					added = append(added, ints(a))
				}
				sort.Slice(added, func(i, j int) bool { return fmt.Sprint(added[i]) < fmt.Sprint(added[j]) })
				conv := func(l []*diffdb.KV) [][]interface{} {
					res := [][]interface{}{}
					for _, kv := range l {
						res = append(res, []interface{}{ints(kv.Key), venc(kv.Value)})
					}
					return res
				}
				w.Emit(map[string]interface{}{"op": "commit", "dump": dump(d), "added": added, "updated": conv(dec.Updated), "deleted": conv(dec.Deleted)})
				lastDiff = dec
				store = diffdb.New(d, rootPrefix)
				snapIDs = nil
				held, heldMid = nil, nil
				meta["commit"]++
			default:
				if lastDiff != nil {
					batch := d.NewBatch()
					store = diffdb.New(d, rootPrefix)
					store.RevertDiff(batch, lastDiff)
					d.Write(batch)
					w.Emit(map[string]interface{}{"op": "revert", "dump": dump(d)})
					lastDiff = nil
					snapIDs = nil
					held, heldMid = nil, nil
					meta["revert"]++
				}
			}
		}
		d.Close()
		meta["sequences"]++
	}
	w.Close()
	meta["events"] = w.N
	tj.WriteJSON(os.Args[2], meta)
}
